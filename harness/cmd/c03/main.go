// Correspondence + oracle harness for property C03 (point and scalar encodings
// are fixed-length, canonical and round-trip).
//
// Scalars: exact byte-level comparison with the Coq model Codec/EncSM.v
// (MarshalBinary, UnmarshalBinary, MarshalTo, UnmarshalFrom, hex helpers).
// Points: every group; pools of values reached by different computation
// paths; the Coq model (discrete logarithms, Algebra/Grp.v) decides which
// pool members are the same group element, and that partition must coincide
// with the partition by identical bytes and with the implementation's Equal.
// Oracles evaluate every clause of the property on the implementation alone.
package main

import (
	"bytes"
	"encoding/hex"
	"fmt"
	"io"
	"math/big"
	"strings"
	"testing/iotest"

	"go.dedis.ch/kyber/v4"
	"go.dedis.ch/kyber/v4/group/edwards25519"
	"go.dedis.ch/kyber/v4/group/edwards25519vartime"
	"go.dedis.ch/kyber/v4/group/p256"
	"go.dedis.ch/kyber/v4/pairing"
	"go.dedis.ch/kyber/v4/pairing/bls12381/circl"
	"go.dedis.ch/kyber/v4/pairing/bls12381/gnark"
	"go.dedis.ch/kyber/v4/pairing/bls12381/kilic"
	"go.dedis.ch/kyber/v4/pairing/bn254"
	"go.dedis.ch/kyber/v4/pairing/bn256"
	kenc "go.dedis.ch/kyber/v4/util/encoding"

	"kyverif/sc"
	"kyverif/vh"
)

type gen struct {
	rep    *vh.Report
	items  []string
	search bool
	id     int
}

func (g *gen) add(term string, desc interface{}, nontrivial bool) {
	if g.search {
		return
	}
	g.items = append(g.items, term)
	g.rep.Count(term, nontrivial)
	g.rep.Index(g.id, desc)
	if nontrivial && g.id%53 == 0 {
		g.rep.Sample(desc)
	}
}

// ---------------------------------------------------------------- scalars

// scalarGroup lets util/encoding's helpers create scalars of an instance.
type scalarGroup struct{ in *sc.Inst }

func (s scalarGroup) String() string       { return s.in.Name }
func (s scalarGroup) ScalarLen() int       { return s.in.L }
func (s scalarGroup) Scalar() kyber.Scalar { return s.in.Mk() }
func (s scalarGroup) PointLen() int        { return 0 }
func (s scalarGroup) Point() kyber.Point   { return nil }

// a scalar holding v, reached through one of the API routes the property names
func reach(in *sc.Inst, v *big.Int, r *vh.Rng, rep *vh.Report) (kyber.Scalar, string) {
	switch r.Intn(6) {
	case 0: // arithmetic: (v - t) + t
		t := sc.Operand(in, r)
		d := new(big.Int).Sub(v, t)
		d.Mod(d, in.Q)
		return in.Mk().Add(in.Scalar(d, rep), in.Scalar(t, rep)), "Add"
	case 1: // arithmetic: (v * t) / t
		t := sc.Nonzero(in, r)
		p := new(big.Int).Mul(v, t)
		p.Mod(p, in.Q)
		return in.Mk().Div(in.Scalar(p, rep), in.Scalar(t, rep)), "Div"
	case 2: // SetBytes of v + k*q
		kq := new(big.Int).Mul(in.Q, big.NewInt(int64(r.Intn(300))))
		kq.Add(kq, v)
		b := kq.Bytes()
		if in.LE {
			sc.Rev(b)
		}
		return in.Mk().SetBytes(b), "SetBytes"
	case 3: // Neg(Neg v) / Sub
		n := new(big.Int).Neg(v)
		n.Mod(n, in.Q)
		return in.Mk().Neg(in.Scalar(n, rep)), "Neg"
	case 4: // Pick over a stream whose first candidate is v
		n := (in.Q.BitLen() + 7) / 8
		buf := append(v.FillBytes(make([]byte, n)), r.Bytes(2*n)...)
		if in.Kind == sc.KCircl { // CIRCL stores the candidate as a Montgomery residue
			return in.Scalar(v, rep).Clone(), "Clone"
		}
		return in.Mk().Pick(&sc.FixedStream{Buf: buf}), "Pick"
	}
	return in.Scalar(v, rep), "UnmarshalBinary"
}

func encValue(in *sc.Inst, r *vh.Rng) *big.Int {
	if r.Chance(30) { // leading zero bytes, tiny values, q-1
		switch r.Intn(5) {
		case 0:
			return big.NewInt(0)
		case 1:
			return big.NewInt(1)
		case 2:
			return new(big.Int).Sub(in.Q, big.NewInt(1))
		case 3:
			return new(big.Int).Mod(big.NewInt(int64(r.Intn(70000))), in.Q)
		default:
			k := r.Intn(in.Q.BitLen())
			return new(big.Int).Mod(new(big.Int).Lsh(big.NewInt(1), uint(k)), in.Q)
		}
	}
	return sc.Operand(in, r)
}

func (g *gen) scalarCase(in *sc.Inst, r *vh.Rng) {
	g.id++
	v := encValue(in, r)
	s, route := reach(in, v, r, g.rep)
	key := "enc/scalar/" + in.Name
	replay := map[string]string{"impl": in.Name, "value": v.String(), "route": route, "q": in.Q.String()}
	b1, err := s.MarshalBinary()
	if err != nil {
		g.rep.Fail(key+"/MarshalBinary/error", err.Error(), replay)
		return
	}
	replay["bytes"] = vh.Hex(b1)
	if len(b1) != s.MarshalSize() || len(b1) != in.L {
		g.rep.Fail(key+"/length", fmt.Sprintf("len %d, MarshalSize %d, advertised %d", len(b1), s.MarshalSize(), in.L), replay)
	}
	if string(b1) != string(sc.Enc(in, v)) {
		g.rep.Fail(key+"/MarshalBinary/"+route, "encoding of a reduced scalar is not the fixed-width encoding of its value", replay)
	}
	b1again, _ := s.MarshalBinary()
	if string(b1again) != string(b1) {
		g.rep.Fail(key+"/MarshalBinary/not-repeatable", "two MarshalBinary calls differ", replay)
	}
	t := in.Mk()
	if r.Bool() {
		t = in.Scalar(sc.Operand(in, r), g.rep)
	}
	if err := t.UnmarshalBinary(append([]byte{}, b1...)); err != nil {
		g.rep.Fail(key+"/UnmarshalBinary/own-encoding-rejected", err.Error(), replay)
		return
	}
	eq := s.Equal(t) && t.Equal(s)
	if !eq {
		g.rep.Fail(key+"/roundtrip-not-Equal", "decode(encode(s)) is not Equal to s", replay)
	}
	b2 := sc.BytesOf(t)
	if string(b2) != string(b1) {
		replay["reenc"] = vh.Hex(b2)
		g.rep.Fail(key+"/reencode-differs", "re-encoding is not byte-identical", replay)
	}
	// encoding never changes the value encoded
	u := in.Mk().Add(s, in.Scalar(big.NewInt(1).Mod(big.NewInt(1), in.Q), g.rep))
	w := new(big.Int).Add(v, big.NewInt(1))
	w.Mod(w, in.Q)
	if string(sc.BytesOf(u)) != string(sc.Enc(in, w)) {
		g.rep.Fail(key+"/value-changed-by-encoding", "s+1 after MarshalBinary(s) is wrong", replay)
	}
	g.rep.Dist("scalar/" + in.Name + "/" + route)
	g.add(fmt.Sprintf("CScalar %d %s %s %s %s %s", g.id, in.Coq(), vh.CoqZ(v), vh.CoqBytes(b1), vh.CoqBytes(b2), vh.CoqBool(eq)),
		replay, v.Sign() != 0)
}

// Equal iff identical encodings, over pairs
func (g *gen) scalarPairOracle(in *sc.Inst, r *vh.Rng) {
	a := encValue(in, r)
	b := encValue(in, r)
	if r.Chance(40) {
		b = new(big.Int).Set(a)
	}
	x, _ := reach(in, a, r, g.rep)
	y, _ := reach(in, b, r, g.rep)
	same := string(sc.BytesOf(x)) == string(sc.BytesOf(y))
	if x.Equal(y) != same || y.Equal(x) != same || same != (a.Cmp(b) == 0) {
		g.rep.Fail("enc/scalar/"+in.Name+"/Equal-vs-bytes", "Equal, identical encodings and equal residues do not coincide",
			map[string]string{"impl": in.Name, "a": a.String(), "b": b.String()})
	}
	g.rep.Dist("scalar/" + in.Name + "/pair")
}

func (g *gen) streamCases(in *sc.Inst, r *vh.Rng) {
	key := "enc/scalar/" + in.Name
	v := encValue(in, r)
	s, _ := reach(in, v, r, g.rep)
	want := sc.Enc(in, v)
	// MarshalTo onto a writer that already holds something
	g.id++
	pre := r.Bytes(r.Intn(20))
	var buf bytes.Buffer
	buf.Write(pre)
	n, err := s.MarshalTo(&buf)
	replay := map[string]string{"impl": in.Name, "value": v.String(), "pre": vh.Hex(pre), "written": vh.Hex(buf.Bytes())}
	if err != nil || n != in.L || string(buf.Bytes()) != string(pre)+string(want) {
		g.rep.Fail(key+"/MarshalTo", fmt.Sprintf("MarshalTo does not append exactly MarshalBinary (n=%d err=%v)", n, err), replay)
	}
	g.rep.Dist("scalar/" + in.Name + "/MarshalTo")
	g.add(fmt.Sprintf("CMarshalTo %d %s %s %s %s %d", g.id, in.Coq(), vh.CoqZ(v), vh.CoqBytes(pre), vh.CoqBytes(buf.Bytes()), n), replay, true)

	// UnmarshalFrom: full encoding + tail, through plain / one-byte / short readers
	g.id++
	var input []byte
	short := r.Chance(30) && in.L > 0
	if short {
		input = append([]byte{}, want[:r.Intn(in.L)]...)
	} else {
		input = append(append([]byte{}, want...), r.Bytes(r.Intn(2)*r.Intn(40))...)
	}
	under := bytes.NewReader(input)
	var rd io.Reader = under
	mode := "plain"
	switch r.Intn(3) {
	case 1:
		rd, mode = iotest.OneByteReader(under), "one-byte"
	case 2:
		rd, mode = iotest.HalfReader(under), "half"
	}
	t := in.Mk()
	n, err = t.UnmarshalFrom(rd)
	ok := err == nil
	var reenc []byte
	if ok {
		reenc = sc.BytesOf(t)
	}
	replay = map[string]string{"impl": in.Name, "value": v.String(), "input": vh.Hex(input), "reader": mode,
		"n": fmt.Sprint(n), "err": fmt.Sprint(err)}
	if short {
		if ok || n != len(input) {
			g.rep.Fail(key+"/UnmarshalFrom/short-reader", "a reader that ends early must give an error after consuming what it had", replay)
		}
	} else {
		if !ok || n != in.L || string(reenc) != string(want) || under.Len() != len(input)-in.L || !t.Equal(s) {
			g.rep.Fail(key+"/UnmarshalFrom/"+mode, "UnmarshalFrom does not consume exactly MarshalSize bytes / differs from UnmarshalBinary", replay)
		}
	}
	g.rep.Dist("scalar/" + in.Name + "/UnmarshalFrom/" + mode)
	g.add(fmt.Sprintf("CUnmarshalFrom %d %s %s %d %s %s %d", g.id, in.Coq(), vh.CoqBytes(input), n, vh.CoqBool(ok), vh.CoqBytes(reenc), under.Len()),
		replay, !short)

	// hex helpers
	g.id++
	grp := scalarGroup{in}
	h1, err1 := kenc.ScalarToStringHex(grp, s)
	var hb bytes.Buffer
	err2 := kenc.WriteHexScalar(grp, &hb, s)
	replay = map[string]string{"impl": in.Name, "value": v.String(), "hex": h1}
	if err1 != nil || err2 != nil || h1 != hb.String() || h1 != hex.EncodeToString(want) {
		g.rep.Fail(key+"/hex/write", "hex helpers do not carry exactly the MarshalBinary bytes", replay)
	}
	g.rep.Dist("scalar/" + in.Name + "/hex")
	g.add(fmt.Sprintf("CHexW %d %s %s %s", g.id, in.Coq(), vh.CoqZ(v), vh.CoqBytes([]byte(h1))), replay, true)

	g.id++
	hin := hex.EncodeToString(want)
	if r.Bool() {
		hin = strings.ToUpper(hin)
	}
	hshort := r.Chance(25) && len(hin) > 0
	if hshort {
		hin = hin[:r.Intn(len(hin))]
	} else if r.Chance(30) {
		hin += hex.EncodeToString(r.Bytes(1 + r.Intn(5)))
	}
	t2, err := kenc.StringHexToScalar(grp, hin)
	ok = err == nil
	reenc = nil
	if ok {
		reenc = sc.BytesOf(t2)
	}
	replay = map[string]string{"impl": in.Name, "value": v.String(), "hex": hin, "err": fmt.Sprint(err)}
	if hshort == ok || (ok && (string(reenc) != string(want) || !t2.Equal(s))) {
		g.rep.Fail(key+"/hex/read", "StringHexToScalar differs from UnmarshalBinary of the decoded hex", replay)
	}
	if !hshort {
		// the same through an io.Reader that delivers the string in pieces
		t3, err := kenc.ReadHexScalar(grp, iotest.OneByteReader(strings.NewReader(hin)))
		if err != nil || string(sc.BytesOf(t3)) != string(want) {
			g.rep.Fail("enc/hex/ReadHexScalar/chunked-reader", fmt.Sprintf("ReadHexScalar fails on a reader that delivers the hex string in pieces: %v", err), replay)
		}
	}
	g.add(fmt.Sprintf("CHexR %d %s %s %s %s", g.id, in.Coq(), vh.CoqBytes([]byte(hin)), vh.CoqBool(ok), vh.CoqBytes(reenc)), replay, !hshort)
}

// ---------------------------------------------------------------- points

type grp struct {
	name   string
	g      kyber.Group
	q      *big.Int
	suite  pairing.Suite // GT only
	g1, g2 *grp          // GT only
	gtBase bool          // GT.Base() exists and equals e(B1,B2)
}

type pexp struct {
	op   string // null base var add sub neg mul pair
	a, b *pexp
	k    *big.Int
	pt   kyber.Point // var
	d    *big.Int    // var: logarithm assigned in the model run
	how  string
}

func (e *pexp) coq() string {
	switch e.op {
	case "null":
		return "PNull"
	case "base":
		return "PBase"
	case "var":
		return "(PVar " + vh.CoqZ(e.d) + ")"
	case "add":
		return "(PAdd " + e.a.coq() + " " + e.b.coq() + ")"
	case "sub":
		return "(PSub " + e.a.coq() + " " + e.b.coq() + ")"
	case "neg":
		return "(PNeg " + e.a.coq() + ")"
	case "mul":
		return "(PMul " + vh.CoqZ(e.k) + " " + e.a.coq() + ")"
	case "pair":
		return "(PPair " + e.a.coq() + " " + e.b.coq() + ")"
	}
	panic("bad pexp")
}

func (e *pexp) String() string {
	switch e.op {
	case "null":
		return "Null"
	case "base":
		return "Base"
	case "var":
		return "H[" + e.how + "]"
	case "add":
		return "Add(" + e.a.String() + "," + e.b.String() + ")"
	case "sub":
		return "Sub(" + e.a.String() + "," + e.b.String() + ")"
	case "neg":
		return "Neg(" + e.a.String() + ")"
	case "mul":
		return "Mul(" + e.k.String() + "," + e.a.String() + ")"
	case "pair":
		return "Pair(" + e.a.String() + "," + e.b.String() + ")"
	}
	return "?"
}

// dlog is the discrete logarithm of the path's value in the harness' own
// integer arithmetic (the same evaluation the Coq model EncSM.peval performs)
func (e *pexp) dlog(q *big.Int) *big.Int {
	r := new(big.Int)
	switch e.op {
	case "null":
	case "base":
		r.SetInt64(1)
	case "var":
		r.Set(e.d)
	case "add":
		r.Add(e.a.dlog(q), e.b.dlog(q))
	case "sub":
		r.Sub(e.a.dlog(q), e.b.dlog(q))
	case "neg":
		r.Neg(e.a.dlog(q))
	case "mul":
		r.Mul(e.k, e.a.dlog(q))
	case "pair":
		r.Mul(e.a.dlog(q), e.b.dlog(q))
	}
	return r.Mod(r, q)
}

func scalarOf(G kyber.Group, k *big.Int) kyber.Scalar {
	s := G.Scalar()
	b := k.Bytes()
	if s.ByteOrder() == kyber.LittleEndian {
		sc.Rev(b)
	}
	return s.SetBytes(b)
}

// eval always uses fresh receivers and the returned point (no aliasing)
func (e *pexp) eval(G *grp) kyber.Point {
	switch e.op {
	case "null":
		return G.g.Point().Null()
	case "base":
		if G.suite != nil && !G.gtBase {
			return G.suite.Pair(G.g1.g.Point().Base(), G.g2.g.Point().Base())
		}
		return G.g.Point().Base()
	case "var":
		return e.pt.Clone()
	case "add":
		return G.g.Point().Add(e.a.eval(G), e.b.eval(G))
	case "sub":
		return G.g.Point().Sub(e.a.eval(G), e.b.eval(G))
	case "neg":
		return G.g.Point().Neg(e.a.eval(G))
	case "mul":
		return G.g.Point().Mul(scalarOf(G.g, e.k), e.a.eval(G))
	case "pair":
		return G.suite.Pair(e.a.eval(G.g1), e.b.eval(G.g2))
	}
	panic("bad pexp")
}

func null() *pexp                 { return &pexp{op: "null"} }
func base() *pexp                 { return &pexp{op: "base"} }
func add(a, b *pexp) *pexp        { return &pexp{op: "add", a: a, b: b} }
func sub(a, b *pexp) *pexp        { return &pexp{op: "sub", a: a, b: b} }
func neg(a *pexp) *pexp           { return &pexp{op: "neg", a: a} }
func pairE(a, b *pexp) *pexp      { return &pexp{op: "pair", a: a, b: b} }
func mulI(k int64, a *pexp) *pexp { return mul(big.NewInt(k), a) }
func mul(k *big.Int, a *pexp) *pexp {
	return &pexp{op: "mul", k: new(big.Int).Set(k), a: a}
}

func modq(q *big.Int, v *big.Int) *big.Int { return new(big.Int).Mod(v, q) }

// a point of unknown logarithm: picked, embedded or hashed
func varPoint(G *grp, r *vh.Rng) *pexp {
	var pt kyber.Point
	how := ""
	for try := 0; try < 3 && pt == nil; try++ {
		switch r.Intn(3) {
		case 0:
			pan, _ := vh.Try(func() { pt = G.g.Point().Pick(vh.NewSeqStream(r.Bytes(16))) })
			if pan {
				pt = nil
			}
			how = "Pick"
		case 1:
			pan, _ := vh.Try(func() {
				p := G.g.Point()
				l := p.EmbedLen()
				if l > 8 {
					l = 8
				}
				if l <= 0 {
					return
				}
				pt = p.Embed(r.Bytes(l), vh.NewSeqStream(r.Bytes(16)))
			})
			if pan {
				pt = nil
			}
			how = "Embed"
		default:
			type hashable interface{ Hash([]byte) kyber.Point }
			pan, _ := vh.Try(func() {
				if h, ok := G.g.Point().(hashable); ok {
					pt = h.Hash(r.Bytes(12))
				}
			})
			if pan {
				pt = nil
			}
			how = "Hash"
		}
	}
	if pt == nil {
		return nil
	}
	return &pexp{op: "var", pt: pt, d: r.BigBelow(G.q), how: how}
}

func pool(G *grp, r *vh.Rng) []*pexp {
	q := G.q
	k := r.EdgeScalar(q)
	k1 := r.EdgeScalar(q)
	one := big.NewInt(1)
	B := base()
	var out []*pexp
	if G.suite != nil { // GT: pairing outputs
		a, b := r.EdgeScalar(q), r.EdgeScalar(q)
		ab := modq(q, new(big.Int).Mul(a, b))
		E := pairE(base(), base())
		cands := []*pexp{
			null(), sub(E, E), pairE(null(), base()), pairE(base(), null()),
			E, pairE(mulI(1, base()), base()), neg(neg(E)),
			pairE(mul(a, base()), mul(b, base())), mul(ab, E), pairE(base(), mul(ab, base())), pairE(mul(ab, base()), base()),
			add(pairE(mul(a, base()), base()), pairE(base(), mul(b, base()))), mul(modq(q, new(big.Int).Add(a, b)), E),
			neg(E), pairE(neg(base()), base()), pairE(base(), neg(base())), mul(modq(q, new(big.Int).Sub(q, one)), E),
			add(E, E), mulI(2, E), pairE(mulI(2, base()), base()), pairE(add(base(), base()), base()),
		}
		if G.gtBase {
			cands = append(cands, B, mul(ab, B), add(B, null()))
		}
		for _, c := range cands {
			if r.Chance(65) {
				out = append(out, c)
			}
		}
		return out
	}
	X := mul(k, B)
	cands := []*pexp{
		null(), sub(B, B), mulI(0, B), add(X, neg(X)), mul(q, B),
		B, mulI(1, B), add(null(), B), neg(neg(B)), sub(B, null()),
		add(B, B), mulI(2, B), neg(mul(modq(q, new(big.Int).Sub(q, big.NewInt(2))), B)),
		X, add(mul(k1, B), mul(modq(q, new(big.Int).Sub(k, k1)), B)), sub(mul(modq(q, new(big.Int).Add(k, one)), B), B),
		mul(k, mulI(1, B)), neg(mul(modq(q, new(big.Int).Sub(q, k)), B)),
		mul(modq(q, new(big.Int).Sub(q, one)), B), neg(B), sub(null(), B),
		mul(k1, X), mul(modq(q, new(big.Int).Mul(k, k1)), B),
	}
	if H := varPoint(G, r); H != nil {
		cands = append(cands, H, add(H, null()), sub(add(H, B), B), add(H, H), mulI(2, H), mul(k, H),
			add(mul(k1, H), mul(modq(q, new(big.Int).Sub(k, k1)), H)), neg(mul(modq(q, new(big.Int).Sub(q, k)), H)),
			add(H, neg(H)), mul(q, H))
	}
	for _, c := range cands {
		if r.Chance(50) {
			out = append(out, c)
		}
	}
	return out
}

func (g *gen) pointPool(G *grp, r *vh.Rng) {
	g.id++
	exprs := pool(G, r)
	key := "enc/point/" + G.name
	type ent struct {
		e   *pexp
		p   kyber.Point
		b   []byte
		cls int
	}
	var ents []ent
	for _, e := range exprs {
		var p kyber.Point
		pan, msg := vh.Try(func() { p = e.eval(G) })
		if pan || p == nil {
			g.rep.Dist("unsupported/" + G.name + ": " + firstLine(msg))
			continue
		}
		replay := map[string]string{"group": G.name, "path": e.String()}
		// (e) encoding does not change the value: clone first, compare afterwards
		var before kyber.Point
		vh.Try(func() { before = p.Clone() })
		b, err := p.MarshalBinary()
		if err != nil {
			g.rep.Fail(key+"/MarshalBinary/error", err.Error(), replay)
			continue
		}
		replay["bytes"] = vh.Hex(b)
		// (a) lengths
		if len(b) != p.MarshalSize() || len(b) != G.g.PointLen() {
			g.rep.Fail(key+"/length", fmt.Sprintf("len %d, MarshalSize %d, PointLen %d", len(b), p.MarshalSize(), G.g.PointLen()), replay)
		}
		b2, _ := p.MarshalBinary()
		if string(b2) != string(b) {
			g.rep.Fail(key+"/MarshalBinary/not-repeatable", "two MarshalBinary calls differ", replay)
		}
		if before != nil && (!before.Equal(p) || !p.Equal(before)) {
			g.rep.Fail(key+"/value-changed-by-encoding", "the point is no longer Equal to its clone taken before MarshalBinary", replay)
		}
		if before != nil {
			bb, _ := before.MarshalBinary()
			if string(bb) != string(b) {
				g.rep.Fail(key+"/clone-encodes-differently", "clone and original encode differently", replay)
			}
		}
		// (b) decode succeeds, Equal, re-encode identical
		t := G.g.Point()
		if err := t.UnmarshalBinary(append([]byte{}, b...)); err != nil {
			g.rep.Fail(key+"/UnmarshalBinary/own-encoding-rejected", err.Error(), replay)
		} else {
			if !t.Equal(p) || !p.Equal(t) {
				g.rep.Fail(key+"/roundtrip-not-Equal", "decode(encode(P)) is not Equal to P", replay)
			}
			if rb, _ := t.MarshalBinary(); string(rb) != string(b) {
				replay["reenc"] = vh.Hex(rb)
				g.rep.Fail(key+"/reencode-differs", "re-encoding is not byte-identical", replay)
			}
		}
		// (d) stream wrappers and hex helpers
		var buf bytes.Buffer
		pre := r.Bytes(r.Intn(8))
		buf.Write(pre)
		n, err := p.MarshalTo(&buf)
		if err != nil || n != len(b) || string(buf.Bytes()) != string(pre)+string(b) {
			g.rep.Fail(key+"/MarshalTo", "MarshalTo does not append exactly MarshalBinary", replay)
		}
		tail := r.Bytes(r.Intn(2) * 5)
		under := bytes.NewReader(append(append([]byte{}, b...), tail...))
		var rd io.Reader = under
		if r.Bool() {
			rd = iotest.OneByteReader(under)
		}
		t2 := G.g.Point()
		n, err = t2.UnmarshalFrom(rd)
		if err != nil || n != len(b) || under.Len() != len(tail) || !t2.Equal(p) {
			g.rep.Fail(key+"/UnmarshalFrom", fmt.Sprintf("UnmarshalFrom: n=%d err=%v left=%d", n, err, under.Len()), replay)
		}
		if len(b) > 0 {
			t3 := G.g.Point()
			cut := r.Intn(len(b))
			n, err = t3.UnmarshalFrom(bytes.NewReader(b[:cut]))
			if err == nil || n != cut {
				g.rep.Fail(key+"/UnmarshalFrom/short-reader", fmt.Sprintf("short reader: n=%d err=%v", n, err), replay)
			}
		}
		hs, err := kenc.PointToStringHex(G.g, p)
		var hb bytes.Buffer
		err2 := kenc.WriteHexPoint(&hb, p)
		if err != nil || err2 != nil || hs != hex.EncodeToString(b) || hb.String() != hs {
			g.rep.Fail(key+"/hex/write", "hex helpers do not carry exactly the MarshalBinary bytes", replay)
		}
		if t4, err := kenc.StringHexToPoint(G.g, hs); err != nil || !t4.Equal(p) {
			g.rep.Fail(key+"/hex/read", fmt.Sprintf("StringHexToPoint: %v", err), replay)
		} else if rb, _ := t4.MarshalBinary(); string(rb) != string(b) {
			g.rep.Fail(key+"/hex/read", "hex round trip re-encodes differently", replay)
		}
		if t5, err := kenc.ReadHexPoint(G.g, iotest.OneByteReader(strings.NewReader(hs))); err != nil || !t5.Equal(p) {
			g.rep.Fail("enc/hex/ReadHexPoint/chunked-reader", fmt.Sprintf("ReadHexPoint fails on a reader that delivers the hex string in pieces: %v", err), replay)
		}
		ents = append(ents, ent{e: e, p: p, b: b, cls: -1})
	}
	// (c) Equal <=> identical bytes, over all pairs; classes under Equal
	for i := range ents {
		for j := 0; j <= i; j++ {
			eq := ents[i].p.Equal(ents[j].p)
			eq2 := ents[j].p.Equal(ents[i].p)
			same := string(ents[i].b) == string(ents[j].b)
			if eq != same || eq2 != same {
				g.rep.Fail(key+"/Equal-vs-bytes", fmt.Sprintf("Equal=%v/%v, identical bytes=%v", eq, eq2, same),
					map[string]string{"group": G.name, "path1": ents[i].e.String(), "path2": ents[j].e.String(),
						"bytes1": vh.Hex(ents[i].b), "bytes2": vh.Hex(ents[j].b)})
			}
			// the same question decided independently of the implementation's Equal
			if sameElt := ents[i].e.dlog(G.q).Cmp(ents[j].e.dlog(G.q)) == 0; sameElt != same {
				g.rep.Fail(key+"/bytes-vs-group-element", fmt.Sprintf("same group element=%v but identical bytes=%v", sameElt, same),
					map[string]string{"group": G.name, "path1": ents[i].e.String(), "path2": ents[j].e.String(),
						"bytes1": vh.Hex(ents[i].b), "bytes2": vh.Hex(ents[j].b)})
			}
			if eq && ents[i].cls < 0 {
				ents[i].cls = j
			}
		}
		if ents[i].cls < 0 {
			ents[i].cls = i
		}
	}
	var items []string
	var paths []string
	for _, e := range ents {
		items = append(items, fmt.Sprintf("(%s, %s, %d)", e.e.coq(), vh.CoqBytes(e.b), e.cls))
		paths = append(paths, e.e.String())
	}
	g.rep.Dist("points/" + G.name)
	g.rep.DistN("point-values/"+G.name, len(ents))
	g.add(fmt.Sprintf("CPoints %d %s %d %s", g.id, vh.CoqZ(G.q), G.g.PointLen(), vh.CoqList(items)),
		map[string]interface{}{"group": G.name, "paths": paths}, len(ents) > 1)
}

func firstLine(s string) string {
	if i := strings.IndexByte(s, '\n'); i >= 0 {
		s = s[:i]
	}
	if len(s) > 60 {
		s = s[:60]
	}
	return s
}

func order(G kyber.Group) *big.Int { return new(big.Int).Set(G.Scalar().GroupOrder().ToBigInt()) }

func groups(rep *vh.Report) []*grp {
	var out []*grp
	plain := func(name string, G kyber.Group) *grp {
		x := &grp{name: name, g: G, q: order(G)}
		out = append(out, x)
		return x
	}
	plain("edwards25519", edwards25519.NewBlakeSHA256Ed25519())
	plain("edwards25519vartime", edwards25519vartime.NewBlakeSHA256Ed25519(false))
	plain("edwards25519vartime.ext", new(edwards25519vartime.ExtendedCurve).InitCurve(edwards25519vartime.ParamEd25519(), false))
	plain("p256", p256.NewBlakeSHA256P256())
	plain("qr512", p256.NewBlakeSHA256QR512())
	addPairing := func(name string, s pairing.Suite) {
		g1 := plain(name+".G1", s.G1())
		g2 := plain(name+".G2", s.G2())
		gt := &grp{name: name + ".GT", g: s.GT(), q: order(s.G1()), suite: s, g1: g1, g2: g2}
		pan, _ := vh.Try(func() {
			gt.gtBase = s.GT().Point().Base().Equal(s.Pair(s.G1().Point().Base(), s.G2().Point().Base()))
		})
		if pan {
			gt.gtBase = false
		}
		out = append(out, gt)
	}
	addPairing("bn256", bn256.NewSuite())
	addPairing("bn254", bn254.NewSuite())
	addPairing("kilic", kilic.NewBLS12381Suite())
	addPairing("circl", circl.NewSuiteBLS12381())
	addPairing("gnark", gnark.NewSuiteBLS12381())
	for _, G := range out { // advertised scalar length
		s := G.g.Scalar()
		if b, err := s.MarshalBinary(); err != nil || len(b) != G.g.ScalarLen() || s.MarshalSize() != G.g.ScalarLen() {
			rep.Fail("enc/scalar-length/"+G.name, "ScalarLen differs from the encoded length", map[string]string{"group": G.name})
		}
	}
	return out
}

func main() {
	o := vh.ParseFlags()
	rng := vh.NewRng(o.Seed)
	rep := vh.NewReport("C03", o.Seed, o.Tier)
	rep.Rule = "scalars, per implementation (ed25519, mod.Int for P-256/BN256/BN254/kilic/QR-512 and synthetic moduli in both byte orders, CIRCL, gnark): reduced values {0,1,q-1,small,2^k,edge-biased operands} reached via arithmetic/SetBytes/Neg/Pick/UnmarshalBinary -> MarshalBinary, UnmarshalBinary, re-encoding, Equal; MarshalTo onto a pre-filled writer; UnmarshalFrom through plain/one-byte/half readers with tails and truncated inputs; hex helpers (upper/lower case, tails, truncated). points, per group (edwards25519, 3 vartime curves, P-256, QR-512, G1/G2/GT of bn256, bn254, kilic, CIRCL, gnark): pools of values reached by different computation paths (Null, B-B, 0*B, q*B, B+B, 2B, -(q-2)B, kB three ways, picked/embedded/hashed points and their multiples, pairing outputs): partition by model logarithm = partition by bytes = partition by Equal. distinct = distinct canonical case text; non-trivial = non-zero value / pool of >= 2 points"
	g := &gen{rep: rep, search: o.Search}
	insts := sc.Instances()
	nScalar, nPools := 1500, 4
	if o.Thorough {
		nScalar, nPools = 12000, 40
	}
	if o.Search {
		nScalar, nPools = nScalar*6, nPools*4
	}
	wsum := 0
	for _, in := range insts {
		wsum += in.Weight
	}
	for _, in := range insts {
		r := rng.Fork()
		n := nScalar * in.Weight / wsum
		for k := 0; k < n; k++ {
			c := r.Fork()
			switch x := c.Intn(100); {
			case x < 50:
				g.scalarCase(in, c)
			case x < 60:
				g.scalarPairOracle(in, c)
			default:
				g.streamCases(in, c)
			}
		}
	}
	for _, G := range groups(rep) {
		r := rng.Fork()
		n := nPools
		if G.suite != nil || strings.HasPrefix(G.name, "qr") {
			n = (n + 1) / 2
		}
		for k := 0; k < n; k++ {
			g.pointPool(G, r.Fork())
		}
	}
	if !o.Search {
		cf := &vh.CaseFile{Header: "From Kyber Require Import Codec.EncSM Codec.EncRun.", Type: "case", Runner: "mismatches", Items: g.items}
		per := 120
		if o.Thorough {
			per = 250
		}
		vh.WriteShards(o.Out, "c03", cf, per, rep)
	}
	rep.Write(o.Out)
}
