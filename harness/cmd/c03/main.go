// Correspondence + oracle harness for property C03 (point and scalar encodings
// are fixed-length, canonical and round-trip).
//
// Scalars: exact byte-level comparison with the Coq model Codec/EncSM.v
// (MarshalBinary, UnmarshalBinary, MarshalTo, UnmarshalFrom, hex helpers).
// Points: every group; pools of values reached by different computation
// paths; the Coq model (discrete logarithms, Algebra/Grp.v) decides which
// pool members are the same group element, and that partition must coincide
// with the partition by identical bytes and with the implementation's Equal.
// Oracles evaluate every clause of the property on the implementation alone.
package main

import (
	"bytes"
	"crypto/elliptic"
	"encoding/hex"
	"fmt"
	"io"
	"math/big"
	"os"
	"runtime/pprof"
	"strings"
	"testing/iotest"

	"go.dedis.ch/kyber/v4"
	"go.dedis.ch/kyber/v4/group/edwards25519"
	"go.dedis.ch/kyber/v4/group/edwards25519vartime"
	"go.dedis.ch/kyber/v4/group/p256"
	"go.dedis.ch/kyber/v4/pairing"
	"go.dedis.ch/kyber/v4/pairing/bls12381/circl"
	"go.dedis.ch/kyber/v4/pairing/bls12381/gnark"
	"go.dedis.ch/kyber/v4/pairing/bls12381/kilic"
	"go.dedis.ch/kyber/v4/pairing/bn254"
	"go.dedis.ch/kyber/v4/pairing/bn256"
	kenc "go.dedis.ch/kyber/v4/util/encoding"

	"kyverif/sc"
	"kyverif/vh"
)

type gen struct {
	rep    *vh.Report
	items  []string
	search bool
	id     int
}

func (g *gen) add(term string, desc interface{}, nontrivial bool) {
	if g.search {
		return
	}
	g.items = append(g.items, term)
	g.rep.Count(term, nontrivial)
	g.rep.Index(g.id, desc)
	if nontrivial && g.id%53 == 0 {
		g.rep.Sample(desc)
	}
}

// ---------------------------------------------------------------- readers

// The legal behaviours of an io.Reader every reader-based helper is driven
// with: everything at once, one byte per call, half of what is asked, the last
// bytes returned TOGETHER with io.EOF (in one chunk or after single bytes),
// and calls that return (0, nil) before delivering anything (the last one only
// for UnmarshalFrom: util/encoding treats an empty read as a stalled reader,
// which kyber's own tests pin down, so nothing is asserted about it there).
var readerModes = []string{"plain", "one-byte", "half", "data+EOF", "one-byte,data+EOF", "empty-reads"}

type stutterReader struct {
	r io.Reader
	k int
}

func (s *stutterReader) Read(p []byte) (int, error) {
	s.k++
	if s.k%2 == 1 && len(p) > 0 {
		return 0, nil
	}
	if len(p) > 5 {
		p = p[:5]
	}
	return s.r.Read(p)
}

// eofReader delivers at most chunk bytes per call and reports io.EOF in the SAME
// call that delivers the last byte (no read-ahead, unlike iotest.DataErrReader,
// so the bytes left in the underlying reader stay observable).
type eofReader struct {
	r     *bytes.Reader
	chunk int
}

func (e *eofReader) Read(p []byte) (int, error) {
	if len(p) > e.chunk {
		p = p[:e.chunk]
	}
	n, err := e.r.Read(p)
	if err == nil && e.r.Len() == 0 {
		err = io.EOF
	}
	return n, err
}

func wrapReader(mode int, under *bytes.Reader) io.Reader {
	switch mode {
	case 1:
		return iotest.OneByteReader(under)
	case 2:
		return iotest.HalfReader(under)
	case 3:
		return &eofReader{r: under, chunk: 1 << 20}
	case 4:
		return &eofReader{r: under, chunk: 1}
	case 5:
		return &stutterReader{r: under}
	}
	return under
}

// ---------------------------------------------------------------- scalars

// scalarGroup lets util/encoding's helpers create scalars of an instance.
type scalarGroup struct{ in *sc.Inst }

func (s scalarGroup) String() string       { return s.in.Name }
func (s scalarGroup) ScalarLen() int       { return s.in.L }
func (s scalarGroup) Scalar() kyber.Scalar { return s.in.Mk() }
func (s scalarGroup) PointLen() int        { return 0 }
func (s scalarGroup) Point() kyber.Point   { return nil }

// a scalar holding v, reached through one of the API routes the property names
func reach(in *sc.Inst, v *big.Int, r *vh.Rng, rep *vh.Report) (kyber.Scalar, string) {
	switch r.Intn(6) {
	case 0: // arithmetic: (v - t) + t
		t := sc.Operand(in, r)
		d := new(big.Int).Sub(v, t)
		d.Mod(d, in.Q)
		return in.Mk().Add(in.Scalar(d, rep), in.Scalar(t, rep)), "Add"
	case 1: // arithmetic: (v * t) / t
		t := sc.Nonzero(in, r)
		p := new(big.Int).Mul(v, t)
		p.Mod(p, in.Q)
		return in.Mk().Div(in.Scalar(p, rep), in.Scalar(t, rep)), "Div"
	case 2: // SetBytes of v + k*q
		kq := new(big.Int).Mul(in.Q, big.NewInt(int64(r.Intn(300))))
		kq.Add(kq, v)
		b := kq.Bytes()
		if in.LE {
			sc.Rev(b)
		}
		return in.Mk().SetBytes(b), "SetBytes"
	case 3: // Neg(Neg v) / Sub
		n := new(big.Int).Neg(v)
		n.Mod(n, in.Q)
		return in.Mk().Neg(in.Scalar(n, rep)), "Neg"
	case 4: // Pick over a stream whose first candidate is v
		n := (in.Q.BitLen() + 7) / 8
		buf := append(v.FillBytes(make([]byte, n)), r.Bytes(2*n)...)
		if in.Kind == sc.KCircl { // CIRCL stores the candidate as a Montgomery residue
			return in.Scalar(v, rep).Clone(), "Clone"
		}
		return in.Mk().Pick(&sc.FixedStream{Buf: buf}), "Pick"
	}
	return in.Scalar(v, rep), "UnmarshalBinary"
}

func encValue(in *sc.Inst, r *vh.Rng) *big.Int {
	if r.Chance(30) { // leading zero bytes, tiny values, q-1
		switch r.Intn(5) {
		case 0:
			return big.NewInt(0)
		case 1:
			return big.NewInt(1)
		case 2:
			return new(big.Int).Sub(in.Q, big.NewInt(1))
		case 3:
			return new(big.Int).Mod(big.NewInt(int64(r.Intn(70000))), in.Q)
		default:
			k := r.Intn(in.Q.BitLen())
			return new(big.Int).Mod(new(big.Int).Lsh(big.NewInt(1), uint(k)), in.Q)
		}
	}
	return sc.Operand(in, r)
}

func (g *gen) scalarCase(in *sc.Inst, r *vh.Rng) {
	g.id++
	v := encValue(in, r)
	s, route := reach(in, v, r, g.rep)
	key := "enc/scalar/" + in.Name
	replay := map[string]string{"impl": in.Name, "value": v.String(), "route": route, "q": in.Q.String()}
	b1, err := s.MarshalBinary()
	if err != nil {
		g.rep.Fail(key+"/MarshalBinary/error", err.Error(), replay)
		return
	}
	replay["bytes"] = vh.Hex(b1)
	if len(b1) != s.MarshalSize() || len(b1) != in.L {
		g.rep.Fail(key+"/length", fmt.Sprintf("len %d, MarshalSize %d, advertised %d", len(b1), s.MarshalSize(), in.L), replay)
	}
	if string(b1) != string(sc.Enc(in, v)) {
		g.rep.Fail(key+"/MarshalBinary/"+route, "encoding of a reduced scalar is not the fixed-width encoding of its value", replay)
	}
	b1again, _ := s.MarshalBinary()
	if string(b1again) != string(b1) {
		g.rep.Fail(key+"/MarshalBinary/not-repeatable", "two MarshalBinary calls differ", replay)
	}
	t := in.Mk()
	if r.Bool() {
		t = in.Scalar(sc.Operand(in, r), g.rep)
	}
	if err := t.UnmarshalBinary(append([]byte{}, b1...)); err != nil {
		g.rep.Fail(key+"/UnmarshalBinary/own-encoding-rejected", err.Error(), replay)
		return
	}
	eq := s.Equal(t) && t.Equal(s)
	if !eq {
		g.rep.Fail(key+"/roundtrip-not-Equal", "decode(encode(s)) is not Equal to s", replay)
	}
	b2 := sc.BytesOf(t)
	if string(b2) != string(b1) {
		replay["reenc"] = vh.Hex(b2)
		g.rep.Fail(key+"/reencode-differs", "re-encoding is not byte-identical", replay)
	}
	// encoding never changes the value encoded
	u := in.Mk().Add(s, in.Scalar(big.NewInt(1).Mod(big.NewInt(1), in.Q), g.rep))
	w := new(big.Int).Add(v, big.NewInt(1))
	w.Mod(w, in.Q)
	if string(sc.BytesOf(u)) != string(sc.Enc(in, w)) {
		g.rep.Fail(key+"/value-changed-by-encoding", "s+1 after MarshalBinary(s) is wrong", replay)
	}
	g.rep.Dist("scalar/" + in.Name + "/" + route)
	g.add(fmt.Sprintf("CScalar %d %s %s %s %s %s", g.id, in.Coq(), vh.CoqZ(v), vh.CoqBytes(b1), vh.CoqBytes(b2), vh.CoqBool(eq)),
		replay, v.Sign() != 0)
}

// Equal iff identical encodings, over pairs
func (g *gen) scalarPairOracle(in *sc.Inst, r *vh.Rng) {
	a := encValue(in, r)
	b := encValue(in, r)
	if r.Chance(40) {
		b = new(big.Int).Set(a)
	}
	x, _ := reach(in, a, r, g.rep)
	y, _ := reach(in, b, r, g.rep)
	same := string(sc.BytesOf(x)) == string(sc.BytesOf(y))
	if x.Equal(y) != same || y.Equal(x) != same || same != (a.Cmp(b) == 0) {
		g.rep.Fail("enc/scalar/"+in.Name+"/Equal-vs-bytes", "Equal, identical encodings and equal residues do not coincide",
			map[string]string{"impl": in.Name, "a": a.String(), "b": b.String()})
	}
	g.rep.Dist("scalar/" + in.Name + "/pair")
}

func (g *gen) streamCases(in *sc.Inst, r *vh.Rng) {
	key := "enc/scalar/" + in.Name
	v := encValue(in, r)
	s, _ := reach(in, v, r, g.rep)
	want := sc.Enc(in, v)
	// MarshalTo onto a writer that already holds something
	g.id++
	pre := r.Bytes(r.Intn(20))
	var buf bytes.Buffer
	buf.Write(pre)
	n, err := s.MarshalTo(&buf)
	replay := map[string]string{"impl": in.Name, "value": v.String(), "pre": vh.Hex(pre), "written": vh.Hex(buf.Bytes())}
	if err != nil || n != in.L || string(buf.Bytes()) != string(pre)+string(want) {
		g.rep.Fail(key+"/MarshalTo", fmt.Sprintf("MarshalTo does not append exactly MarshalBinary (n=%d err=%v)", n, err), replay)
	}
	g.rep.Dist("scalar/" + in.Name + "/MarshalTo")
	g.add(fmt.Sprintf("CMarshalTo %d %s %s %s %s %d", g.id, in.Coq(), vh.CoqZ(v), vh.CoqBytes(pre), vh.CoqBytes(buf.Bytes()), n), replay, true)

	// UnmarshalFrom: full encoding + tail, through plain / one-byte / short readers
	g.id++
	var input []byte
	short := r.Chance(30) && in.L > 0
	if short {
		input = append([]byte{}, want[:r.Intn(in.L)]...)
	} else {
		input = append(append([]byte{}, want...), r.Bytes(r.Intn(2)*r.Intn(40))...)
	}
	under := bytes.NewReader(input)
	mi := r.Intn(len(readerModes))
	if (mi == 3 || mi == 4) && !short { // the last byte needed arrives together with io.EOF
		input = append([]byte{}, want...)
		under = bytes.NewReader(input)
	}
	rd, mode := wrapReader(mi, under), readerModes[mi]
	t := in.Mk()
	n, err = t.UnmarshalFrom(rd)
	ok := err == nil
	var reenc []byte
	if ok {
		reenc = sc.BytesOf(t)
	}
	replay = map[string]string{"impl": in.Name, "value": v.String(), "input": vh.Hex(input), "reader": mode,
		"n": fmt.Sprint(n), "err": fmt.Sprint(err)}
	if short {
		if ok || n != len(input) {
			g.rep.Fail(key+"/UnmarshalFrom/short-reader", "a reader that ends early must give an error after consuming what it had", replay)
		}
	} else {
		if !ok || n != in.L || string(reenc) != string(want) || under.Len() != len(input)-in.L || !t.Equal(s) {
			g.rep.Fail(key+"/UnmarshalFrom/"+mode, "UnmarshalFrom does not consume exactly MarshalSize bytes / differs from UnmarshalBinary", replay)
		}
	}
	g.rep.Dist("scalar/" + in.Name + "/UnmarshalFrom/" + mode)
	g.add(fmt.Sprintf("CUnmarshalFrom %d %s %s %d %s %s %d", g.id, in.Coq(), vh.CoqBytes(input), n, vh.CoqBool(ok), vh.CoqBytes(reenc), under.Len()),
		replay, !short)

	// hex helpers
	g.id++
	grp := scalarGroup{in}
	h1, err1 := kenc.ScalarToStringHex(grp, s)
	var hb bytes.Buffer
	err2 := kenc.WriteHexScalar(grp, &hb, s)
	replay = map[string]string{"impl": in.Name, "value": v.String(), "hex": h1}
	if err1 != nil || err2 != nil || h1 != hb.String() || h1 != hex.EncodeToString(want) {
		g.rep.Fail(key+"/hex/write", "hex helpers do not carry exactly the MarshalBinary bytes", replay)
	}
	g.rep.Dist("scalar/" + in.Name + "/hex")
	g.add(fmt.Sprintf("CHexW %d %s %s %s", g.id, in.Coq(), vh.CoqZ(v), vh.CoqBytes([]byte(h1))), replay, true)

	g.id++
	hin := hex.EncodeToString(want)
	if r.Bool() {
		hin = strings.ToUpper(hin)
	}
	hshort := r.Chance(25) && len(hin) > 0
	if hshort {
		hin = hin[:r.Intn(len(hin))]
	} else if r.Chance(30) {
		hin += hex.EncodeToString(r.Bytes(1 + r.Intn(5)))
	}
	// through an io.Reader in one of the legal delivery modes (the model says the
	// outcome does not depend on how the reader chops the string)
	hm := r.Intn(5)
	t2, err := kenc.ReadHexScalar(grp, wrapReader(hm, bytes.NewReader([]byte(hin))))
	ok = err == nil
	reenc = nil
	if ok {
		reenc = sc.BytesOf(t2)
	}
	replay = map[string]string{"impl": in.Name, "value": v.String(), "hex": hin, "reader": readerModes[hm], "err": fmt.Sprint(err)}
	if hshort == ok || (ok && (string(reenc) != string(want) || !t2.Equal(s))) {
		g.rep.Fail("enc/hex/ReadHexScalar/"+readerModes[hm], "ReadHexScalar differs from UnmarshalBinary of the decoded hex: "+fmt.Sprint(err), replay)
	}
	if t3, err := kenc.StringHexToScalar(grp, hin); hshort == (err == nil) || (err == nil && string(sc.BytesOf(t3)) != string(want)) {
		g.rep.Fail(key+"/hex/read", "StringHexToScalar differs from UnmarshalBinary of the decoded hex", replay)
	}
	g.rep.Dist("hex-reader/" + readerModes[hm])
	g.add(fmt.Sprintf("CHexR %d %s %s %s %s", g.id, in.Coq(), vh.CoqBytes([]byte(hin)), vh.CoqBool(ok), vh.CoqBytes(reenc)), replay, !hshort)
}

// ---------------------------------------------------------------- points

type grp struct {
	name   string
	g      kyber.Group
	q      *big.Int
	suite  pairing.Suite // GT only
	g1, g2 *grp          // GT only
	gtBase bool          // GT.Base() exists and equals e(B1,B2)
}

type pexp struct {
	op   string // null base var add sub neg mul pair | subself addneg mulsum (one object used twice / scalar reached by an operation)
	a, b *pexp
	k    *big.Int
	k2   *big.Int    // mulsum: the scalar is Add(k, k2)
	pt   kyber.Point // var
	d    *big.Int    // var: logarithm assigned in the model run
	how  string
}

func (e *pexp) coq() string {
	switch e.op {
	case "null":
		return "PNull"
	case "base":
		return "PBase"
	case "var":
		return "(PVar " + vh.CoqZ(e.d) + ")"
	case "add":
		return "(PAdd " + e.a.coq() + " " + e.b.coq() + ")"
	case "sub":
		return "(PSub " + e.a.coq() + " " + e.b.coq() + ")"
	case "neg":
		return "(PNeg " + e.a.coq() + ")"
	case "mul":
		return "(PMul " + vh.CoqZ(e.k) + " " + e.a.coq() + ")"
	case "pair":
		return "(PPair " + e.a.coq() + " " + e.b.coq() + ")"
	case "subself":
		return "(PSub " + e.a.coq() + " " + e.a.coq() + ")"
	case "addneg":
		return "(PAdd " + e.a.coq() + " (PNeg " + e.a.coq() + "))"
	case "mulsum":
		return "(PMul " + vh.CoqZ(new(big.Int).Add(e.k, e.k2)) + " " + e.a.coq() + ")"
	}
	panic("bad pexp")
}

func (e *pexp) String() string {
	switch e.op {
	case "null":
		return "Null"
	case "base":
		return "Base"
	case "var":
		return "H[" + e.how + "]"
	case "add":
		return "Add(" + e.a.String() + "," + e.b.String() + ")"
	case "sub":
		return "Sub(" + e.a.String() + "," + e.b.String() + ")"
	case "neg":
		return "Neg(" + e.a.String() + ")"
	case "mul":
		return "Mul(" + e.k.String() + "," + e.a.String() + ")"
	case "pair":
		return "Pair(" + e.a.String() + "," + e.b.String() + ")"
	case "subself":
		return "Sub(X,X) with the one object X=" + e.a.String()
	case "addneg":
		return "Add(X,Neg(X)) with the one object X=" + e.a.String()
	case "mulsum":
		return "Mul(Scalar.Add(" + e.k.String() + "," + e.k2.String() + ")," + e.a.String() + ")"
	}
	return "?"
}

// dlog is the discrete logarithm of the path's value in the harness' own
// integer arithmetic (the same evaluation the Coq model EncSM.peval performs)
func (e *pexp) dlog(q *big.Int) *big.Int {
	r := new(big.Int)
	switch e.op {
	case "null":
	case "base":
		r.SetInt64(1)
	case "var":
		r.Set(e.d)
	case "add":
		r.Add(e.a.dlog(q), e.b.dlog(q))
	case "sub":
		r.Sub(e.a.dlog(q), e.b.dlog(q))
	case "neg":
		r.Neg(e.a.dlog(q))
	case "mul":
		r.Mul(e.k, e.a.dlog(q))
	case "pair":
		r.Mul(e.a.dlog(q), e.b.dlog(q))
	case "subself", "addneg":
	case "mulsum":
		r.Mul(new(big.Int).Add(e.k, e.k2), e.a.dlog(q))
	}
	return r.Mod(r, q)
}

func scalarOf(G kyber.Group, k *big.Int) kyber.Scalar {
	s := G.Scalar()
	b := k.Bytes()
	if s.ByteOrder() == kyber.LittleEndian {
		sc.Rev(b)
	}
	return s.SetBytes(b)
}

// eval always uses fresh receivers and the returned point (no aliasing)
func (e *pexp) eval(G *grp) kyber.Point {
	switch e.op {
	case "null":
		return G.g.Point().Null()
	case "base":
		if G.suite != nil && !G.gtBase {
			return G.suite.Pair(G.g1.g.Point().Base(), G.g2.g.Point().Base())
		}
		return G.g.Point().Base()
	case "var":
		return e.pt.Clone()
	case "add":
		return G.g.Point().Add(e.a.eval(G), e.b.eval(G))
	case "sub":
		return G.g.Point().Sub(e.a.eval(G), e.b.eval(G))
	case "neg":
		return G.g.Point().Neg(e.a.eval(G))
	case "mul":
		return G.g.Point().Mul(scalarOf(G.g, e.k), e.a.eval(G))
	case "pair":
		return G.suite.Pair(e.a.eval(G.g1), e.b.eval(G.g2))
	case "subself": // the SAME object as both operands
		x := e.a.eval(G)
		return G.g.Point().Sub(x, x)
	case "addneg":
		x := e.a.eval(G)
		return G.g.Point().Add(x, G.g.Point().Neg(x))
	case "mulsum": // the scalar itself is the result of an operation
		s := G.g.Scalar().Add(scalarOf(G.g, e.k), scalarOf(G.g, e.k2))
		return G.g.Point().Mul(s, e.a.eval(G))
	}
	panic("bad pexp")
}

func null() *pexp            { return &pexp{op: "null"} }
func base() *pexp            { return &pexp{op: "base"} }
func add(a, b *pexp) *pexp   { return &pexp{op: "add", a: a, b: b} }
func sub(a, b *pexp) *pexp   { return &pexp{op: "sub", a: a, b: b} }
func neg(a *pexp) *pexp      { return &pexp{op: "neg", a: a} }
func pairE(a, b *pexp) *pexp { return &pexp{op: "pair", a: a, b: b} }
func subSelf(a *pexp) *pexp  { return &pexp{op: "subself", a: a} }
func addNeg(a *pexp) *pexp   { return &pexp{op: "addneg", a: a} }
func mulSum(k, k2 *big.Int, a *pexp) *pexp {
	return &pexp{op: "mulsum", k: new(big.Int).Set(k), k2: new(big.Int).Set(k2), a: a}
}
func mulI(k int64, a *pexp) *pexp { return mul(big.NewInt(k), a) }
func mul(k *big.Int, a *pexp) *pexp {
	return &pexp{op: "mul", k: new(big.Int).Set(k), a: a}
}

func modq(q *big.Int, v *big.Int) *big.Int { return new(big.Int).Mod(v, q) }

// a point of unknown logarithm: picked, embedded or hashed
func varPoint(G *grp, r *vh.Rng) *pexp {
	var pt kyber.Point
	how := ""
	for try := 0; try < 3 && pt == nil; try++ {
		switch r.Intn(3) {
		case 0:
			pan, _ := vh.Try(func() { pt = G.g.Point().Pick(vh.NewSeqStream(r.Bytes(16))) })
			if pan {
				pt = nil
			}
			how = "Pick"
		case 1:
			pan, _ := vh.Try(func() {
				p := G.g.Point()
				l := p.EmbedLen()
				if l > 8 {
					l = 8
				}
				if l <= 0 {
					return
				}
				pt = p.Embed(r.Bytes(l), vh.NewSeqStream(r.Bytes(16)))
			})
			if pan {
				pt = nil
			}
			how = "Embed"
		default:
			type hashable interface{ Hash([]byte) kyber.Point }
			pan, _ := vh.Try(func() {
				if h, ok := G.g.Point().(hashable); ok {
					pt = h.Hash(r.Bytes(12))
				}
			})
			if pan {
				pt = nil
			}
			how = "Hash"
		}
	}
	if pt == nil {
		return nil
	}
	return &pexp{op: "var", pt: pt, d: r.BigBelow(G.q), how: how}
}

func pool(G *grp, r *vh.Rng, forced *pexp) []*pexp {
	q := G.q
	k := r.EdgeScalar(q)
	k1 := r.EdgeScalar(q)
	one := big.NewInt(1)
	B := base()
	var out []*pexp
	if G.suite != nil { // GT: pairing outputs
		a, b := r.EdgeScalar(q), r.EdgeScalar(q)
		ab := modq(q, new(big.Int).Mul(a, b))
		E := pairE(base(), base())
		cands := []*pexp{
			null(), sub(E, E), pairE(null(), base()), pairE(base(), null()),
			E, pairE(mulI(1, base()), base()), neg(neg(E)),
			pairE(mul(a, base()), mul(b, base())), mul(ab, E), pairE(base(), mul(ab, base())), pairE(mul(ab, base()), base()),
			add(pairE(mul(a, base()), base()), pairE(base(), mul(b, base()))), mul(modq(q, new(big.Int).Add(a, b)), E),
			neg(E), pairE(neg(base()), base()), pairE(base(), neg(base())), mul(modq(q, new(big.Int).Sub(q, one)), E),
			add(E, E), mulI(2, E), pairE(mulI(2, base()), base()), pairE(add(base(), base()), base()),
		}
		if G.gtBase {
			cands = append(cands, B, mul(ab, B), add(B, null()))
		}
		for _, c := range cands {
			if r.Chance(65) {
				out = append(out, c)
			}
		}
		return out
	}
	X := mul(k, B)
	cands := []*pexp{
		null(), sub(B, B), mulI(0, B), add(X, neg(X)), mul(q, B),
		B, mulI(1, B), add(null(), B), neg(neg(B)), sub(B, null()),
		add(B, B), mulI(2, B), neg(mul(modq(q, new(big.Int).Sub(q, big.NewInt(2))), B)),
		X, add(mul(k1, B), mul(modq(q, new(big.Int).Sub(k, k1)), B)), sub(mul(modq(q, new(big.Int).Add(k, one)), B), B),
		mul(k, mulI(1, B)), neg(mul(modq(q, new(big.Int).Sub(q, k)), B)),
		mul(modq(q, new(big.Int).Sub(q, one)), B), neg(B), sub(null(), B),
		mul(k1, X), mul(modq(q, new(big.Int).Mul(k, k1)), B),
	}
	H := forced
	if H == nil {
		H = varPoint(G, r)
	}
	if H != nil {
		if forced != nil { // make sure the crafted point itself and its closest relatives are in
			out = append(out, H, neg(H), mulI(1, H), sub(add(H, B), B))
		}
		cands = append(cands, H, add(H, null()), sub(add(H, B), B), add(H, H), mulI(2, H), mul(k, H),
			add(mul(k1, H), mul(modq(q, new(big.Int).Sub(k, k1)), H)), neg(mul(modq(q, new(big.Int).Sub(q, k)), H)),
			add(H, neg(H)), mul(q, H))
	}
	for _, c := range cands {
		if r.Chance(50) {
			out = append(out, c)
		}
	}
	return out
}

// pointBattery evaluates clauses (a), (b), (d), (e) of the property on one point
// and returns its encoding.
func (g *gen) pointBattery(G *grp, p kyber.Point, path string, r *vh.Rng, light bool) ([]byte, bool) {
	key := "enc/point/" + G.name
	replay := map[string]string{"group": G.name, "path": path}
	// (e) encoding does not change the value: clone first, compare afterwards
	var before kyber.Point
	vh.Try(func() { before = p.Clone() })
	b, err := p.MarshalBinary()
	if err != nil {
		g.rep.Fail(key+"/MarshalBinary/error", err.Error(), replay)
		return nil, false
	}
	replay["bytes"] = vh.Hex(b)
	// (a) lengths
	if len(b) != p.MarshalSize() || len(b) != G.g.PointLen() {
		g.rep.Fail(key+"/length", fmt.Sprintf("len %d, MarshalSize %d, PointLen %d", len(b), p.MarshalSize(), G.g.PointLen()), replay)
	}
	b2, _ := p.MarshalBinary()
	if string(b2) != string(b) {
		g.rep.Fail(key+"/MarshalBinary/not-repeatable", "two MarshalBinary calls differ", replay)
	}
	if before != nil && (!before.Equal(p) || !p.Equal(before)) {
		g.rep.Fail(key+"/value-changed-by-encoding", "the point is no longer Equal to its clone taken before MarshalBinary", replay)
	}
	if before != nil {
		bb, _ := before.MarshalBinary()
		if string(bb) != string(b) {
			g.rep.Fail(key+"/clone-encodes-differently", "clone and original encode differently", replay)
		}
	}
	// (b) decode succeeds, Equal, re-encode identical
	t := G.g.Point()
	if err := t.UnmarshalBinary(append([]byte{}, b...)); err != nil {
		g.rep.Fail(key+"/UnmarshalBinary/own-encoding-rejected", err.Error(), replay)
	} else {
		if !t.Equal(p) || !p.Equal(t) {
			g.rep.Fail(key+"/roundtrip-not-Equal", "decode(encode(P)) is not Equal to P", replay)
		}
		if rb, _ := t.MarshalBinary(); string(rb) != string(b) {
			replay["reenc"] = vh.Hex(rb)
			g.rep.Fail(key+"/reencode-differs", "re-encoding is not byte-identical", replay)
		}
	}
	if light { // clauses (a), (b), (e) only: the wrappers of this value class are exercised elsewhere
		return b, true
	}
	// (d) stream wrappers and hex helpers
	var buf bytes.Buffer
	pre := r.Bytes(r.Intn(8))
	buf.Write(pre)
	n, err := p.MarshalTo(&buf)
	if err != nil || n != len(b) || string(buf.Bytes()) != string(pre)+string(b) {
		g.rep.Fail(key+"/MarshalTo", "MarshalTo does not append exactly MarshalBinary", replay)
	}
	tail := r.Bytes(r.Intn(2) * 5)
	under := bytes.NewReader(append(append([]byte{}, b...), tail...))
	um := r.Intn(len(readerModes))
	if um == 3 || um == 4 {
		tail = nil
		under = bytes.NewReader(append([]byte{}, b...))
	}
	t2 := G.g.Point()
	n, err = t2.UnmarshalFrom(wrapReader(um, under))
	if err != nil || n != len(b) || under.Len() != len(tail) || !t2.Equal(p) {
		g.rep.Fail(key+"/UnmarshalFrom/"+readerModes[um], fmt.Sprintf("UnmarshalFrom: n=%d err=%v left=%d", n, err, under.Len()), replay)
	}
	g.rep.Dist("point-reader/" + readerModes[um])
	if len(b) > 0 {
		t3 := G.g.Point()
		cut := r.Intn(len(b))
		n, err = t3.UnmarshalFrom(wrapReader(r.Intn(len(readerModes)), bytes.NewReader(b[:cut])))
		if err == nil || n != cut {
			g.rep.Fail(key+"/UnmarshalFrom/short-reader", fmt.Sprintf("short reader: n=%d err=%v", n, err), replay)
		}
	}
	hs, err := kenc.PointToStringHex(G.g, p)
	var hb bytes.Buffer
	err2 := kenc.WriteHexPoint(&hb, p)
	if err != nil || err2 != nil || hs != hex.EncodeToString(b) || hb.String() != hs {
		g.rep.Fail(key+"/hex/write", "hex helpers do not carry exactly the MarshalBinary bytes", replay)
	}
	if t4, err := kenc.StringHexToPoint(G.g, hs); err != nil || !t4.Equal(p) {
		g.rep.Fail(key+"/hex/read", fmt.Sprintf("StringHexToPoint: %v", err), replay)
	} else if rb, _ := t4.MarshalBinary(); string(rb) != string(b) {
		g.rep.Fail(key+"/hex/read", "hex round trip re-encodes differently", replay)
	}
	hm := 1 + r.Intn(4)
	if t5, err := kenc.ReadHexPoint(G.g, wrapReader(hm, bytes.NewReader([]byte(hs)))); err != nil || !t5.Equal(p) {
		replay["reader"] = readerModes[hm]
		g.rep.Fail("enc/hex/ReadHexPoint/"+readerModes[hm], fmt.Sprintf("ReadHexPoint fails on a legal reader (%s): %v", readerModes[hm], err), replay)
	} else if rb, _ := t5.MarshalBinary(); string(rb) != string(b) {
		g.rep.Fail("enc/hex/ReadHexPoint/"+readerModes[hm], "ReadHexPoint re-encodes differently", replay)
	}
	return b, true
}

func (g *gen) pointPool(G *grp, r *vh.Rng, exprs []*pexp) { g.pointPoolL(G, r, exprs, -1) }

// entries from index lightFrom on (if >= 0) get the battery without the stream/hex wrappers
func (g *gen) pointPoolL(G *grp, r *vh.Rng, exprs []*pexp, lightFrom int) {
	g.id++
	if exprs == nil {
		exprs = pool(G, r, nil)
	}
	key := "enc/point/" + G.name
	type ent struct {
		e   *pexp
		p   kyber.Point
		b   []byte
		cls int
		dl  *big.Int
	}
	var ents []ent
	for i, e := range exprs {
		var p kyber.Point
		pan, msg := vh.Try(func() { p = e.eval(G) })
		if pan || p == nil {
			g.rep.Dist("unsupported/" + G.name + ": " + firstLine(msg))
			continue
		}
		b, ok := g.pointBattery(G, p, e.String(), r, lightFrom >= 0 && i >= lightFrom)
		if !ok {
			continue
		}
		ents = append(ents, ent{e: e, p: p, b: b, cls: -1, dl: e.dlog(G.q)})
	}
	// (c) Equal <=> identical bytes, over all pairs; classes under Equal
	for i := range ents {
		for j := 0; j <= i; j++ {
			eq := ents[i].p.Equal(ents[j].p)
			eq2 := ents[j].p.Equal(ents[i].p)
			same := string(ents[i].b) == string(ents[j].b)
			if eq != same || eq2 != same {
				g.rep.Fail(key+"/Equal-vs-bytes", fmt.Sprintf("Equal=%v/%v, identical bytes=%v", eq, eq2, same),
					map[string]string{"group": G.name, "path1": ents[i].e.String(), "path2": ents[j].e.String(),
						"bytes1": vh.Hex(ents[i].b), "bytes2": vh.Hex(ents[j].b)})
			}
			// the same question decided independently of the implementation's Equal
			if sameElt := ents[i].dl.Cmp(ents[j].dl) == 0; sameElt != same {
				g.rep.Fail(key+"/bytes-vs-group-element", fmt.Sprintf("same group element=%v but identical bytes=%v", sameElt, same),
					map[string]string{"group": G.name, "path1": ents[i].e.String(), "path2": ents[j].e.String(),
						"bytes1": vh.Hex(ents[i].b), "bytes2": vh.Hex(ents[j].b)})
			}
			if eq && ents[i].cls < 0 {
				ents[i].cls = j
			}
		}
		if ents[i].cls < 0 {
			ents[i].cls = i
		}
	}
	var items []string
	var paths []string
	for _, e := range ents {
		items = append(items, fmt.Sprintf("(%s, %s, %d)", e.e.coq(), vh.CoqBytes(e.b), e.cls))
		paths = append(paths, e.e.String())
	}
	g.rep.Dist("points/" + G.name)
	g.rep.DistN("point-values/"+G.name, len(ents))
	g.add(fmt.Sprintf("CPoints %d %s %d %s", g.id, vh.CoqZ(G.q), G.g.PointLen(), vh.CoqList(items)),
		map[string]interface{}{"group": G.name, "paths": paths}, len(ents) > 1)
}

// ---------------------------------------------------------------- crafted coordinates

// Points whose affine coordinates have leading zero bytes (any number of
// them) are ordinary group elements that random sampling never meets
// (probability 2^-8 per byte).  For the codecs whose layout is a plain
// fixed-width coordinate list the harness computes such points itself (from
// the public curve equations), obtains them from the implementation by
// decoding their canonical encoding, and demands the canonical bytes back -
// directly, after Neg, and after arithmetic that leaves them in non-normalised
// internal coordinates.

type crafted struct {
	canon     []byte
	coords    []*big.Int // what the Coq layout model encodes
	negCanon  []byte
	negCoords []*big.Int
	prefix    []byte
	w         int
	le        bool
	z         int
}

func bigDec(s string) *big.Int {
	v, ok := new(big.Int).SetString(s, 10)
	if !ok {
		panic("bad number")
	}
	return v
}

var (
	bn256P = bigDec("65000549695646603732796438742359905742825358107623003571877145026864184071783")
	bn254P = bigDec("21888242871839275222246405745257275088696311157297823662689037894645226208583")
	qr512P = bigDec("10198267722357351868598076141027380280417188309231803909918464305012113541414604537422741096561285049775792035177041672305646773132014126091142862443826263")
	edP    = new(big.Int).Sub(new(big.Int).Lsh(big.NewInt(1), 255), big.NewInt(19))
	edD    = func() *big.Int {
		d := new(big.Int).ModInverse(big.NewInt(121666), edP)
		d.Mul(d, big.NewInt(-121665))
		return d.Mod(d, edP)
	}()
)

// a value of exactly w-z significant bytes (z leading zero bytes in a w-byte field)
func withLeadingZeros(w, z int, r *vh.Rng) *big.Int {
	if z >= w {
		return new(big.Int)
	}
	lo := new(big.Int).Lsh(big.NewInt(1), uint(8*(w-1-z)))
	span := new(big.Int).Mul(lo, big.NewInt(255))
	v := r.BigBelow(span)
	if r.Chance(20) { // the smallest values of the range
		v.SetInt64(int64(r.Intn(16)))
	}
	return v.Add(v, lo)
}

func fixed(w int, v *big.Int, le bool) []byte {
	b := v.FillBytes(make([]byte, w))
	if le {
		sc.Rev(b)
	}
	return b
}

// short Weierstrass y^2 = x^3 + a*x + b over p: a point whose x has z leading zero bytes
func craftWeierstrass(p, a, b *big.Int, prefix []byte, z int, r *vh.Rng) *crafted {
	x := withLeadingZeros(32, z, r)
	for try := 0; try < 400; try++ {
		rhs := new(big.Int).Mul(x, x)
		rhs.Add(rhs, a).Mul(rhs, x).Add(rhs, b).Mod(rhs, p)
		if y := new(big.Int).ModSqrt(rhs, p); y != nil && x.Cmp(p) < 0 {
			if r.Bool() {
				y.Sub(p, y).Mod(y, p)
			}
			ny := new(big.Int).Sub(p, y)
			ny.Mod(ny, p)
			mk := func(yy *big.Int) []byte {
				return append(append(append([]byte{}, prefix...), fixed(32, x, false)...), fixed(32, yy, false)...)
			}
			return &crafted{canon: mk(y), coords: []*big.Int{x, y}, negCanon: mk(ny), negCoords: []*big.Int{x, ny},
				prefix: prefix, w: 32, z: z}
		}
		x = new(big.Int).Add(x, big.NewInt(1))
	}
	return nil
}

func craft(G *grp, r *vh.Rng) *crafted {
	zs := []int{1, 2, 2, 3, 4, 7, 8, 15, 16, 23, 29, 30, 31}
	z := zs[r.Intn(len(zs))]
	switch G.name {
	case "p256":
		c := elliptic.P256().Params()
		return craftWeierstrass(c.P, big.NewInt(-3), c.B, []byte{4}, z, r)
	case "bn256.G1":
		return craftWeierstrass(bn256P, big.NewInt(0), big.NewInt(3), nil, z, r)
	case "bn254.G1":
		return craftWeierstrass(bn254P, big.NewInt(0), big.NewInt(3), nil, z, r)
	case "qr512": // squares of short integers: residues with many leading zero bytes
		zz := []int{1, 2, 3, 8, 16, 31, 32, 33, 48, 60, 62, 63}[r.Intn(12)]
		lo := new(big.Int).Lsh(big.NewInt(1), uint(8*(63-zz)))
		s := new(big.Int).Sqrt(lo)
		s.Add(s, big.NewInt(int64(1+r.Intn(200))))
		v := new(big.Int).Mul(s, s)
		if v.BitLen() > 8*(64-zz) || v.Cmp(qr512P) >= 0 {
			return nil
		}
		return &crafted{canon: fixed(64, v, false), coords: []*big.Int{v}, w: 64, z: zz}
	case "edwards25519", "edwards25519vartime", "edwards25519vartime.ext":
		y := withLeadingZeros(32, z, r)
		for try := 0; try < 400; try++ {
			y2 := new(big.Int).Mul(y, y)
			u := new(big.Int).Sub(y2, big.NewInt(1))
			v := new(big.Int).Mul(edD, y2)
			v.Add(v, big.NewInt(1)).Mod(v, edP)
			u.Mul(u, new(big.Int).ModInverse(v, edP)).Mod(u, edP)
			if x := new(big.Int).ModSqrt(u, edP); x != nil && x.Sign() != 0 {
				if r.Bool() {
					x.Sub(edP, x)
				}
				val := func(xx *big.Int) *big.Int {
					return new(big.Int).Add(y, new(big.Int).Lsh(big.NewInt(int64(xx.Bit(0))), 255))
				}
				nx := new(big.Int).Sub(edP, x)
				return &crafted{canon: fixed(32, val(x), true), coords: []*big.Int{val(x)},
					negCanon: fixed(32, val(nx), true), negCoords: []*big.Int{val(nx)}, w: 32, le: true, z: z}
			}
			y = new(big.Int).Add(y, big.NewInt(1))
		}
	}
	return nil
}

func (c *crafted) coq(id int, coords []*big.Int, b []byte) string {
	bo := 1
	if c.le {
		bo = 0
	}
	var cs []string
	for _, v := range coords {
		cs = append(cs, vh.CoqZ(v))
	}
	return fmt.Sprintf("CCoord %d %d %d %s %s %s", id, bo, c.w, vh.CoqBytes(c.prefix), vh.CoqList(cs), vh.CoqBytes(b))
}

// prime-order groups in which a decoded point is certainly a group element
// with a logarithm (cofactor 1 / validated membership): it may join a pool
func poolSafe(G *grp) bool {
	return G.name == "p256" || G.name == "bn256.G1" || G.name == "bn254.G1" || G.name == "qr512"
}

func (g *gen) craftedCase(G *grp, r *vh.Rng) {
	c := craft(G, r)
	if c == nil {
		return
	}
	key := "enc/point/" + G.name + "/leading-zero-coordinate"
	replay := map[string]string{"group": G.name, "canonical": vh.Hex(c.canon), "leading_zero_bytes": fmt.Sprint(c.z)}
	t := G.g.Point()
	var err error
	if pan, _ := vh.Try(func() { err = t.UnmarshalBinary(append([]byte{}, c.canon...)) }); pan || err != nil {
		// the implementation may refuse elements outside its subgroup: no claim
		g.rep.Dist("crafted-not-accepted/" + G.name)
		return
	}
	g.id++
	b, ok := g.pointBattery(G, t, fmt.Sprintf("Decode(canonical encoding, coordinate with %d leading zero bytes)", c.z), r, false)
	if !ok {
		return
	}
	if string(b) != string(c.canon) {
		replay["got"] = vh.Hex(b)
		g.rep.Fail(key+"/reencode", "a point decoded from its canonical encoding encodes to different bytes", replay)
	}
	g.rep.Dist("crafted/" + G.name)
	g.rep.Dist(fmt.Sprintf("crafted-leading-zero-bytes/%d", c.z))
	g.add(c.coq(g.id, c.coords, b), replay, true)
	// the same element after arithmetic (non-normalised internal coordinates)
	for _, alt := range []struct {
		how string
		f   func() kyber.Point
	}{
		{"Mul(1,P)", func() kyber.Point { return G.g.Point().Mul(scalarOf(G.g, big.NewInt(1)), t) }},
		{"Sub(Add(P,B),B)", func() kyber.Point {
			B := G.g.Point().Base()
			return G.g.Point().Sub(G.g.Point().Add(t, B), B)
		}},
		{"Neg(Neg(P))", func() kyber.Point { return G.g.Point().Neg(G.g.Point().Neg(t)) }},
	} {
		var pt kyber.Point
		if pan, _ := vh.Try(func() { pt = alt.f() }); pan || pt == nil {
			continue
		}
		if ab, err := pt.MarshalBinary(); err != nil || string(ab) != string(c.canon) {
			replay["path"], replay["got"] = alt.how, vh.Hex(ab)
			g.rep.Fail(key+"/after-arithmetic", "the same element reached through arithmetic encodes differently", replay)
		}
	}
	if c.negCanon != nil {
		var nb []byte
		vh.Try(func() { nb, _ = G.g.Point().Neg(t).MarshalBinary() })
		if string(nb) != string(c.negCanon) {
			replay["got"], replay["want"] = vh.Hex(nb), vh.Hex(c.negCanon)
			g.rep.Fail(key+"/neg", "Neg(P) does not encode to the canonical encoding of the negated coordinates", replay)
		}
		g.id++
		g.add(c.coq(g.id, c.negCoords, nb), replay, true)
	}
	if poolSafe(G) {
		H := &pexp{op: "var", pt: t, d: r.BigBelow(G.q), how: fmt.Sprintf("crafted,%d leading zero bytes", c.z)}
		// the smallest crafted x can be the generator's (BN G1: B = (1,2)): then the logarithm is known
		if B := G.g.Point().Base(); t.Equal(B) {
			H.d = big.NewInt(1)
		} else if t.Equal(G.g.Point().Neg(B)) {
			H.d = new(big.Int).Sub(G.q, big.NewInt(1))
		}
		g.pointPool(G, r, pool(G, r, H))
	}
}

// multiples i*B reached by repeated addition; those whose encoding has a zero
// byte at the start of a 16-byte aligned field (a coordinate with a leading
// zero byte, in every group, for every codec) and a few others get the full
// battery and a pool together with Mul(i, B)
func (g *gen) scanCase(G *grp, r *vh.Rng, n int) {
	var acc, B kyber.Point
	if pan, _ := vh.Try(func() { B = base().eval(G); acc = G.g.Point().Null() }); pan || B == nil {
		return
	}
	var exprs []*pexp
	for i := 1; i <= n && len(exprs) < 12; i++ {
		var b []byte
		if pan, _ := vh.Try(func() { acc = G.g.Point().Add(acc, B); b, _ = acc.MarshalBinary() }); pan || b == nil {
			return
		}
		hit := false
		for o := 0; o+16 <= len(b); o += 16 {
			if (b[o] == 0 && o > 0) || (o+1 < len(b) && b[o+1] == 0 && b[o] != 0 && len(b)%16 == 1) {
				hit = true
			}
		}
		if hit || r.Intn(n) < 2 {
			if hit {
				g.rep.Dist("scan-zero-byte/" + G.name)
			}
			exprs = append(exprs, &pexp{op: "var", pt: acc.Clone(), d: big.NewInt(int64(i)), how: fmt.Sprintf("B added %d times", i)},
				mulI(int64(i), base()))
		}
	}
	if len(exprs) > 0 {
		g.pointPool(G, r, exprs)
	}
}

func firstLine(s string) string {
	if i := strings.IndexByte(s, '\n'); i >= 0 {
		s = s[:i]
	}
	if len(s) > 60 {
		s = s[:60]
	}
	return s
}

func order(G kyber.Group) *big.Int { return new(big.Int).Set(G.Scalar().GroupOrder().ToBigInt()) }

func groups(rep *vh.Report) []*grp {
	var out []*grp
	plain := func(name string, G kyber.Group) *grp {
		x := &grp{name: name, g: G, q: order(G)}
		out = append(out, x)
		return x
	}
	plain("edwards25519", edwards25519.NewBlakeSHA256Ed25519())
	plain("edwards25519vartime", edwards25519vartime.NewBlakeSHA256Ed25519(false))
	plain("edwards25519vartime.ext", new(edwards25519vartime.ExtendedCurve).InitCurve(edwards25519vartime.ParamEd25519(), false))
	plain("p256", p256.NewBlakeSHA256P256())
	plain("qr512", p256.NewBlakeSHA256QR512())
	addPairing := func(name string, s pairing.Suite) {
		g1 := plain(name+".G1", s.G1())
		g2 := plain(name+".G2", s.G2())
		gt := &grp{name: name + ".GT", g: s.GT(), q: order(s.G1()), suite: s, g1: g1, g2: g2}
		pan, _ := vh.Try(func() {
			gt.gtBase = s.GT().Point().Base().Equal(s.Pair(s.G1().Point().Base(), s.G2().Point().Base()))
		})
		if pan {
			gt.gtBase = false
		}
		out = append(out, gt)
	}
	addPairing("bn256", bn256.NewSuite())
	addPairing("bn254", bn254.NewSuite())
	addPairing("kilic", kilic.NewBLS12381Suite())
	addPairing("circl", circl.NewSuiteBLS12381())
	addPairing("gnark", gnark.NewSuiteBLS12381())
	for _, G := range out { // advertised scalar length
		s := G.g.Scalar()
		if b, err := s.MarshalBinary(); err != nil || len(b) != G.g.ScalarLen() || s.MarshalSize() != G.g.ScalarLen() {
			rep.Fail("enc/scalar-length/"+G.name, "ScalarLen differs from the encoded length", map[string]string{"group": G.name})
		}
	}
	return out
}

func main() {
	o := vh.ParseFlags()
	if pf := os.Getenv("C03_PROF"); pf != "" {
		f, _ := os.Create(pf)
		pprof.StartCPUProfile(f)
		defer pprof.StopCPUProfile()
	}
	rng := vh.NewRng(o.Seed)
	rep := vh.NewReport("C03", o.Seed, o.Tier)
	rep.Rule = "scalars, per implementation (ed25519, mod.Int for P-256/BN256/BN254/kilic/QR-512 and synthetic moduli in both byte orders, CIRCL, gnark): reduced values {0,1,q-1,small,2^k,edge-biased operands} reached via arithmetic/SetBytes/Neg/Pick/UnmarshalBinary -> MarshalBinary, UnmarshalBinary, re-encoding, Equal; MarshalTo onto a pre-filled writer; UnmarshalFrom through plain/one-byte/half readers with tails and truncated inputs; hex helpers (upper/lower case, tails, truncated). points, per group (edwards25519, 3 vartime curves, P-256, QR-512, G1/G2/GT of bn256, bn254, kilic, CIRCL, gnark): pools of values reached by different computation paths (Null, B-B, 0*B, q*B, B+B, 2B, -(q-2)B, kB three ways, picked/embedded/hashed points and their multiples, pairing outputs): partition by model logarithm = partition by bytes = partition by Equal; points with 1..31 (63) leading zero bytes in a coordinate, computed by the harness from the curve equations (P-256, BN256/BN254 G1, residue group, Ed25519 x3), decoded and re-encoded directly / after Neg / after arithmetic, byte-exact against the fixed-width layout model; multiples i*B by repeated addition selected for zero bytes at field starts; every reader-based helper driven with plain / one-byte / half / data+EOF (one chunk, single bytes) / empty-read readers. object histories (history.go), for every scalar implementation and every group (plus two further vartime curve objects, oracles only): receiver - UnmarshalBinary, UnmarshalFrom, SetBytes (empty, minimal, full, long), SetInt64 (0, 1, -1, small, large, negative), Zero, One, Set, Pick / point UnmarshalBinary and UnmarshalFrom of the identity, B, -B, kB, Null, Base, Set, Pick, Embed are executed on a fresh object and on dirty ones (holding 0/identity, 1/base, q-1/-B, a full-width or small value, a product / a Mul or Add result in projective coordinates, Sub(A,A), a picked value, a value decoded once or twice, whatever a refused decode of a short / out-of-range / garbage buffer left, an object cleared by Null): same encoding, Equal, String and same result of a later addition as on the fresh receiver, and the canonical bytes of the known value (scalars: some handed to the model as CScalar); buffer - the slice handed to UnmarshalBinary/SetBytes/Embed sits inside a larger array that is compared with a snapshot afterwards, is decoded a second time, then overwritten and the object re-encoded; slices returned by MarshalBinary/Data are overwritten and the object re-encoded; provenance - scalars Neg(0), Sub(a,a), Add(a,Neg(a)), Add(q-1,1), Mul(a,0), Inv(1), Div(a,a), Neg(Neg(a)), SetInt64(negative), SetBytes(long) ...: canonical bytes (CScalar), Equal to the decoded value, Equal iff same bytes pairwise; points Neg(Null), Neg(Neg(Null)), Sub(X,X) and Add(X,Neg(X)) on ONE object, 0*A, q*A, Mul by the scalars Add(q-1,1) / Add(k,-k), k*Null, Null+Null, pairings with an identity argument, and finite values after Neg(Neg), (A+B)-B, A+Null, (q-1)*A: one pool per group with the battery on each, partition by logarithm = by bytes = by Equal (CPoints), identity encodings byte for byte against Null() and against the layout model (CCoord: P-256, BN G1, residue, Ed25519 x3); a decoded identity encoding joins every provenance pool. special values (special.go): per group a list of special byte strings is offered to the decoder (identity encoding, all-zero, all-zero with the top bit of the last / first byte, first byte 4 / 0x40 / 0xc0, 1 and 2 little endian, 1 with the sign bit, 1 big endian, all-ones; Edwards curves: y=-1 with and without sign bit, y=-2, the four order-8 points of Ed25519; P-256 / BN G1: the points with x=0); every accepted one gets the battery, and together with its negation, double, sums with another special point and with kB, and the ordinary points Null, B, kB, -kB, decode(enc kB) forms a set over which Equal(a,b) == identical encodings is evaluated for EVERY ordered pair (diagonal included) and, outside GT, == (a-b encodes as the identity); special scalars {0,1,2,255,256,q-1,q-2,(q-1)/2,(q+1)/2,2^8k,2^8k-1,random} x {decoded, Sub(v+1,1), Neg(-v)}: Equal == identical encodings == same residue for every ordered pair. distinct = distinct canonical case text; non-trivial = non-zero value / pool of >= 2 points"
	g := &gen{rep: rep, search: o.Search}
	insts := sc.Instances()
	nScalar, nPools, nCrafted, nScan := 1500, 4, 6, 200
	nHist, nHistEmit := 1, 4
	if o.Thorough {
		nScalar, nPools, nCrafted, nScan = 12000, 40, 60, 1500
		nHist, nHistEmit = 6, 20
	}
	if o.Search {
		nScalar, nPools, nCrafted, nHist = nScalar*6, nPools*4, nCrafted*6, nHist*4
	}
	wsum := 0
	for _, in := range insts {
		wsum += in.Weight
	}
	for _, in := range insts {
		r := rng.Fork()
		n := nScalar * in.Weight / wsum
		for k := 0; k < n; k++ {
			c := r.Fork()
			switch x := c.Intn(100); {
			case x < 50:
				g.scalarCase(in, c)
			case x < 60:
				g.scalarPairOracle(in, c)
			default:
				g.streamCases(in, c)
			}
		}
		g.scalarHistory(in, r.Fork(), nHistEmit)
		g.specialScalars(in, r.Fork())
	}
	for _, G := range groups(rep) {
		r := rng.Fork()
		n := nPools
		if G.suite != nil || strings.HasPrefix(G.name, "qr") {
			n = (n + 1) / 2
		}
		for k := 0; k < n; k++ {
			g.pointPool(G, r.Fork(), nil)
		}
		for k := 0; k < nCrafted; k++ {
			g.craftedCase(G, r.Fork())
		}
		g.scanCase(G, r.Fork(), nScan)
		for k := 0; k < nHist; k++ {
			g.pointHistory(G, r.Fork(), true)
		}
	}
	for _, G := range extraHistoryGroups() {
		g.pointHistory(G, rng.Fork(), false)
	}
	if !o.Search {
		cf := &vh.CaseFile{Header: "From Kyber Require Import Codec.EncSM Codec.EncRun.", Type: "case", Runner: "mismatches", Items: g.items}
		per := 120
		if o.Thorough {
			per = 250
		}
		vh.WriteShards(o.Out, "c03", cf, per, rep)
	}
	rep.Write(o.Out)
}
