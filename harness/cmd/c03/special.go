// Special values (property C03, third red-team round): an Equal that is wrong
// only for a RELATION between two special points (the two order-4 points of an
// Edwards curve, (x,0) and (-x,0)) is never met by pools of prime-order values.
// Special points are reachable from the API by decoding their encodings (no
// decoder here checks subgroup membership).  For every group the harness
// offers a list of special byte strings to the decoder; whatever is accepted,
// together with negations, doublings, sums with each other and with ordinary
// points, forms a set over which the FULL matrix
//
//	Equal(a,b) == bytes.Equal(enc a, enc b) == (enc(a-b) == enc(Null))
//
// is evaluated in both argument orders.  Same for special scalars.
package main

import (
	"bytes"
	"crypto/elliptic"
	"encoding/hex"
	"fmt"
	"math/big"
	"strings"

	"go.dedis.ch/kyber/v4"

	"kyverif/sc"
	"kyverif/vh"
)

type specialEnc struct {
	name string
	b    []byte
}

func pow2m(k uint, d int64) *big.Int {
	v := new(big.Int).Lsh(big.NewInt(1), k)
	return v.Sub(v, big.NewInt(d))
}

// field primes of the Edwards curves covered
func edwardsField(name string) *big.Int {
	switch {
	case strings.HasSuffix(name, ".1174"):
		return pow2m(251, 9)
	case strings.HasSuffix(name, ".E382"):
		return pow2m(382, 105)
	case strings.HasPrefix(name, "edwards25519"):
		return edP
	}
	return nil
}

func specialEncodings(G *grp, c *pCtx) []specialEnc {
	n := G.g.PointLen()
	var out []specialEnc
	add := func(name string, b []byte) {
		if len(b) == n {
			out = append(out, specialEnc{name, b})
		}
	}
	pat := func(f func(b []byte)) []byte { b := make([]byte, n); f(b); return b }
	add("identity encoding", append([]byte{}, c.encNull...))
	add("all-zero", pat(func(b []byte) {}))
	add("all-zero, top bit of the last byte", pat(func(b []byte) { b[n-1] = 0x80 }))
	add("all-zero, top bit of the first byte", pat(func(b []byte) { b[0] = 0x80 }))
	add("all-zero, first byte 0x40", pat(func(b []byte) { b[0] = 0x40 }))
	add("all-zero, first byte 0xc0", pat(func(b []byte) { b[0] = 0xc0 }))
	add("all-zero, first byte 4", pat(func(b []byte) { b[0] = 4 }))
	add("1 little endian", pat(func(b []byte) { b[0] = 1 }))
	add("1 little endian, sign bit", pat(func(b []byte) { b[0] = 1; b[n-1] |= 0x80 }))
	add("1 big endian", pat(func(b []byte) { b[n-1] = 1 }))
	add("2 little endian", pat(func(b []byte) { b[0] = 2 }))
	add("all-ones", pat(func(b []byte) {
		for i := range b {
			b[i] = 0xff
		}
	}))
	if p := edwardsField(G.name); p != nil { // y = -1 (order 2), with and without the sign bit; y = p-2
		m1 := fixed(n, new(big.Int).Sub(p, big.NewInt(1)), true)
		add("y=-1", m1)
		add("y=-1, sign bit", pat(func(b []byte) { copy(b, m1); b[n-1] |= 0x80 }))
		add("y=-2", fixed(n, new(big.Int).Sub(p, big.NewInt(2)), true))
	}
	if strings.HasPrefix(G.name, "edwards25519") && edwardsField(G.name) == edP { // the points of order 8
		for _, h := range []string{
			"26e8958fc2b227b045c3f489f2ef98f0d5dfac05d3c63339b13802886d53fc05",
			"26e8958fc2b227b045c3f489f2ef98f0d5dfac05d3c63339b13802886d53fc85",
			"c7176a703d4dd84fba3c0b760d10670f2a2053fa2c39ccc64ec7fd7792ac037a",
			"c7176a703d4dd84fba3c0b760d10670f2a2053fa2c39ccc64ec7fd7792ac03fa"} {
			b, _ := hex.DecodeString(h)
			add("order-8 point "+h[:8]+".."+h[62:], b)
		}
	}
	// short Weierstrass: the points with x = 0
	wz := func(p, b *big.Int, prefix []byte) {
		if y := new(big.Int).ModSqrt(new(big.Int).Mod(b, p), p); y != nil {
			for _, yy := range []*big.Int{y, new(big.Int).Sub(p, y)} {
				add("x=0", append(append(append([]byte{}, prefix...), make([]byte, 32)...), fixed(32, yy, false)...))
			}
		}
	}
	switch G.name {
	case "p256":
		cp := elliptic.P256().Params()
		wz(cp.P, cp.B, []byte{4})
	case "bn256.G1":
		wz(bn256P, big.NewInt(3), nil)
	case "bn254.G1":
		wz(bn254P, big.NewInt(3), nil)
	}
	return out
}

type spPoint struct {
	name string
	p    kyber.Point
	b    []byte
}

func (g *gen) specialPoints(G *grp, c *pCtx, r *vh.Rng) {
	base := "enc/point/" + G.name
	var sp []spPoint
	decode := func(b []byte) kyber.Point {
		p := G.g.Point()
		var err error
		if pan, _ := vh.Try(func() { err = p.UnmarshalBinary(append([]byte{}, b...)) }); pan || err != nil {
			return nil
		}
		return p
	}
	push := func(name string, f func() kyber.Point) {
		var p kyber.Point
		var b []byte
		if pan, _ := vh.Try(func() { p = f(); b = mustBytes(p) }); pan || p == nil || b == nil {
			return
		}
		sp = append(sp, spPoint{name, p, b})
	}
	nDecoded := 0
	for _, e := range specialEncodings(G, c) {
		e := e
		p := decode(e.b)
		if p == nil {
			g.rep.Dist("special:point/refused/" + e.name)
			continue
		}
		g.rep.Dist("special:point/accepted/" + e.name)
		nDecoded++
		// the clauses of the property on the special point itself
		if b, ok := g.pointBattery(G, p, "Decode("+e.name+" = "+vh.Hex(e.b)+")", r, false); ok {
			sp = append(sp, spPoint{"Decode(" + e.name + ")", p, b})
		}
	}
	dec := append([]spPoint{}, sp...)
	// relatives of the special points: negation, doubling, sums with each other and with an ordinary point
	for i, s := range dec {
		s := s
		if len(sp) > 40 {
			break
		}
		push("Neg("+s.name+")", func() kyber.Point { return G.g.Point().Neg(s.p) })
		push("Add("+s.name+","+s.name+")", func() kyber.Point { return G.g.Point().Add(s.p, s.p) })
		push("Add("+s.name+",kB)", func() kyber.Point { return G.g.Point().Add(s.p, c.fin) })
		if len(dec) > 1 {
			o := dec[(i+1+r.Intn(len(dec)-1))%len(dec)]
			push("Add("+s.name+","+o.name+")", func() kyber.Point { return G.g.Point().Add(s.p, o.p) })
		}
	}
	// ordinary points
	push("Null", func() kyber.Point { return G.g.Point().Null() })
	push("B", func() kyber.Point { return c.B.Clone() })
	push("kB", func() kyber.Point { return c.fin.Clone() })
	push("Neg(kB)", func() kyber.Point { return G.g.Point().Neg(c.fin) })
	push("Decode(enc kB)", func() kyber.Point { return decode(c.encFin) })
	g.rep.DistN("special:point/values-in-matrix/"+G.name, len(sp))
	for i := range sp {
		for j := range sp { // every ORDERED pair, the diagonal included
			a, b := sp[i], sp[j]
			same := bytes.Equal(a.b, b.b)
			eq, pan := false, false
			pan, _ = vh.Try(func() { eq = a.p.Equal(b.p) })
			replay := map[string]string{"group": G.name, "a": a.name, "b": b.name, "bytes_a": vh.Hex(a.b), "bytes_b": vh.Hex(b.b)}
			if pan || eq != same {
				g.rep.Fail(base+"/special-values/Equal-vs-bytes", fmt.Sprintf("Equal(a,b)=%v (panic=%v), identical encodings=%v", eq, pan, same), replay)
			}
			// a-b is the identity exactly when the encodings agree.  Not asked of GT: those decoders accept
			// arbitrary field elements (0 included), which are no group elements (membership is C04's subject)
			if j <= i && G.suite == nil {
				var diff []byte
				if pan, _ := vh.Try(func() { diff = mustBytes(G.g.Point().Sub(a.p, b.p)) }); !pan && diff != nil {
					if isNull := bytes.Equal(diff, c.encNull); isNull != same {
						replay["a-b"] = vh.Hex(diff)
						g.rep.Fail(base+"/special-values/difference-vs-bytes", fmt.Sprintf("a-b encodes as the identity=%v, identical encodings=%v", isNull, same), replay)
					}
					if isNull := bytes.Equal(diff, c.encNull); isNull != eq && !pan {
						g.rep.Fail(base+"/special-values/Equal-vs-difference", fmt.Sprintf("Equal(a,b)=%v but a-b encodes as the identity=%v", eq, isNull), replay)
					}
				}
			}
		}
	}
	g.rep.DistN("special:point/ordered-pairs", len(sp)*len(sp))
	g.rep.DistN("special:point/decoded/"+G.name, nDecoded)
}

// special scalars: the full ordered matrix Equal == identical encodings == same residue
func (g *gen) specialScalars(in *sc.Inst, r *vh.Rng) {
	q := in.Q
	red := func(v *big.Int) *big.Int { return new(big.Int).Mod(v, q) }
	vals := []*big.Int{big.NewInt(0), red(big.NewInt(1)), red(big.NewInt(2)), red(big.NewInt(255)), red(big.NewInt(256)),
		red(new(big.Int).Sub(q, big.NewInt(1))), red(new(big.Int).Sub(q, big.NewInt(2))), new(big.Int).Rsh(q, 1), red(new(big.Int).Add(new(big.Int).Rsh(q, 1), big.NewInt(1))),
		red(new(big.Int).Lsh(big.NewInt(1), uint(8*((q.BitLen()-1)/8)))), red(new(big.Int).Sub(new(big.Int).Lsh(big.NewInt(1), uint(8*((q.BitLen()-1)/8))), big.NewInt(1))),
		sc.Operand(in, r)}
	type ent struct {
		name string
		v    *big.Int
		s    kyber.Scalar
		b    []byte
	}
	var es []ent
	for _, v := range vals {
		v := v
		for _, mk := range []struct {
			how string
			f   func() kyber.Scalar
		}{
			{"decoded", func() kyber.Scalar { return in.Scalar(v, g.rep) }},
			{"Sub(v+1,1)", func() kyber.Scalar {
				return in.Mk().Sub(in.Scalar(red(new(big.Int).Add(v, big.NewInt(1))), g.rep), in.Mk().One())
			}},
			{"Neg(decoded -v)", func() kyber.Scalar { return in.Mk().Neg(in.Scalar(red(new(big.Int).Neg(v)), g.rep)) }},
		} {
			var s kyber.Scalar
			if pan, _ := vh.Try(func() { s = mk.f() }); pan || s == nil {
				continue
			}
			es = append(es, ent{mk.how + " " + v.String(), v, s, sc.BytesOf(s)})
		}
	}
	for i := range es {
		for j := range es {
			a, b := es[i], es[j]
			same := bytes.Equal(a.b, b.b)
			if eq := a.s.Equal(b.s); eq != same || same != (a.v.Cmp(b.v) == 0) {
				g.rep.Fail("enc/scalar/"+in.Name+"/special-values/Equal-vs-bytes", fmt.Sprintf("Equal(a,b)=%v, identical encodings=%v, same residue=%v", eq, same, a.v.Cmp(b.v) == 0),
					map[string]string{"impl": in.Name, "a": a.name, "b": b.name, "bytes_a": vh.Hex(a.b), "bytes_b": vh.Hex(b.b)})
			}
		}
	}
	g.rep.DistN("special:scalar/ordered-pairs", len(es)*len(es))
}
