// Object histories, caller buffers and values by provenance (property C03).
//
// Every encoding clause of the property is a statement about VALUES; the code
// works on OBJECTS.  A decoder / Set* / Pick that is correct on a fresh object
// can still be wrong on an object that already holds something (stale
// coordinates, stale high bytes), can write into the caller's slice or keep a
// reference to it, and an encoder can be wrong only for a value that is
// reached through an operation (Neg of the identity, Sub(A,A), Mul by 0) and
// never by decoding or sampling.  This file adds those three dimensions for
// every scalar implementation and every group:
//
//	receiver:   every decode / Set* / Pick into a fresh object and into dirty
//	            ones; value, encoding, Equal, String and behaviour in a later
//	            operation must be those of the fresh-receiver outcome
//	buffer:     slices handed to / returned by the implementation are compared
//	            with a snapshot, overwritten, and the object re-encoded
//	provenance: encodings of values reached through operations are compared
//	            with the canonical bytes (model: CScalar / CPoints / CCoord)
package main

import (
	"bytes"
	"fmt"
	"math"
	"math/big"
	"strings"

	"go.dedis.ch/kyber/v4"
	"go.dedis.ch/kyber/v4/group/edwards25519vartime"

	"kyverif/sc"
	"kyverif/vh"
)

// scribble overwrites every byte of b with a different value
func scribble(b []byte) {
	for i := range b {
		b[i] ^= 0xA5
	}
}

// inSlab places b inside a larger array (random bytes before and after, spare
// capacity behind): returns the array and the window holding b
func inSlab(b []byte, r *vh.Rng) (slab, win []byte) {
	off := r.Intn(9)
	slab = append(append(r.Bytes(off), b...), r.Bytes(1+r.Intn(9))...)
	return slab, slab[off : off+len(b)]
}

// ================================================================ scalars

type sRecv struct {
	name string
	mk   func() kyber.Scalar
}

// a reduced value that fills the whole encoding (non-zero top byte where q allows it)
func fullWidth(in *sc.Inst, r *vh.Rng) *big.Int {
	half := new(big.Int).Rsh(in.Q, 1)
	v := r.BigBelow(half)
	return v.Add(v, half).Mod(v, in.Q)
}

func bytesIn(in *sc.Inst, v *big.Int, minLen int) []byte {
	b := v.Bytes()
	if minLen < 1 {
		minLen = 1
	}
	for len(b) < minLen {
		b = append([]byte{0}, b...)
	}
	if in.LE {
		sc.Rev(b)
	}
	return b
}

func scalarReceivers(in *sc.Inst, r *vh.Rng, rep *vh.Report) []sRecv {
	a, b := fullWidth(in, r), fullWidth(in, r)
	tooBig := bytes.Repeat([]byte{0xff}, in.L)
	return []sRecv{
		{"fresh", in.Mk},
		{"zero", func() kyber.Scalar { return in.Mk().Zero() }},
		{"one", func() kyber.Scalar { return in.Mk().One() }},
		{"max(q-1)", func() kyber.Scalar { return in.Mk().SetInt64(-1) }},
		{"small", func() kyber.Scalar { return in.Mk().SetInt64(5) }},
		{"random-full-width", func() kyber.Scalar { return in.Scalar(a, rep) }},
		{"arithmetic-result", func() kyber.Scalar { return in.Mk().Mul(in.Scalar(a, rep), in.Scalar(b, rep)) }},
		{"neg-result", func() kyber.Scalar { return in.Mk().Neg(in.Scalar(big.NewInt(1).Mod(big.NewInt(1), in.Q), rep)) }},
		{"setbytes-long-input", func() kyber.Scalar { return in.Mk().SetBytes(r.Bytes(3*in.L + 1)) }},
		{"picked", func() kyber.Scalar { return in.Mk().Pick(vh.NewSeqStream(r.Bytes(16))) }},
		{"decoded-twice", func() kyber.Scalar {
			s := in.Scalar(a, rep)
			_ = s.UnmarshalBinary(sc.Enc(in, b))
			return s
		}},
		{"failed-decode-length", func() kyber.Scalar {
			s := in.Scalar(a, rep)
			vh.Try(func() { _ = s.UnmarshalBinary(r.Bytes(in.L - 1 + 2*r.Intn(2))) })
			return s
		}},
		{"failed-decode-range", func() kyber.Scalar { // refused (mod.Int, CIRCL), reduced (gnark) or stored as is (Ed25519)
			s := in.Scalar(a, rep)
			vh.Try(func() { _ = s.UnmarshalBinary(tooBig) })
			return s
		}},
		{"failed-decode-on-fresh", func() kyber.Scalar {
			s := in.Mk()
			vh.Try(func() { _ = s.UnmarshalBinary(tooBig[:in.L/2]) })
			return s
		}},
	}
}

type sSetter struct {
	name string
	v    *big.Int // expected reduced value (nil: only fresh-vs-dirty is compared)
	f    func(s kyber.Scalar) error
}

func scalarSetters(in *sc.Inst, r *vh.Rng, rep *vh.Report) []sSetter {
	q := in.Q
	red := func(v *big.Int) *big.Int { return new(big.Int).Mod(v, q) }
	// values with leading zero bytes next to full-width ones
	short := []*big.Int{big.NewInt(0), big.NewInt(1), red(big.NewInt(int64(2 + r.Intn(250)))),
		red(big.NewInt(int64(256 + r.Intn(65000)))), red(new(big.Int).Lsh(big.NewInt(1), uint(r.Intn(q.BitLen())))),
		red(new(big.Int).Rsh(q, uint(8*(1+r.Intn((q.BitLen()+7)/8)))))}
	pickV := func() *big.Int {
		switch r.Intn(4) {
		case 0:
			return fullWidth(in, r)
		case 1:
			return new(big.Int).Sub(q, big.NewInt(1))
		}
		return short[r.Intn(len(short))]
	}
	var out []sSetter
	dec := func(name string, v *big.Int) {
		out = append(out, sSetter{name, v, func(s kyber.Scalar) error { return s.UnmarshalBinary(sc.Enc(in, v)) }})
	}
	dec("UnmarshalBinary", pickV())
	dec("UnmarshalBinary/short-value", short[r.Intn(len(short))])
	{
		v := pickV()
		tail := r.Bytes(r.Intn(5))
		out = append(out, sSetter{"UnmarshalFrom", v, func(s kyber.Scalar) error {
			_, err := s.UnmarshalFrom(bytes.NewReader(append(sc.Enc(in, v), tail...)))
			return err
		}})
	}
	setBytes := func(name string, v *big.Int, b []byte) {
		out = append(out, sSetter{name, v, func(s kyber.Scalar) error { s.SetBytes(append([]byte{}, b...)); return nil }})
	}
	{
		v := short[1+r.Intn(len(short)-1)]
		setBytes("SetBytes/minimal-length", v, bytesIn(in, v, 0))
		v = pickV()
		setBytes("SetBytes/full-length", v, bytesIn(in, v, in.L))
		v = pickV()
		kq := new(big.Int).Mul(q, new(big.Int).Lsh(big.NewInt(int64(1+r.Intn(255))), uint(8*r.Intn(in.L+2))))
		setBytes("SetBytes/long-input", v, bytesIn(in, kq.Add(kq, v), 0))
		setBytes("SetBytes/empty", big.NewInt(0), nil)
	}
	for _, i := range []int64{0, 1, -1, int64(2 + r.Intn(200)), -int64(2 + r.Intn(200)), int64(r.U64() >> 1), -int64(r.U64() >> 1),
		math.MaxInt64, math.MinInt64 + 1} {
		i := i
		name := "SetInt64/positive"
		if i < 0 {
			name = "SetInt64/negative"
		} else if i < 2 {
			name = "SetInt64/0-or-1"
		}
		out = append(out, sSetter{name, red(big.NewInt(i)), func(s kyber.Scalar) error { s.SetInt64(i); return nil }})
	}
	out = append(out, sSetter{"Zero", big.NewInt(0), func(s kyber.Scalar) error { s.Zero(); return nil }})
	out = append(out, sSetter{"One", red(big.NewInt(1)), func(s kyber.Scalar) error { s.One(); return nil }})
	{
		v := pickV()
		out = append(out, sSetter{"Set", v, func(s kyber.Scalar) error { s.Set(in.Scalar(v, rep)); return nil }})
	}
	for k := 0; k < 2; k++ { // Pick over a recorded key stream whose first candidate is v
		v := pickV()
		n := (q.BitLen() + 7) / 8
		buf := append(v.FillBytes(make([]byte, n)), r.Bytes(4*n)...)
		exp := v
		if in.Kind == sc.KCircl { // CIRCL stores the candidate as a Montgomery residue: only fresh-vs-dirty
			exp = nil
		}
		out = append(out, sSetter{"Pick", exp, func(s kyber.Scalar) error { s.Pick(&sc.FixedStream{Buf: buf}); return nil }})
	}
	return out
}

// emitScalar hands (value, encoding, re-encoding, Equal) of a scalar to the Coq model
func (g *gen) emitScalar(in *sc.Inst, s kyber.Scalar, v *big.Int, how string) {
	b1 := sc.BytesOf(s)
	t := in.Mk()
	if err := t.UnmarshalBinary(append([]byte{}, b1...)); err != nil {
		return // reported by the oracle that called us
	}
	b2 := sc.BytesOf(t)
	g.id++
	g.add(fmt.Sprintf("CScalar %d %s %s %s %s %s", g.id, in.Coq(), vh.CoqZ(v), vh.CoqBytes(b1), vh.CoqBytes(b2), vh.CoqBool(s.Equal(t) && t.Equal(s))),
		map[string]string{"impl": in.Name, "value": v.String(), "route": how, "bytes": vh.Hex(b1)}, v.Sign() != 0)
}

// scalarObservables checks what the property says about one scalar that
// should hold v (when known): canonical bytes, decodable, Equal to its decoding,
// identical re-encoding.
func (g *gen) scalarObservables(in *sc.Inst, s kyber.Scalar, v *big.Int, key string, replay map[string]string) []byte {
	b, err := s.MarshalBinary()
	if err != nil {
		g.rep.Fail(key+"/MarshalBinary-error", err.Error(), replay)
		return nil
	}
	replay["bytes"] = vh.Hex(b)
	if len(b) != in.L {
		g.rep.Fail(key+"/length", fmt.Sprintf("encoding has %d bytes, advertised %d", len(b), in.L), replay)
	}
	if v != nil && string(b) != string(sc.Enc(in, v)) {
		replay["want"] = vh.Hex(sc.Enc(in, v))
		g.rep.Fail(key+"/not-canonical", "the encoding is not the fixed-width encoding of the reduced value", replay)
	}
	t := in.Mk()
	if err := t.UnmarshalBinary(append([]byte{}, b...)); err != nil {
		g.rep.Fail(key+"/own-encoding-rejected", err.Error(), replay)
		return b
	}
	if !s.Equal(t) || !t.Equal(s) {
		g.rep.Fail(key+"/roundtrip-not-Equal", "decode(encode(s)) is not Equal to s", replay)
	}
	if string(sc.BytesOf(t)) != string(b) {
		g.rep.Fail(key+"/reencode-differs", "re-encoding is not byte-identical", replay)
	}
	return b
}

func (g *gen) scalarHistory(in *sc.Inst, r *vh.Rng, nEmit int) {
	base := "enc/scalar/" + in.Name
	recvs := scalarReceivers(in, r, g.rep)
	type emit struct {
		s   kyber.Scalar
		v   *big.Int
		how string
	}
	var emits []emit
	// ---- (1) receivers
	for _, st := range scalarSetters(in, r, g.rep) {
		fresh := in.Mk()
		var ferr error
		if pan, _ := vh.Try(func() { ferr = st.f(fresh) }); pan || ferr != nil {
			if st.v != nil && st.name != "SetBytes/empty" {
				g.rep.Fail(base+"/"+st.name+"/fresh-receiver-fails", fmt.Sprintf("panic=%v err=%v", pan, ferr),
					map[string]string{"impl": in.Name, "op": st.name, "value": st.v.String()})
			}
			continue
		}
		fb, fs := sc.BytesOf(fresh), fresh.String()
		for _, rc := range recvs {
			key := base + "/" + st.name + "/receiver:" + rc.name
			replay := map[string]string{"impl": in.Name, "op": st.name, "receiver": rc.name, "fresh_result": vh.Hex(fb)}
			if st.v != nil {
				replay["value"] = st.v.String()
			}
			var d kyber.Scalar
			if pan, msg := vh.Try(func() { d = rc.mk() }); pan || d == nil {
				g.rep.Dist("unsupported/scalar-receiver/" + in.Name + "/" + rc.name + ": " + firstLine(msg))
				continue
			}
			var held string
			vh.Try(func() { held = vh.Hex(sc.BytesOf(d)) })
			replay["receiver_held"] = held
			var err error
			if pan, msg := vh.Try(func() { err = st.f(d) }); pan || err != nil {
				g.rep.Fail(key+"/fails", fmt.Sprintf("works on a fresh receiver, on this one: panic=%v (%s) err=%v", pan, firstLine(msg), err), replay)
				continue
			}
			b := g.scalarObservables(in, d, st.v, key, replay)
			if string(b) != string(fb) {
				g.rep.Fail(key+"/encoding-differs-from-fresh", "the same operation on a fresh receiver gives a different encoding", replay)
			}
			if !d.Equal(fresh) || !fresh.Equal(d) {
				g.rep.Fail(key+"/not-Equal-to-fresh", "the same operation on a fresh receiver gives a scalar that is not Equal", replay)
			}
			if s := d.String(); s != fs {
				replay["string"], replay["fresh_string"] = s, fs
				g.rep.Fail(key+"/String-differs-from-fresh", "String differs from the fresh-receiver outcome", replay)
			}
			// the value must also behave: d + 1
			if st.v != nil {
				one := in.Scalar(new(big.Int).Mod(big.NewInt(1), in.Q), g.rep)
				w := new(big.Int).Add(st.v, big.NewInt(1))
				if string(sc.BytesOf(in.Mk().Add(d, one))) != string(sc.Enc(in, w.Mod(w, in.Q))) {
					g.rep.Fail(key+"/later-arithmetic-wrong", "s+1 is wrong after the operation", replay)
				}
			}
			g.rep.Dist("receiver:scalar/into:" + rc.name)
			g.rep.Dist("receiver:scalar/op:" + st.name)
			g.rep.Dist("receiver:scalar/impl:" + in.Name)
			if st.v != nil && rc.name != "fresh" {
				emits = append(emits, emit{d, st.v, st.name + " into " + rc.name})
			}
		}
	}
	for k := 0; k < nEmit && len(emits) > 0; k++ {
		e := emits[r.Intn(len(emits))]
		g.emitScalar(in, e.s, e.v, e.how)
	}

	// ---- (3) provenance: values reached through operations
	q := in.Q
	red := func(v *big.Int) *big.Int { return new(big.Int).Mod(v, q) }
	av := sc.Nonzero(in, r)
	A := func() kyber.Scalar { return in.Scalar(av, g.rep) }
	lit := func(i int64) kyber.Scalar { return in.Scalar(red(big.NewInt(i)), g.rep) }
	neg := func(v *big.Int) *big.Int { return red(new(big.Int).Neg(v)) }
	k := int64(1 + r.Intn(1000))
	long := r.Bytes(2*in.L + r.Intn(40))
	type prov struct {
		name string
		v    *big.Int
		f    func() kyber.Scalar
	}
	provs := []prov{
		{"Neg(0)", big.NewInt(0), func() kyber.Scalar { return in.Mk().Neg(in.Mk().Zero()) }},
		{"Neg(decoded 0)", big.NewInt(0), func() kyber.Scalar { return in.Mk().Neg(lit(0)) }},
		{"Sub(a,a) one object", big.NewInt(0), func() kyber.Scalar { a := A(); return in.Mk().Sub(a, a) }},
		{"Sub(a,a')", big.NewInt(0), func() kyber.Scalar { return in.Mk().Sub(A(), A()) }},
		{"Add(a,Neg(a))", big.NewInt(0), func() kyber.Scalar { a := A(); return in.Mk().Add(a, in.Mk().Neg(a)) }},
		{"Add(Neg(a),a)", big.NewInt(0), func() kyber.Scalar { a := A(); return in.Mk().Add(in.Mk().Neg(a), a) }},
		{"Add(q-1,1)", big.NewInt(0), func() kyber.Scalar { return in.Mk().Add(in.Mk().SetInt64(-1), in.Mk().One()) }},
		{"Mul(a,0)", big.NewInt(0), func() kyber.Scalar { return in.Mk().Mul(A(), in.Mk().Zero()) }},
		{"Mul(Sub(a,a),a)", big.NewInt(0), func() kyber.Scalar { a := A(); return in.Mk().Mul(in.Mk().Sub(a, a), a) }},
		{"Inv(1)", red(big.NewInt(1)), func() kyber.Scalar { return in.Mk().Inv(in.Mk().One()) }},
		{"Div(a,a)", red(big.NewInt(1)), func() kyber.Scalar { a := A(); return in.Mk().Div(a, a) }},
		{"Mul(a,Inv(a))", red(big.NewInt(1)), func() kyber.Scalar { a := A(); return in.Mk().Mul(a, in.Mk().Inv(a)) }},
		{"Neg(q-1)", red(big.NewInt(1)), func() kyber.Scalar { return in.Mk().Neg(in.Mk().SetInt64(-1)) }},
		{"Neg(1)", neg(big.NewInt(1)), func() kyber.Scalar { return in.Mk().Neg(in.Mk().One()) }},
		{"Sub(0,1)", neg(big.NewInt(1)), func() kyber.Scalar { return in.Mk().Sub(in.Mk().Zero(), in.Mk().One()) }},
		{"SetInt64(negative)", neg(big.NewInt(k)), func() kyber.Scalar { return in.Mk().SetInt64(-k) }},
		{"Neg(SetInt64(k))", neg(big.NewInt(k)), func() kyber.Scalar { return in.Mk().Neg(in.Mk().SetInt64(k)) }},
		{"Neg(Neg(a))", av, func() kyber.Scalar { return in.Mk().Neg(in.Mk().Neg(A())) }},
		{"Sub(0,Neg(a))", av, func() kyber.Scalar { return in.Mk().Sub(in.Mk().Zero(), in.Mk().Neg(A())) }},
		{"Add(a,Sub(a,a))", av, func() kyber.Scalar { a := A(); return in.Mk().Add(a, in.Mk().Sub(a, a)) }},
		{"Mul(a,Inv(1))", av, func() kyber.Scalar { return in.Mk().Mul(A(), in.Mk().Inv(in.Mk().One())) }},
		{"SetBytes(long input)", red(sc.Dec(in, long)), func() kyber.Scalar { return in.Mk().SetBytes(append([]byte{}, long...)) }},
		{"Neg(a)", neg(av), func() kyber.Scalar { return in.Mk().Neg(A()) }},
		{"Sub(0,a)", neg(av), func() kyber.Scalar { return in.Mk().Sub(in.Mk().Zero(), A()) }},
		{"Mul(q-1,a)", neg(av), func() kyber.Scalar { return in.Mk().Mul(in.Mk().SetInt64(-1), A()) }},
	}
	type pv struct {
		p prov
		s kyber.Scalar
		b []byte
	}
	var got []pv
	for _, p := range provs {
		var s kyber.Scalar
		replay := map[string]string{"impl": in.Name, "path": p.name, "a": av.String(), "value": p.v.String()}
		if pan, msg := vh.Try(func() { s = p.f() }); pan || s == nil {
			g.rep.Fail(base+"/provenance:"+p.name+"/panic", firstLine(msg), replay)
			continue
		}
		key := base + "/provenance:" + p.name
		b := g.scalarObservables(in, s, p.v, key, replay)
		// Equal to, and encoded as, the same value built freshly
		f := in.Scalar(p.v, g.rep)
		if !s.Equal(f) || !f.Equal(s) {
			g.rep.Fail(key+"/not-Equal-to-fresh-value", "not Equal to the same value decoded from its canonical encoding", replay)
		}
		if s.String() != f.String() {
			g.rep.Fail(key+"/String-differs", "String differs from the same value decoded from its canonical encoding", replay)
		}
		g.rep.Dist("provenance:scalar/" + p.name)
		got = append(got, pv{p, s, b})
	}
	for i := range got { // Equal <=> identical bytes <=> same value
		for j := 0; j < i; j++ {
			same := string(got[i].b) == string(got[j].b)
			if eq := got[i].s.Equal(got[j].s); eq != same || got[j].s.Equal(got[i].s) != same || same != (got[i].p.v.Cmp(got[j].p.v) == 0) {
				g.rep.Fail(base+"/provenance/Equal-vs-bytes", "Equal, identical encodings and equal residues do not coincide",
					map[string]string{"impl": in.Name, "path1": got[i].p.name, "path2": got[j].p.name, "a": av.String(),
						"bytes1": vh.Hex(got[i].b), "bytes2": vh.Hex(got[j].b)})
			}
		}
	}
	for k := 0; k < nEmit && len(got) > 0; k++ {
		e := got[r.Intn(len(got))]
		g.emitScalar(in, e.s, e.p.v, e.p.name)
	}

	// ---- (2) caller buffers
	for _, v := range []*big.Int{big.NewInt(0), red(big.NewInt(1)), neg(big.NewInt(1)), fullWidth(in, r), sc.Operand(in, r)} {
		enc := sc.Enc(in, v)
		replay := map[string]string{"impl": in.Name, "value": v.String(), "encoding": vh.Hex(enc)}
		for _, op := range []string{"UnmarshalBinary", "SetBytes"} {
			key := base + "/" + op
			slab, win := inSlab(enc, r)
			snap := append([]byte{}, slab...)
			s := recvs[r.Intn(len(recvs))].mk()
			apply := func(t kyber.Scalar) error {
				if op == "SetBytes" {
					t.SetBytes(win)
					return nil
				}
				return t.UnmarshalBinary(win)
			}
			var err error
			if pan, msg := vh.Try(func() { err = apply(s) }); pan || err != nil {
				g.rep.Fail(key+"/canonical-rejected", fmt.Sprintf("panic=%v (%s) err=%v", pan, firstLine(msg), err), replay)
				continue
			}
			if !bytes.Equal(slab, snap) {
				replay["buffer_after"] = vh.Hex(slab)
				g.rep.Fail(key+"/caller-buffer-modified", "the slice handed to the decoder (or its surroundings) was written to", replay)
				copy(slab, snap)
			}
			s2 := in.Mk()
			if err := apply(s2); err != nil || !s2.Equal(s) || !s.Equal(s2) {
				g.rep.Fail(key+"/second-decode-of-same-slice", fmt.Sprintf("decoding the same slice again: err=%v", err), replay)
			}
			scribble(slab)
			if string(sc.BytesOf(s)) != string(enc) || !s.Equal(s2) {
				g.rep.Fail(key+"/keeps-caller-buffer", "overwriting the caller's slice after the call changes the scalar", replay)
			}
			g.rep.Dist("buffer:scalar/" + op + "/snapshot,decode-twice,overwrite,re-encode")
		}
		// the slice returned by MarshalBinary belongs to the caller
		s := in.Scalar(v, g.rep)
		out := sc.BytesOf(s)
		scribble(out)
		if again := sc.BytesOf(s); string(again) != string(enc) || !s.Equal(in.Scalar(v, g.rep)) {
			g.rep.Fail(base+"/MarshalBinary/returned-slice-aliases-scalar", "overwriting the returned encoding changes the scalar / its next encoding", replay)
		}
		g.rep.Dist("buffer:scalar/MarshalBinary/overwrite-returned-slice")
	}
}

// ================================================================ points

type pRecv struct {
	name string
	mk   func() kyber.Point
}

type pCtx struct {
	G                                 *grp
	B, fin, other                     kyber.Point // prototypes: only ever cloned or read
	k                                 *big.Int
	encNull, encBase, encFin, encNegB []byte
	encOther                          []byte
	garbage                           []byte // right length, refused by a fresh decoder (nil: none found)
}

func mustBytes(p kyber.Point) []byte {
	b, err := p.MarshalBinary()
	if err != nil {
		return nil
	}
	return b
}

func newPCtx(G *grp, r *vh.Rng) *pCtx {
	c := &pCtx{G: G, k: r.BigBelow(G.q)}
	if c.k.Sign() == 0 {
		c.k.SetInt64(3)
	}
	ok := true
	if pan, _ := vh.Try(func() {
		c.B = base().eval(G)
		c.fin = G.g.Point().Mul(scalarOf(G.g, c.k), c.B) // non-normalised internal coordinates
		c.other = G.g.Point().Add(c.fin, c.B)
		c.encNull = mustBytes(G.g.Point().Null())
		c.encBase = mustBytes(c.B.Clone())
		c.encFin = mustBytes(c.fin.Clone())
		c.encOther = mustBytes(c.other.Clone())
		c.encNegB = mustBytes(G.g.Point().Neg(c.B))
	}); pan {
		ok = false
	}
	if !ok || c.encNull == nil || c.encFin == nil || c.encBase == nil || c.encOther == nil || c.encNegB == nil {
		return nil
	}
	for try := 0; try < 30 && c.garbage == nil; try++ {
		cand := r.Bytes(len(c.encFin))
		var err error
		if pan, _ := vh.Try(func() { err = G.g.Point().UnmarshalBinary(append([]byte{}, cand...)) }); pan || err != nil {
			c.garbage = cand
		}
	}
	return c
}

func (c *pCtx) receivers(r *vh.Rng) []pRecv {
	G := c.G
	P := G.g.Point
	return []pRecv{
		{"fresh", P},
		{"identity", func() kyber.Point { return P().Null() }},
		{"base", func() kyber.Point { return c.B.Clone() }},
		{"base-by-Base()", func() kyber.Point { return P().Base() }},
		{"finite-after-Mul", func() kyber.Point { return P().Mul(scalarOf(G.g, c.k), c.B) }},
		{"finite-after-Add", func() kyber.Point { return P().Add(c.fin, c.B) }},
		{"max(-B)", func() kyber.Point { return P().Neg(c.B) }},
		{"identity-after-Sub", func() kyber.Point { return P().Sub(c.fin, c.fin) }},
		{"decoded-finite", func() kyber.Point { p := P(); _ = p.UnmarshalBinary(append([]byte{}, c.encOther...)); return p }},
		{"decoded-identity", func() kyber.Point { p := P(); _ = p.UnmarshalBinary(append([]byte{}, c.encNull...)); return p }},
		{"decoded-twice", func() kyber.Point {
			p := P()
			_ = p.UnmarshalBinary(append([]byte{}, c.encNull...))
			_ = p.UnmarshalBinary(append([]byte{}, c.encOther...))
			return p
		}},
		{"failed-decode-length", func() kyber.Point {
			p := c.fin.Clone()
			vh.Try(func() { _ = p.UnmarshalBinary(c.encFin[:len(c.encFin)/2]) })
			return p
		}},
		{"failed-decode-content", func() kyber.Point {
			p := c.fin.Clone()
			if c.garbage != nil {
				vh.Try(func() { _ = p.UnmarshalBinary(append([]byte{}, c.garbage...)) })
			}
			return p
		}},
		{"failed-decode-on-fresh", func() kyber.Point {
			p := P()
			if c.garbage != nil {
				vh.Try(func() { _ = p.UnmarshalBinary(append([]byte{}, c.garbage...)) })
			}
			return p
		}},
		{"picked", func() kyber.Point { return P().Pick(vh.NewSeqStream(r.Bytes(16))) }},
		{"cleared-by-Null", func() kyber.Point { return c.fin.Clone().Null() }},
	}
}

type pSetter struct {
	costly bool // hashing to the curve: a sample of the receivers only
	name   string
	want   []byte // expected encoding where the harness knows it
	f      func(p kyber.Point) error
}

func (c *pCtx) setters(r *vh.Rng) []pSetter {
	var out []pSetter
	dec := func(name string, enc []byte) {
		out = append(out, pSetter{name: "UnmarshalBinary/" + name, want: enc, f: func(p kyber.Point) error { return p.UnmarshalBinary(append([]byte{}, enc...)) }})
	}
	dec("identity", c.encNull)
	dec("finite", c.encFin)
	dec("base", c.encBase)
	dec("-B", c.encNegB)
	from := func(name string, enc []byte) {
		tail := r.Bytes(r.Intn(4))
		out = append(out, pSetter{name: "UnmarshalFrom/" + name, want: enc, f: func(p kyber.Point) error {
			_, err := p.UnmarshalFrom(bytes.NewReader(append(append([]byte{}, enc...), tail...)))
			return err
		}})
	}
	from("identity", c.encNull)
	from("finite", c.encFin)
	out = append(out, pSetter{name: "Null", want: c.encNull, f: func(p kyber.Point) error { p.Null(); return nil }})
	out = append(out, pSetter{name: "Base", f: func(p kyber.Point) error { p.Base(); return nil }})
	out = append(out, pSetter{name: "Set/finite", want: c.encFin, f: func(p kyber.Point) error { p.Set(c.fin); return nil }})
	out = append(out, pSetter{name: "Set/identity", want: c.encNull, f: func(p kyber.Point) error { p.Set(c.G.g.Point().Null()); return nil }})
	seed := r.Bytes(16)
	out = append(out, pSetter{name: "Pick", costly: true, f: func(p kyber.Point) error { p.Pick(vh.NewSeqStream(seed)); return nil }})
	seed2, data := r.Bytes(16), r.Bytes(6)
	out = append(out, pSetter{name: "Embed", costly: true, f: func(p kyber.Point) error {
		l := p.EmbedLen()
		if l <= 0 {
			panic("no embedding")
		}
		if l > len(data) {
			l = len(data)
		}
		p.Embed(append([]byte{}, data[:l]...), vh.NewSeqStream(seed2))
		return nil
	}})
	return out
}

// identity encodings whose layout the Coq model knows (EncSM.coord_enc)
func identityCoords(G *grp) *crafted {
	zero, one := big.NewInt(0), big.NewInt(1)
	switch G.name {
	case "p256":
		return &crafted{prefix: []byte{4}, w: 32, coords: []*big.Int{zero, zero}}
	case "bn256.G1", "bn254.G1":
		return &crafted{w: 32, coords: []*big.Int{zero, zero}}
	case "qr512":
		return &crafted{w: 64, coords: []*big.Int{one}}
	case "edwards25519", "edwards25519vartime", "edwards25519vartime.ext":
		return &crafted{w: 32, le: true, coords: []*big.Int{one}}
	}
	return nil
}

func (c *crafted) layout() []byte {
	b := append([]byte{}, c.prefix...)
	for _, v := range c.coords {
		b = append(b, fixed(c.w, v, c.le)...)
	}
	return b
}

// provenancePool: the values the property is about, reached through operations
func provenancePool(G *grp, r *vh.Rng) (identity, finite []*pexp) {
	q := G.q
	k := r.BigBelow(q)
	if k.Sign() == 0 {
		k.SetInt64(2)
	}
	k1 := r.BigBelow(q)
	qm1 := new(big.Int).Sub(q, big.NewInt(1))
	zero, one := big.NewInt(0), big.NewInt(1)
	B := base()
	if G.suite != nil {
		E := pairE(base(), base())
		A := mul(k, E)
		identity = []*pexp{null(), neg(null()), neg(neg(null())), sub(E, E), subSelf(A), addNeg(A), add(neg(A), A),
			mulI(0, E), mul(q, E), mulSum(qm1, one, A), mulSum(k, modq(q, new(big.Int).Neg(k)), E), mul(k, null()), mulI(0, null()),
			add(null(), null()), sub(null(), null()), neg(subSelf(E)),
			pairE(null(), base()), pairE(base(), null()), pairE(null(), null()), neg(pairE(null(), base())),
			pairE(subSelf(base()), base()), pairE(base(), mulI(0, base())), pairE(neg(null()), base())}
		finite = []*pexp{E, neg(neg(E)), A, neg(neg(A)), sub(add(A, E), E), mulI(1, A), add(A, null()), sub(A, null()),
			neg(A), mul(qm1, A), sub(null(), A), pairE(mul(k, base()), base()), pairE(neg(mul(k, base())), base())}
		return
	}
	A := mul(k, B)
	identity = []*pexp{null(), neg(null()), neg(neg(null())), sub(B, B), subSelf(A), subSelf(B), addNeg(A), addNeg(B), add(neg(A), A),
		mulI(0, A), mulI(0, B), mul(q, B), mul(q, A), mulSum(qm1, one, A), mulSum(k1, modq(q, new(big.Int).Neg(k1)), B), mulSum(zero, zero, A),
		mul(k, null()), mulI(0, null()), mulI(1, null()), add(null(), null()), sub(null(), null()), neg(subSelf(A)), neg(mulI(0, B)),
		add(subSelf(A), neg(null())), sub(neg(null()), null())}
	finite = []*pexp{B, neg(neg(B)), A, neg(neg(A)), sub(add(A, B), B), mulI(1, A), add(A, null()), add(null(), A), sub(A, null()), add(A, neg(null())),
		neg(A), mul(qm1, A), sub(null(), A), sub(neg(null()), A), mulSum(k1, modq(q, new(big.Int).Sub(k, k1)), B),
		neg(B), mul(qm1, B), sub(null(), B)}
	if H := varPoint(G, r); H != nil {
		identity = append(identity, subSelf(H), addNeg(H), mulI(0, H), mul(q, H))
		finite = append(finite, H, neg(neg(H)), sub(add(H, B), B), neg(H), sub(null(), H), mul(qm1, H))
	}
	return
}

func (g *gen) pointHistory(G *grp, r *vh.Rng, coq bool) {
	base := "enc/point/" + G.name
	c := newPCtx(G, r)
	if c == nil {
		g.rep.Dist("unsupported/history/" + G.name)
		return
	}
	var Bp kyber.Point = c.B
	// ---- (1) receivers
	recvs := c.receivers(r)
	for _, st := range c.setters(r) {
		fresh := G.g.Point()
		var ferr error
		if pan, msg := vh.Try(func() { ferr = st.f(fresh) }); pan || ferr != nil {
			if st.want != nil {
				g.rep.Fail(base+"/"+st.name+"/fresh-receiver-fails", fmt.Sprintf("panic=%v (%s) err=%v", pan, firstLine(msg), ferr),
					map[string]string{"group": G.name, "op": st.name, "input": vh.Hex(st.want)})
			} else {
				g.rep.Dist("unsupported/" + G.name + "/" + st.name)
			}
			continue
		}
		fb, fs := mustBytes(fresh), fresh.String()
		if st.want != nil && string(fb) != string(st.want) {
			g.rep.Fail(base+"/"+st.name+"/fresh-receiver/encoding", "the result does not encode to the expected bytes",
				map[string]string{"group": G.name, "op": st.name, "want": vh.Hex(st.want), "got": vh.Hex(fb)})
		}
		var fnext []byte
		vh.Try(func() { fnext = mustBytes(G.g.Point().Add(fresh, Bp)) })
		if t := G.g.Point(); t.UnmarshalBinary(append([]byte{}, fb...)) != nil || !t.Equal(fresh) || !fresh.Equal(t) || string(mustBytes(t)) != string(fb) {
			g.rep.Fail(base+"/"+st.name+"/fresh-receiver/roundtrip", "decode(encode(P)) fails, is not Equal to P or re-encodes differently",
				map[string]string{"group": G.name, "op": st.name, "bytes": vh.Hex(fb)})
		}
		for ri, rc := range recvs {
			// the two decoders of the identity / a finite value meet every receiver; the other
			// operations a sample of them (all of them over a few seeds)
			if core := st.name == "UnmarshalBinary/identity" || st.name == "UnmarshalBinary/finite"; !core && ri > 0 {
				if (st.costly && !r.Chance(30)) || !r.Chance(40) {
					continue
				}
			}
			if strings.HasPrefix(st.name, "Set/") && strings.HasPrefix(rc.name, "failed-decode") {
				// Point.Set reads its receiver's internals (kilic: a nil pointer after a refused
				// decode); what a refused decode leaves behind is no encoding claim (C04/C05)
				g.rep.Dist("not-asserted/point/Set-into-receiver-left-by-a-refused-decode")
				continue
			}
			key := base + "/" + st.name + "/receiver:" + rc.name
			replay := map[string]string{"group": G.name, "op": st.name, "receiver": rc.name, "fresh_result": vh.Hex(fb)}
			var d kyber.Point
			if pan, msg := vh.Try(func() { d = rc.mk() }); pan || d == nil {
				g.rep.Dist("unsupported/point-receiver/" + G.name + "/" + rc.name + ": " + firstLine(msg))
				continue
			}
			var err error
			if pan, msg := vh.Try(func() { err = st.f(d) }); pan || err != nil {
				g.rep.Fail(key+"/fails", fmt.Sprintf("works on a fresh receiver, on this one: panic=%v (%s) err=%v", pan, firstLine(msg), err), replay)
				continue
			}
			var b []byte
			var merr error
			if pan, msg := vh.Try(func() { b, merr = d.MarshalBinary() }); pan || merr != nil {
				g.rep.Fail(key+"/MarshalBinary-fails", fmt.Sprintf("panic=%v (%s) err=%v", pan, firstLine(msg), merr), replay)
				continue
			}
			replay["bytes"] = vh.Hex(b)
			if string(b) != string(fb) {
				g.rep.Fail(key+"/encoding-differs-from-fresh", "the same operation on a fresh receiver gives a different encoding", replay)
			}
			eq := false
			vh.Try(func() { eq = d.Equal(fresh) && fresh.Equal(d) })
			if !eq {
				g.rep.Fail(key+"/not-Equal-to-fresh", "the same operation on a fresh receiver gives a point that is not Equal", replay)
			}
			var s string
			vh.Try(func() { s = d.String() })
			if s != fs {
				replay["string"], replay["fresh_string"] = s, fs
				g.rep.Fail(key+"/String-differs-from-fresh", "String differs from the fresh-receiver outcome", replay)
			}
			// the value in a later operation
			if fnext != nil {
				var nb []byte
				vh.Try(func() { nb = mustBytes(G.g.Point().Add(d, Bp)) })
				if string(nb) != string(fnext) {
					g.rep.Fail(key+"/later-arithmetic-wrong", "P+B differs from the fresh-receiver outcome", replay)
				}
			}
			g.rep.Dist("receiver:point/into:" + rc.name)
			g.rep.Dist("receiver:point/op:" + st.name)
			g.rep.Dist("receiver:point/group:" + G.name)
		}
	}

	// ---- (2) caller buffers
	targets := []struct {
		name string
		enc  []byte
	}{{"identity", c.encNull}, {"base", c.encBase}, {"finite", c.encFin}, {"-B", c.encNegB}, {"finite2", c.encOther}}
	for _, tg := range targets {
		key := base + "/UnmarshalBinary"
		replay := map[string]string{"group": G.name, "value": tg.name, "encoding": vh.Hex(tg.enc)}
		slab, win := inSlab(tg.enc, r)
		snap := append([]byte{}, slab...)
		rc := recvs[r.Intn(len(recvs))]
		var p kyber.Point
		if pan, _ := vh.Try(func() { p = rc.mk() }); pan || p == nil {
			p = G.g.Point()
		}
		var err error
		if pan, msg := vh.Try(func() { err = p.UnmarshalBinary(win) }); pan || err != nil {
			replay["receiver"] = rc.name
			g.rep.Fail(key+"/own-encoding-rejected", fmt.Sprintf("panic=%v (%s) err=%v", pan, firstLine(msg), err), replay)
			continue
		}
		if !bytes.Equal(slab, snap) {
			replay["buffer_after"] = vh.Hex(slab)
			g.rep.Fail(key+"/caller-buffer-modified", "the slice handed to UnmarshalBinary (or its surroundings) was written to", replay)
		}
		// the same slice once more (whatever happened to it), into a second object
		p2 := G.g.Point()
		var err2 error
		if pan, _ := vh.Try(func() { err2 = p2.UnmarshalBinary(win) }); pan || err2 != nil || !p2.Equal(p) || !p.Equal(p2) {
			g.rep.Fail(key+"/second-decode-of-same-slice", fmt.Sprintf("decoding the same slice again: err=%v", err2), replay)
			p2 = p.Clone() // what follows compares p with its own earlier value
		}
		if rb := mustBytes(p); string(rb) != string(tg.enc) {
			replay["reenc"] = vh.Hex(rb)
			g.rep.Fail(key+"/reencode-differs-from-input", "re-encoding differs from the encoding that was decoded", replay)
		}
		copy(slab, snap)
		scribble(slab)
		if rb := mustBytes(p); string(rb) != string(tg.enc) || !p.Equal(p2) {
			g.rep.Fail(key+"/keeps-caller-buffer", "overwriting the caller's slice after the call changes the point", replay)
		}
		g.rep.Dist("buffer:point/UnmarshalBinary/snapshot,decode-twice,overwrite,re-encode")
		// returned slices belong to the caller
		out := mustBytes(p)
		before := p.Clone()
		scribble(out)
		if again := mustBytes(p); string(again) != string(tg.enc) || !p.Equal(before) || !p.Equal(p2) {
			g.rep.Fail(base+"/MarshalBinary/returned-slice-aliases-point", "overwriting the returned encoding changes the point / its next encoding", replay)
		}
		g.rep.Dist("buffer:point/MarshalBinary/overwrite-returned-slice")
		// a decoder reading through UnmarshalFrom must not keep the reader's memory either
		slab2, win2 := inSlab(tg.enc, r)
		p3 := G.g.Point()
		if _, err := p3.UnmarshalFrom(bytes.NewReader(win2)); err == nil {
			scribble(slab2)
			if string(mustBytes(p3)) != string(tg.enc) {
				g.rep.Fail(base+"/UnmarshalFrom/keeps-reader-memory", "overwriting the reader's memory after the call changes the point", replay)
			}
		}
	}
	// Embed: the data slice
	vh.Try(func() {
		p := G.g.Point()
		l := p.EmbedLen()
		if l <= 0 {
			return
		}
		if l > 12 {
			l = 12
		}
		data := r.Bytes(l)
		slab, win := inSlab(data, r)
		snap := append([]byte{}, slab...)
		p.Embed(win, vh.NewSeqStream(r.Bytes(16)))
		replay := map[string]string{"group": G.name, "data": vh.Hex(data)}
		if !bytes.Equal(slab, snap) {
			g.rep.Fail(base+"/Embed/caller-buffer-modified", "the data slice handed to Embed (or its surroundings) was written to", replay)
		}
		enc := mustBytes(p)
		scribble(slab)
		got, err := p.Data()
		if err != nil || !bytes.Equal(got, data) || string(mustBytes(p)) != string(enc) {
			g.rep.Fail(base+"/Embed/keeps-caller-buffer", fmt.Sprintf("overwriting the data slice after Embed changes the point (Data err=%v)", err), replay)
		}
		scribble(got)
		if got2, _ := p.Data(); !bytes.Equal(got2, data) || string(mustBytes(p)) != string(enc) {
			g.rep.Fail(base+"/Data/returned-slice-aliases-point", "overwriting the slice returned by Data changes the point", replay)
		}
		g.rep.Dist("buffer:point/Embed+Data/snapshot,overwrite")
	})

	// ---- special values (special.go)
	g.specialPoints(G, c, r.Fork())

	// ---- (3)+(4) provenance
	if !coq {
		return
	}
	identity, finite := provenancePool(G, r)
	// a decoded identity is one more path to the identity
	if t := G.g.Point(); t.UnmarshalBinary(append([]byte{}, c.encNull...)) == nil {
		identity = append(identity, &pexp{op: "var", pt: t, d: new(big.Int), how: "decoded identity encoding"})
	}
	{ // every identity path, half of the finite ones
		var keep []*pexp
		for _, e := range finite {
			if r.Bool() {
				keep = append(keep, e)
			}
		}
		finite = keep
	}
	for _, e := range identity {
		g.rep.Dist("provenance:point/identity by " + e.shape(G.q))
	}
	for _, e := range finite {
		g.rep.Dist("provenance:point/finite by " + e.shape(G.q))
	}
	g.pointPoolL(G, r, append(append([]*pexp{}, identity...), finite...), len(identity))
	// the identity encoding itself, byte for byte
	ic := identityCoords(G)
	nEmit := 0
	for i, e := range identity {
		var b []byte
		if pan, _ := vh.Try(func() { b = mustBytes(e.eval(G)) }); pan || b == nil {
			continue
		}
		replay := map[string]string{"group": G.name, "path": e.String(), "bytes": vh.Hex(b), "identity": vh.Hex(c.encNull)}
		if string(b) != string(c.encNull) {
			g.rep.Fail(base+"/identity-reached-by-operation/encoding", "an identity reached through operations does not encode like Null()", replay)
		}
		if ic != nil {
			if string(b) != string(ic.layout()) {
				g.rep.Fail(base+"/identity-reached-by-operation/layout", "the identity does not encode to its fixed-width layout", replay)
			}
			if nEmit < 6 && (len(identity)-i <= 6-nEmit || r.Chance(30)) {
				nEmit++
				g.id++
				g.add(ic.coq(g.id, ic.coords, b), replay, true)
			}
		}
	}
}

// shape is the path with the concrete numbers abstracted (for the distribution)
func (e *pexp) shape(q *big.Int) string {
	num := func(k *big.Int) string {
		switch {
		case k.Sign() == 0:
			return "0"
		case k.Cmp(big.NewInt(1)) == 0:
			return "1"
		case k.Cmp(q) == 0:
			return "q"
		case new(big.Int).Add(k, big.NewInt(1)).Cmp(q) == 0:
			return "q-1"
		}
		return "k"
	}
	switch e.op {
	case "null":
		return "Null"
	case "base":
		return "B"
	case "var":
		return "H"
	case "add":
		return "Add(" + e.a.shape(q) + "," + e.b.shape(q) + ")"
	case "sub":
		return "Sub(" + e.a.shape(q) + "," + e.b.shape(q) + ")"
	case "neg":
		return "Neg(" + e.a.shape(q) + ")"
	case "mul":
		return "Mul(" + num(e.k) + "," + e.a.shape(q) + ")"
	case "pair":
		return "Pair(" + e.a.shape(q) + "," + e.b.shape(q) + ")"
	case "subself":
		return "Sub(X,X)[X=" + e.a.shape(q) + "]"
	case "addneg":
		return "Add(X,Neg(X))[X=" + e.a.shape(q) + "]"
	case "mulsum":
		return "Mul(Add(" + num(e.k) + "," + num(e.k2) + ")," + e.a.shape(q) + ")"
	}
	return "?"
}

// further Edwards curve objects of the vartime package that share the codec of
// the two covered above (oracles only: no model cases)
func extraHistoryGroups() []*grp {
	var out []*grp
	mk := func(name string, G kyber.Group) {
		out = append(out, &grp{name: name, g: G, q: order(G)})
	}
	vh.Try(func() {
		mk("edwards25519vartime.proj.1174", new(edwards25519vartime.ProjectiveCurve).Init(edwards25519vartime.Param1174(), false))
	})
	vh.Try(func() {
		mk("edwards25519vartime.ext.E382", new(edwards25519vartime.ExtendedCurve).InitCurve(edwards25519vartime.ParamE382(), false))
	})
	return out
}
