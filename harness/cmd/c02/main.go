// Correspondence + oracle harness for property C02 (scalars are exactly the
// integers modulo the group order).
//
// Every scalar implementation of kyber is run on edge-biased operands; each
// case carries the inputs and the observed MarshalBinary bytes of the result
// and is re-computed by the Coq model Scalar/ScalarSM.v (ScalarRun.check).
// Independently the property is evaluated directly on the implementation with
// math/big as the integer reference (oracles), which is all -search does.
package main

import (
	"encoding/json"
	"flag"
	"fmt"
	"math"
	"math/big"
	"os"
	"os/exec"
	"path/filepath"

	"go.dedis.ch/kyber/v4"
	"go.dedis.ch/kyber/v4/group/edwards25519"

	"kyverif/sc"
	"kyverif/vh"
)

var opNames = []string{"Add", "Sub", "Mul", "Div", "Neg", "Inv", "Zero", "One"}

func apply(op int, recv, a, b kyber.Scalar) {
	switch op {
	case 0:
		recv.Add(a, b)
	case 1:
		recv.Sub(a, b)
	case 2:
		recv.Mul(a, b)
	case 3:
		recv.Div(a, b)
	case 4:
		recv.Neg(a)
	case 5:
		recv.Inv(a)
	case 6:
		recv.Zero()
	case 7:
		recv.One()
	}
}

func expected(op int, a, b, q *big.Int) *big.Int {
	r := new(big.Int)
	switch op {
	case 0:
		r.Add(a, b)
	case 1:
		r.Sub(a, b)
	case 2:
		r.Mul(a, b)
	case 3:
		r.Mul(a, new(big.Int).ModInverse(b, q))
	case 4:
		r.Neg(a)
	case 5:
		r.ModInverse(a, q)
	case 6:
		r.SetInt64(0)
	case 7:
		r.SetInt64(1)
	}
	return r.Mod(r, q)
}

var int64Edges = []int64{0, 1, -1, 2, -2, 255, 256, -255, -256, math.MaxInt64, math.MinInt64, math.MinInt64 + 1,
	math.MaxInt64 - 1, 1 << 31, -(1 << 31), 1<<31 - 1, 1 << 32, -(1 << 32), 1<<32 - 1, 1<<32 + 1, 1 << 62, -(1 << 62), 1<<53 + 1}

func pickInt64(r *vh.Rng) int64 {
	switch r.Intn(4) {
	case 0:
		return int64Edges[r.Intn(len(int64Edges))]
	case 1:
		k := uint(r.Intn(63))
		v := int64(1)<<k + int64(r.Intn(3)-1)
		if r.Bool() {
			v = -v
		}
		return v
	case 2:
		return int64(r.Intn(2001) - 1000)
	}
	return int64(r.U64())
}

// byte strings of length 0..96 for SetBytes, biased to the interesting lengths and values
func setBytesInput(in *sc.Inst, r *vh.Rng) []byte {
	lens := []int{0, 1, 2, in.L - 1, in.L, in.L + 1, 2 * in.L, 31, 32, 33, 63, 64, 65, 66, 95, 96, 97, 100}
	var n int
	if r.Chance(70) {
		n = lens[r.Intn(len(lens))]
	} else {
		n = r.Intn(101)
	}
	if n < 0 {
		n = 0
	}
	if n > 100 {
		n = 100
	}
	b := make([]byte, n)
	switch r.Intn(8) {
	case 0: // all zero
	case 1: // all 0xff
		for i := range b {
			b[i] = 0xff
		}
	case 2, 3: // k*q + small, as wide as fits
		max := new(big.Int).Lsh(big.NewInt(1), uint(8*n))
		if max.Cmp(in.Q) > 0 {
			k := r.BigBelow(new(big.Int).Div(max, in.Q))
			if r.Bool() {
				k.SetInt64(int64(r.Intn(3)))
			}
			v := k.Mul(k, in.Q)
			v.Add(v, big.NewInt(int64(r.Intn(5)-2)))
			if v.Sign() < 0 {
				v.SetInt64(0)
			}
			if v.Cmp(max) >= 0 {
				v.Sub(max, big.NewInt(1))
			}
			v.FillBytes(b)
			if in.LE {
				sc.Rev(b)
			}
		}
	case 4: // a single set byte (position sensitivity: catches byte-order mistakes)
		if n > 0 {
			b[r.Intn(n)] = byte(1 + r.Intn(255))
		}
	case 5: // 0x00.. / 0xff.. with random head or tail
		copy(b, r.Bytes(n))
		for i := n / 2; i < n; i++ {
			b[i] = byte(0xff * (r.Intn(2)))
		}
	default:
		copy(b, r.Bytes(n))
	}
	return b
}

type gen struct {
	rep    *vh.Report
	items  []string
	search bool
	id     int
}

func (g *gen) add(term string, desc interface{}, nontrivial bool) {
	if g.search {
		return
	}
	g.items = append(g.items, term)
	g.rep.Count(term, nontrivial)
	g.rep.Index(g.id, desc)
	if len(g.rep.Samples) < 6 && nontrivial && g.id%97 == 0 {
		g.rep.Sample(desc)
	}
}

// aliasing patterns of receiver.Op(a, b)
const (
	patFresh = iota // a new receiver
	patRecvA        // receiver is the first operand object
	patRecvB        // receiver is the second operand object
	patBoth         // receiver, first and second operand are one object
	patDirty        // receiver is an object with a history
)

var patNames = []string{"fresh", "recv=a", "recv=b", "recv=a=b", "dirty-recv"}

// operand routes: how the operand OBJECT was produced (its representation
// may depend on it, e.g. a short bigmod.Nat after One()/Zero())
const (
	rtUnmarshal = iota
	rtOne
	rtZero
	rtInt64
	rtSetBytes
	rtArith
	rtPick
)

var rtNames = []string{"UnmarshalBinary", "One", "Zero", "SetInt64", "SetBytes", "arithmetic", "Pick"}

// object builds a scalar OBJECT holding v through the given API route
func (g *gen) object(in *sc.Inst, v *big.Int, route int, r *vh.Rng) kyber.Scalar {
	switch route {
	case rtOne:
		return in.Mk().One()
	case rtZero:
		return in.Mk().Zero()
	case rtInt64:
		return in.Mk().SetInt64(v.Int64())
	case rtSetBytes:
		kq := new(big.Int).Mul(in.Q, big.NewInt(int64(r.Intn(3))))
		b := kq.Add(kq, v).Bytes()
		if in.LE {
			sc.Rev(b)
		}
		return in.Mk().SetBytes(b)
	case rtArith:
		t := sc.Operand(in, r)
		d := new(big.Int).Sub(v, t)
		d.Mod(d, in.Q)
		return in.Mk().Add(in.Scalar(d, g.rep), in.Scalar(t, g.rep))
	case rtPick:
		if in.Kind != sc.KCircl {
			n := (in.Q.BitLen() + 7) / 8
			return in.Mk().Pick(&sc.FixedStream{Buf: append(v.FillBytes(make([]byte, n)), r.Bytes(n)...)})
		}
	}
	return in.Scalar(v, g.rep)
}

// dirty returns a receiver that has been used before (kind k): its stored
// value / representation must not leak into the next result
func (g *gen) dirty(in *sc.Inst, k int, r *vh.Rng) (kyber.Scalar, string) {
	x, y := in.Scalar(sc.Nonzero(in, r), g.rep), in.Scalar(sc.Nonzero(in, r), g.rep)
	switch k % 8 {
	case 0:
		return in.Scalar(new(big.Int).Sub(in.Q, big.NewInt(1)), g.rep), "UnmarshalBinary(q-1)"
	case 1:
		return in.Mk().Mul(x, y), "Mul"
	case 2:
		return in.Mk().SetInt64(-5), "SetInt64(-5)"
	case 3:
		return in.Mk().Inv(x), "Inv"
	case 4:
		return in.Mk().Pick(vh.NewSeqStream(r.Bytes(16))), "Pick"
	case 5:
		return in.Mk().SetBytes(r.Bytes(64)), "SetBytes(64 bytes)"
	case 6:
		return in.Mk().One(), "One"
	}
	return in.Mk().Zero(), "Zero"
}

// opExact runs receiver.Op(sa, sb) under an aliasing pattern on the given
// operand objects (holding a, b), checks it against the integers and emits
// the correspondence case.  tag classifies the case in failure keys.
func (g *gen) opExact(in *sc.Inst, r *vh.Rng, op int, a, b *big.Int, sa, sb kyber.Scalar, pat int, dirtyKind int, tag string) {
	g.id++
	unary := op >= 4
	recv := in.Mk()
	how := ""
	switch pat {
	case patRecvA:
		recv = sa
	case patRecvB:
		recv = sb
	case patBoth:
		sb, b = sa, a
		recv = sa
	case patDirty:
		recv, how = g.dirty(in, dirtyKind, r)
	}
	pan, msg := vh.Try(func() { apply(op, recv, sa, sb) })
	replay := map[string]string{"impl": in.Name, "op": opNames[op], "a": a.String(), "b": b.String(), "q": in.Q.String(),
		"aliasing": patNames[pat], "receiver_history": how, "operands": tag}
	key := "scalar/" + in.Name + "/" + opNames[op]
	cls := ""
	if pat != patFresh {
		cls = "/" + patNames[pat]
	}
	if tag != "" {
		cls += "/operand-from:" + tag
	}
	if pan {
		g.rep.Fail(key+"/panic"+cls, "operation panicked: "+msg, replay)
		return
	}
	out := sc.BytesOf(recv)
	want := expected(op, a, b, in.Q)
	if string(out) != string(sc.Enc(in, want)) {
		replay["got"], replay["want"] = vh.Hex(out), vh.Hex(sc.Enc(in, want))
		g.rep.Fail(key+"/value"+cls, "result differs from the operation on integers modulo q", replay)
	}
	// operands that are not the receiver must be left unchanged
	if (recv != sa && string(sc.BytesOf(sa)) != string(sc.Enc(in, a))) ||
		(!unary && recv != sb && string(sc.BytesOf(sb)) != string(sc.Enc(in, b))) {
		g.rep.Fail(key+"/operand-modified"+cls, "an operand changed", replay)
	}
	g.rep.Dist(in.Name + "/" + opNames[op])
	if pat != patFresh {
		g.rep.Dist("aliasing/" + patNames[pat])
	}
	g.add(fmt.Sprintf("COp %d %s %d %s %s %s", g.id, in.Coq(), op, vh.CoqZ(a), vh.CoqZ(b), vh.CoqBytes(out)),
		replay, a.Sign() != 0 || b.Sign() != 0)
}

func (g *gen) opCase(in *sc.Inst, r *vh.Rng, op int) {
	a := sc.Operand(in, r)
	b := sc.Operand(in, r)
	if op == 3 {
		b = sc.Nonzero(in, r)
	}
	if op == 5 {
		a = sc.Nonzero(in, r)
	}
	pat := patFresh
	if r.Bool() { // a receiver that already holds something
		pat = patDirty
	}
	g.opExact(in, r, op, a, b, in.Scalar(a, g.rep), in.Scalar(b, g.rep), pat, r.Intn(8), "")
}

// enumCases: the part of the run that is ENUMERATED rather than sampled, so
// that every (implementation, operation, aliasing pattern), every setter on
// every kind of used receiver, every operation on operands produced by
// One/Zero/SetInt64/SetBytes/arithmetic/Pick, the Equal boundary pairs and
// the SetBytes length boundaries are hit in every run.
func (g *gen) enumCases(in *sc.Inst, r *vh.Rng) {
	big64 := in.Q.BitLen() > 64
	ladder := in.Kind == sc.KEd || in.Kind == sc.KCircl // inversion costs 2 s per case in the model
	// (1) aliasing patterns
	for op := 0; op <= 5; op++ {
		for pat := patFresh; pat <= patDirty; pat++ {
			if op >= 4 && (pat == patRecvB || pat == patBoth) {
				continue
			}
			a, b := sc.Nonzero(in, r), sc.Nonzero(in, r)
			g.opExact(in, r, op, a, b, in.Scalar(a, g.rep), in.Scalar(b, g.rep), pat, op+pat, "")
		}
	}
	// (2) operands produced by other API routes, in either position
	x := sc.Nonzero(in, r)
	small := big.NewInt(int64(3 + r.Intn(1000)))
	small.Mod(small, in.Q)
	one, zero := new(big.Int).Mod(big.NewInt(1), in.Q), big.NewInt(0)
	type od struct {
		v  *big.Int
		rt int
	}
	special := []od{{one, rtOne}, {zero, rtZero}, {small, rtInt64}, {sc.Operand(in, r), rtSetBytes}, {sc.Operand(in, r), rtArith}, {sc.Operand(in, r), rtPick}}
	for op := 0; op <= 3; op++ {
		for k, sp := range special {
			if op == 3 && (k >= 2 && k != 4 || ladder && k != 0) { // keep the number of (expensive) divisions small
				continue
			}
			if !(op == 3 && sp.v.Sign() == 0) {
				g.opExact(in, r, op, x, sp.v, in.Scalar(x, g.rep), g.object(in, sp.v, sp.rt, r), patFresh, 0, "b:"+rtNames[sp.rt])
			}
			if op != 3 {
				g.opExact(in, r, op, sp.v, x, g.object(in, sp.v, sp.rt, r), in.Scalar(x, g.rep), patFresh, 0, "a:"+rtNames[sp.rt])
			}
		}
	}
	if !ladder {
		g.opExact(in, r, 3, one, x, g.object(in, one, rtOne, r), in.Scalar(x, g.rep), patFresh, 0, "a:One")
	}
	g.opExact(in, r, 0, one, one, g.object(in, one, rtOne, r), g.object(in, one, rtOne, r), patFresh, 0, "a:One,b:One")
	g.opExact(in, r, 2, one, zero, g.object(in, one, rtOne, r), g.object(in, zero, rtZero, r), patFresh, 0, "a:One,b:Zero")
	g.opExact(in, r, 4, one, one, g.object(in, one, rtOne, r), in.Mk(), patFresh, 0, "a:One")
	g.opExact(in, r, 4, zero, zero, g.object(in, zero, rtZero, r), in.Mk(), patFresh, 0, "a:Zero")
	g.opExact(in, r, 5, one, one, g.object(in, one, rtOne, r), in.Mk(), patFresh, 0, "a:One")
	g.opExact(in, r, 4, small, small, g.object(in, small, rtInt64, r), in.Mk(), patFresh, 0, "a:SetInt64")
	// (3) setters on used receivers: nothing of the old value may survive
	for k := 0; k < 8; k++ {
		g.setterOnDirty(in, r, k)
	}
	// (4) Equal where the operands agree in their low 64 bits / low bytes only,
	// one of them produced by One/Zero/SetInt64, both directions
	if big64 {
		for k := 0; k < 3; k++ {
			hi := new(big.Int).Lsh(big.NewInt(int64(1+r.Intn(1000))), uint(64*(1+r.Intn((in.Q.BitLen()-1)/64))))
			if hi.Cmp(in.Q) >= 0 {
				hi.Lsh(big.NewInt(1), 64)
			}
			lowv := []od{{one, rtOne}, {zero, rtZero}, {small, rtInt64}}[k]
			y := new(big.Int).Add(hi, lowv.v)
			y.Mod(y, in.Q)
			g.equalExact(in, lowv.v, y, g.object(in, lowv.v, lowv.rt, r), in.Scalar(y, g.rep), rtNames[lowv.rt]+" vs same low limb")
			g.equalExact(in, lowv.v, lowv.v, g.object(in, lowv.v, lowv.rt, r), in.Scalar(lowv.v, g.rep), rtNames[lowv.rt]+" vs UnmarshalBinary")
		}
	}
	// (5) SetBytes length boundaries: every byte non-zero, so that nothing can
	// be dropped at either end unnoticed
	for _, n := range []int{0, 1, in.L - 1, in.L, in.L + 1, 32, 33, 63, 64, 65, 66, 95, 96, 97, 100, 129} {
		if n < 0 {
			continue
		}
		bs := make([]byte, n)
		for i := range bs {
			bs[i] = byte(1 + r.Intn(255))
		}
		g.setBytesExact(in, r, bs, n%3 == 0)
	}
}

// equalExact: x.Equal(y) and y.Equal(x) for objects holding a and b
func (g *gen) equalExact(in *sc.Inst, a, b *big.Int, x, y kyber.Scalar, tag string) {
	want := a.Cmp(b) == 0
	for dir := 0; dir < 2; dir++ {
		g.id++
		var eq bool
		pan, msg := vh.Try(func() { eq = x.Equal(y) })
		replay := map[string]string{"impl": in.Name, "op": "Equal", "a": a.String(), "b": b.String(), "q": in.Q.String(), "operands": tag, "direction": fmt.Sprint(dir)}
		if pan {
			g.rep.Fail("scalar/"+in.Name+"/Equal/panic", msg, replay)
		} else {
			if eq != want {
				g.rep.Fail("scalar/"+in.Name+"/Equal/operand-from:"+tag, fmt.Sprintf("Equal=%v but residues equal=%v", eq, want), replay)
			}
			g.rep.Dist(in.Name + "/Equal")
			g.add(fmt.Sprintf("CEqual %d %s %s %s %s", g.id, in.Coq(), vh.CoqZ(a), vh.CoqZ(b), vh.CoqBool(eq)), replay, true)
		}
		x, y, a, b = y, x, b, a
	}
}

// setterOnDirty: SetInt64 / SetBytes / Zero / One / Pick / Set on a used receiver
func (g *gen) setterOnDirty(in *sc.Inst, r *vh.Rng, k int) {
	for which := 0; which < 6; which++ {
		if (which+k)%2 == 1 { // half of the (setter, receiver kind) grid per run, alternating
			continue
		}
		g.id++
		recv, how := g.dirty(in, k, r)
		var want *big.Int
		var term, name string
		replay := map[string]string{"impl": in.Name, "receiver_history": how, "q": in.Q.String()}
		var pan bool
		var msg string
		switch which {
		case 0, 1: // small non-negative / negative int64
			v := int64(r.Intn(1 << 20))
			if which == 1 {
				v = -v - 1
			}
			name = "SetInt64"
			replay["v"] = fmt.Sprint(v)
			pan, msg = vh.Try(func() { recv.SetInt64(v) })
			want = new(big.Int).Mod(big.NewInt(v), in.Q)
			term = fmt.Sprintf("CInt64 %d %s %s ", g.id, in.Coq(), vh.CoqZ(big.NewInt(v)))
		case 2: // a short byte string
			bs := r.Bytes(1 + r.Intn(3))
			name = "SetBytes"
			replay["bytes"] = vh.Hex(bs)
			pan, msg = vh.Try(func() { recv.SetBytes(bs) })
			want = sc.Dec(in, bs)
			want.Mod(want, in.Q)
			term = fmt.Sprintf("CSetBytes %d %s %s ", g.id, in.Coq(), vh.CoqBytes(bs))
		case 3:
			name = "Zero"
			pan, msg = vh.Try(func() { recv.Zero() })
			want = big.NewInt(0)
			term = fmt.Sprintf("COp %d %s 6 0 0 ", g.id, in.Coq())
		case 4:
			name = "One"
			pan, msg = vh.Try(func() { recv.One() })
			want = new(big.Int).Mod(big.NewInt(1), in.Q)
			term = fmt.Sprintf("COp %d %s 7 0 0 ", g.id, in.Coq())
		default: // Set(x) then use: x + 0
			x := sc.Operand(in, r)
			name = "Set"
			replay["a"] = x.String()
			pan, msg = vh.Try(func() { recv.Set(in.Scalar(x, g.rep)) })
			want = x
			term = fmt.Sprintf("COp %d %s 0 %s 0 ", g.id, in.Coq(), vh.CoqZ(x))
		}
		key := "scalar/" + in.Name + "/" + name
		if pan {
			g.rep.Fail(key+"/panic/dirty-recv", name+" panicked on a used receiver: "+msg, replay)
			continue
		}
		out := sc.BytesOf(recv)
		if string(out) != string(sc.Enc(in, want)) {
			replay["got"], replay["want"] = vh.Hex(out), vh.Hex(sc.Enc(in, want))
			g.rep.Fail(key+"/value/dirty-recv", name+" on a used receiver: the old contents leak into the result", replay)
		}
		// and the object must behave as that value afterwards: recv + 1
		w1 := new(big.Int).Add(want, big.NewInt(1))
		w1.Mod(w1, in.Q)
		if s1 := in.Mk().Add(recv, in.Mk().One()); string(sc.BytesOf(s1)) != string(sc.Enc(in, w1)) {
			replay["got"] = vh.Hex(sc.BytesOf(s1))
			g.rep.Fail(key+"/then-Add/dirty-recv", "arithmetic on the object after "+name+" is wrong", replay)
		}
		g.rep.Dist(in.Name + "/" + name)
		g.rep.Dist("setter-on-used-receiver/" + name)
		g.add(term+vh.CoqBytes(out), replay, true)
	}
}

// setBytesExact: SetBytes of a given string
func (g *gen) setBytesExact(in *sc.Inst, r *vh.Rng, bs []byte, dirtyRecv bool) {
	g.id++
	cp := append([]byte{}, bs...)
	s := in.Mk()
	if dirtyRecv {
		s = in.Scalar(sc.Operand(in, r), g.rep)
	}
	replay := map[string]string{"impl": in.Name, "op": "SetBytes", "bytes": vh.Hex(bs), "q": in.Q.String()}
	key := "scalar/" + in.Name + "/SetBytes"
	pan, msg := vh.Try(func() { s.SetBytes(cp) })
	if pan {
		g.rep.Fail(key+"/panic", "SetBytes panicked: "+msg, replay)
		return
	}
	out := sc.BytesOf(s)
	want := sc.Dec(in, bs)
	want.Mod(want, in.Q)
	if string(out) != string(sc.Enc(in, want)) {
		replay["got"], replay["want"] = vh.Hex(out), vh.Hex(sc.Enc(in, want))
		g.rep.Fail(key+fmt.Sprintf("/value/len%s", lenClass(len(bs), in.L)), "SetBytes is not decode-then-reduce", replay)
	}
	if string(cp) != string(bs) {
		g.rep.Fail(key+"/input-modified", "SetBytes modified its input slice", replay)
	}
	g.rep.Dist(in.Name + "/SetBytes")
	g.rep.Dist("SetBytes/len" + lenClass(len(bs), in.L))
	g.add(fmt.Sprintf("CSetBytes %d %s %s %s", g.id, in.Coq(), vh.CoqBytes(bs), vh.CoqBytes(out)), replay, len(bs) > 0)
}

func (g *gen) setBytesCase(in *sc.Inst, r *vh.Rng) {
	g.setBytesExact(in, r, setBytesInput(in, r), r.Bool())
}

func lenClass(n, l int) string {
	switch {
	case n == 0:
		return "=0"
	case n < l:
		return "<l"
	case n == l:
		return "=l"
	case n <= 2*l:
		return "<=2l"
	}
	return ">2l"
}

func (g *gen) int64Case(in *sc.Inst, r *vh.Rng) {
	g.id++
	v := pickInt64(r)
	s := in.Mk()
	if r.Bool() {
		s = in.Scalar(sc.Operand(in, r), g.rep)
	}
	replay := map[string]string{"impl": in.Name, "op": "SetInt64", "v": fmt.Sprint(v), "q": in.Q.String()}
	key := "scalar/" + in.Name + "/SetInt64"
	pan, msg := vh.Try(func() { s.SetInt64(v) })
	if pan {
		g.rep.Fail(key+"/panic", "SetInt64 panicked: "+msg, replay)
		return
	}
	out := sc.BytesOf(s)
	want := new(big.Int).Mod(big.NewInt(v), in.Q)
	if string(out) != string(sc.Enc(in, want)) {
		replay["got"], replay["want"] = vh.Hex(out), vh.Hex(sc.Enc(in, want))
		cls := "nonneg"
		if v < 0 {
			cls = "negative"
		}
		g.rep.Fail(key+"/value/"+cls, "SetInt64(v) is not v mod q", replay)
	}
	g.rep.Dist(in.Name + "/SetInt64")
	g.add(fmt.Sprintf("CInt64 %d %s %s %s", g.id, in.Coq(), vh.CoqZ(big.NewInt(v)), vh.CoqBytes(out)), replay, v != 0)
}

// Equal on values reached by different computation paths
func (g *gen) equalCase(in *sc.Inst, r *vh.Rng) {
	g.id++
	a := sc.Operand(in, r)
	b := sc.Operand(in, r)
	switch r.Intn(4) {
	case 0:
		b = new(big.Int).Set(a)
	case 1: // differ in one bit
		b = new(big.Int).SetBit(a, r.Intn(in.Q.BitLen()), a.Bit(0)^1)
		b.Mod(b, in.Q)
	}
	x := in.Scalar(a, g.rep)
	// y holds b, computed as (b - t) + t, or (b * t) / t, or SetBytes of b + k*q
	var y kyber.Scalar
	t := sc.Nonzero(in, r)
	st := in.Scalar(t, g.rep)
	switch r.Intn(4) {
	case 0:
		y = in.Mk().Sub(in.Scalar(b, g.rep), st)
		y.Add(y, st)
	case 1:
		y = in.Mk().Mul(in.Scalar(b, g.rep), st)
		y = in.Mk().Div(y, st)
	case 2:
		kq := new(big.Int).Mul(in.Q, big.NewInt(int64(r.Intn(200))))
		kq.Add(kq, b)
		bs := kq.Bytes()
		if in.LE {
			sc.Rev(bs)
		}
		y = in.Mk().SetBytes(bs)
	default:
		y = in.Scalar(b, g.rep).Clone()
	}
	eq := x.Equal(y)
	eq2 := y.Equal(x)
	want := a.Cmp(b) == 0
	replay := map[string]string{"impl": in.Name, "op": "Equal", "a": a.String(), "b": b.String(), "q": in.Q.String(),
		"y_bytes": vh.Hex(sc.BytesOf(y))}
	if eq != want || eq2 != want {
		g.rep.Fail("scalar/"+in.Name+"/Equal", fmt.Sprintf("Equal=%v/%v but residues equal=%v", eq, eq2, want), replay)
	}
	g.rep.Dist(in.Name + "/Equal")
	g.add(fmt.Sprintf("CEqual %d %s %s %s %s", g.id, in.Coq(), vh.CoqZ(a), vh.CoqZ(b), vh.CoqBool(eq)), replay, true)
}

// Pick over a recorded key stream with forced retries
func (g *gen) pickCase(in *sc.Inst, r *vh.Rng) {
	g.id++
	bl := in.Q.BitLen()
	n := (bl + 7) / 8
	top := new(big.Int).Lsh(big.NewInt(1), uint(bl))
	cand := func(v *big.Int, garbage bool) []byte {
		b := v.FillBytes(make([]byte, n))
		if garbage && bl%8 != 0 { // bits above bitlen must be masked off by the sampler
			b[0] |= byte(r.Intn(256)) << uint(bl%8)
		}
		return b
	}
	var stream []byte
	retries := 0
	switch r.Intn(4) {
	case 0:
	case 1:
		retries = 1 + r.Intn(3)
	default:
		retries = r.Intn(8)
	}
	for k := 0; k < retries; k++ {
		span := new(big.Int).Sub(top, in.Q) // candidates in [q, 2^bl)
		var v *big.Int
		switch r.Intn(4) {
		case 0:
			v = new(big.Int).Set(in.Q)
		case 1:
			v = new(big.Int).Sub(top, big.NewInt(1))
		default:
			v = r.BigBelow(span)
			v.Add(v, in.Q)
		}
		if v.Cmp(top) >= 0 {
			v.Sub(top, big.NewInt(1))
		}
		if v.Cmp(in.Q) < 0 {
			continue
		}
		stream = append(stream, cand(v, r.Bool())...)
	}
	var acc *big.Int
	switch r.Intn(4) {
	case 0:
		acc = new(big.Int).Sub(in.Q, big.NewInt(1))
	case 1:
		acc = big.NewInt(int64(r.Intn(2)))
	default:
		acc = r.BigBelow(in.Q)
	}
	stream = append(stream, cand(acc, r.Bool())...)
	used := len(stream)
	tail1 := r.Bytes(2 * n)
	tail2 := r.Bytes(2 * n)
	f1 := &sc.FixedStream{Buf: append(append([]byte{}, stream...), tail1...)}
	f2 := &sc.FixedStream{Buf: append(append([]byte{}, stream...), tail2...)}
	s1, s2 := in.Mk(), in.Scalar(sc.Operand(in, r), g.rep)
	replay := map[string]string{"impl": in.Name, "op": "Pick", "stream": vh.Hex(f1.Buf), "q": in.Q.String()}
	key := "scalar/" + in.Name + "/Pick"
	pan, msg := vh.Try(func() { s1.Pick(f1); s2.Pick(f2) })
	if pan {
		g.rep.Fail(key+"/panic-or-overrun", "Pick panicked or consumed more than the accepted candidate: "+msg, replay)
		return
	}
	out := sc.BytesOf(s1)
	if v := sc.Dec(in, out); v.Cmp(in.Q) >= 0 || len(out) != in.L {
		g.rep.Fail(key+"/range", "Pick returned a value outside [0,q)", replay)
	}
	if string(out) != string(sc.BytesOf(s2)) || f1.Pos != f2.Pos {
		g.rep.Fail(key+"/not-determined-by-consumed-bytes", "same consumed bytes, different result", replay)
	}
	if f1.Pos != used {
		replay["consumed"] = fmt.Sprint(f1.Pos)
		g.rep.Fail(key+"/consumed", fmt.Sprintf("consumed %d bytes, the first candidate below q ends at %d", f1.Pos, used), replay)
	}
	if in.Kind != sc.KCircl && sc.Dec(in, out).Cmp(acc) != 0 {
		g.rep.Fail(key+"/value", "Pick is not the first candidate below q", replay)
	}
	g.rep.Dist(in.Name + "/Pick")
	g.rep.Dist(fmt.Sprintf("Pick/retries=%d", retries))
	g.add(fmt.Sprintf("CPick %d %s %s %s %d", g.id, in.Coq(), vh.CoqBytes(f1.Buf), vh.CoqBytes(out), f1.Pos), replay, true)
}

var limbNames = []string{"scMulAdd", "scAdd", "scSub", "scMul", "scReduce"}

// the limb functions of group/edwards25519/scalar.go driven directly (verif
// export hooks) on reduced operands; scReduce on arbitrary 64-byte strings
func (g *gen) limbCase(in *sc.Inst, r *vh.Rng) {
	g.id++
	fn := r.Intn(5)
	var a, b, c, out [32]byte
	va, vb, vc := sc.Operand(in, r), sc.Operand(in, r), sc.Operand(in, r)
	copy(a[:], sc.Enc(in, va))
	copy(b[:], sc.Enc(in, vb))
	copy(c[:], sc.Enc(in, vc))
	var wide [64]byte
	ia, ib, ic := a[:], b[:], c[:]
	want := new(big.Int)
	switch fn {
	case 0:
		edwards25519.VerifScMulAdd(&out, &a, &b, &c)
		want.Mul(va, vb).Add(want, vc)
	case 1:
		edwards25519.VerifScAdd(&out, &a, &c)
		want.Add(va, vc)
		ib = nil
	case 2:
		edwards25519.VerifScSub(&out, &a, &c)
		want.Sub(va, vc)
		ib = nil
	case 3:
		edwards25519.VerifScMul(&out, &a, &b)
		want.Mul(va, vb)
		ic = nil
	default:
		switch r.Intn(4) {
		case 0:
			for i := range wide {
				wide[i] = 0xff
			}
		case 1: // 21-bit limb patterns over the whole width
			v := new(big.Int).Lsh(sc.LimbPattern(r), 252)
			v.Or(v, sc.LimbPattern(r))
			v.Or(v, new(big.Int).Lsh(big.NewInt(int64(r.Intn(256))), 504))
			bb := v.FillBytes(make([]byte, 64))
			sc.Rev(bb)
			copy(wide[:], bb)
		case 2: // k*L + small
			k := r.BigBelow(new(big.Int).Lsh(big.NewInt(1), 258))
			k.Mul(k, in.Q).Add(k, big.NewInt(int64(r.Intn(3))))
			bb := k.FillBytes(make([]byte, 64))
			sc.Rev(bb)
			copy(wide[:], bb)
		default:
			copy(wide[:], r.Bytes(64))
		}
		edwards25519.VerifScReduce(&out, &wide)
		ia, ib, ic = wide[:], nil, nil
		tmp := append([]byte{}, wide[:]...)
		sc.Rev(tmp)
		want.SetBytes(tmp)
	}
	want.Mod(want, in.Q)
	replay := map[string]string{"fn": limbNames[fn], "a": vh.Hex(ia), "b": vh.Hex(ib), "c": vh.Hex(ic), "got": vh.Hex(out[:])}
	if string(out[:]) != string(sc.Enc(in, want)) {
		replay["want"] = vh.Hex(sc.Enc(in, want))
		g.rep.Fail("scalar/ed25519/limb/"+limbNames[fn]+"/value", "limb function differs from its specification modulo L", replay)
	}
	g.rep.Dist("ed25519/limb/" + limbNames[fn])
	g.add(fmt.Sprintf("CLimb %d %d %s %s %s %s", g.id, fn, vh.CoqBytes(ia), vh.CoqBytes(ib), vh.CoqBytes(ic), vh.CoqBytes(out[:])), replay, true)
}

var ctChild = flag.Bool("ctchild", false, "internal: run as the constantTime child of a thorough run")

// runCT builds this harness a second time with the constantTime build tag
// (mod.Int over bigmod; Ed25519 and CIRCL scalars on top of it), runs it, and
// merges its cases, oracle failures and counters into the report.
func runCT(o vh.Opts, rep *vh.Report) {
	bin := filepath.Join(o.Out, "c02ct.bin")
	args := []string{"build"}
	if alt := os.Getenv("VERIF_REPO"); alt != "" {
		args = append(args, "-modfile="+filepath.Join("..", "build", "alt", "C02.mod"))
	}
	args = append(args, "-tags", "verif,constantTime", "-o", bin, "./cmd/c02")
	if out, err := exec.Command("go", args...).CombinedOutput(); err != nil {
		msg := string(out)
		if len(msg) > 600 {
			msg = msg[:600]
		}
		rep.Note("constantTime variant NOT run: build failed: " + msg)
		return
	}
	dir := filepath.Join(o.Out, "ct")
	cargs := []string{"-seed", fmt.Sprint(o.Seed), "-tier", o.Tier, "-out", dir, "-ctchild"}
	if o.Search {
		cargs = append(cargs, "-search")
	}
	if out, err := exec.Command(bin, cargs...).CombinedOutput(); err != nil {
		rep.Fail("scalar/constantTime/harness-crashed", "the constantTime harness run failed: "+string(out), nil)
		return
	}
	os.Remove(bin)
	b, err := os.ReadFile(filepath.Join(dir, "report.json"))
	if err != nil {
		rep.Note("constantTime variant: no report")
		return
	}
	var child vh.Report
	if err := json.Unmarshal(b, &child); err != nil {
		rep.Note("constantTime variant: bad report")
		return
	}
	for _, f := range child.CaseFiles {
		if err := os.Rename(filepath.Join(dir, f), filepath.Join(o.Out, f)); err == nil {
			rep.CaseFiles = append(rep.CaseFiles, f)
		}
	}
	rep.Evaluations += child.Evaluations
	rep.Distinct += child.Distinct
	for k, v := range child.Distribution {
		rep.Distribution[k] += v
	}
	for k, v := range child.CaseIndex {
		rep.CaseIndex[k] = v
	}
	rep.Failures = append(rep.Failures, child.Failures...)
	rep.Note(fmt.Sprintf("constantTime variant (build tag constantTime): %d cases, %d oracle failures", child.Evaluations, len(child.Failures)))
}

func main() {
	o := vh.ParseFlags()
	rng := vh.NewRng(o.Seed)
	rep := vh.NewReport("C02", o.Seed, o.Tier)
	rep.Rule = "per scalar implementation (ed25519 limb code; mod.Int for P-256, BN256, BN254, kilic, QR-512 and 9 synthetic moduli in both byte orders; CIRCL; gnark): Add/Sub/Mul/Div/Neg/Inv/Zero/One on operands from {0,1,2,q-1,q-2,2^k,2^k+-1,(q+-1)/2, 21-bit limb patterns, 64-bit word patterns, uniform}, SetBytes on strings of length 0..100 (all-0, all-ff, k*q+-d, single byte, random), SetInt64 on int64 boundary values, Equal across computation paths, Pick over recorded streams with 0..7 forced rejections; the Ed25519 limb functions scMulAdd/scAdd/scSub/scMul driven directly on reduced operands and scReduce on 64-byte strings (all-ff, limb patterns, k*L+d, random); ENUMERATED in every run per implementation: every operation under every aliasing pattern (fresh receiver, receiver = first operand, = second operand, = both, used receiver of 8 kinds), operations on operands produced by One/Zero/SetInt64/SetBytes/arithmetic/Pick in either position, setters (SetInt64 +/-, SetBytes, Zero, One, Set) on used receivers followed by arithmetic, Equal in both directions on operands agreeing in their low 64 bits, SetBytes of all-non-zero strings of 16 boundary lengths 0..129; a second binary built with -tags constantTime (mod.Int over bigmod, Ed25519 and CIRCL on top) runs the same enumeration plus 500 sampled cases in the quick tier (a quarter of the budget in thorough); distinct = distinct canonical case text; non-trivial = some operand / input non-zero"
	insts := sc.Instances()
	total := 2000
	invScale := 1
	if o.Thorough {
		total = 30000
		invScale = 6
	}
	if o.Search {
		total *= 8
	}
	g := &gen{rep: rep, search: o.Search}
	prefix := "c02"
	if *ctChild {
		g.id = 10000000
		prefix = "c02ct"
		total /= 4
		if !o.Thorough {
			total = 500
		}
	}
	wsum := 0
	for _, in := range insts {
		wsum += in.Weight
	}
	for _, in := range insts {
		r := rng.Fork()
		if *ctChild && !o.Thorough && in.Kind == sc.KCircl {
			continue // pairing/bls12381/circl/scalar.go has no build constraint: same code as the default build
		}
		n := total * in.Weight / wsum
		nInv := in.NInv * invScale
		if o.Search {
			nInv *= 20
		}
		for k := 0; k < n; k++ {
			c := r.Fork()
			switch x := c.Intn(100); {
			case x < 36:
				g.opCase(in, c, c.Intn(3))
			case x < 44:
				g.opCase(in, c, 4)
			case x < 46:
				g.opCase(in, c, 6+c.Intn(2))
			case x < 68:
				g.setBytesCase(in, c)
			case x < 80:
				g.int64Case(in, c)
			case x < 90:
				g.equalCase(in, c)
			default:
				g.pickCase(in, c)
			}
		}
		if in.Kind == sc.KEd {
			for k := 0; k < n/3; k++ {
				g.limbCase(in, r.Fork())
			}
		}
		g.enumCases(in, r.Fork())
		if o.Thorough || o.Search { // additional sampled inversions / divisions
			for k := 0; k < nInv; k++ {
				c := r.Fork()
				op := 5
				if k%2 == 1 {
					op = 3
				}
				g.opCase(in, c, op)
			}
		}
	}
	if !o.Search {
		// spread the expensive cases over the shards: deterministic shuffle
		idx := make([]int, len(g.items))
		for i := range idx {
			idx[i] = i
		}
		sh := vh.NewRng(o.Seed ^ 0x5eed)
		for i := len(idx) - 1; i > 0; i-- {
			j := sh.Intn(i + 1)
			idx[i], idx[j] = idx[j], idx[i]
		}
		items := make([]string, len(idx))
		for i, j := range idx {
			items[i] = g.items[j]
		}
		cf := &vh.CaseFile{Header: "From Kyber Require Import Scalar.ScalarRun.", Type: "case", Runner: "mismatches", Items: items}
		per := 100
		if o.Thorough {
			per = 200
		}
		vh.WriteShards(o.Out, prefix, cf, per, rep)
	}
	if !sc.CT && !*ctChild {
		runCT(o, rep)
	}
	rep.Write(o.Out)
}
