// Correspondence harness and property oracles for C12 (threshold Schnorr, sign/dss).
//
// Distributed keys come from honest runs of BOTH DKG packages (share/dkg/rabin,
// share/dkg/pedersen).  One case = the complete history of one DSS instance
// (own PartialSig() calls and received partial signatures: valid ones of a
// t-subset of signers in some arrival order, plus injected invalid / forged /
// cross-session / duplicate / out-of-range ones) with, after every call, its
// result, EnoughPartialSig() and Signature().
//
//   - over the transparent dlog group (vh.DlogGroup, order 2^61-1) every value
//     is known exactly and the Coq model (DSS/DSSRun.v) recomputes every
//     observation, including all signature bytes;
//   - over Ed25519 (and P-256) the oracles evaluate the property directly:
//     valid partials accepted, everything else rejected, no signature below t,
//     with t valid partials one signature, equal at all participants, equal to
//     R || r + H(R,A,m)*a, accepted by dss.Verify, eddsa.Verify,
//     schnorr.Verify and crypto/ed25519.Verify.
package main

import (
	"bytes"
	"crypto/ed25519"
	"crypto/sha256"
	"crypto/sha512"
	"encoding/binary"
	"errors"
	"flag"
	"fmt"
	"math"
	"math/big"
	"sort"
	"strings"

	"go.dedis.ch/kyber/v4"
	"go.dedis.ch/kyber/v4/group/edwards25519"
	"go.dedis.ch/kyber/v4/group/p256"
	"go.dedis.ch/kyber/v4/share"
	"go.dedis.ch/kyber/v4/sign/dss"
	"go.dedis.ch/kyber/v4/sign/eddsa"
	"go.dedis.ch/kyber/v4/sign/schnorr"
	"kyverif/vh"
)

// ---------------------------------------------------------------- worlds

type world struct {
	name     string
	group    string // dlog | ed25519 | p256
	kind     string // which DKG produced (long, random): rabin/rabin, pedersen/pedersen, rabin/pedersen, pedersen/rabin
	suite    fullSuite
	dl       *vh.DlogGroup
	n, t     int
	secs     []kyber.Scalar
	pubs     []kyber.Point
	long     []dss.DistKeyShare
	rnd      []dss.DistKeyShare
	rndOther []dss.DistKeyShare // one-time key of another session
	msg      []byte
	otherMsg []byte
	expSig   []byte // R || r + H(R,A,m)*a computed from the shared secrets
	refSig   []byte // first signature any participant produced
	refWho   string
}

type rngStream struct{ r *vh.Rng }

func (s *rngStream) XORKeyStream(dst, src []byte) {
	ks := s.r.Bytes(len(src))
	for i := range src {
		dst[i] = src[i] ^ ks[i]
	}
}

type rngReader struct{ r *vh.Rng }

func (s *rngReader) Read(p []byte) (int, error) {
	copy(p, s.r.Bytes(len(p)))
	return len(p), nil
}

func runDKG(kind string, suite fullSuite, secs []kyber.Scalar, pubs []kyber.Point, t int, rng *vh.Rng) ([]dss.DistKeyShare, error) {
	if kind == "rabin" {
		return rabinDKG(suite, secs, pubs, t)
	}
	return pedersenDKG(suite, secs, pubs, t, rng.Bytes(32), rng.Bool(), &rngReader{rng.Fork()})
}

func newWorld(group, kind string, n, t int, rng *vh.Rng) (*world, error) {
	w := &world{group: group, kind: kind, n: n, t: t}
	switch group {
	case "dlog":
		w.dl = vh.NewDlogGroup(vh.Q61, &rngStream{rng.Fork()})
		w.suite = w.dl
	case "ed25519":
		w.suite = edwards25519.NewBlakeSHA256Ed25519WithRand(&rngStream{rng.Fork()})
	case "p256":
		w.suite = p256.NewBlakeSHA256P256()
	}
	w.name = fmt.Sprintf("%s/%s/n=%d/t=%d", group, kind, n, t)
	for i := 0; i < n; i++ {
		s := w.suite.Scalar().Pick(w.suite.RandomStream())
		w.secs = append(w.secs, s)
		w.pubs = append(w.pubs, w.suite.Point().Mul(s, nil))
	}
	ks := strings.Split(kind, "/")
	var err error
	if w.long, err = runDKG(ks[0], w.suite, w.secs, w.pubs, t, rng); err != nil {
		return nil, err
	}
	if w.rnd, err = runDKG(ks[1], w.suite, w.secs, w.pubs, t, rng); err != nil {
		return nil, err
	}
	if w.rndOther, err = runDKG(ks[1], w.suite, w.secs, w.pubs, t, rng); err != nil {
		return nil, err
	}
	w.msg = rng.Bytes(rng.Intn(40))
	w.otherMsg = append(append([]byte{}, w.msg...), 0x21)
	// the signature the property demands: R || r + H(R||A||m)*a
	var ls, rs []*share.PriShare
	for i := 0; i < n; i++ {
		ls = append(ls, w.long[i].PriShare())
		rs = append(rs, w.rnd[i].PriShare())
	}
	a, err := share.RecoverSecret(w.suite, ls, uint32(t), uint32(n))
	if err != nil {
		return nil, err
	}
	r, err := share.RecoverSecret(w.suite, rs, uint32(t), uint32(n))
	if err != nil {
		return nil, err
	}
	A, R := w.long[0].Commitments()[0], w.rnd[0].Commitments()[0]
	if !A.Equal(w.suite.Point().Mul(a, nil)) || !R.Equal(w.suite.Point().Mul(r, nil)) {
		return nil, fmt.Errorf("DKG output inconsistent: commitment[0] is not secret*B")
	}
	hh := sha512.New()
	_, _ = R.MarshalTo(hh)
	_, _ = A.MarshalTo(hh)
	hh.Write(w.msg)
	h := w.suite.Scalar().SetBytes(hh.Sum(nil))
	s := w.suite.Scalar().Add(r, w.suite.Scalar().Mul(h, a))
	var b bytes.Buffer
	_, _ = R.MarshalTo(&b)
	_, _ = s.MarshalTo(&b)
	w.expSig = b.Bytes()
	return w, nil
}

func (w *world) newDSS(i int, rnd []dss.DistKeyShare, msg []byte) *dss.DSS {
	d, err := dss.NewDSS(w.suite, w.secs[i], w.pubs, w.long[i], rnd[i], msg, uint32(w.t))
	if err != nil {
		panic("NewDSS: " + err.Error())
	}
	return d
}

// honest partial signature of participant j (a fresh instance)
func (w *world) honest(j int) *dss.PartialSig {
	ps, err := w.newDSS(j, w.rnd, w.msg).PartialSig()
	if err != nil {
		panic(err)
	}
	return ps
}

func (w *world) resign(ps *dss.PartialSig, key kyber.Scalar) {
	sig, err := schnorr.Sign(w.suite, key, ps.Hash(w.suite))
	if err != nil {
		panic(err)
	}
	ps.Signature = sig
}

// ---------------------------------------------------------------- histories

type hop struct {
	sign  bool
	ps    *dss.PartialSig
	class string // generator's label
	from  int    // signer whose VALID partial this is, -1 for junk
}

var junkClasses = []string{"flip-sig", "flip-v", "forged-v", "resigned", "resigned-outsider", "wrong-index",
	"other-session", "other-session-relabelled", "sid-relabel", "sid-random", "other-msg", "index-n", "index-max",
	"short-sig", "empty-sig", "long-sig"}

func (w *world) junk(class string, rng *vh.Rng) *dss.PartialSig {
	j := rng.Intn(w.n)
	base := w.honest(j)
	ps := &dss.PartialSig{Partial: &share.PriShare{I: base.Partial.I, V: base.Partial.V.Clone()},
		SessionID: append([]byte{}, base.SessionID...), Signature: append([]byte{}, base.Signature...)}
	switch class {
	case "flip-sig":
		k := rng.Intn(len(ps.Signature) * 8)
		ps.Signature[k/8] ^= 1 << uint(k%8)
	case "flip-v":
		ps.Partial.V = w.suite.Scalar().Add(ps.Partial.V, w.suite.Scalar().SetInt64(int64(1+rng.Intn(5))))
	case "forged-v":
		ps.Partial.V = w.suite.Scalar().Add(ps.Partial.V, w.suite.Scalar().SetInt64(int64(1+rng.Intn(5))))
		w.resign(ps, w.secs[j])
	case "resigned":
		k := (j + 1 + rng.Intn(w.n-1)) % w.n
		w.resign(ps, w.secs[k])
	case "resigned-outsider":
		w.resign(ps, w.suite.Scalar().Pick(&rngStream{rng}))
	case "wrong-index":
		k := (j + 1 + rng.Intn(w.n-1)) % w.n
		ps.Partial.I = uint32(k)
		w.resign(ps, w.secs[k])
	case "other-session":
		o, _ := w.newDSS(j, w.rndOther, w.msg).PartialSig()
		return o
	case "other-session-relabelled":
		o, _ := w.newDSS(j, w.rndOther, w.msg).PartialSig()
		ps.Partial = o.Partial
		w.resign(ps, w.secs[j])
	case "sid-relabel":
		o, _ := w.newDSS(j, w.rndOther, w.msg).PartialSig()
		ps.SessionID = o.SessionID
		w.resign(ps, w.secs[j])
	case "sid-random":
		ps.SessionID = rng.Bytes(rng.Intn(40))
		w.resign(ps, w.secs[j])
	case "other-msg":
		o, _ := w.newDSS(j, w.rnd, w.otherMsg).PartialSig()
		return o
	case "index-n":
		ps.Partial.I = uint32(w.n)
		w.resign(ps, w.secs[j])
	case "index-max":
		ps.Partial.I = math.MaxUint32
		w.resign(ps, w.secs[j])
	case "short-sig":
		ps.Signature = ps.Signature[:rng.Intn(len(ps.Signature))]
	case "empty-sig":
		ps.Signature = nil
	case "long-sig":
		ps.Signature = append(ps.Signature, byte(rng.Intn(256)))
	}
	return ps
}

// history of combiner c: the valid partials of the signers in `order` (own one
// by PartialSig()), with junk, duplicates and echoes of the own partial mixed in
func (w *world) history(c int, order []int, rng *vh.Rng, njunk int, allowEcho bool) []hop {
	var h []hop
	for _, j := range order {
		if j == c {
			h = append(h, hop{sign: true, class: "own", from: c})
		} else {
			h = append(h, hop{ps: w.honest(j), class: "honest", from: j})
		}
	}
	ins := func(x hop) {
		p := rng.Intn(len(h) + 1)
		h = append(h, hop{})
		copy(h[p+1:], h[p:])
		h[p] = x
	}
	for k := 0; k < njunk; k++ {
		switch r := rng.Intn(10); {
		case r < 6:
			cl := junkClasses[rng.Intn(len(junkClasses))]
			ins(hop{ps: w.junk(cl, rng), class: cl, from: -1})
		case r < 8 && len(order) > 0:
			// a second delivery of a valid partial of the history (fresh signature)
			j := order[rng.Intn(len(order))]
			if j != c {
				ins(hop{ps: w.honest(j), class: "honest-again", from: j})
			} else {
				ins(hop{sign: true, class: "own-again", from: c})
			}
		case r < 9 && allowEcho:
			// the own valid partial arrives from the network (issued by another instance of c)
			ins(hop{ps: w.honest(c), class: "echo-own", from: c})
		default:
			ins(hop{sign: true, class: "own-extra", from: c})
		}
	}
	return h
}

// ---------------------------------------------------------------- running + oracles

type step struct {
	res    string // Coq wres
	cls    int
	enough bool
	sig    []byte // nil = error
}

func classify(err error) int {
	if err == nil {
		return 0
	}
	if errors.Is(err, dss.ErrInvalidSignatureIndex) {
		return 1
	}
	m := err.Error()
	switch {
	case strings.Contains(m, "session id"):
		return 3
	case strings.Contains(m, "already received"):
		return 4
	case strings.Contains(m, "partial signature not valid"):
		return 5
	}
	return 2
}

func psReplay(ps *dss.PartialSig) map[string]interface{} {
	if ps == nil || ps.Partial == nil {
		return nil
	}
	return map[string]interface{}{"I": ps.Partial.I, "V": ps.Partial.V.String(), "sid": vh.Hex(ps.SessionID), "sig": vh.Hex(ps.Signature)}
}

type runner struct {
	rep *vh.Report
}

// verifyAll checks the signature with every verifier applicable to the group.
func (w *world) verifyAll(sig []byte) (string, error) {
	A := w.long[0].Commitments()[0]
	if err := schnorr.Verify(w.suite, A, w.msg, sig); err != nil {
		return "schnorr.Verify", err
	}
	if w.group == "ed25519" {
		if err := dss.Verify(A, w.msg, sig); err != nil {
			return "dss.Verify", err
		}
		if err := eddsa.Verify(A, w.msg, sig); err != nil {
			return "eddsa.Verify", err
		}
		pb, _ := A.MarshalBinary()
		if !ed25519.Verify(ed25519.PublicKey(pb), w.msg, sig) {
			return "crypto/ed25519.Verify", errors.New("rejected")
		}
	}
	return "", nil
}

// run drives one instance through the history, evaluates the oracles after
// every call and returns what was observed.
func (r *runner) run(w *world, c int, h []hop, desc map[string]interface{}) ([]step, []hop) {
	rep := r.rep
	d := w.newDSS(c, w.rnd, w.msg)
	delivered := map[int]bool{}
	echo := false
	var out []step
	fail := func(key, what string, k int) {
		rp := map[string]interface{}{"world": w.name, "combiner": c, "history": desc, "at_call": k}
		if k >= 0 && k < len(h) {
			rp["call_class"] = h[k].class
			rp["partial"] = psReplay(h[k].ps)
		}
		rep.Fail(key, what, rp)
	}
	for k, o := range h {
		var st step
		if o.sign {
			var ps *dss.PartialSig
			var err error
			if p, m := vh.Try(func() { ps, err = d.PartialSig() }); p {
				fail("dss.PartialSig/panic", m, k)
				return out, h[:k]
			}
			if err != nil || ps == nil {
				fail("dss.PartialSig/error", fmt.Sprint(err), k)
				return out, h[:k]
			}
			h[k].ps = ps
			delivered[c] = true
			st.res = "sign"
			// the own partial must be acceptable to the others
			if ps.Partial.I != uint32(c) {
				fail("dss.PartialSig/wrong-index", fmt.Sprintf("index %d issued by participant %d", ps.Partial.I, c), k)
			}
		} else {
			var err error
			if p, m := vh.Try(func() { err = d.ProcessPartialSig(o.ps) }); p {
				fail("dss.ProcessPartialSig/panic/"+o.class, m, k)
				return out, h[:k]
			}
			st.cls = classify(err)
			rep.Dist(fmt.Sprintf("verdict:%s:%d", o.class, st.cls))
			if o.from >= 0 {
				if o.from == c {
					echo = true
				}
				if delivered[o.from] {
					if err == nil {
						fail("dss.ProcessPartialSig/duplicate-accepted", "a second partial signature of the same signer was accepted", k)
					}
				} else if err != nil {
					fail("dss.ProcessPartialSig/valid-partial-rejected", err.Error(), k)
				}
				delivered[o.from] = true
			} else if err == nil {
				fail("dss.ProcessPartialSig/"+o.class+"-accepted", "an invalid partial signature was accepted", k)
			}
		}
		st.enough = d.EnoughPartialSig()
		var sig []byte
		var serr error
		if p, m := vh.Try(func() { sig, serr = d.Signature() }); p {
			fail("dss.Signature/panic", m, k)
			return out, h[:k]
		}
		if serr == nil {
			st.sig = sig
		}
		nd := len(delivered)
		if nd < w.t {
			if serr == nil {
				fail("dss.Signature/below-threshold", fmt.Sprintf("signature produced from %d < t=%d valid partials", nd, w.t), k)
			}
			if st.enough {
				if echo {
					rep.Dist("quirk:EnoughPartialSig-true-below-t(own partial received and issued: counted twice; Signature() refuses)")
				} else {
					fail("dss.EnoughPartialSig/true-below-threshold", fmt.Sprintf("%d < t=%d valid partials", nd, w.t), k)
				}
			}
		} else {
			if !st.enough {
				fail("dss.EnoughPartialSig/false-with-t-valid", fmt.Sprintf("%d >= t=%d valid partials", nd, w.t), k)
			}
			if serr != nil {
				fail("dss.Signature/refused-with-t-valid", serr.Error(), k)
			} else {
				if who, err := w.verifyAll(sig); err != nil {
					fail("dss.Signature/rejected-by-"+who, err.Error()+" sig="+vh.Hex(sig), k)
				}
				if !bytes.Equal(sig, w.expSig) {
					fail("dss.Signature/not-the-schnorr-signature", "got "+vh.Hex(sig)+" want "+vh.Hex(w.expSig), k)
				}
				if w.refSig == nil {
					w.refSig, w.refWho = sig, fmt.Sprintf("combiner %d %v", c, desc)
				} else if !bytes.Equal(sig, w.refSig) {
					fail("dss.Signature/participants-disagree", "got "+vh.Hex(sig)+" but "+w.refWho+" got "+vh.Hex(w.refSig), k)
				}
			}
		}
		out = append(out, st)
	}
	return out, h
}

// ---------------------------------------------------------------- Coq case emission (dlog worlds)

type tables struct {
	q      *big.Int
	hc, hs map[string]string
}

func be8(v *big.Int) []byte {
	b := make([]byte, 8)
	v.FillBytes(b)
	return b
}
func penc(v *big.Int) []byte { return append([]byte{4}, be8(v)...) }

func (t *tables) Hs(x []byte) []byte {
	h := sha256.Sum256(x)
	t.hs[string(x)] = vh.CoqBytes(h[:])
	return h[:]
}
func (t *tables) Hc(x []byte) *big.Int {
	h := sha512.Sum512(x)
	v := new(big.Int).SetBytes(h[:])
	v.Mod(v, t.q)
	t.hc[string(x)] = vh.CoqZ(v)
	return v
}
func (t *tables) psHash(i uint32, v *big.Int, sid []byte) []byte {
	var le [4]byte
	binary.LittleEndian.PutUint32(le[:], i)
	sh := t.Hs(append(be8(v), le[:]...))
	return t.Hs(append(append([]byte{}, sh...), sid...))
}
func coqTable(m map[string]string) string {
	ks := make([]string, 0, len(m))
	for k := range m {
		ks = append(ks, k)
	}
	sort.Strings(ks)
	var it []string
	for _, k := range ks {
		it = append(it, "("+vh.CoqBytes([]byte(k))+", "+m[k]+")")
	}
	return vh.CoqList(it)
}

func coqPs(ps *dss.PartialSig) string {
	return fmt.Sprintf("%s %s %s %s", vh.CoqZ(big.NewInt(int64(ps.Partial.I))), vh.CoqZ(vh.ScalarVal(ps.Partial.V)),
		vh.CoqBytes(ps.SessionID), vh.CoqBytes(ps.Signature))
}

func (w *world) emitCase(id int, c int, h []hop, obs []step) string {
	q := w.dl.Q
	tb := &tables{q: q, hc: map[string]string{}, hs: map[string]string{}}
	dl := func(p kyber.Point) *big.Int { return vh.Dlog(p) }
	var longC, randC []string
	var sidIn []byte
	for _, p := range w.long[c].Commitments() {
		longC = append(longC, vh.CoqZ(dl(p)))
		sidIn = append(sidIn, penc(dl(p))...)
	}
	for _, p := range w.rnd[c].Commitments() {
		randC = append(randC, vh.CoqZ(dl(p)))
		sidIn = append(sidIn, penc(dl(p))...)
	}
	tb.Hs(sidIn)
	R, A := dl(w.rnd[c].Commitments()[0]), dl(w.long[c].Commitments()[0])
	tb.Hc(append(append(penc(R), penc(A)...), w.msg...))
	var parts []string
	for _, p := range w.pubs {
		parts = append(parts, vh.CoqZ(dl(p)))
	}
	var ops, observed []string
	for k, o := range h {
		ps := o.ps
		if int(ps.Partial.I) < w.n {
			m := tb.psHash(ps.Partial.I, vh.ScalarVal(ps.Partial.V), ps.SessionID)
			if len(ps.Signature) == 17 && ps.Signature[0] == 4 {
				rv := new(big.Int).SetBytes(ps.Signature[1:9])
				if rv.Cmp(q) < 0 {
					tb.Hc(append(append(penc(rv), penc(dl(w.pubs[ps.Partial.I]))...), m...))
				}
			}
		}
		var res string
		if o.sign {
			kk := new(big.Int).SetBytes(ps.Signature[1:9])
			ops = append(ops, "WSign "+vh.CoqZ(kk))
			res = "RSign " + coqPs(ps)
		} else {
			ops = append(ops, "WRecv "+coqPs(ps))
			res = "RRecv " + vh.CoqInt(obs[k].cls)
		}
		observed = append(observed, fmt.Sprintf("(%s, %s, %s)", res, vh.CoqBool(obs[k].enough),
			vh.CoqOption(vh.CoqBytes(obs[k].sig), obs[k].sig != nil)))
	}
	return fmt.Sprintf("CDss %d %s %s %s %s %s %d %s %s %s %s %s %d %s %s", id, vh.CoqZ(q), coqTable(tb.hc), coqTable(tb.hs),
		vh.CoqList(parts), vh.CoqZ(vh.ScalarVal(w.secs[c])), w.t, vh.CoqList(longC), vh.CoqList(randC),
		vh.CoqZ(vh.ScalarVal(w.long[c].PriShare().V)), vh.CoqZ(vh.ScalarVal(w.rnd[c].PriShare().V)),
		vh.CoqBytes(w.msg), c, vh.CoqList(ops), vh.CoqList(observed))
}

// ---------------------------------------------------------------- generation

func subsets(n, k int, f func([]int)) {
	var cur []int
	var rec func(start int)
	rec = func(start int) {
		if len(cur) == k {
			f(append([]int{}, cur...))
			return
		}
		for i := start; i < n; i++ {
			cur = append(cur, i)
			rec(i + 1)
			cur = cur[:len(cur)-1]
		}
	}
	rec(0)
}

func shuffled(rng *vh.Rng, xs []int) []int {
	o := append([]int{}, xs...)
	for i := len(o) - 1; i > 0; i-- {
		j := rng.Intn(i + 1)
		o[i], o[j] = o[j], o[i]
	}
	return o
}

type gen struct {
	r      *runner
	rep    *vh.Report
	cases  []string
	nextID int
	emit   bool
}

func (g *gen) one(w *world, c int, h []hop, desc map[string]interface{}) {
	obs, hh := g.r.run(w, c, h, desc)
	var cl []string
	for _, o := range hh {
		cl = append(cl, o.class)
	}
	canon := fmt.Sprintf("%s|%d|%v|%v", w.name, c, desc, cl)
	g.rep.Count(canon, len(hh) >= 2)
	g.rep.Dist("histories:" + w.group + ":" + w.kind)
	if g.emit && w.dl != nil && len(obs) == len(hh) {
		id := g.nextID
		g.nextID++
		g.cases = append(g.cases, w.emitCase(id, c, hh, obs))
		desc2 := map[string]interface{}{"world": w.name, "combiner": c, "calls": cl}
		for k, v := range desc {
			desc2[k] = v
		}
		g.rep.Index(id, desc2)
		if len(cl) > 3 {
			g.rep.Sample(desc2)
		}
	}
}

// all t-subsets x arrival orders x every participant as combiner (exhaustive
// for n <= 5, sampled above), plus the below-threshold and double-count scenarios
func (g *gen) world(w *world, rng *vh.Rng, exhaustive bool, orders int) {
	var subs [][]int
	subsets(w.n, w.t, func(s []int) { subs = append(subs, s) })
	if !exhaustive && len(subs) > 6 {
		subs = [][]int{subs[0], subs[len(subs)-1], subs[rng.Intn(len(subs))], subs[rng.Intn(len(subs))]}
	}
	for c := 0; c < w.n; c++ {
		for _, s := range subs {
			for o := 0; o < orders; o++ {
				var order []int
				var oname string
				switch o {
				case 0:
					order, oname = s, "ascending"
				case 1:
					order = append([]int{}, s...)
					sort.Sort(sort.Reverse(sort.IntSlice(order)))
					oname = "descending"
				default:
					order, oname = shuffled(rng, s), "random"
				}
				nj := 0
				if rng.Intn(3) > 0 {
					nj = 1 + rng.Intn(3)
				}
				h := w.history(c, order, rng, nj, true)
				g.one(w, c, h, map[string]interface{}{"signers": s, "order": oname, "junk": nj})
			}
		}
		// t-1 signers, every kind of junk: never a signature
		if w.t >= 2 {
			s := shuffled(rng, seq(w.n))[:w.t-1]
			h := w.history(c, s, rng, 3+rng.Intn(4), true)
			g.one(w, c, h, map[string]interface{}{"signers": s, "order": "random", "below_t": true})
		}
		// the own partial arrives from the network before PartialSig(): t-1 distinct partials, t stored
		{
			var others []int
			for _, j := range shuffled(rng, seq(w.n)) {
				if j != c && len(others) < w.t-2 {
					others = append(others, j)
				}
			}
			var h []hop
			for _, j := range others {
				h = append(h, hop{ps: w.honest(j), class: "honest", from: j})
			}
			h = append(h, hop{ps: w.honest(c), class: "echo-own", from: c}, hop{sign: true, class: "own", from: c})
			// ... and then one more valid partial completes the signature
			for _, j := range shuffled(rng, seq(w.n)) {
				if j != c && !contains(others, j) {
					h = append(h, hop{ps: w.honest(j), class: "honest", from: j})
					break
				}
			}
			g.one(w, c, h, map[string]interface{}{"scenario": "own-partial-echo-then-sign"})
		}
	}
}

func seq(n int) []int {
	o := make([]int, n)
	for i := range o {
		o[i] = i
	}
	return o
}
func contains(xs []int, x int) bool {
	for _, y := range xs {
		if y == x {
			return true
		}
	}
	return false
}

var kinds = []string{"rabin/rabin", "pedersen/pedersen", "rabin/pedersen", "pedersen/rabin"}

func main() {
	pr := flag.Bool("probe", false, "print corner-case behaviour of the implementation (development aid)")
	o := vh.ParseFlags()
	if *pr {
		probe()
		return
	}
	rng := vh.NewRng(o.Seed)
	rep := vh.NewReport("C12", o.Seed, o.Tier)
	rep.Rule = "one case = the history of one DSS instance (every participant as combiner x every t-subset of signers x arrival orders, keys from both DKG packages, with injected invalid/forged/cross-session/duplicate/out-of-range partials), observed after every call; distinct = distinct (world, combiner, signer set, order, call classes)"
	g := &gen{r: &runner{rep}, rep: rep, emit: !o.Search}
	mk := func(group, kind string, n, t int) *world {
		w, err := newWorld(group, kind, n, t, rng.Fork())
		if err != nil {
			rep.Fail("dkg/honest-run-failed/"+kind, err.Error(), map[string]interface{}{"group": group, "n": n, "t": t})
			return nil
		}
		return w
	}
	if o.Search {
		// oracle-only: many random worlds and long random histories
		rounds := 60
		if o.Thorough {
			rounds = 200
		}
		for k := 0; k < rounds; k++ {
			n := 3 + rng.Intn(5)
			t := 2 + rng.Intn(n-1)
			group := []string{"dlog", "dlog", "ed25519"}[rng.Intn(3)]
			w := mk(group, kinds[rng.Intn(len(kinds))], n, t)
			if w == nil {
				continue
			}
			for i := 0; i < 12; i++ {
				c := rng.Intn(n)
				s := shuffled(rng, seq(n))[:t+rng.Intn(n-t+1)]
				h := w.history(c, s, rng, rng.Intn(8), true)
				g.one(w, c, h, map[string]interface{}{"signers": s, "order": "random", "search": true})
			}
			g.world(w, rng, false, 1)
		}
		rep.Write(o.Out)
		return
	}
	maxN := 5
	if o.Thorough {
		maxN = 7
	}
	ki := int(o.Seed)
	for n := 3; n <= maxN; n++ {
		for t := 2; t <= n; t++ {
			exhaustive := n <= 5
			// dlog: exact comparison with the model; two DKG combinations per (n,t)
			nk := 2
			if o.Thorough {
				nk = 4
			}
			for k := 0; k < nk; k++ {
				if w := mk("dlog", kinds[(ki+k)%4], n, t); w != nil {
					g.world(w, rng, exhaustive, 3)
				}
			}
			ki++
			// Ed25519: the oracles on the real group
			edOrders := 1
			if o.Thorough {
				edOrders = 3
			}
			if w := mk("ed25519", kinds[ki%4], n, t); w != nil {
				g.world(w, rng, exhaustive && (o.Thorough || n <= 4), edOrders)
			}
		}
	}
	if w := mk("p256", kinds[ki%4], 3, 2); w != nil {
		g.world(w, rng, true, 1)
	}
	if o.Thorough {
		if w := mk("p256", kinds[(ki+1)%4], 5, 3); w != nil {
			g.world(w, rng, false, 2)
		}
	}
	// NewDSS refuses a secret whose public key is not a participant's
	{
		w := mk("dlog", "rabin/rabin", 3, 2)
		if w != nil {
			outsider := w.suite.Scalar().Pick(w.suite.RandomStream())
			_, err := dss.NewDSS(w.suite, outsider, w.pubs, w.long[0], w.rnd[0], w.msg, 2)
			if !o.Search {
				// the model must refuse as well (idx = -1 encodes the error)
				id := g.nextID
				g.nextID++
				var parts []string
				for _, p := range w.pubs {
					parts = append(parts, vh.CoqZ(vh.Dlog(p)))
				}
				idx := -1
				if err == nil {
					idx = 0
				}
				g.cases = append(g.cases, fmt.Sprintf("CDss %d %s [] [] %s %s 2 [] [] 0 0 (@nil Z) (%d) [] []", id, vh.CoqZ(w.dl.Q),
					vh.CoqList(parts), vh.CoqZ(vh.ScalarVal(outsider)), idx))
				rep.Index(id, "NewDSS with a secret key of no participant")
				rep.Count("newdss-outsider", true)
			}
			if err == nil {
				rep.Fail("dss.NewDSS/outsider-accepted", "NewDSS accepted a secret key that belongs to no participant", nil)
			}
		}
	}
	rep.Note("EnoughPartialSig() counts the own partial twice when it was received from the network before PartialSig() was called (the `signed` flag, not partialsIdx, guards the append); Signature() still refuses below t distinct partials (share.RecoverSecret de-duplicates by index), so the property holds; see distribution key quirk:EnoughPartialSig-true-below-t")
	per := (len(g.cases) + 14) / 15 // at most 15 shards: the fixed cost of a shard (loading the libraries) dominates
	if per < 60 {
		per = 60
	}
	if per > 200 {
		per = 200
	}
	vh.WriteShards(o.Out, "dss", &vh.CaseFile{Header: "From Kyber Require Import DSS.DSSSM DSS.DSSRun.", Type: "case", Runner: "mismatches", Items: g.cases}, per, rep)
	rep.Write(o.Out)
}
