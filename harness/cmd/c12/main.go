// Correspondence harness and property oracles for C12 (threshold Schnorr, sign/dss).
//
// Distributed keys come from honest runs of BOTH DKG packages (share/dkg/rabin,
// share/dkg/pedersen).  One case = the complete history of one DSS instance
// (own PartialSig() calls and received partial signatures: valid ones of a
// t-subset of signers in some arrival order, plus injected invalid / forged /
// cross-session / duplicate / out-of-range ones) with, after every call, its
// result, EnoughPartialSig() and Signature().
//
//   - over the transparent dlog group (vh.DlogGroup, order 2^61-1) every value
//     is known exactly and the Coq model (DSS/DSSRun.v) recomputes every
//     observation, including all signature bytes;
//   - over Ed25519 (and P-256) the oracles evaluate the property directly:
//     valid partials accepted, everything else rejected, no signature below t,
//     with t valid partials one signature, equal at all participants, equal to
//     R || r + H(R,A,m)*a, accepted by dss.Verify, eddsa.Verify,
//     schnorr.Verify and crypto/ed25519.Verify.
package main

import (
	"bytes"
	"crypto/ed25519"
	"crypto/sha256"
	"crypto/sha512"
	"encoding/binary"
	"errors"
	"flag"
	"fmt"
	"math"
	"math/big"
	"sort"
	"strings"

	"go.dedis.ch/kyber/v4"
	"go.dedis.ch/kyber/v4/group/edwards25519"
	"go.dedis.ch/kyber/v4/group/p256"
	"go.dedis.ch/kyber/v4/share"
	"go.dedis.ch/kyber/v4/sign/dss"
	"go.dedis.ch/kyber/v4/sign/eddsa"
	"go.dedis.ch/kyber/v4/sign/schnorr"
	"kyverif/vh"
)

// ---------------------------------------------------------------- worlds

type world struct {
	name     string
	group    string // dlog | ed25519 | p256
	kind     string // which DKG produced (long, random): rabin/rabin, pedersen/pedersen, rabin/pedersen, pedersen/rabin
	suite    fullSuite
	dl       *vh.DlogGroup
	n, t     int
	secs     []kyber.Scalar
	pubs     []kyber.Point
	long     []dss.DistKeyShare
	rnd      []dss.DistKeyShare
	rndOther []dss.DistKeyShare // one-time key of another session
	msg      []byte
	otherMsg []byte
	expSig   []byte // R || r + H(R,A,m)*a computed from the shared secrets
	refSig   []byte // first signature any participant produced
	refWho   string
	a, r, h  kyber.Scalar            // the shared secrets and H(R||A||m) (known to the harness only)
	prev     *world                  // another sharing of the same long-term key used earlier in this process
	cache    map[int]*dss.PartialSig // one valid PartialSig object per signer, delivered to many DSS objects
	sessions int
}

type rngStream struct{ r *vh.Rng }

func (s *rngStream) XORKeyStream(dst, src []byte) {
	ks := s.r.Bytes(len(src))
	for i := range src {
		dst[i] = src[i] ^ ks[i]
	}
}

type rngReader struct{ r *vh.Rng }

func (s *rngReader) Read(p []byte) (int, error) {
	copy(p, s.r.Bytes(len(p)))
	return len(p), nil
}

func runDKG(kind string, suite fullSuite, secs []kyber.Scalar, pubs []kyber.Point, t int, rng *vh.Rng) ([]dss.DistKeyShare, error) {
	if kind == "rabin" {
		return rabinDKG(suite, secs, pubs, t)
	}
	return pedersenDKG(suite, secs, pubs, t, rng.Bytes(32), rng.Bool(), &rngReader{rng.Fork()})
}

func newWorld(group, kind string, n, t int, rng *vh.Rng) (*world, error) {
	w := &world{group: group, kind: kind, n: n, t: t}
	switch group {
	case "dlog":
		w.dl = vh.NewDlogGroup(vh.Q61, &rngStream{rng.Fork()})
		w.suite = w.dl
	case "ed25519":
		w.suite = edwards25519.NewBlakeSHA256Ed25519WithRand(&rngStream{rng.Fork()})
	case "p256":
		w.suite = p256.NewBlakeSHA256P256()
	}
	w.name = fmt.Sprintf("%s/%s/n=%d/t=%d", group, kind, n, t)
	for i := 0; i < n; i++ {
		s := w.suite.Scalar().Pick(w.suite.RandomStream())
		w.secs = append(w.secs, s)
		w.pubs = append(w.pubs, w.suite.Point().Mul(s, nil))
	}
	ks := strings.Split(kind, "/")
	var err error
	if w.long, err = runDKG(ks[0], w.suite, w.secs, w.pubs, t, rng); err != nil {
		return nil, err
	}
	if w.rnd, err = runDKG(ks[1], w.suite, w.secs, w.pubs, t, rng); err != nil {
		return nil, err
	}
	if w.rndOther, err = runDKG(ks[1], w.suite, w.secs, w.pubs, t, rng); err != nil {
		return nil, err
	}
	w.msg = rng.Bytes(rng.Intn(40))
	w.otherMsg = append(append([]byte{}, w.msg...), 0x21)
	if err := w.finish(); err != nil {
		return nil, err
	}
	return w, nil
}

// newSynthWorld builds a large-but-legal committee without running a DKG: both
// distributed keys are sharings built directly from random polynomials
// (share.NewPriPoly + its commitments), exactly what a DKG hands out.
func newSynthWorld(group string, n, t int, rng *vh.Rng) (*world, error) {
	w := &world{group: group, kind: "synthetic/synthetic", n: n, t: t}
	switch group {
	case "dlog":
		w.dl = vh.NewDlogGroup(vh.Q61, &rngStream{rng.Fork()})
		w.suite = w.dl
	case "ed25519":
		w.suite = edwards25519.NewBlakeSHA256Ed25519WithRand(&rngStream{rng.Fork()})
	}
	w.name = fmt.Sprintf("%s/%s/n=%d/t=%d", group, w.kind, n, t)
	for i := 0; i < n; i++ {
		s := w.suite.Scalar().Pick(w.suite.RandomStream())
		w.secs = append(w.secs, s)
		w.pubs = append(w.pubs, w.suite.Point().Mul(s, nil))
	}
	pick := func() kyber.Scalar { return w.suite.Scalar().Pick(w.suite.RandomStream()) }
	w.a, w.r = pick(), pick()
	w.long = synthSharing(w.suite, w.a, t, n)
	w.rnd = synthSharing(w.suite, w.r, t, n)
	w.rndOther = synthSharing(w.suite, pick(), t, n)
	w.msg = rng.Bytes(rng.Intn(40))
	w.otherMsg = append(append([]byte{}, w.msg...), 0x21)
	if err := w.finish(); err != nil {
		return nil, err
	}
	return w, nil
}

// finish computes, from all shares, the signature the property demands:
// R || r + H(R||A||m)*a
func (w *world) finish() error {
	n, t := w.n, w.t
	w.cache = map[int]*dss.PartialSig{}
	var ls, rs []*share.PriShare
	for i := 0; i < n; i++ {
		ls = append(ls, w.long[i].PriShare())
		rs = append(rs, w.rnd[i].PriShare())
	}
	a, r := w.a, w.r // known when the sharings were built from polynomials by the harness
	if a == nil || r == nil {
		var err error
		if a, err = share.RecoverSecret(w.suite, ls, uint32(t), uint32(n)); err != nil {
			return err
		}
		if r, err = share.RecoverSecret(w.suite, rs, uint32(t), uint32(n)); err != nil {
			return err
		}
	}
	A, R := w.long[0].Commitments()[0], w.rnd[0].Commitments()[0]
	if !A.Equal(w.suite.Point().Mul(a, nil)) || !R.Equal(w.suite.Point().Mul(r, nil)) {
		return fmt.Errorf("key generation inconsistent: commitment[0] is not secret*B")
	}
	hh := sha512.New()
	_, _ = R.MarshalTo(hh)
	_, _ = A.MarshalTo(hh)
	hh.Write(w.msg)
	h := w.suite.Scalar().SetBytes(hh.Sum(nil))
	s := w.suite.Scalar().Add(r, w.suite.Scalar().Mul(h, a))
	var b bytes.Buffer
	_, _ = R.MarshalTo(&b)
	_, _ = s.MarshalTo(&b)
	w.expSig = b.Bytes()
	w.a, w.r, w.h = a, r, h
	return nil
}

// reshared builds another sharing of the SAME long-term key (same secret and
// public key, new polynomial, new shares, possibly another threshold): a real
// Pedersen resharing when `real`, else a sharing built from a fresh polynomial.
// The one-time key is either another sharing of the same one-time secret or a
// fresh one.  Key-share objects of the participants, their keys and the message
// buffer are the same Go objects as in the previous epoch.
func (w *world) reshared(rng *vh.Rng, real, sameRandom bool, t2 int) (*world, error) {
	v := &world{group: w.group, kind: w.kind, suite: w.suite, dl: w.dl, n: w.n, t: t2, secs: w.secs, pubs: w.pubs,
		msg: w.msg, otherMsg: w.otherMsg, prev: w}
	how := "synthetic"
	if real {
		var err error
		if v.long, err = pedersenReshare(w.suite, w.secs, w.pubs, w.long, w.t, t2, rng.Bytes(32), rng.Bool()); err != nil {
			return nil, err
		}
		how = "pedersen-reshare"
	} else {
		v.long = synthSharing(w.suite, w.a, t2, w.n)
	}
	if sameRandom {
		v.rnd = synthSharing(w.suite, w.r, t2, w.n)
		how += "+same-one-time-secret"
	} else {
		v.rnd = synthSharing(w.suite, w.suite.Scalar().Pick(w.suite.RandomStream()), t2, w.n)
	}
	v.rndOther = synthSharing(w.suite, w.suite.Scalar().Pick(w.suite.RandomStream()), t2, w.n)
	v.name = fmt.Sprintf("%s/resharing(%s,t=%d)", w.name, how, t2)
	if err := v.finish(); err != nil {
		return nil, err
	}
	if !v.long[0].Commitments()[0].Equal(w.long[0].Commitments()[0]) {
		return nil, fmt.Errorf("resharing changed the distributed public key")
	}
	return v, nil
}

func (w *world) newDSS(i int, rnd []dss.DistKeyShare, msg []byte) *dss.DSS {
	d, err := dss.NewDSS(w.suite, w.secs[i], w.pubs, w.long[i], rnd[i], msg, uint32(w.t))
	if err != nil {
		panic("NewDSS: " + err.Error())
	}
	return d
}

// honest partial signature of participant j (a fresh instance)
func (w *world) honest(j int) *dss.PartialSig {
	ps, err := w.newDSS(j, w.rnd, w.msg).PartialSig()
	if err != nil {
		panic(err)
	}
	return ps
}

// shared returns a valid partial of signer j: half of the time the one
// PartialSig object that is handed to many DSS objects of this world
func (w *world) shared(j int, rng *vh.Rng) *dss.PartialSig {
	if rng == nil || rng.Bool() {
		return w.honest(j)
	}
	if w.cache[j] == nil {
		w.cache[j] = w.honest(j)
	}
	return w.cache[j]
}

func (w *world) resign(ps *dss.PartialSig, key kyber.Scalar) {
	sig, err := schnorr.Sign(w.suite, key, ps.Hash(w.suite))
	if err != nil {
		panic(err)
	}
	ps.Signature = sig
}

// ---------------------------------------------------------------- histories

type hop struct {
	sign  bool
	ps    *dss.PartialSig
	class string // generator's label
	from  int    // signer whose VALID partial this is, -1 for junk
}

var junkClasses = []string{"flip-sig", "flip-v", "forged-v", "resigned", "resigned-outsider", "wrong-index",
	"other-session", "other-session-relabelled", "sid-relabel", "sid-random", "other-msg", "index-n", "index-max",
	"short-sig", "empty-sig", "long-sig"}

// classes that need an earlier sharing of the same long-term key
var epochClasses = []string{"old-sharing-partial", "old-share-value", "old-share-value", "old-sharing-partial-relabelled"}

func (w *world) junkClass(rng *vh.Rng) string {
	if w.prev != nil && rng.Bool() {
		return epochClasses[rng.Intn(len(epochClasses))]
	}
	return junkClasses[rng.Intn(len(junkClasses))]
}

func (w *world) junk(class string, rng *vh.Rng) *dss.PartialSig {
	j := rng.Intn(w.n)
	base := w.honest(j)
	ps := &dss.PartialSig{Partial: &share.PriShare{I: base.Partial.I, V: base.Partial.V.Clone()},
		SessionID: append([]byte{}, base.SessionID...), Signature: append([]byte{}, base.Signature...)}
	switch class {
	case "flip-sig":
		k := rng.Intn(len(ps.Signature) * 8)
		ps.Signature[k/8] ^= 1 << uint(k%8)
	case "flip-v":
		ps.Partial.V = w.suite.Scalar().Add(ps.Partial.V, w.suite.Scalar().SetInt64(int64(1+rng.Intn(5))))
	case "forged-v":
		ps.Partial.V = w.suite.Scalar().Add(ps.Partial.V, w.suite.Scalar().SetInt64(int64(1+rng.Intn(5))))
		w.resign(ps, w.secs[j])
	case "resigned":
		k := (j + 1 + rng.Intn(w.n-1)) % w.n
		w.resign(ps, w.secs[k])
	case "resigned-outsider":
		w.resign(ps, w.suite.Scalar().Pick(&rngStream{rng}))
	case "wrong-index":
		k := (j + 1 + rng.Intn(w.n-1)) % w.n
		ps.Partial.I = uint32(k)
		w.resign(ps, w.secs[k])
	case "other-session":
		o, _ := w.newDSS(j, w.rndOther, w.msg).PartialSig()
		return o
	case "other-session-relabelled":
		o, _ := w.newDSS(j, w.rndOther, w.msg).PartialSig()
		ps.Partial = o.Partial
		w.resign(ps, w.secs[j])
	case "sid-relabel":
		o, _ := w.newDSS(j, w.rndOther, w.msg).PartialSig()
		ps.SessionID = o.SessionID
		w.resign(ps, w.secs[j])
	case "sid-random":
		ps.SessionID = rng.Bytes(rng.Intn(40))
		w.resign(ps, w.secs[j])
	case "other-msg":
		o, _ := w.newDSS(j, w.rnd, w.otherMsg).PartialSig()
		return o
	case "index-n":
		ps.Partial.I = uint32(w.n)
		w.resign(ps, w.secs[j])
	case "index-max":
		ps.Partial.I = math.MaxUint32
		w.resign(ps, w.secs[j])
	case "short-sig":
		ps.Signature = ps.Signature[:rng.Intn(len(ps.Signature))]
	case "empty-sig":
		ps.Signature = nil
	case "long-sig":
		ps.Signature = append(ps.Signature, byte(rng.Intn(256)))
	case "old-sharing-partial":
		// a partial signature issued under the previous sharing of the long-term key
		o, _ := w.prev.newDSS(j, w.prev.rnd, w.msg).PartialSig()
		return o
	case "old-sharing-partial-relabelled":
		o, _ := w.prev.newDSS(j, w.prev.rnd, w.msg).PartialSig()
		ps.Partial = o.Partial
		w.resign(ps, w.secs[j])
	case "old-share-value":
		// response computed for THIS session (one-time share, hash, session id) but with the
		// signer's share of the previous sharing of the long-term key
		v := w.suite.Scalar().Mul(w.h, w.prev.long[j].PriShare().V)
		v.Add(v, w.rnd[j].PriShare().V)
		ps.Partial.V = v
		w.resign(ps, w.secs[j])
	}
	return ps
}

// history of combiner c: the valid partials of the signers in `order` (own one
// by PartialSig()), with junk, duplicates and echoes of the own partial mixed in
func (w *world) history(c int, order []int, rng *vh.Rng, njunk int, allowEcho bool) []hop {
	var h []hop
	for _, j := range order {
		if j == c {
			h = append(h, hop{sign: true, class: "own", from: c})
		} else {
			h = append(h, hop{ps: w.shared(j, rng), class: "honest", from: j})
		}
	}
	ins := func(x hop) {
		p := rng.Intn(len(h) + 1)
		h = append(h, hop{})
		copy(h[p+1:], h[p:])
		h[p] = x
	}
	for k := 0; k < njunk; k++ {
		switch r := rng.Intn(10); {
		case r < 6:
			cl := w.junkClass(rng)
			ins(hop{ps: w.junk(cl, rng), class: cl, from: -1})
		case r < 8 && len(order) > 0:
			// a second delivery of a valid partial of the history (fresh signature)
			j := order[rng.Intn(len(order))]
			if j != c {
				again := hop{ps: w.honest(j), class: "honest-again", from: j}
				if rng.Bool() {
					// the very same PartialSig object once more
					for _, x := range h {
						if !x.sign && x.from == j && x.ps != nil {
							again = hop{ps: x.ps, class: "same-object-again", from: j}
							break
						}
					}
				}
				ins(again)
			} else {
				ins(hop{sign: true, class: "own-again", from: c})
			}
		case r < 9 && allowEcho:
			// the own valid partial arrives from the network (issued by another instance of c)
			ins(hop{ps: w.honest(c), class: "echo-own", from: c})
		default:
			ins(hop{sign: true, class: "own-extra", from: c})
		}
	}
	return h
}

// ---------------------------------------------------------------- running + oracles

type step struct {
	res    string // Coq wres
	cls    int
	enough bool
	sig    []byte // nil = error
}

func classify(err error) int {
	if err == nil {
		return 0
	}
	if errors.Is(err, dss.ErrInvalidSignatureIndex) {
		return 1
	}
	m := err.Error()
	switch {
	case strings.Contains(m, "session id"):
		return 3
	case strings.Contains(m, "already received"):
		return 4
	case strings.Contains(m, "partial signature not valid"):
		return 5
	}
	return 2
}

func psReplay(ps *dss.PartialSig) map[string]interface{} {
	if ps == nil || ps.Partial == nil {
		return nil
	}
	return map[string]interface{}{"I": ps.Partial.I, "V": ps.Partial.V.String(), "sid": vh.Hex(ps.SessionID), "sig": vh.Hex(ps.Signature)}
}

type runner struct {
	rep *vh.Report
}

// verifyAll checks the signature with every verifier applicable to the group.
func (w *world) verifyAll(sig []byte) (string, error) {
	A := w.long[0].Commitments()[0]
	if err := schnorr.Verify(w.suite, A, w.msg, sig); err != nil {
		return "schnorr.Verify", err
	}
	if w.group == "ed25519" {
		if err := dss.Verify(A, w.msg, sig); err != nil {
			return "dss.Verify", err
		}
		if err := eddsa.Verify(A, w.msg, sig); err != nil {
			return "eddsa.Verify", err
		}
		pb, _ := A.MarshalBinary()
		if !ed25519.Verify(ed25519.PublicKey(pb), w.msg, sig) {
			return "crypto/ed25519.Verify", errors.New("rejected")
		}
	}
	return "", nil
}

// session = one DSS object driven through its history one call at a time, so
// that several objects (of one or several sessions / sharings) can be interleaved
// in the same process.  The oracles are evaluated after every call.
type session struct {
	r         *runner
	w         *world
	c         int
	h         []hop
	desc      map[string]interface{}
	d         *dss.DSS
	delivered map[int]bool
	echo      bool
	out       []step
	k         int
	dead      bool
	refused   bool // Signature() has refused at least once (polled before the threshold)
	lastSig   []byte
}

func (r *runner) newSession(w *world, c int, h []hop, desc map[string]interface{}) *session {
	return &session{r: r, w: w, c: c, h: h, desc: desc, d: w.newDSS(c, w.rnd, w.msg), delivered: map[int]bool{}}
}

func (s *session) done() bool { return s.dead || s.k >= len(s.h) }

func (s *session) fail(key, what string) {
	k := s.k
	rp := map[string]interface{}{"world": s.w.name, "combiner": s.c, "history": s.desc, "at_call": k}
	if k >= 0 && k < len(s.h) {
		rp["call_class"] = s.h[k].class
		rp["partial"] = psReplay(s.h[k].ps)
	}
	var cl []string
	for _, o := range s.h[:min(k+1, len(s.h))] {
		cl = append(cl, o.class)
	}
	rp["calls_so_far"] = cl
	s.r.rep.Fail(key, what, rp)
}

func clonePs(ps *dss.PartialSig) *dss.PartialSig {
	return &dss.PartialSig{Partial: ps.Partial, SessionID: append([]byte{}, ps.SessionID...), Signature: append([]byte{}, ps.Signature...)}
}

func psDigest(ps *dss.PartialSig) string {
	if ps == nil || ps.Partial == nil {
		return "nil"
	}
	return fmt.Sprintf("%d|%s|%x|%x", ps.Partial.I, ps.Partial.V.String(), ps.SessionID, ps.Signature)
}

// digest of everything the caller handed to the package for this world: keys,
// key shares, commitments, message buffers
func (w *world) digest() string {
	h := sha256.New()
	for i := range w.secs {
		fmt.Fprintf(h, "%s|%s|", w.secs[i].String(), w.pubs[i].String())
	}
	for _, ks := range [][]dss.DistKeyShare{w.long, w.rnd, w.rndOther} {
		for i, k := range ks {
			fmt.Fprintf(h, "%d:%s|", k.PriShare().I, k.PriShare().V.String())
			if w.n > 10 && i%16 != 0 {
				continue // big committees: the commitment lists of every 16th share only (cost)
			}
			for _, p := range k.Commitments() {
				fmt.Fprintf(h, "%s,", p.String())
			}
		}
	}
	h.Write(w.msg)
	h.Write([]byte{0})
	h.Write(w.otherMsg)
	return string(h.Sum(nil))
}

// step performs call k of the history and evaluates the oracles.
func (s *session) step(rng *vh.Rng) {
	w, c, d, rep := s.w, s.c, s.d, s.r.rep
	if s.done() {
		return
	}
	o := s.h[s.k]
	before := w.digest()
	var st step
	if o.sign {
		var ps *dss.PartialSig
		var err error
		if p, m := vh.Try(func() { ps, err = d.PartialSig() }); p {
			s.fail("dss.PartialSig/panic", m)
			s.dead = true
			return
		}
		if err != nil || ps == nil {
			s.fail("dss.PartialSig/error", fmt.Sprint(err))
			s.dead = true
			return
		}
		if len(s.delivered) > 0 && !s.delivered[c] {
			rep.Dist("reuse:partials-received-before-own-PartialSig")
		}
		// the caller owns the returned signature bytes: keep a copy, scribble over the original
		keep := clonePs(ps)
		for i := range ps.Signature {
			ps.Signature[i] ^= 0xa5
		}
		s.h[s.k].ps = keep
		s.delivered[c] = true
		st.res = "sign"
		if keep.Partial.I != uint32(c) {
			s.fail("dss.PartialSig/wrong-index", fmt.Sprintf("index %d issued by participant %d", keep.Partial.I, c))
		}
	} else {
		// deliver a private copy of the byte buffers (the PriShare object itself is
		// shared: the same partial is delivered to several objects / several times)
		in := clonePs(o.ps)
		dg := psDigest(in)
		var err error
		if p, m := vh.Try(func() { err = d.ProcessPartialSig(in) }); p {
			s.fail("dss.ProcessPartialSig/panic/"+o.class, m)
			s.dead = true
			return
		}
		if psDigest(in) != dg || psDigest(o.ps) != dg {
			s.fail("dss.ProcessPartialSig/inputs-mutated", "the received PartialSig was modified by the call")
		}
		// the caller re-uses its buffers after the call
		for i := range in.Signature {
			in.Signature[i] = 0xee
		}
		for i := range in.SessionID {
			in.SessionID[i] = 0xdd
		}
		rep.Dist("reuse:caller-buffers-overwritten-after-ProcessPartialSig")
		st.cls = classify(err)
		rep.Dist(fmt.Sprintf("verdict:%s:%d", o.class, st.cls))
		if o.from >= 0 {
			if o.from == c {
				s.echo = true
			}
			if s.delivered[o.from] {
				if err == nil {
					s.fail("dss.ProcessPartialSig/duplicate-accepted", "a second partial signature of the same signer was accepted")
				}
			} else if err != nil {
				s.fail("dss.ProcessPartialSig/valid-partial-rejected", err.Error())
			}
			s.delivered[o.from] = true
		} else if err == nil {
			s.fail("dss.ProcessPartialSig/"+o.class+"-accepted", "an invalid partial signature was accepted")
		}
	}
	st.enough = d.EnoughPartialSig()
	var sig []byte
	var serr error
	if p, m := vh.Try(func() { sig, serr = d.Signature() }); p {
		s.fail("dss.Signature/panic", m)
		s.dead = true
		return
	}
	if serr == nil {
		st.sig = append([]byte{}, sig...)
		// the returned buffer belongs to the caller: overwriting it must not change later answers
		for i := range sig {
			sig[i] = 0x77
		}
		sig = st.sig
		if s.lastSig != nil && !bytes.Equal(s.lastSig, sig) {
			s.fail("dss.Signature/changes-between-calls", "got "+vh.Hex(sig)+" after "+vh.Hex(s.lastSig))
		}
		if s.lastSig == nil && s.refused {
			rep.Dist("reuse:Signature-polled-before-and-after-threshold-on-one-object")
		}
		s.lastSig = sig
	} else {
		s.refused = true
	}
	nd := len(s.delivered)
	if nd < w.t {
		if serr == nil {
			s.fail("dss.Signature/below-threshold", fmt.Sprintf("signature produced from %d < t=%d valid partials", nd, w.t))
		}
		if st.enough {
			if s.echo {
				rep.Dist("quirk:EnoughPartialSig-true-below-t(own partial received and issued: counted twice; Signature() refuses)")
			} else {
				s.fail("dss.EnoughPartialSig/true-below-threshold", fmt.Sprintf("%d < t=%d valid partials", nd, w.t))
			}
		}
	} else {
		if !st.enough {
			s.fail("dss.EnoughPartialSig/false-with-t-valid", fmt.Sprintf("%d >= t=%d valid partials", nd, w.t))
		}
		if serr != nil {
			s.fail("dss.Signature/refused-with-t-valid", serr.Error())
		} else {
			if who, err := w.verifyAll(sig); err != nil {
				s.fail("dss.Signature/rejected-by-"+who, err.Error()+" sig="+vh.Hex(sig))
			}
			if !bytes.Equal(sig, w.expSig) {
				s.fail("dss.Signature/not-the-schnorr-signature", "got "+vh.Hex(sig)+" want "+vh.Hex(w.expSig))
			}
			if w.refSig == nil {
				w.refSig, w.refWho = sig, fmt.Sprintf("combiner %d %v", c, s.desc)
			} else if !bytes.Equal(sig, w.refSig) {
				s.fail("dss.Signature/participants-disagree", "got "+vh.Hex(sig)+" but "+w.refWho+" got "+vh.Hex(w.refSig))
			}
		}
	}
	if w.digest() != before {
		s.fail("dss/inputs-mutated", "keys, key shares, commitments or message buffers handed to the package changed during the call")
	}
	s.out = append(s.out, st)
	s.k++
}

// run drives one instance through its whole history.
func (r *runner) run(w *world, c int, h []hop, desc map[string]interface{}) ([]step, []hop) {
	s := r.newSession(w, c, h, desc)
	for !s.done() {
		s.step(nil)
	}
	return s.out, s.h[:len(s.out)]
}

// ---------------------------------------------------------------- Coq case emission (dlog worlds)

type tables struct {
	q      *big.Int
	hc, hs map[string]string
}

func be8(v *big.Int) []byte {
	b := make([]byte, 8)
	v.FillBytes(b)
	return b
}
func penc(v *big.Int) []byte { return append([]byte{4}, be8(v)...) }

func (t *tables) Hs(x []byte) []byte {
	h := sha256.Sum256(x)
	t.hs[string(x)] = vh.CoqBytes(h[:])
	return h[:]
}
func (t *tables) Hc(x []byte) *big.Int {
	h := sha512.Sum512(x)
	v := new(big.Int).SetBytes(h[:])
	v.Mod(v, t.q)
	t.hc[string(x)] = vh.CoqZ(v)
	return v
}
func (t *tables) psHash(i uint32, v *big.Int, sid []byte) []byte {
	var le [4]byte
	binary.LittleEndian.PutUint32(le[:], i)
	sh := t.Hs(append(be8(v), le[:]...))
	return t.Hs(append(append([]byte{}, sh...), sid...))
}
func coqTable(m map[string]string) string {
	ks := make([]string, 0, len(m))
	for k := range m {
		ks = append(ks, k)
	}
	sort.Strings(ks)
	var it []string
	for _, k := range ks {
		it = append(it, "("+vh.CoqBytes([]byte(k))+", "+m[k]+")")
	}
	return vh.CoqList(it)
}

func coqPs(ps *dss.PartialSig) string {
	return fmt.Sprintf("%s %s %s %s", vh.CoqZ(big.NewInt(int64(ps.Partial.I))), vh.CoqZ(vh.ScalarVal(ps.Partial.V)),
		vh.CoqBytes(ps.SessionID), vh.CoqBytes(ps.Signature))
}

func (w *world) emitCase(id int, c int, h []hop, obs []step) string {
	q := w.dl.Q
	tb := &tables{q: q, hc: map[string]string{}, hs: map[string]string{}}
	dl := func(p kyber.Point) *big.Int { return vh.Dlog(p) }
	var longC, randC []string
	var sidIn []byte
	for _, p := range w.long[c].Commitments() {
		longC = append(longC, vh.CoqZ(dl(p)))
		sidIn = append(sidIn, penc(dl(p))...)
	}
	for _, p := range w.rnd[c].Commitments() {
		randC = append(randC, vh.CoqZ(dl(p)))
		sidIn = append(sidIn, penc(dl(p))...)
	}
	tb.Hs(sidIn)
	R, A := dl(w.rnd[c].Commitments()[0]), dl(w.long[c].Commitments()[0])
	tb.Hc(append(append(penc(R), penc(A)...), w.msg...))
	var parts []string
	for _, p := range w.pubs {
		parts = append(parts, vh.CoqZ(dl(p)))
	}
	var ops, observed []string
	for k, o := range h {
		ps := o.ps
		if int(ps.Partial.I) < w.n {
			m := tb.psHash(ps.Partial.I, vh.ScalarVal(ps.Partial.V), ps.SessionID)
			if len(ps.Signature) == 17 && ps.Signature[0] == 4 {
				rv := new(big.Int).SetBytes(ps.Signature[1:9])
				if rv.Cmp(q) < 0 {
					tb.Hc(append(append(penc(rv), penc(dl(w.pubs[ps.Partial.I]))...), m...))
				}
			}
		}
		var res string
		if o.sign {
			kk := new(big.Int).SetBytes(ps.Signature[1:9])
			ops = append(ops, "WSign "+vh.CoqZ(kk))
			res = "RSign " + coqPs(ps)
		} else {
			ops = append(ops, "WRecv "+coqPs(ps))
			res = "RRecv " + vh.CoqInt(obs[k].cls)
		}
		observed = append(observed, fmt.Sprintf("(%s, %s, %s)", res, vh.CoqBool(obs[k].enough),
			vh.CoqOption(vh.CoqBytes(obs[k].sig), obs[k].sig != nil)))
	}
	return fmt.Sprintf("CDss %d %s %s %s %s %s %d %s %s %s %s %s %d %s %s", id, vh.CoqZ(q), coqTable(tb.hc), coqTable(tb.hs),
		vh.CoqList(parts), vh.CoqZ(vh.ScalarVal(w.secs[c])), w.t, vh.CoqList(longC), vh.CoqList(randC),
		vh.CoqZ(vh.ScalarVal(w.long[c].PriShare().V)), vh.CoqZ(vh.ScalarVal(w.rnd[c].PriShare().V)),
		vh.CoqBytes(w.msg), c, vh.CoqList(ops), vh.CoqList(observed))
}

// ---------------------------------------------------------------- generation

func subsets(n, k int, f func([]int)) {
	var cur []int
	var rec func(start int)
	rec = func(start int) {
		if len(cur) == k {
			f(append([]int{}, cur...))
			return
		}
		for i := start; i < n; i++ {
			cur = append(cur, i)
			rec(i + 1)
			cur = cur[:len(cur)-1]
		}
	}
	rec(0)
}

func shuffled(rng *vh.Rng, xs []int) []int {
	o := append([]int{}, xs...)
	for i := len(o) - 1; i > 0; i-- {
		j := rng.Intn(i + 1)
		o[i], o[j] = o[j], o[i]
	}
	return o
}

type gen struct {
	r      *runner
	rep    *vh.Report
	cases  []string
	nextID int
	emit   bool
}

func (g *gen) one(w *world, c int, h []hop, desc map[string]interface{}) {
	s := g.r.newSession(w, c, h, desc)
	g.begin(s)
	for !s.done() {
		s.step(nil)
	}
	g.finish(s)
}

func (g *gen) begin(s *session) {
	w := s.w
	if w.sessions > 0 {
		g.rep.Dist("reuse:later-session-on-the-same-keyshare-objects-keys-and-msg-buffer")
	}
	w.sessions++
	seen := map[*dss.PartialSig]bool{}
	for _, o := range s.h {
		if o.sign || o.ps == nil {
			continue
		}
		if seen[o.ps] {
			g.rep.Dist("reuse:same-PartialSig-object-delivered-twice-to-one-DSS-object")
		}
		seen[o.ps] = true
		if o.from >= 0 && w.cache[o.from] == o.ps {
			g.rep.Dist("reuse:same-PartialSig-object-delivered-to-several-DSS-objects")
		}
	}
}

func (g *gen) finish(s *session) {
	w, c, desc := s.w, s.c, s.desc
	obs, hh := s.out, s.h[:len(s.out)]
	var cl []string
	for _, o := range hh {
		cl = append(cl, o.class)
	}
	canon := fmt.Sprintf("%s|%d|%v|%v", w.name, c, desc, cl)
	g.rep.Count(canon, len(hh) >= 2)
	g.rep.Dist("histories:" + w.group + ":" + w.kind)
	if g.emit && w.dl != nil && len(obs) == len(hh) {
		id := g.nextID
		g.nextID++
		g.cases = append(g.cases, w.emitCase(id, c, hh, obs))
		desc2 := map[string]interface{}{"world": w.name, "combiner": c, "calls": cl}
		for k, v := range desc {
			desc2[k] = v
		}
		g.rep.Index(id, desc2)
		if len(cl) > 3 {
			g.rep.Sample(desc2)
		}
	}
}

// several DSS objects alive at the same time in one process, their calls
// interleaved at random; every object must behave exactly as if it were alone
func (g *gen) interleaved(rng *vh.Rng, ss []*session, pattern string) {
	for _, s := range ss {
		s.desc["interleaved_with"] = len(ss) - 1
		s.desc["pattern"] = pattern
		g.begin(s)
	}
	g.rep.Dist("reuse:" + pattern)
	for {
		var live []*session
		for _, s := range ss {
			if !s.done() {
				live = append(live, s)
			}
		}
		if len(live) == 0 {
			break
		}
		live[rng.Intn(len(live))].step(rng)
	}
	for _, s := range ss {
		g.finish(s)
	}
}

func (g *gen) randomSession(w *world, c int, rng *vh.Rng, njunk int) *session {
	extra := 0
	if w.n > w.t {
		extra = rng.Intn(w.n - w.t + 1)
	}
	sg := shuffled(rng, seq(w.n))[:w.t+extra]
	return g.r.newSession(w, c, w.history(c, sg, rng, njunk, true), map[string]interface{}{"signers": sg, "order": "random", "junk": njunk})
}

// sessions over two sharings of the same long-term key (w2 = w reshared), one
// after the other and interleaved, in the same process; plus several objects of
// one participant in one session
func (g *gen) epochs(w, w2 *world, rng *vh.Rng) {
	how := "synthetic-resharing"
	if strings.Contains(w2.name, "pedersen-reshare") {
		how = "pedersen-resharing"
	}
	if strings.Contains(w2.name, "same-one-time-secret") {
		how += "+same-one-time-secret"
	}
	if w2.t != w.t {
		how += "+other-threshold"
	}
	// (1) after the sessions of the old sharing: sessions of the new one, every participant as combiner
	for c := 0; c < w2.n; c++ {
		s := g.randomSession(w2, c, rng, 2+rng.Intn(3))
		s.desc["pattern"] = "session-after-resharing"
		g.begin(s)
		for !s.done() {
			s.step(rng)
		}
		g.finish(s)
		g.rep.Dist("reuse:sessions-of-two-sharings-of-one-key-sequential:" + how)
	}
	// (2) ... the old sharing is still usable afterwards (its own sessions are unaffected)
	{
		s := g.randomSession(w, rng.Intn(w.n), rng, 1)
		s.desc["pattern"] = "old-sharing-session-after-new-sharing-was-used"
		g.begin(s)
		for !s.done() {
			s.step(rng)
		}
		g.finish(s)
	}
	// (3) objects of both sharings alive together
	for k := 0; k < 2; k++ {
		c := rng.Intn(w.n)
		g.interleaved(rng, []*session{g.randomSession(w, c, rng, rng.Intn(3)), g.randomSession(w2, c, rng, rng.Intn(3))},
			"sessions-of-two-sharings-of-one-key-interleaved:"+how)
	}
	// (4) two objects of the same participant in the same session, and objects of different participants
	{
		c := rng.Intn(w2.n)
		g.interleaved(rng, []*session{g.randomSession(w2, c, rng, rng.Intn(3)), g.randomSession(w2, c, rng, rng.Intn(3))},
			"two-DSS-objects-of-one-participant-in-one-session-interleaved")
		var ss []*session
		for c := 0; c < w.n; c++ {
			ss = append(ss, g.randomSession(w, c, rng, rng.Intn(2)))
		}
		g.interleaved(rng, ss, "all-participants-of-one-session-interleaved")
	}
}

// all t-subsets x arrival orders x every participant as combiner (exhaustive
// for n <= 5, sampled above), plus the below-threshold and double-count scenarios
func (g *gen) world(w *world, rng *vh.Rng, exhaustive bool, orders int) {
	var subs [][]int
	subsets(w.n, w.t, func(s []int) { subs = append(subs, s) })
	if !exhaustive && len(subs) > 6 {
		subs = [][]int{subs[0], subs[len(subs)-1], subs[rng.Intn(len(subs))], subs[rng.Intn(len(subs))]}
	}
	for c := 0; c < w.n; c++ {
		for _, s := range subs {
			for o := 0; o < orders; o++ {
				var order []int
				var oname string
				switch o {
				case 0:
					order, oname = s, "ascending"
				case 1:
					order = append([]int{}, s...)
					sort.Sort(sort.Reverse(sort.IntSlice(order)))
					oname = "descending"
				default:
					order, oname = shuffled(rng, s), "random"
				}
				nj := 0
				if rng.Intn(3) > 0 {
					nj = 1 + rng.Intn(3)
				}
				h := w.history(c, order, rng, nj, true)
				g.one(w, c, h, map[string]interface{}{"signers": s, "order": oname, "junk": nj})
			}
		}
		// t-1 signers, every kind of junk: never a signature
		if w.t >= 2 {
			s := shuffled(rng, seq(w.n))[:w.t-1]
			h := w.history(c, s, rng, 3+rng.Intn(4), true)
			g.one(w, c, h, map[string]interface{}{"signers": s, "order": "random", "below_t": true})
		}
		// the own partial arrives from the network before PartialSig(): t-1 distinct partials, t stored
		{
			var others []int
			for _, j := range shuffled(rng, seq(w.n)) {
				if j != c && len(others) < w.t-2 {
					others = append(others, j)
				}
			}
			var h []hop
			for _, j := range others {
				h = append(h, hop{ps: w.honest(j), class: "honest", from: j})
			}
			h = append(h, hop{ps: w.honest(c), class: "echo-own", from: c}, hop{sign: true, class: "own", from: c})
			// ... and then one more valid partial completes the signature
			for _, j := range shuffled(rng, seq(w.n)) {
				if j != c && !contains(others, j) {
					h = append(h, hop{ps: w.honest(j), class: "honest", from: j})
					break
				}
			}
			g.one(w, c, h, map[string]interface{}{"scenario": "own-partial-echo-then-sign"})
		}
	}
}

// another sharing of w's long-term key (real Pedersen resharing or a fresh
// polynomial through the same secret; same or other threshold; same or fresh
// one-time secret), then the multi-session scenarios
func (g *gen) resharings(w *world, rng *vh.Rng, real bool) {
	t2 := w.t
	switch rng.Intn(3) {
	case 0:
		if w.t < w.n {
			t2 = w.t + 1
		}
	case 1:
		if w.t > 2 {
			t2 = w.t - 1
		}
	}
	w2, err := w.reshared(rng, real, rng.Bool(), t2)
	if err != nil {
		g.rep.Fail("dkg/resharing-failed", err.Error(), map[string]interface{}{"world": w.name, "t2": t2, "real": real})
		return
	}
	g.epochs(w, w2, rng)
}

// large committees: first-t, last-t and random t-subsets of signers; in
// committees with more than 64 participants the partials of the signers 63, 64,
// 65 and n-1 are replayed (second delivery must be refused, nothing counted)
func (g *gen) large(w *world, rng *vh.Rng) {
	n, t := w.n, w.t
	g.rep.Dist(fmt.Sprintf("large-committee:%s:n=%d,t=%d", w.group, n, t))
	all := seq(n)
	subs := map[string][]int{"first-t": all[:t], "last-t": all[n-t:], "random-t": shuffled(rng, all)[:t]}
	for _, name := range []string{"first-t", "last-t", "random-t"} {
		sg := subs[name]
		order := sg
		if rng.Bool() {
			order = shuffled(rng, sg)
		}
		c := sg[rng.Intn(len(sg))]
		if name == "random-t" {
			c = rng.Intn(n) // possibly a pure combiner
		}
		h := w.history(c, order, rng, 1+rng.Intn(2), false)
		g.one(w, c, h, map[string]interface{}{"signers": name, "large": true})
	}
	if n > 64 {
		hot := []int{63, 64, 65}
		if n-1 > 65 {
			hot = append(hot, n-1)
		}
		// (a) only the four signers around the word boundary, each delivered many times: never enough
		{
			c := 0
			var h []hop
			for round := 0; round < 10; round++ {
				for _, j := range hot {
					cl := "honest"
					if round > 0 {
						cl = "same-object-again"
						if round%2 == 0 {
							cl = "honest-again"
						}
					}
					ps := w.shared(j, nil)
					if cl == "same-object-again" {
						if w.cache[j] == nil {
							w.cache[j] = ps
						}
						ps = w.cache[j]
					}
					h = append(h, hop{ps: ps, class: cl, from: j})
				}
			}
			g.one(w, c, h, map[string]interface{}{"scenario": "replay-of-signers-63-64-65-last", "large": true})
		}
		// (b) a t-subset containing them, every one of their partials replayed right after its first delivery
		{
			var sg []int
			sg = append(sg, hot...)
			for _, j := range shuffled(rng, all) {
				if len(sg) < t && !contains(hot, j) {
					sg = append(sg, j)
				}
			}
			c := hot[rng.Intn(len(hot))]
			var h []hop
			for _, j := range shuffled(rng, sg) {
				if j == c {
					h = append(h, hop{sign: true, class: "own", from: c}, hop{ps: w.honest(c), class: "echo-own", from: c})
					continue
				}
				ps := w.honest(j)
				h = append(h, hop{ps: ps, class: "honest", from: j})
				if contains(hot, j) || rng.Intn(4) == 0 {
					h = append(h, hop{ps: ps, class: "same-object-again", from: j})
				}
			}
			g.one(w, c, h, map[string]interface{}{"scenario": "t-subset-with-replays-around-index-64", "large": true})
		}
	}
}

func seq(n int) []int {
	o := make([]int, n)
	for i := range o {
		o[i] = i
	}
	return o
}
func contains(xs []int, x int) bool {
	for _, y := range xs {
		if y == x {
			return true
		}
	}
	return false
}

var kinds = []string{"rabin/rabin", "pedersen/pedersen", "rabin/pedersen", "pedersen/rabin"}

func main() {
	pr := flag.Bool("probe", false, "print corner-case behaviour of the implementation (development aid)")
	o := vh.ParseFlags()
	if *pr {
		probe()
		return
	}
	rng := vh.NewRng(o.Seed)
	rep := vh.NewReport("C12", o.Seed, o.Tier)
	rep.Rule = "one case = the history of one DSS instance (every participant as combiner x every t-subset of signers x arrival orders, keys from both DKG packages, with injected invalid/forged/cross-session/duplicate/out-of-range partials), observed after every call; distinct = distinct (world, combiner, signer set, order, call classes)"
	g := &gen{r: &runner{rep}, rep: rep, emit: !o.Search}
	mk := func(group, kind string, n, t int) *world {
		w, err := newWorld(group, kind, n, t, rng.Fork())
		if err != nil {
			rep.Fail("dkg/honest-run-failed/"+kind, err.Error(), map[string]interface{}{"group": group, "n": n, "t": t})
			return nil
		}
		return w
	}
	if o.Search {
		// oracle-only: many random worlds and long random histories
		rounds := 60
		if o.Thorough {
			rounds = 200
		}
		for k := 0; k < rounds; k++ {
			n := 3 + rng.Intn(5)
			t := 2 + rng.Intn(n-1)
			group := []string{"dlog", "dlog", "ed25519"}[rng.Intn(3)]
			w := mk(group, kinds[rng.Intn(len(kinds))], n, t)
			if w == nil {
				continue
			}
			for i := 0; i < 12; i++ {
				c := rng.Intn(n)
				s := shuffled(rng, seq(n))[:t+rng.Intn(n-t+1)]
				h := w.history(c, s, rng, rng.Intn(8), true)
				g.one(w, c, h, map[string]interface{}{"signers": s, "order": "random", "search": true})
			}
			g.world(w, rng, false, 1)
			g.resharings(w, rng, rng.Bool())
		}
		for _, x := range [][3]interface{}{{"dlog", 30, 21}, {"dlog", 70, 36}, {"ed25519", 40, 21}, {"ed25519", 66, 34}} {
			if w, err := newSynthWorld(x[0].(string), x[1].(int), x[2].(int), rng.Fork()); err == nil {
				g.large(w, rng)
			}
		}
		rep.Write(o.Out)
		return
	}
	maxN := 5
	if o.Thorough {
		maxN = 7
	}
	ki := int(o.Seed)
	for n := 3; n <= maxN; n++ {
		for t := 2; t <= n; t++ {
			exhaustive := n <= 5
			// dlog: exact comparison with the model; two DKG combinations per (n,t)
			nk := 2
			if o.Thorough {
				nk = 4
			}
			for k := 0; k < nk; k++ {
				if w := mk("dlog", kinds[(ki+k)%4], n, t); w != nil {
					g.world(w, rng, exhaustive, 3)
					g.resharings(w, rng, (ki+k)%2 == 0)
				}
			}
			ki++
			// Ed25519: the oracles on the real group
			edOrders := 1
			if o.Thorough {
				edOrders = 3
			}
			if w := mk("ed25519", kinds[ki%4], n, t); w != nil {
				g.world(w, rng, exhaustive && (o.Thorough || n <= 4), edOrders)
				g.resharings(w, rng, ki%2 == 0)
			}
		}
	}
	// large-but-legal committees (no DKG run: sharings built from polynomials)
	lg := [][3]interface{}{{"dlog", 24, 17}, {"dlog", 70, 36}, {"ed25519", 30, 21}}
	if o.Seed%2 == 0 {
		lg = [][3]interface{}{{"dlog", 40, 21}, {"dlog", 66, 20}, {"ed25519", 24, 17}}
	}
	if o.Thorough {
		lg = [][3]interface{}{{"dlog", 24, 17}, {"dlog", 30, 21}, {"dlog", 40, 21}, {"dlog", 64, 33}, {"dlog", 70, 36}, {"dlog", 66, 20},
			{"ed25519", 30, 21}, {"ed25519", 70, 36}, {"ed25519", 64, 33}}
	}
	for _, x := range lg {
		w, err := newSynthWorld(x[0].(string), x[1].(int), x[2].(int), rng.Fork())
		if err != nil {
			rep.Fail("keys/synthetic-sharing-failed", err.Error(), map[string]interface{}{"n": x[1], "t": x[2]})
			continue
		}
		g.large(w, rng)
	}
	if w := mk("p256", kinds[ki%4], 3, 2); w != nil {
		g.world(w, rng, true, 1)
	}
	if o.Thorough {
		if w := mk("p256", kinds[(ki+1)%4], 5, 3); w != nil {
			g.world(w, rng, false, 2)
		}
	}
	// NewDSS refuses a secret whose public key is not a participant's
	{
		w := mk("dlog", "rabin/rabin", 3, 2)
		if w != nil {
			outsider := w.suite.Scalar().Pick(w.suite.RandomStream())
			_, err := dss.NewDSS(w.suite, outsider, w.pubs, w.long[0], w.rnd[0], w.msg, 2)
			if !o.Search {
				// the model must refuse as well (idx = -1 encodes the error)
				id := g.nextID
				g.nextID++
				var parts []string
				for _, p := range w.pubs {
					parts = append(parts, vh.CoqZ(vh.Dlog(p)))
				}
				idx := -1
				if err == nil {
					idx = 0
				}
				g.cases = append(g.cases, fmt.Sprintf("CDss %d %s [] [] %s %s 2 [] [] 0 0 (@nil Z) (%d) [] []", id, vh.CoqZ(w.dl.Q),
					vh.CoqList(parts), vh.CoqZ(vh.ScalarVal(outsider)), idx))
				rep.Index(id, "NewDSS with a secret key of no participant")
				rep.Count("newdss-outsider", true)
			}
			if err == nil {
				rep.Fail("dss.NewDSS/outsider-accepted", "NewDSS accepted a secret key that belongs to no participant", nil)
			}
		}
	}
	rep.Note("EnoughPartialSig() counts the own partial twice when it was received from the network before PartialSig() was called (the `signed` flag, not partialsIdx, guards the append); Signature() still refuses below t distinct partials (share.RecoverSecret de-duplicates by index), so the property holds; see distribution key quirk:EnoughPartialSig-true-below-t")
	per := (len(g.cases) + 14) / 15 // at most 15 shards: the fixed cost of a shard (loading the libraries) dominates
	if per < 60 {
		per = 60
	}
	if per > 200 {
		per = 200
	}
	vh.WriteShards(o.Out, "dss", &vh.CaseFile{Header: "From Kyber Require Import DSS.DSSSM DSS.DSSRun.", Type: "case", Runner: "mismatches", Items: g.cases}, per, rep)
	rep.Write(o.Out)
}
