package main

// Honest runs of kyber's two DKG implementations (share/dkg/rabin and
// share/dkg/pedersen) producing the distributed key shares that sign/dss is
// driven with.  Generic over the suite: the dlog group for the exact model
// comparison, Ed25519 for the oracles.

import (
	"fmt"
	"io"

	"go.dedis.ch/kyber/v4"
	"go.dedis.ch/kyber/v4/share"
	pdkg "go.dedis.ch/kyber/v4/share/dkg/pedersen"
	rdkg "go.dedis.ch/kyber/v4/share/dkg/rabin"
	"go.dedis.ch/kyber/v4/sign/dss"
	"go.dedis.ch/kyber/v4/sign/schnorr"
)

type fullSuite interface {
	kyber.Group
	kyber.HashFactory
	kyber.XOFFactory
	kyber.Random
}

// rabinDKG runs the Rabin DKG among all participants, everybody honest.
func rabinDKG(suite fullSuite, secs []kyber.Scalar, pubs []kyber.Point, t int) ([]dss.DistKeyShare, error) {
	n := len(secs)
	gens := make([]*rdkg.DistKeyGenerator, n)
	for i := range gens {
		g, err := rdkg.NewDistKeyGenerator(suite, secs[i], pubs, uint32(t))
		if err != nil {
			return nil, fmt.Errorf("rabin NewDistKeyGenerator: %w", err)
		}
		gens[i] = g
	}
	var resps []*rdkg.Response
	for _, g := range gens {
		deals, err := g.Deals()
		if err != nil {
			return nil, fmt.Errorf("rabin Deals: %w", err)
		}
		for i := 0; i < n; i++ { // deterministic order (Deals returns a map)
			d, ok := deals[i]
			if !ok {
				continue
			}
			r, err := gens[i].ProcessDeal(d)
			if err != nil {
				return nil, fmt.Errorf("rabin ProcessDeal: %w", err)
			}
			if !r.Response.Approved {
				return nil, fmt.Errorf("rabin: honest deal not approved")
			}
			resps = append(resps, r)
		}
	}
	for _, r := range resps {
		for h, g := range gens {
			if r.Response.Index == uint32(h) {
				continue
			}
			j, err := g.ProcessResponse(r)
			if err != nil || j != nil {
				return nil, fmt.Errorf("rabin ProcessResponse: %v %v", err, j)
			}
		}
	}
	for i, g := range gens {
		sc, err := g.SecretCommits()
		if err != nil {
			return nil, fmt.Errorf("rabin SecretCommits: %w", err)
		}
		for j, g2 := range gens {
			if i == j {
				continue
			}
			cc, err := g2.ProcessSecretCommits(sc)
			if err != nil || cc != nil {
				return nil, fmt.Errorf("rabin ProcessSecretCommits: %v %v", err, cc)
			}
		}
	}
	out := make([]dss.DistKeyShare, n)
	for i, g := range gens {
		k, err := g.DistKeyShare()
		if err != nil {
			return nil, fmt.Errorf("rabin DistKeyShare: %w", err)
		}
		out[i] = k
	}
	return out, nil
}

// pedersenDKG runs the Pedersen DKG (fresh key) among all participants.
func pedersenDKG(suite fullSuite, secs []kyber.Scalar, pubs []kyber.Point, t int, nonce []byte, fast bool, rd io.Reader) ([]dss.DistKeyShare, error) {
	n := len(secs)
	nodes := make([]pdkg.Node, n)
	for i := range nodes {
		nodes[i] = pdkg.Node{Index: uint32(i), Public: pubs[i]}
	}
	gens := make([]*pdkg.DistKeyGenerator, n)
	for i := range gens {
		c := &pdkg.Config{
			Suite:          suite,
			Longterm:       secs[i],
			NewNodes:       nodes,
			Threshold:      uint32(t),
			Nonce:          nonce,
			Auth:           schnorr.NewScheme(suite),
			FastSync:       fast,
			Reader:         rd,
			UserReaderOnly: rd != nil,
		}
		g, err := pdkg.NewDistKeyHandler(c)
		if err != nil {
			return nil, fmt.Errorf("pedersen NewDistKeyHandler: %w", err)
		}
		gens[i] = g
	}
	var deals []*pdkg.DealBundle
	for _, g := range gens {
		d, err := g.Deals()
		if err != nil {
			return nil, fmt.Errorf("pedersen Deals: %w", err)
		}
		deals = append(deals, d)
	}
	var resps []*pdkg.ResponseBundle
	for _, g := range gens {
		r, err := g.ProcessDeals(deals)
		if err != nil {
			return nil, fmt.Errorf("pedersen ProcessDeals: %w", err)
		}
		if r != nil {
			resps = append(resps, r)
		}
	}
	out := make([]dss.DistKeyShare, n)
	for i, g := range gens {
		res, just, err := g.ProcessResponses(resps)
		if err != nil {
			return nil, fmt.Errorf("pedersen ProcessResponses: %w", err)
		}
		if res == nil || just != nil {
			return nil, fmt.Errorf("pedersen: honest run needs justifications")
		}
		out[i] = res.Key
	}
	return out, nil
}

// pedersenReshare runs the Pedersen resharing protocol among the same nodes:
// same distributed secret and public key, a new polynomial (threshold newT)
// and new shares.
func pedersenReshare(suite fullSuite, secs []kyber.Scalar, pubs []kyber.Point, old []dss.DistKeyShare, oldT, newT int, nonce []byte, fast bool) ([]dss.DistKeyShare, error) {
	n := len(secs)
	nodes := make([]pdkg.Node, n)
	for i := range nodes {
		nodes[i] = pdkg.Node{Index: uint32(i), Public: pubs[i]}
	}
	gens := make([]*pdkg.DistKeyGenerator, n)
	for i := range gens {
		c := &pdkg.Config{
			Suite:        suite,
			Longterm:     secs[i],
			OldNodes:     nodes,
			NewNodes:     nodes,
			Share:        &pdkg.DistKeyShare{Commits: old[i].Commitments(), Share: old[i].PriShare()},
			Threshold:    uint32(newT),
			OldThreshold: uint32(oldT),
			Nonce:        nonce,
			Auth:         schnorr.NewScheme(suite),
			FastSync:     fast,
		}
		g, err := pdkg.NewDistKeyHandler(c)
		if err != nil {
			return nil, fmt.Errorf("pedersen reshare NewDistKeyHandler: %w", err)
		}
		gens[i] = g
	}
	var deals []*pdkg.DealBundle
	for _, g := range gens {
		d, err := g.Deals()
		if err != nil {
			return nil, fmt.Errorf("pedersen reshare Deals: %w", err)
		}
		deals = append(deals, d)
	}
	var resps []*pdkg.ResponseBundle
	for _, g := range gens {
		r, err := g.ProcessDeals(deals)
		if err != nil {
			return nil, fmt.Errorf("pedersen reshare ProcessDeals: %w", err)
		}
		if r != nil {
			resps = append(resps, r)
		}
	}
	out := make([]dss.DistKeyShare, n)
	for i, g := range gens {
		res, just, err := g.ProcessResponses(resps)
		if err != nil {
			return nil, fmt.Errorf("pedersen reshare ProcessResponses: %w", err)
		}
		if res == nil || just != nil {
			return nil, fmt.Errorf("pedersen reshare: honest run needs justifications")
		}
		out[i] = res.Key
	}
	return out, nil
}

// synthKey is a distributed key share built directly from a polynomial: another
// sharing of a given secret (what a resharing / refresh produces).
type synthKey struct {
	s *share.PriShare
	c []kyber.Point
}

func (k *synthKey) PriShare() *share.PriShare  { return k.s }
func (k *synthKey) Commitments() []kyber.Point { return k.c }

func synthSharing(suite fullSuite, secret kyber.Scalar, t, n int) []dss.DistKeyShare {
	poly := share.NewPriPoly(suite, uint32(t), secret, suite.RandomStream())
	_, commits := poly.Commit(nil).Info()
	out := make([]dss.DistKeyShare, n)
	for i, s := range poly.Shares(uint32(n)) {
		out[i] = &synthKey{s: s, c: commits}
	}
	return out
}
