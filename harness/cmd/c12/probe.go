package main

import (
	"fmt"
	"math"

	"go.dedis.ch/kyber/v4"
	"go.dedis.ch/kyber/v4/group/edwards25519"
	"go.dedis.ch/kyber/v4/share"
	"go.dedis.ch/kyber/v4/sign/dss"
	"go.dedis.ch/kyber/v4/sign/schnorr"
	"kyverif/vh"
)

// probe prints what the real code does on the corner cases the model has to
// reproduce (development aid; not part of the check).
func probe() {
	g := vh.NewDlogGroup(vh.Q61, vh.NewSeqStream([]byte("probe")))
	n, t := 4, 3
	secs := make([]kyber.Scalar, n)
	pubs := make([]kyber.Point, n)
	for i := range secs {
		secs[i] = g.Scalar().Pick(g.RandomStream())
		pubs[i] = g.Point().Mul(secs[i], nil)
	}
	long, err := rabinDKG(g, secs, pubs, t)
	fmt.Println("rabin long", err)
	rnd, err := pedersenDKG(g, secs, pubs, t, make([]byte, 32), true, nil)
	fmt.Println("pedersen rnd", err)
	rnd2, err := pedersenDKG(g, secs, pubs, t, make([]byte, 32), false, nil)
	fmt.Println("pedersen rnd2 (no fastsync)", err)
	for i := range long {
		fmt.Println(i, "long share idx", long[i].PriShare().I, "ncommits", len(long[i].Commitments()), "rnd idx", rnd[i].PriShare().I, len(rnd[i].Commitments()))
	}
	msg := []byte("hello")
	mk := func(i int, r []dss.DistKeyShare, tt int) *dss.DSS {
		d, err := dss.NewDSS(g, secs[i], pubs, long[i], r[i], msg, uint32(tt))
		if err != nil {
			panic(err)
		}
		return d
	}
	// double count: own partial received from the network before PartialSig()
	d0 := mk(0, rnd, t)
	d0b := mk(0, rnd, t)
	ps0, _ := d0b.PartialSig()
	fmt.Println("recv own:", d0.ProcessPartialSig(ps0), "enough", d0.EnoughPartialSig())
	_, _ = d0.PartialSig()
	fmt.Println("after own PartialSig: enough", d0.EnoughPartialSig())
	d1 := mk(1, rnd, t)
	ps1, _ := d1.PartialSig()
	fmt.Println("recv 1:", d0.ProcessPartialSig(ps1), "enough (2 distinct, t=3)", d0.EnoughPartialSig())
	sig, err := d0.Signature()
	fmt.Println("signature:", sig, err)
	// reverse order
	d0 = mk(0, rnd, t)
	_, _ = d0.PartialSig()
	fmt.Println("sign then recv own:", d0.ProcessPartialSig(ps0))
	// classes
	d2 := mk(2, rnd, t)
	bad := *ps1
	bad.Partial = &share.PriShare{I: uint32(n), V: ps1.Partial.V}
	fmt.Println("index n:", d2.ProcessPartialSig(&bad))
	bad.Partial = &share.PriShare{I: math.MaxUint32, V: ps1.Partial.V}
	fmt.Println("index max:", d2.ProcessPartialSig(&bad))
	bad = *ps1
	bad.Signature = append([]byte{}, ps1.Signature...)
	bad.Signature[3] ^= 1
	fmt.Println("flipped sig:", d2.ProcessPartialSig(&bad))
	bad = *ps1
	bad.Signature = ps1.Signature[:5]
	fmt.Println("short sig:", d2.ProcessPartialSig(&bad))
	// other session
	dx := mk(1, rnd2, t)
	psx, _ := dx.PartialSig()
	fmt.Println("other session:", d2.ProcessPartialSig(psx))
	// other session's partial value re-labelled with this session id and re-signed by owner
	re := &dss.PartialSig{Partial: psx.Partial, SessionID: ps1.SessionID}
	re.Signature, _ = schnorr.Sign(g, secs[1], re.Hash(g))
	fmt.Println("other session relabelled:", d2.ProcessPartialSig(re))
	// resigned by other key
	re = &dss.PartialSig{Partial: ps1.Partial, SessionID: ps1.SessionID}
	re.Signature, _ = schnorr.Sign(g, secs[3], re.Hash(g))
	fmt.Println("resigned by 3:", d2.ProcessPartialSig(re))
	fmt.Println("good:", d2.ProcessPartialSig(ps1))
	fmt.Println("dup:", d2.ProcessPartialSig(ps1))
	_, _ = d2.PartialSig()
	d3 := mk(3, rnd, t)
	ps3, _ := d3.PartialSig()
	fmt.Println("good 3:", d2.ProcessPartialSig(ps3), d2.EnoughPartialSig())
	sig, err = d2.Signature()
	fmt.Println("sig", vh.Hex(sig), err)
	A := long[0].Commitments()[0]
	fmt.Println("schnorr.Verify:", schnorr.Verify(g, A, msg, sig))
	p, m := vh.Try(func() { fmt.Println("dss.Verify on dlog:", dss.Verify(A, msg, sig)) })
	fmt.Println("panic", p, m)
	// nil partial / nil V
	p, m = vh.Try(func() { fmt.Println(d2.ProcessPartialSig(&dss.PartialSig{Partial: nil})) })
	fmt.Println("nil Partial: panic", p, m)
	p, m = vh.Try(func() {
		fmt.Println(d2.ProcessPartialSig(&dss.PartialSig{Partial: &share.PriShare{I: 1}, SessionID: ps1.SessionID, Signature: ps1.Signature}))
	})
	fmt.Println("nil V: panic", p, m)
	// T smaller than the DKG threshold
	e0 := mk(0, rnd, 2)
	_, _ = e0.PartialSig()
	e1 := mk(1, rnd, 2)
	pe1, _ := e1.PartialSig()
	fmt.Println("T=2<t:", e0.ProcessPartialSig(pe1), e0.EnoughPartialSig())
	sig, err = e0.Signature()
	fmt.Println("  sig", err, "verify:", schnorr.Verify(g, A, msg, sig))
	// T = 0
	z0 := mk(0, rnd, 0)
	sig, err = z0.Signature()
	fmt.Println("T=0: sig", vh.Hex(sig), err)

	// Ed25519
	es := edwards25519.NewBlakeSHA256Ed25519()
	for i := range secs {
		secs[i] = es.Scalar().Pick(es.RandomStream())
		pubs[i] = es.Point().Mul(secs[i], nil)
	}
	el, err := rabinDKG(es, secs, pubs, t)
	fmt.Println("ed rabin", err)
	er, err := pedersenDKG(es, secs, pubs, t, make([]byte, 32), true, nil)
	fmt.Println("ed pedersen", err)
	var ds []*dss.DSS
	var pss []*dss.PartialSig
	for i := 0; i < n; i++ {
		d, err := dss.NewDSS(es, secs[i], pubs, el[i], er[i], msg, uint32(t))
		if err != nil {
			panic(err)
		}
		ps, _ := d.PartialSig()
		ds = append(ds, d)
		pss = append(pss, ps)
	}
	fmt.Println(ds[0].ProcessPartialSig(pss[1]), ds[0].ProcessPartialSig(pss[2]))
	sig, err = ds[0].Signature()
	fmt.Println("ed sig", err, "dss.Verify", dss.Verify(el[0].Commitments()[0], msg, sig))
}
