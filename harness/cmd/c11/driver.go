package main

// Driver-level scenarios for property C11: real dkg.Protocol instances (the
// goroutine driver of share/dkg/pedersen/protocol.go: Start / startFast, packet
// verification, the per-phase packet stores, the fast-sync early phase
// switches) run over a scripted Board and a scripted Phaser.
//
// Determinism without testing/synctest: every channel the Protocol listens on
// is unbuffered and has a single writer (the scheduler below).  After each
// packet or phase tick handed to a node the scheduler sends the no-op tick
// InitPhase to the same node: that send completes only when the node's
// goroutine is back in its select, i.e. when it has completely processed the
// previous event (including its pushes to the board).  So exactly one goroutine
// runs at any time, events are processed in the order the scheduler draws them
// from the harness PRNG, and a run is a function of the seed.
//
// Schedule (synchronous network, arbitrary order): a packet pushed to the board
// is queued for every node (the sender included, as on kyber's own test board),
// sometimes twice; the scheduler delivers queued packets to randomly chosen
// nodes in random order; the tick of the next phase is sent (node by node, with
// deliveries in between) only when every queue is empty - every packet of a
// phase reaches everybody before that phase times out, in per-node orders that
// differ, and nodes that leave a phase early (fast-sync) receive the remaining
// packets of that phase in their next phase.
//
// Oracles: the clauses of the property (scen.oracles, the same as for the
// synchronous harness), and: what the Protocol outputs equals what the
// synchronous DistKeyGenerator calls (the ones the Coq model is compared with)
// give for the same node on the full boards of the same run.
//
// Not scripted: equivocation (two different bundles of one sender) in fast-sync
// mode - a node that has left a phase early cannot see the second bundle in that
// phase, so the premise "every honest party is handed the same set of packets per
// phase" does not hold there.

import (
	"fmt"
	"sync"
	"time"

	dkg "go.dedis.ch/kyber/v4/share/dkg/pedersen"
)

type dhub struct {
	mu    sync.Mutex
	deals []*dkg.DealBundle
	resps []*dkg.ResponseBundle
	justs []*dkg.JustificationBundle
	fresh []interface{} // pushed since the scheduler last looked
	// parties whose Protocol pushed a response bundle
	responded map[int]bool
}

type dboard struct {
	sc *scen
	p  *party
	h  *dhub
	dc chan dkg.DealBundle
	rc chan dkg.ResponseBundle
	jc chan dkg.JustificationBundle
}

func (b *dboard) PushDeals(d *dkg.DealBundle) {
	out := b.sc.mutateDeals(b.p, copyDeal(d))
	b.h.mu.Lock()
	defer b.h.mu.Unlock()
	if (len(out) == 1 || (b.p.faulty && b.p.f.Deal == dDuplicate)) && !(b.p.faulty && b.p.f.Deal == dForgedSig) {
		b.sc.dealPub[b.p.id] = out[0].Public
	}
	for _, x := range out {
		b.h.deals = append(b.h.deals, x)
		b.h.fresh = append(b.h.fresh, x)
	}
}

func (b *dboard) PushResponses(r *dkg.ResponseBundle) {
	if b.p.nidx < 0 {
		return
	}
	out := b.sc.mutateResps(b.p, copyResp(r))
	b.h.mu.Lock()
	defer b.h.mu.Unlock()
	b.h.responded[b.p.id] = true
	for _, x := range out {
		b.h.resps = append(b.h.resps, x)
		b.h.fresh = append(b.h.fresh, x)
	}
}

func (b *dboard) PushJustifications(j *dkg.JustificationBundle) {
	out := b.sc.mutateJusts(b.p, copyJust(j))
	b.h.mu.Lock()
	defer b.h.mu.Unlock()
	for _, x := range out {
		b.h.justs = append(b.h.justs, x)
		b.h.fresh = append(b.h.fresh, x)
	}
}

func (b *dboard) IncomingDeal() <-chan dkg.DealBundle                   { return b.dc }
func (b *dboard) IncomingResponse() <-chan dkg.ResponseBundle           { return b.rc }
func (b *dboard) IncomingJustification() <-chan dkg.JustificationBundle { return b.jc }

type dphaser struct{ ch chan dkg.Phase }

func (p *dphaser) NextPhase() chan dkg.Phase { return p.ch }

type dnode struct {
	p      *party
	b      *dboard
	ph     *dphaser
	proto  *dkg.Protocol
	done   chan struct{}
	opt    *dkg.OptionResult
	have   bool // opt was read after done
	closed bool // FinishPhase was sent: the goroutine returns, nothing more may be sent
	queue  []interface{}
	stuck  bool
}

const driverPatience = 60 * time.Second

// tick hands a phase to the node; false when the node's goroutine is gone.
func (n *dnode) tick(ph dkg.Phase) bool {
	if n.closed || n.stuck {
		return false
	}
	select {
	case n.ph.ch <- ph:
		return true
	case <-n.done:
		return false
	case <-time.After(driverPatience):
		n.stuck = true
		return false
	}
}

// barrier returns when the node has finished processing everything it was handed.
func (n *dnode) barrier() { n.tick(dkg.InitPhase) }

func (n *dnode) give(x interface{}) {
	if n.closed || n.stuck {
		return
	}
	to := time.After(driverPatience)
	switch v := x.(type) {
	case *dkg.DealBundle:
		select {
		case n.b.dc <- *copyDeal(v):
		case <-n.done:
			return
		case <-to:
			n.stuck = true
			return
		}
	case *dkg.ResponseBundle:
		select {
		case n.b.rc <- *copyResp(v):
		case <-n.done:
			return
		case <-to:
			n.stuck = true
			return
		}
	case *dkg.JustificationBundle:
		select {
		case n.b.jc <- *copyJust(v):
		case <-n.done:
			return
		case <-to:
			n.stuck = true
			return
		}
	}
	n.barrier()
}

func (n *dnode) gone() bool {
	select {
	case <-n.done:
		return true
	default:
		return n.closed || n.stuck
	}
}

// restrictForDriver removes from the fault scripts what the driver family does not script.
func (sc *scen) restrictForDriver() {
	for _, p := range sc.parties {
		if !p.faulty {
			continue
		}
		p.f.Unsol = false // needs the dealer's polynomial, which is inside the Protocol
		if sc.fast {
			if p.f.Deal == dConflict {
				p.f.Deal = dDuplicate
			}
			if p.f.Resp == rConflict {
				p.f.Resp = rDuplicate
			}
			if p.f.Just == jConflict {
				p.f.Just = jDuplicate
			}
		}
	}
}

// runDriver runs the scenario through real Protocol instances and fills
// party.res / errPhase as scen.run does; afterwards party.gen is the node's
// synchronous twin (for the oracles that look at the status matrix).
func (sc *scen) runDriver() {
	e := sc.e
	rng := e.rng
	h := &dhub{responded: map[int]bool{}}
	var nodes []*dnode
	for _, p := range sc.parties {
		c := *p.conf
		n := &dnode{p: p, ph: &dphaser{ch: make(chan dkg.Phase)}, done: make(chan struct{})}
		n.b = &dboard{sc: sc, p: p, h: h, dc: make(chan dkg.DealBundle), rc: make(chan dkg.ResponseBundle), jc: make(chan dkg.JustificationBundle)}
		proto, err := dkg.NewProtocol(&c, n.b, n.ph, false)
		if err != nil {
			e.rep.Fail("pedersen.NewProtocol/valid-config-refused", err.Error(), sc.describe())
			return
		}
		n.proto = proto
		go func(n *dnode) {
			opt := <-n.proto.WaitEnd()
			n.opt = &opt
			close(n.done)
		}(n)
		nodes = append(nodes, n)
	}
	// new packets on the board -> every node's queue (sometimes twice)
	drain := func() {
		h.mu.Lock()
		fresh := h.fresh
		h.fresh = nil
		h.mu.Unlock()
		for _, x := range fresh {
			for _, n := range nodes {
				n.queue = append(n.queue, x)
				if rng.Chance(20) {
					n.queue = append(n.queue, x)
				}
			}
		}
	}
	deliverOne := func() bool {
		var cand []*dnode
		for _, n := range nodes {
			if len(n.queue) > 0 {
				if n.gone() {
					n.queue = nil
					continue
				}
				cand = append(cand, n)
			}
		}
		if len(cand) == 0 {
			return false
		}
		n := cand[rng.Intn(len(cand))]
		k := rng.Intn(len(n.queue))
		x := n.queue[k]
		n.queue = append(n.queue[:k:k], n.queue[k+1:]...)
		n.give(x)
		drain()
		return true
	}
	for _, ph := range []dkg.Phase{dkg.DealPhase, dkg.ResponsePhase, dkg.JustifPhase, dkg.FinishPhase} {
		for _, i := range permutation(rng, len(nodes)) {
			n := nodes[i]
			if ph == dkg.FinishPhase {
				if n.tick(ph) {
					n.closed = true
				}
			} else if n.tick(ph) {
				n.barrier()
			}
			drain()
			// clocks are not aligned: some packets travel while the others have not switched yet
			for k := rng.Intn(3); k > 0 && deliverOne(); k-- {
			}
		}
		if ph == dkg.ResponsePhase {
			// a faulty holder whose generator had nothing to say can still put a bundle of its own on the board
			for _, n := range nodes {
				p := n.p
				h.mu.Lock()
				said := h.responded[p.id]
				h.mu.Unlock()
				if p.faulty && p.nidx >= 0 && !said && p.f.Resp != rHonest {
					for _, x := range sc.mutateResps(p, nil) {
						h.mu.Lock()
						h.resps = append(h.resps, x)
						h.fresh = append(h.fresh, x)
						h.mu.Unlock()
					}
				}
			}
			drain()
		}
		for deliverOne() {
		}
	}
	// results
	for _, n := range nodes {
		p := n.p
		p.ended = true
		if n.stuck {
			e.rep.Fail("pedersen.Protocol/goroutine-gone-without-result", fmt.Sprintf("the Protocol of party %d stopped listening without delivering a result", p.id), sc.describe())
			continue
		}
		leavingFast := sc.fast && p.nidx < 0 // startFast returns on FinishPhase without a result for a node that is not in JustifPhase
		if !leavingFast {
			select {
			case <-n.done:
			case <-time.After(driverPatience):
				e.rep.Fail("pedersen.Protocol/no-result-after-finish-phase", fmt.Sprintf("the Protocol of party %d delivered no result after the FinishPhase tick", p.id), sc.describe())
				continue
			}
		} else {
			select {
			case <-n.done:
			default:
				continue
			}
		}
		n.have = true
		if n.opt != nil {
			if n.opt.Error != nil {
				p.errPhase = "protocol: " + n.opt.Error.Error()
			} else {
				p.res = n.opt.Result
			}
		}
	}
	// the synchronous twins on the full boards
	for _, n := range nodes {
		p := n.p
		if p.faulty {
			continue
		}
		c := *p.conf
		g, err := dkg.NewDistKeyHandler(&c)
		if err != nil {
			continue
		}
		tw := &party{id: p.id, conf: &c, gen: g, oidx: p.oidx, nidx: p.nidx}
		var tres *dkg.Result
		var terr error
		func() {
			if p.oidx >= 0 {
				if _, terr = g.Deals(); terr != nil {
					return
				}
			}
			if _, terr = g.ProcessDeals(deliver(sc, tw, h.deals).ToDeals()); terr != nil {
				return
			}
			var r *dkg.Result
			r, _, terr = g.ProcessResponses(deliver(sc, tw, h.resps).ToResponses())
			if terr != nil {
				return
			}
			if r != nil {
				tres = r
				return
			}
			tres, terr = g.ProcessJustifications(deliver(sc, tw, h.justs).ToJustifications())
		}()
		p.gen = g
		if n.stuck || !n.have {
			continue
		}
		what := ""
		switch {
		case p.nidx < 0:
			// a node that only leaves gets no result either way
			if (n.opt.Result != nil) != (tres != nil) {
				what = "leaving node: result presence differs"
			}
		case (p.res != nil) != (tres != nil):
			what = fmt.Sprintf("Protocol: result=%v error=%q; synchronous calls: result=%v error=%v", p.res != nil, p.errPhase, tres != nil, terr)
		case p.res != nil && fmt.Sprint(qualIdx(p.res)) != fmt.Sprint(qualIdx(tres)):
			what = fmt.Sprintf("Protocol QUAL %v, synchronous calls QUAL %v", qualIdx(p.res), qualIdx(tres))
		case p.res == nil && (p.errPhase != "") != (terr != nil):
			what = fmt.Sprintf("Protocol error %q, synchronous calls error %v", p.errPhase, terr)
		}
		if what != "" {
			d := sc.describe()
			d["party"] = p.id
			d["what"] = what
			e.rep.Fail(sc.tag()+"/protocol-driver-differs-from-synchronous-calls", fmt.Sprintf("party %d: %s", p.id, what), d)
		}
	}
}

// driverScen runs one scenario through the Protocol driver and evaluates the oracles.
func (e *env) driverScen(sc *scen) {
	sc.viaDriver = true
	sc.restrictForDriver()
	if err := sc.setup(); err != nil {
		e.rep.Fail("pedersen.NewDistKeyHandler/valid-config-refused", err.Error(), sc.describe())
		return
	}
	for _, p := range sc.parties {
		p.gen = nil // the generators of setup() are not used: each Protocol builds its own
	}
	sc.runDriver()
	for _, p := range sc.parties {
		if p.gen == nil && !p.faulty {
			return // a twin could not be built (reported above)
		}
	}
	sc.oracles()
	nf := 0
	for _, p := range sc.parties {
		if p.faulty {
			nf++
		}
	}
	e.rep.Dist(fmt.Sprintf("%s:protocol-driver %s n=%d->%d faulty=%d", e.name, sc.tag(), sc.nOld, sc.nNew, nf))
	e.rep.Count("driver"+fmt.Sprint(sc.describe(), e.rng.U64()), true)
	e.rep.Sample(sc.describe())
}

// driverBatch: all-honest runs of every kind (fresh, same-size / disjoint /
// growing / shrinking resharing) with fast-sync off and on, then random
// scenarios with faults.
func driverBatch(e *env, n int, maxN int) {
	rng := e.rng
	count := 0
	for _, kind := range kinds {
		for _, fast := range []bool{false, true} {
			var sc *scen
			switch kind {
			case "fresh":
				sc = newScen(e, kind, fast, 4, 3, 4, 3)
			case "overlap":
				sc = newScen(e, kind, fast, 4, 3, 4, 3)
			case "disjoint":
				sc = newScen(e, kind, fast, 3, 2, 4, 3)
			case "grow":
				sc = newScen(e, kind, fast, 3, 2, 5, 3)
			case "shrink":
				sc = newScen(e, kind, fast, 5, 3, 3, 2)
			}
			e.driverScen(sc)
			count++
		}
	}
	// one faulty holder complains about every dealer: every dealer has to justify, so the justification phase
	// sees as many bundles as there are dealers (more than there are holders when the group shrinks)
	for _, kind := range []string{"fresh", "grow", "shrink"} {
		for _, fast := range []bool{false, true} {
			for try := 0; try < 20; try++ {
				var sc *scen
				switch kind {
				case "fresh":
					sc = newScen(e, kind, fast, 4, 3, 4, 3)
				case "grow":
					sc = newScen(e, kind, fast, 3, 2, 5, 3)
				case "shrink":
					sc = newScen(e, kind, fast, 5, 3, 3, 2)
				}
				sc.assignFaults(1, func(int) (int, int, int) { return dHonest, rComplainAll, jHonest })
				ok := false
				for _, p := range sc.parties {
					if p.faulty && p.nidx >= 0 {
						ok = true
					}
				}
				if ok {
					e.driverScen(sc)
					count++
					break
				}
			}
		}
	}
	for ; count < n; count++ {
		sc := e.randomScen(maxN)
		nf := 0
		if !rng.Chance(25) {
			nf = 1 + rng.Intn(2)
		}
		sc.assignFaults(nf, func(int) (int, int, int) {
			d, r, j := dHonest, rHonest, jHonest
			switch rng.Intn(3) {
			case 0:
				d = rng.Intn(dNumFaults)
				j = rng.Intn(jNumFaults)
			case 1:
				r = rng.Intn(rNumFaults)
			default:
				d = dBadShare + rng.Intn(2)
				j = rng.Intn(jNumFaults)
				r = rng.Intn(rNumFaults)
			}
			return d, r, j
		})
		e.driverScen(sc)
	}
}
