package main

// Rabin DKG (share/dkg/rabin): real generators driven over a broadcast board
// with a fault script; every call is logged for DKG/RabinDKG.v (DlogGroup) and
// the property's clauses are evaluated as oracles (DlogGroup and Ed25519).

import (
	"fmt"
	"sort"

	"go.dedis.ch/kyber/v4"
	"go.dedis.ch/kyber/v4/share"
	rdkg "go.dedis.ch/kyber/v4/share/dkg/rabin"
	rvss "go.dedis.ch/kyber/v4/share/vss/rabin"
	"go.dedis.ch/kyber/v4/sign/schnorr"

	"kyverif/vh"
)

const (
	rbHonest         = iota
	rbBadDealJustOK  // invalid share to a victim, complaint answered with the valid deal
	rbBadDealJustBad // invalid share to a victim, justification reveals the invalid deal
	rbBadDealNoJust  // invalid share to a victim, complaint never answered
	rbFalseComplaint // complains about an honest dealer's valid deal
	rbSilent         // sends no responses (others time out)
	rbDupResponse    // every response twice
	rbWrongSid       // responses with a wrong session id
	rbForgedSig      // responses with an invalid signature
	rbBadCommits     // secret commitments that do not match the dealt shares
	rbBadDealsMulti  // invalid shares to SEVERAL victims; each complaint is, independently, answered validly / invalidly / not at all
	rbNumFaults
)

// how a dealer answers the complaint of one victim
const (
	vjValid   = iota // the valid deal is revealed
	vjInvalid        // the invalid deal is revealed
	vjNone           // no answer
)

var vjName = []string{"valid-justification", "invalid-justification", "no-justification"}

var rbName = []string{"honest", "bad-deal/valid-justification", "bad-deal/invalid-justification", "bad-deal/no-justification",
	"false-complaint", "silent", "duplicate-responses", "wrong-session-id", "forged-signature", "bad-secret-commits",
	"bad-deals-to-several-victims"}

type rparty struct {
	id     int
	priv   kyber.Scalar
	pub    kyber.Point
	gen    *rdkg.DistKeyGenerator
	fault  int
	victim int         // first victim (-1: none)
	vjust  map[int]int // victim -> how its complaint is answered (vj*); the victims of a bad deal
	target int
	calls  []string
	dks    *rdkg.DistKeyShare
	qual   []int
	trueC0 kyber.Point // commitment to the secret this party dealt (nil if never revealed)
}

type rscen struct {
	e      *env
	n, t   int
	ps     []*rparty
	pubs   []kyber.Point
	ccUsed bool
}

func (sc *rscen) describe() map[string]interface{} {
	var fs []string
	for _, p := range sc.ps {
		if p.fault != rbHonest {
			vs := ""
			if isBadDeal(p.fault) {
				var ks []int
				for v := range p.vjust {
					ks = append(ks, v)
				}
				sort.Ints(ks)
				for _, v := range ks {
					vs += fmt.Sprintf(" victim%d:%s", v, vjName[p.vjust[v]])
				}
			}
			fs = append(fs, fmt.Sprintf("party%d: %s victim=%d target=%d%s", p.id, rbName[p.fault], p.victim, p.target, vs))
		}
	}
	return map[string]interface{}{"protocol": "rabin", "suite": sc.e.name, "n": sc.n, "t": sc.t, "faults": fs}
}

func cb(b bool) string { return vh.CoqBool(b) }

func (sc *rscen) logf(p *rparty, f string, a ...interface{}) {
	if sc.e.dlog {
		p.calls = append(p.calls, fmt.Sprintf(f, a...))
	}
}

func (sc *rscen) coqPoints(ps []kyber.Point) string {
	if !sc.e.dlog {
		return "[]"
	}
	var s []string
	for _, p := range ps {
		s = append(s, "sc "+coqPoint(p))
	}
	return vh.CoqList(s)
}

func (sc *rscen) coqSc(s kyber.Scalar) string {
	if !sc.e.dlog {
		return "0"
	}
	return coqScalar(s)
}

func (e *env) rabinScen(n, t int, faults []int) *rscen {
	sc := &rscen{e: e, n: n, t: t}
	for i := 0; i < n; i++ {
		p := &rparty{id: i, priv: e.randScalar(), victim: -1, target: -1}
		p.pub = e.suite.Point().Mul(p.priv, nil)
		sc.ps = append(sc.ps, p)
		sc.pubs = append(sc.pubs, p.pub)
	}
	perm := permutation(e.rng, n)
	for k, f := range faults {
		if k >= n-t {
			break
		}
		sc.ps[perm[k]].fault = f
	}
	var honest []int
	for _, p := range sc.ps {
		if p.fault == rbHonest {
			honest = append(honest, p.id)
		}
	}
	for _, p := range sc.ps {
		if p.fault != rbHonest {
			p.victim = honest[e.rng.Intn(len(honest))]
			p.target = honest[e.rng.Intn(len(honest))]
			p.vjust = map[int]int{}
			switch p.fault {
			case rbBadDealJustOK:
				p.vjust[p.victim] = vjValid
			case rbBadDealJustBad:
				p.vjust[p.victim] = vjInvalid
			case rbBadDealNoJust:
				p.vjust[p.victim] = vjNone
			case rbBadDealsMulti:
				// at least two victims when there are two honest parties; the answers are drawn independently
				hp := permutation(e.rng, len(honest))
				k := 2 + e.rng.Intn(2)
				if k > len(honest) {
					k = len(honest)
				}
				for _, hi := range hp[:k] {
					p.vjust[honest[hi]] = e.rng.Intn(3)
				}
				p.victim = honest[hp[0]]
			}
		}
	}
	return sc
}

// setVictims fixes the victims of a dealer and how each complaint is answered.
func (p *rparty) setVictims(vj map[int]int) {
	p.vjust = vj
	p.victim = -1
	for v := range vj {
		if p.victim < 0 || v < p.victim {
			p.victim = v
		}
	}
}

func (p *rparty) isVictim(j int) bool {
	if !isBadDeal(p.fault) {
		return false
	}
	_, ok := p.vjust[j]
	return ok
}

// unanswered: some complaint of an (honest) victim is not answered by a valid justification
func (p *rparty) unanswered() bool {
	if !isBadDeal(p.fault) {
		return false
	}
	for _, a := range p.vjust {
		if a != vjValid {
			return true
		}
	}
	return false
}

type rresp struct {
	dealer, from int
	r            *rvss.Response
	sidOK, sigOK bool
}
type rjust struct {
	dealer int
	j      *rdkg.Justification
	valid  bool
}

func isBadDeal(f int) bool {
	return f == rbBadDealJustOK || f == rbBadDealJustBad || f == rbBadDealNoJust || f == rbBadDealsMulti
}

func (sc *rscen) run() bool {
	e := sc.e
	rng := e.rng
	n := sc.n
	suite := e.suite.(rdkg.Suite)
	one := e.scalar(1)
	for _, p := range sc.ps {
		g, err := rdkg.NewDistKeyGenerator(suite, p.priv, sc.pubs, uint32(sc.t))
		if err != nil {
			e.rep.Fail("rabin.NewDistKeyGenerator/valid-config-refused", err.Error(), sc.describe())
			return false
		}
		p.gen = g
	}
	// ---- deals
	orig := map[[2]int]kyber.Scalar{}
	for _, p := range sc.ps {
		if isBadDeal(p.fault) {
			for v := range p.vjust {
				pd, _ := p.gen.VerifDealer().PlaintextDeal(v)
				orig[[2]int{p.id, v}] = pd.SecShare.V.Clone()
				pd.SecShare.V = e.suite.Scalar().Add(pd.SecShare.V, one)
			}
		}
	}
	deals := make([]map[int]*rdkg.Deal, n)
	secAt := make([][]kyber.Scalar, n)
	tAt := make([][]uint32, n)
	for _, p := range sc.ps {
		var err error
		var dd map[int]*rdkg.Deal
		panicked, msg := vh.Try(func() { dd, err = p.gen.Deals() })
		if panicked || err != nil {
			e.rep.Fail("rabin.Deals/failed", fmt.Sprint(msg, err), sc.describe())
			return false
		}
		deals[p.id] = dd
		secAt[p.id] = make([]kyber.Scalar, n)
		tAt[p.id] = make([]uint32, n)
		for j := 0; j < n; j++ {
			pd, _ := p.gen.VerifDealer().PlaintextDeal(j)
			secAt[p.id][j] = pd.SecShare.V.Clone()
			tAt[p.id][j] = pd.T
		}
		sc.logf(p, "(RDeal %d true true %d (sc %s) false true)", p.id, tAt[p.id][p.id], sc.coqSc(secAt[p.id][p.id]))
		if isBadDeal(p.fault) {
			// where the complaint will be answered validly the dealer keeps the valid deal at hand
			for v, a := range p.vjust {
				if a == vjValid {
					pd, _ := p.gen.VerifDealer().PlaintextDeal(v)
					pd.SecShare.V = orig[[2]int{p.id, v}]
				}
			}
		}
	}
	var respBoard []rresp
	for _, dealer := range sc.ps {
		for _, j := range permutation(rng, n) {
			if j == dealer.id {
				continue
			}
			p := sc.ps[j]
			resp, err := p.gen.ProcessDeal(deals[dealer.id][j])
			expect := !dealer.isVictim(j)
			oa := resp != nil && resp.Response.Approved
			sc.logf(p, "(RDeal %d true %s %d (sc %s) %s %s)", dealer.id, cb(expect), tAt[dealer.id][j], sc.coqSc(secAt[dealer.id][j]), cb(err != nil), cb(oa))
			if err != nil {
				continue
			}
			r := &rvss.Response{SessionID: append([]byte{}, resp.Response.SessionID...), Index: resp.Response.Index,
				Approved: resp.Response.Approved, Signature: append([]byte{}, resp.Response.Signature...)}
			rr := rresp{dealer: dealer.id, from: j, r: r, sidOK: true, sigOK: true}
			resign := func(x *rvss.Response) {
				x.Signature, _ = schnorr.Sign(suite, p.priv, x.Hash(suite))
			}
			switch p.fault {
			case rbSilent:
				continue
			case rbFalseComplaint:
				if dealer.id == p.target {
					x := &rvss.Response{SessionID: r.SessionID, Index: r.Index, Approved: false}
					resign(x)
					rr.r = x
				}
			case rbWrongSid:
				x := &rvss.Response{SessionID: flip(r.SessionID), Index: r.Index, Approved: r.Approved}
				resign(x)
				rr.r, rr.sidOK = x, false
			case rbForgedSig:
				x := &rvss.Response{SessionID: r.SessionID, Index: r.Index, Approved: r.Approved, Signature: flip(r.Signature)}
				rr.r, rr.sigOK = x, false
			case rbDupResponse:
				respBoard = append(respBoard, rr)
			}
			respBoard = append(respBoard, rr)
		}
	}
	// ---- responses
	var justBoard []rjust
	for _, k := range permutation(rng, n) {
		p := sc.ps[k]
		for _, i := range permutation(rng, len(respBoard)) {
			rr := respBoard[i]
			if rr.from == k && !rng.Chance(15) {
				continue // own response (already recorded); sometimes delivered anyway
			}
			// every delivery is a fresh copy, as after a network: the generators keep (and later modify) what they are given
			cp := &rvss.Response{SessionID: append([]byte{}, rr.r.SessionID...), Index: rr.r.Index, Approved: rr.r.Approved,
				Signature: append([]byte{}, rr.r.Signature...)}
			approved := cp.Approved
			j, err := p.gen.ProcessResponse(&rdkg.Response{Index: uint32(rr.dealer), Response: cp})
			ownValid := !(p.isVictim(int(rr.r.Index)) && p.vjust[int(rr.r.Index)] != vjValid)
			sc.logf(p, "(RResp %d %d %s %s %s %s %s %s)", rr.dealer, rr.r.Index, cb(approved), cb(rr.sidOK), cb(rr.sigOK), cb(ownValid), cb(err != nil), cb(j != nil))
			if j != nil {
				justBoard = append(justBoard, rjust{dealer: k, j: j, valid: true})
			}
			if j == nil && rr.dealer == k && !approved && rr.sidOK && rr.sigOK && p.isVictim(int(rr.r.Index)) && p.vjust[int(rr.r.Index)] == vjInvalid {
				// the generator refuses to emit the justification of its invalid deal: the faulty dealer builds it by hand
				pd, _ := p.gen.VerifDealer().PlaintextDeal(int(rr.r.Index))
				vj := &rvss.Justification{SessionID: p.gen.VerifDealer().SessionID(), Index: rr.r.Index, Deal: pd}
				vj.Signature, _ = schnorr.Sign(suite, p.priv, vj.Hash(suite))
				justBoard = append(justBoard, rjust{dealer: k, j: &rdkg.Justification{Index: uint32(k), Justification: vj}, valid: false})
			}
		}
	}
	// ---- justifications
	for _, k := range permutation(rng, n) {
		p := sc.ps[k]
		for _, i := range permutation(rng, len(justBoard)) {
			jj := justBoard[i]
			if jj.dealer == k {
				continue
			}
			err := p.gen.ProcessJustification(jj.j)
			sc.logf(p, "(RJust %d %d %s %s)", jj.dealer, jj.j.Justification.Index, cb(jj.valid), cb(err != nil))
		}
	}
	// ---- time-out, QUAL
	for _, p := range sc.ps {
		p.gen.SetTimeout()
		q := p.gen.QUAL()
		for _, x := range q {
			p.qual = append(p.qual, int(x))
		}
		sort.Ints(p.qual)
		var qs []string
		for _, x := range p.qual {
			qs = append(qs, fmt.Sprint(x))
		}
		sc.logf(p, "RTimeout")
		sc.logf(p, "(RQual %s)", vh.CoqList(qs))
	}
	// ---- secret commitments
	var scBoard []*rdkg.SecretCommits
	for _, p := range sc.ps {
		scm, err := p.gen.SecretCommits()
		if err != nil {
			sc.logf(p, "(RSecCommits None)")
			continue
		}
		sc.logf(p, "(RSecCommits (Some %s))", sc.coqPoints(scm.Commitments))
		p.trueC0 = scm.Commitments[0]
		if p.fault == rbBadCommits {
			x := &rdkg.SecretCommits{Index: scm.Index, SessionID: scm.SessionID}
			x.Commitments = append([]kyber.Point{}, scm.Commitments...)
			k := rng.Intn(len(x.Commitments))
			x.Commitments[k] = e.suite.Point().Add(x.Commitments[k], e.suite.Point().Base())
			x.Signature, _ = schnorr.Sign(suite, p.priv, x.Hash(suite))
			scm = x
		}
		scBoard = append(scBoard, scm)
	}
	var ccBoard []*rdkg.ComplaintCommits
	for _, k := range permutation(rng, n) {
		p := sc.ps[k]
		for _, i := range permutation(rng, len(scBoard)) {
			scm := scBoard[i]
			if int(scm.Index) == k {
				continue
			}
			cc, err := p.gen.ProcessSecretCommits(scm)
			sc.logf(p, "(RProcSC %d %s true true %s %s)", scm.Index, sc.coqPoints(scm.Commitments), cb(err != nil), cb(cc != nil))
			if cc != nil {
				ccBoard = append(ccBoard, cc)
				sc.ccUsed = true
			}
		}
	}
	var rcBoard []*rdkg.ReconstructCommits
	for _, k := range permutation(rng, n) {
		p := sc.ps[k]
		for _, i := range permutation(rng, len(ccBoard)) {
			cc := ccBoard[i]
			if int(cc.Index) == k {
				// the complainer reveals its own share as well
			}
			rc, err := p.gen.ProcessComplaintCommits(cc)
			if err == nil && rc != nil {
				rcBoard = append(rcBoard, rc)
			}
		}
	}
	for _, k := range permutation(rng, n) {
		p := sc.ps[k]
		for _, i := range permutation(rng, len(rcBoard)) {
			rc := rcBoard[i]
			if int(rc.Index) == k {
				continue
			}
			_ = p.gen.ProcessReconstructCommits(rc)
		}
	}
	// ---- result
	for _, p := range sc.ps {
		var dks *rdkg.DistKeyShare
		var err error
		panicked, msg := vh.Try(func() { dks, err = p.gen.DistKeyShare() })
		if panicked {
			e.rep.Fail("rabin.DistKeyShare/panic", msg, sc.describe())
			continue
		}
		if err == nil {
			p.dks = dks
		}
		if !sc.ccUsed {
			if err == nil {
				sc.logf(p, "(RFinal (Some (%s, sc %s)))", sc.coqPoints(dks.Commits), sc.coqSc(dks.Share.V))
			} else {
				sc.logf(p, "(RFinal None)")
			}
		}
	}
	return true
}

func (sc *rscen) oracles() {
	e := sc.e
	desc := sc.describe()
	fail := func(key, what string) {
		d := map[string]interface{}{"what": what}
		for k, v := range desc {
			d[k] = v
		}
		e.rep.Fail(key, what, d)
	}
	var honest, done []*rparty
	anyFault := false
	for _, p := range sc.ps {
		if p.fault == rbHonest {
			honest = append(honest, p)
			if p.dks != nil {
				done = append(done, p)
			}
		} else {
			anyFault = true
		}
	}
	for _, p := range honest[1:] {
		if fmt.Sprint(p.qual) != fmt.Sprint(honest[0].qual) {
			fail("rabin/agreement-qual", fmt.Sprintf("honest parties %d and %d hold different QUAL: %v vs %v", honest[0].id, p.id, honest[0].qual, p.qual))
		}
	}
	inQual := func(p *rparty, i int) bool {
		for _, x := range p.qual {
			if x == i {
				return true
			}
		}
		return false
	}
	for _, p := range honest {
		for _, d := range sc.ps {
			if d.fault == rbHonest && !inQual(p, d.id) {
				silent := false
				for _, x := range sc.ps {
					if x.fault == rbSilent || x.fault == rbWrongSid || x.fault == rbForgedSig {
						silent = true
					}
				}
				_ = silent
				fail("rabin/honest-dealer-disqualified", fmt.Sprintf("honest dealer %d is not in QUAL of honest party %d", d.id, p.id))
			}
			if d.unanswered() && inQual(p, d.id) {
				key := rbName[d.fault]
				if len(d.vjust) > 1 {
					key = "several-victims/complaint-left-unanswered"
				}
				fail("rabin/bad-dealer-qualified/"+key, fmt.Sprintf("dealer %d (%s, answers to its victims %v) is in QUAL of honest party %d", d.id, rbName[d.fault], d.vjust, p.id))
			}
		}
	}
	if !anyFault {
		for _, p := range sc.ps {
			if p.dks == nil {
				fail("rabin/all-honest-completes", fmt.Sprintf("party %d did not complete although everybody is honest", p.id))
			}
		}
	}
	e.rep.Dist(fmt.Sprintf("rabin:%s completed=%d/%d", e.name, len(done), len(honest)))
	if len(done) == 0 {
		return
	}
	ref := done[0]
	for _, p := range done[1:] {
		if !pointsEqual(p.dks.Commits, ref.dks.Commits) {
			fail("rabin/agreement-commits", fmt.Sprintf("honest parties %d and %d output different commitment polynomials", ref.id, p.id))
		}
	}
	pub := share.NewPubPoly(e.suite, e.suite.Point().Base(), ref.dks.Commits)
	for _, p := range done {
		if p.dks.Share.I != uint32(p.id) || !share.NewPubPoly(e.suite, e.suite.Point().Base(), p.dks.Commits).Check(p.dks.Share) {
			fail("rabin/share-on-polynomial", fmt.Sprintf("party %d: output share does not lie on its output polynomial", p.id))
		}
	}
	if len(done) >= sc.t {
		subsets(len(done), sc.t, func(ix []int) {
			var shs []*share.PriShare
			for _, i := range ix {
				shs = append(shs, done[i].dks.Share)
			}
			sec, err := share.RecoverSecret(e.suite, shs, uint32(sc.t), uint32(sc.n))
			if err != nil || !e.suite.Point().Mul(sec, nil).Equal(pub.Commit()) {
				fail("rabin/t-shares-recover-key", fmt.Sprintf("shares of parties %v do not reconstruct the secret of the public key (err %v)", ix, err))
			}
		})
	}
	sum := e.suite.Point().Null()
	ok := true
	for _, i := range ref.qual {
		if sc.ps[i].trueC0 == nil {
			ok = false
			break
		}
		sum = e.suite.Point().Add(sum, sc.ps[i].trueC0)
	}
	if ok && !sum.Equal(ref.dks.Commits[0]) {
		fail("rabin/key-is-sum-of-qual", "public key differs from the sum of the qualified dealers' secret commitments")
	}
}

func rabinBatch(envD, envE *env, o vh.Opts, cases *[]string, caseID *int) {
	var fix func(sc *rscen)
	run := func(e *env, n, t int, faults []int) {
		sc := e.rabinScen(n, t, faults)
		if fix != nil {
			fix(sc)
		}
		if !sc.run() {
			return
		}
		sc.oracles()
		nf := 0
		for _, p := range sc.ps {
			if p.fault != rbHonest {
				nf++
				e.rep.Dist("rabin fault:" + rbName[p.fault])
			}
		}
		e.rep.Dist(fmt.Sprintf("%s:rabin n=%d t=%d faulty=%d", e.name, n, t, nf))
		if e.dlog && !o.Search {
			for _, p := range sc.ps {
				id := *caseID
				*caseID++
				*cases = append(*cases, fmt.Sprintf("(CRabin %d %d %d %d %s)", id, n, t, p.id, vh.CoqList(p.calls)))
				d := sc.describe()
				d["party"] = p.id
				e.rep.Index(id, d)
				e.rep.Count(fmt.Sprint(d, len(p.calls), p.qual), nf > 0)
			}
		} else {
			e.rep.Count(fmt.Sprint(sc.describe(), e.rng.U64()), nf > 0)
		}
		e.rep.Sample(sc.describe())
	}
	// one faulty dealer whose victims are the first len(answers) honest parties in a random order
	runMulti := func(e *env, n, t int, answers []int) {
		fix = func(sc *rscen) {
			var honest []int
			for _, p := range sc.ps {
				if p.fault == rbHonest {
					honest = append(honest, p.id)
				}
			}
			hp := permutation(e.rng, len(honest))
			for _, p := range sc.ps {
				if p.fault == rbBadDealsMulti {
					vj := map[int]int{}
					for k, a := range answers {
						if k < len(hp) {
							vj[honest[hp[k]]] = a
						}
					}
					p.setVictims(vj)
				}
			}
		}
		run(e, n, t, []int{rbBadDealsMulti})
		fix = nil
	}
	maxN, cnt := 5, 40
	if o.Thorough {
		maxN, cnt = 7, 400
	}
	if o.Search {
		cnt *= 3
	}
	for _, e := range []*env{envD, envE} {
		c := cnt
		if !e.dlog {
			c = cnt / 4
		}
		// all honest, and every single fault
		for n := 3; n <= 4; n++ {
			for _, t := range thresholds(n) {
				run(e, n, t, nil)
				if n-t >= 1 {
					for f := 1; f < rbNumFaults; f++ {
						run(e, n, t, []int{f})
					}
				}
			}
		}
		// one dealer, two honest victims, every pair of answers (n=5, t=3: the dealer keeps t approvals), and
		// three victims with mixed answers for n=6
		for a := 0; a < 3; a++ {
			for b := 0; b < 3; b++ {
				runMulti(e, 5, 3, []int{a, b})
			}
		}
		runMulti(e, 6, 4, []int{vjValid, vjNone})
		runMulti(e, 6, 4, []int{vjValid, vjValid})
		if o.Thorough {
			for a := 0; a < 3; a++ {
				for b := 0; b < 3; b++ {
					runMulti(e, 7, 4, []int{a, b, (a + b) % 3})
				}
			}
		}
		for i := 0; i < c; i++ {
			n := 3 + e.rng.Intn(maxN-2)
			ts := thresholds(n)
			t := ts[e.rng.Intn(len(ts))]
			var fs []int
			for k := 0; k < n-t; k++ {
				if e.rng.Chance(75) {
					fs = append(fs, 1+e.rng.Intn(rbNumFaults-1))
				}
			}
			run(e, n, t, fs)
		}
	}
}
