// Correspondence + oracle harness for property C11 (DKG agreement: Pedersen
// fresh / resharing / fast-sync, Rabin).
//
// Real DistKeyGenerators of share/dkg/pedersen and share/dkg/rabin are driven
// over a deterministic broadcast board.  Faulty parties run a real generator
// too (to obtain well-formed base messages) and the harness mutates what they
// put on the board according to a fault script.  Every party receives the board
// of each phase in its own order with its own duplications, through the real
// packet store of the Protocol driver (signature check + set.Push).
//
//   - correspondence: over vh.DlogGroup every scalar and every point is known
//     exactly; each call made on each generator is written, with its abstracted
//     inputs and observed outputs, as a case of DKG/DKGRun.v.
//   - oracles: the clauses of the property evaluated on the implementation
//     (DlogGroup and Ed25519).
//
// Timers and channel scheduling of protocol.go are not modelled: a phase ends
// when the harness says so (as a Phaser would).
package main

import (
	"bytes"
	"crypto/sha256"
	"fmt"
	"math/big"
	"sort"
	"strings"

	"go.dedis.ch/kyber/v4"
	"go.dedis.ch/kyber/v4/encrypt/ecies"
	"go.dedis.ch/kyber/v4/group/edwards25519"
	"go.dedis.ch/kyber/v4/share"
	dkg "go.dedis.ch/kyber/v4/share/dkg/pedersen"
	"go.dedis.ch/kyber/v4/sign"
	"go.dedis.ch/kyber/v4/sign/schnorr"

	"kyverif/vh"
)

// ------------------------------------------------------------------ suites

type Suite interface {
	dkg.Suite
}

type env struct {
	suite Suite
	dlog  bool // exact values available (vh.DlogGroup): emit model cases
	name  string
	auth  sign.Scheme
	rng   *vh.Rng
	rep   *vh.Report
	// forceIdx, when set, gives the node indices of the next fresh scenario (instead of a random sorted list)
	forceIdx []int
	// forceOrder, when non-zero, gives the order in which the next scenario lists its nodes in Config.OldNodes /
	// Config.NewNodes: 1 increasing index, 2 decreasing index, 3 shuffled (0: drawn at random)
	forceOrder int
}

func (e *env) scalar(v int64) kyber.Scalar { return e.suite.Scalar().SetInt64(v) }
func (e *env) randScalar() kyber.Scalar {
	// 16 random bytes reduced into the scalar field (deterministic from the harness PRNG)
	b := e.rng.Bytes(16)
	s := e.suite.Scalar().SetInt64(0)
	for _, x := range b {
		s = s.Mul(s, e.scalar(256))
		s = s.Add(s, e.scalar(int64(x)))
	}
	return s
}

func coqScalar(s kyber.Scalar) string { return vh.CoqZ(vh.ScalarVal(s)) }
func coqPoint(p kyber.Point) string   { return vh.CoqZ(vh.Dlog(p)) }

// ------------------------------------------------------------------ fault menu

const (
	dHonest = iota
	dAbsent
	dBadShare    // invalid share to an honest victim
	dMisdirected // victim's share encrypted for somebody else
	dBadIndex    // a deal for a share index outside the new group
	dWrongThr    // public polynomial of the wrong length
	dWrongSid    // wrong session identifier
	dDuplicate   // the same bundle twice
	dConflict    // two different bundles
	dForgedSig   // invalid signature
	dBadPublic   // public polynomial unrelated to the shares
	dBadIndexAt  // a deal for a share index outside the new group which falls into a gap of the index list: Pos valid deals precede it
	dNumFaults
)

var dName = []string{"honest", "absent", "bad-share", "misdirected-share", "bad-share-index", "wrong-threshold",
	"wrong-session-id", "duplicate-bundle", "conflicting-bundles", "forged-signature", "unrelated-public-poly", "bad-share-index-at-position"}

const (
	rHonest = iota
	rAbsent
	rFalseComplaint // complaint against an honest dealer
	rWrongSid
	rBadDealerIndex
	rSuccessStatus // success response outside fast-sync / status 2 in fast-sync
	rDuplicate
	rConflict
	rForgedSig
	rOddStatus   // status value 2 about an honest dealer
	rComplainAll // complaints about every dealer (each of them has to justify)
	rNumFaults
)

var rName = []string{"honest", "absent", "false-complaint", "wrong-session-id", "bad-dealer-index", "success-status",
	"duplicate-bundle", "conflicting-bundles", "forged-signature", "odd-status", "complains-about-every-dealer"}

const (
	jHonest = iota
	jMissing
	jBadShare
	jWrongSid
	jDuplicate
	jConflict
	jBadIndex
	jForgedSig
	jPartialOmit // one of the complaints is left out of the bundle, the others are answered validly
	jPartialBad  // one of the complaints is answered with an invalid share, the others validly
	jNumFaults
)

var jName = []string{"honest", "missing", "invalid-share", "wrong-session-id", "duplicate-bundle", "conflicting-bundles",
	"bad-share-index", "forged-signature", "one-complaint-left-out", "one-complaint-answered-invalidly"}

type fault struct {
	Deal, Resp, Just int
	Victim           int  // party id of the (honest) holder receiving the bad deal
	Victim2          int  // a second (honest) holder receiving a bad deal from the same dealer (-1: none)
	Target           int  // party id of the (honest) dealer falsely accused
	Pos              int  // dBadIndexAt: number of valid deals listed before the out-of-range one (DealBundle.Hash sorts by share index)
	BadIdx           int  // dBadIndexAt: the out-of-range share index used (set when the bundle is made)
	Unsol            bool // the dealer broadcasts a justification bundle (with fault Just) even when none is due:
	// it behaves as its Deal / Resp say until the justification phase and then speaks up unasked
}

// ------------------------------------------------------------------ parties, scenario

type party struct {
	id         int
	priv       kyber.Scalar
	pub        kyber.Point
	oidx, nidx int // -1 when not in the group
	faulty     bool
	f          fault
	conf       *dkg.Config
	gen        *dkg.DistKeyGenerator
	prev       *dkg.DistKeyShare
	res        *dkg.Result
	ended      bool // the driver stopped (result or error)
	errPhase   string
	calls      []string // model script
}

type scen struct {
	e          *env
	kind       string
	fast       bool
	nOld, tOld int
	nNew, tNew int
	reshare    bool
	parties    []*party
	oldNodes   []dkg.Node
	newNodes   []dkg.Node
	nonce      []byte
	oldCommits []kyber.Point
	oldSecret  kyber.Scalar
	dealPub    map[int][]kyber.Point // party id -> public polynomial it broadcast (unique valid bundle)
	viaDriver  bool                  // run through dkg.Protocol instances (driver.go) instead of direct calls
	orderOld   int                   // order of Config.OldNodes / NewNodes (orderName)
	orderNew   int
}

func (sc *scen) byNidx(i uint32) *party {
	for _, p := range sc.parties {
		if p.nidx >= 0 && uint32(p.nidx) == i {
			return p
		}
	}
	return nil
}
func (sc *scen) byOidx(i uint32) *party {
	for _, p := range sc.parties {
		if p.oidx >= 0 && uint32(p.oidx) == i {
			return p
		}
	}
	return nil
}

func (sc *scen) describe() map[string]interface{} {
	var fs []string
	for _, p := range sc.parties {
		if p.faulty {
			dn := dName[p.f.Deal]
			if p.f.Deal == dBadIndexAt {
				dn += fmt.Sprintf("(share index %d, sorted after %d valid deals)", p.f.BadIdx, p.f.Pos)
			}
			jn := jName[p.f.Just]
			if p.f.Unsol {
				jn += "(bundle broadcast even if no justification is due)"
			}
			vs := fmt.Sprint(p.f.Victim)
			if p.f.Victim2 >= 0 {
				vs += fmt.Sprintf("+%d", p.f.Victim2)
			}
			fs = append(fs, fmt.Sprintf("party%d(old=%d,new=%d): deal=%s victim=%s resp=%s target=%d just=%s", p.id, p.oidx, p.nidx,
				dn, vs, rName[p.f.Resp], p.f.Target, jn))
		}
	}
	var oi, ni []int
	for _, n := range sc.oldNodes {
		oi = append(oi, int(n.Index))
	}
	for _, n := range sc.newNodes {
		ni = append(ni, int(n.Index))
	}
	m := map[string]interface{}{"suite": sc.e.name, "kind": sc.kind, "fast_sync": sc.fast, "n_old": sc.nOld, "t_old": sc.tOld,
		"n_new": sc.nNew, "t_new": sc.tNew, "old_indices": oi, "new_indices": ni, "faults": fs}
	m["old_nodes_listed"], m["new_nodes_listed"] = orderName[sc.orderOld], orderName[sc.orderNew]
	if sc.viaDriver {
		m["run_through"] = "dkg.Protocol instances over a scripted board and phaser (every packet reaches every node before the phase ends; per-node orders and duplicates from the seed)"
	}
	return m
}

func indices(rng *vh.Rng, n int) []int {
	// sorted, possibly with gaps
	out := make([]int, n)
	cur := 0
	gaps := rng.Chance(30)
	far := gaps && rng.Chance(30) // one index far away from the others (0,53,2,3,4 once the list is shuffled)
	for i := range out {
		if gaps {
			cur += rng.Intn(3)
		}
		out[i] = cur
		cur++
	}
	if far {
		k := rng.Intn(n)
		d := 40 + rng.Intn(20)
		for i := k; i < n; i++ {
			out[i] += d
		}
	}
	return out
}

// reorder lists the nodes in increasing, decreasing or shuffled index order
// (Config.OldNodes / NewNodes are plain lists: nothing obliges the caller to sort them).
func reorder(rng *vh.Rng, l []dkg.Node, order int) []dkg.Node {
	out := append([]dkg.Node{}, l...)
	sort.SliceStable(out, func(a, b int) bool { return out[a].Index < out[b].Index })
	switch order {
	case 2:
		for i, j := 0, len(out)-1; i < j; i, j = i+1, j-1 {
			out[i], out[j] = out[j], out[i]
		}
	case 3:
		p := permutation(rng, len(out))
		sh := make([]dkg.Node, len(out))
		for i, k := range p {
			sh[i] = out[k]
		}
		out = sh
	}
	return out
}

var orderName = []string{"", "increasing", "decreasing", "shuffled"}

func thresholds(n int) []int {
	var ts []int
	for t := n/2 + 1; t <= n; t++ {
		ts = append(ts, t)
	}
	return ts
}

// newScen builds the groups, keys, previous shares (resharing) and the generators.
func newScen(e *env, kind string, fast bool, nOld, tOld, nNew, tNew int) *scen {
	sc := &scen{e: e, kind: kind, fast: fast, nOld: nOld, tOld: tOld, nNew: nNew, tNew: tNew, reshare: kind != "fresh",
		dealPub: map[int][]kyber.Point{}}
	rng := e.rng
	sc.nonce = rng.Bytes(dkg.NonceLength)
	mk := func() *party {
		p := &party{id: len(sc.parties), priv: e.randScalar(), oidx: -1, nidx: -1}
		p.pub = e.suite.Point().Mul(p.priv, nil)
		sc.parties = append(sc.parties, p)
		return p
	}
	if !sc.reshare {
		idx := indices(rng, nNew)
		if len(e.forceIdx) == nNew {
			idx = e.forceIdx
		}
		for i := 0; i < nNew; i++ {
			p := mk()
			p.oidx, p.nidx = idx[i], idx[i]
			sc.newNodes = append(sc.newNodes, dkg.Node{Index: uint32(idx[i]), Public: p.pub})
		}
		sc.oldNodes = sc.newNodes
		sc.nOld, sc.tOld = nNew, tNew
	} else {
		oi := indices(rng, nOld)
		for i := 0; i < nOld; i++ {
			p := mk()
			p.oidx = oi[i]
			sc.oldNodes = append(sc.oldNodes, dkg.Node{Index: uint32(oi[i]), Public: p.pub})
		}
		// the previous distributed key: a random polynomial of degree tOld-1
		coeffs := make([]kyber.Scalar, tOld)
		for i := range coeffs {
			coeffs[i] = e.randScalar()
		}
		pri := share.CoefficientsToPriPoly(e.suite, coeffs)
		_, sc.oldCommits = pri.Commit(e.suite.Point().Base()).Info()
		sc.oldSecret = coeffs[0]
		for _, p := range sc.parties {
			p.prev = &dkg.DistKeyShare{Commits: sc.oldCommits, Share: pri.Eval(uint32(p.oidx))}
		}
		// members of the new group
		var members []*party
		old := append([]*party{}, sc.parties...)
		switch kind {
		case "overlap":
			keep := 1 + rng.Intn(nOld-1)
			if keep > nNew-1 {
				keep = nNew - 1
			}
			perm := permutation(rng, nOld)
			var kept []int
			for _, k := range perm[:keep] {
				kept = append(kept, k)
			}
			sort.Ints(kept)
			for _, k := range kept {
				members = append(members, old[k])
			}
			for len(members) < nNew {
				members = append(members, mk())
			}
		case "disjoint":
			for len(members) < nNew {
				members = append(members, mk())
			}
		case "grow":
			members = append(members, old...)
			for len(members) < nNew {
				members = append(members, mk())
			}
		case "shrink":
			perm := permutation(rng, nOld)
			kept := append([]int{}, perm[:nNew]...)
			sort.Ints(kept)
			for _, k := range kept {
				members = append(members, old[k])
			}
		}
		if rng.Chance(30) {
			// newcomers first: the new index of a kept member differs from its old one
			sort.SliceStable(members, func(a, b int) bool { return members[a].oidx < 0 && members[b].oidx >= 0 })
		}
		ni := indices(rng, len(members))
		for i, p := range members {
			p.nidx = ni[i]
			sc.newNodes = append(sc.newNodes, dkg.Node{Index: uint32(ni[i]), Public: p.pub})
		}
	}
	// order of the node lists
	pick := func() int {
		if e.forceOrder != 0 {
			return e.forceOrder
		}
		switch r := rng.Intn(100); {
		case r < 50:
			return 1
		case r < 65:
			return 2
		}
		return 3
	}
	if !sc.reshare {
		sc.orderNew = pick()
		sc.orderOld = sc.orderNew
		sc.newNodes = reorder(rng, sc.newNodes, sc.orderNew)
		sc.oldNodes = sc.newNodes
	} else {
		sc.orderOld, sc.orderNew = pick(), pick()
		sc.oldNodes = reorder(rng, sc.oldNodes, sc.orderOld)
		sc.newNodes = reorder(rng, sc.newNodes, sc.orderNew)
	}
	return sc
}

func permutation(rng *vh.Rng, n int) []int {
	p := make([]int, n)
	for i := range p {
		p[i] = i
	}
	for i := n - 1; i > 0; i-- {
		j := rng.Intn(i + 1)
		p[i], p[j] = p[j], p[i]
	}
	return p
}

func (sc *scen) honestOld() []*party {
	var r []*party
	for _, p := range sc.parties {
		if p.oidx >= 0 && !p.faulty {
			r = append(r, p)
		}
	}
	return r
}
func (sc *scen) honestNew() []*party {
	var r []*party
	for _, p := range sc.parties {
		if p.nidx >= 0 && !p.faulty {
			r = append(r, p)
		}
	}
	return r
}

// assignFaults marks up to nOld-tOld dealers and up to nNew-tNew holders faulty.
// pick(i) gives the behaviour triple of the i-th faulty party.
func (sc *scen) assignFaults(count int, pick func(i int) (int, int, int)) {
	rng := sc.e.rng
	perm := permutation(rng, len(sc.parties))
	fo, fn := 0, 0
	k := 0
	for _, pi := range perm {
		if k >= count {
			break
		}
		p := sc.parties[pi]
		no, nn := fo, fn
		if p.oidx >= 0 {
			no++
		}
		if p.nidx >= 0 {
			nn++
		}
		if no > sc.nOld-sc.tOld || nn > sc.nNew-sc.tNew {
			continue
		}
		fo, fn = no, nn
		p.faulty = true
		k++
	}
	i := 0
	for _, p := range sc.parties {
		if !p.faulty {
			continue
		}
		d, r, j := pick(i)
		i++
		p.f = fault{Deal: d, Resp: r, Just: j, Victim: -1, Victim2: -1, Target: -1}
		p.f.Pos = rng.Intn(sc.nNew + 1)
		p.f.Unsol = rng.Chance(50)
		if hn := sc.honestNew(); len(hn) > 0 {
			k := rng.Intn(len(hn))
			p.f.Victim = hn[k].id
			if len(hn) > 1 && rng.Chance(50) {
				p.f.Victim2 = hn[(k+1+rng.Intn(len(hn)-1))%len(hn)].id
			}
		}
		if ho := sc.honestOld(); len(ho) > 0 {
			p.f.Target = ho[rng.Intn(len(ho))].id
		}
		if p.oidx < 0 {
			p.f.Deal, p.f.Just, p.f.Unsol = dHonest, jHonest, false
		}
		if p.nidx < 0 {
			p.f.Resp = rHonest
		}
	}
}

func (sc *scen) setup() error {
	e := sc.e
	for _, p := range sc.parties {
		c := &dkg.Config{Suite: e.suite, Longterm: p.priv, NewNodes: sc.newNodes, Threshold: uint32(sc.tNew),
			FastSync: sc.fast, Nonce: sc.nonce, Auth: e.auth}
		if sc.reshare {
			c.OldNodes = sc.oldNodes
			c.OldThreshold = uint32(sc.tOld)
			if p.oidx >= 0 {
				c.Share = p.prev
			} else {
				c.PublicCoeffs = sc.oldCommits
			}
		}
		g, err := dkg.NewDistKeyHandler(c)
		if err != nil {
			return fmt.Errorf("NewDistKeyHandler party %d: %w", p.id, err)
		}
		p.conf, p.gen = c, g
	}
	return nil
}

// ------------------------------------------------------------------ signing, copying, mutation

func (sc *scen) signPacket(p *party, pk dkg.Packet) []byte {
	h, err := pk.Hash()
	if err != nil {
		panic(err)
	}
	s, err := sc.e.auth.Sign(p.priv, h)
	if err != nil {
		panic(err)
	}
	return s
}

func copyDeal(b *dkg.DealBundle) *dkg.DealBundle {
	c := &dkg.DealBundle{DealerIndex: b.DealerIndex, SessionID: append([]byte{}, b.SessionID...), Signature: append([]byte{}, b.Signature...)}
	c.Public = append([]kyber.Point{}, b.Public...)
	for _, d := range b.Deals {
		c.Deals = append(c.Deals, dkg.Deal{ShareIndex: d.ShareIndex, EncryptedShare: append([]byte{}, d.EncryptedShare...)})
	}
	return c
}
func copyResp(b *dkg.ResponseBundle) *dkg.ResponseBundle {
	c := &dkg.ResponseBundle{ShareIndex: b.ShareIndex, SessionID: append([]byte{}, b.SessionID...), Signature: append([]byte{}, b.Signature...)}
	c.Responses = append([]dkg.Response{}, b.Responses...)
	return c
}
func copyJust(b *dkg.JustificationBundle) *dkg.JustificationBundle {
	c := &dkg.JustificationBundle{DealerIndex: b.DealerIndex, SessionID: append([]byte{}, b.SessionID...), Signature: append([]byte{}, b.Signature...)}
	for _, j := range b.Justifications {
		c.Justifications = append(c.Justifications, dkg.Justification{ShareIndex: j.ShareIndex, Share: j.Share.Clone()})
	}
	return c
}

func flip(b []byte) []byte {
	c := append([]byte{}, b...)
	if len(c) > 0 {
		c[0] ^= 0x55
	}
	return c
}

func (sc *scen) encryptFor(pub kyber.Point, s kyber.Scalar) []byte {
	msg, _ := s.MarshalBinary()
	c, err := ecies.Encrypt(sc.e.suite, pub, msg, sha256.New)
	if err != nil {
		panic(err)
	}
	return c
}

// the share the dealer's real polynomial assigns to new index i
func (sc *scen) trueShare(p *party, i uint32) kyber.Scalar {
	return share.CoefficientsToPriPoly(sc.e.suite, p.gen.VerifPriCoeffs()).Eval(i).V
}

func rng2(sc *scen) bool { return sc.e.rng.Bool() }

func (sc *scen) spoilDealFor(b *dkg.DealBundle, p *party, victim *party, misdirect bool) {
	if victim == nil {
		return
	}
	for k := range b.Deals {
		if b.Deals[k].ShareIndex == uint32(victim.nidx) {
			var s kyber.Scalar
			if p.gen != nil {
				s = sc.trueShare(p, uint32(victim.nidx))
			} else {
				s = sc.e.randScalar() // driver runs: the dealer's polynomial is inside the Protocol
			}
			if misdirect {
				b.Deals[k].EncryptedShare = sc.encryptFor(p.pub, s) // only the dealer itself could open it
			} else {
				b.Deals[k].EncryptedShare = sc.encryptFor(victim.pub, sc.e.suite.Scalar().Add(s, sc.e.scalar(1)))
			}
		}
	}
}

func (sc *scen) mutateDeals(p *party, base *dkg.DealBundle) []*dkg.DealBundle {
	if !p.faulty || p.f.Deal == dHonest {
		if base == nil {
			return nil
		}
		return []*dkg.DealBundle{base}
	}
	if base == nil {
		return nil
	}
	var victim, victim2 *party
	if p.f.Victim >= 0 {
		victim = sc.parties[p.f.Victim]
	}
	if p.f.Victim2 >= 0 {
		victim2 = sc.parties[p.f.Victim2]
	}
	b := copyDeal(base)
	out := []*dkg.DealBundle{b}
	switch p.f.Deal {
	case dAbsent:
		return nil
	case dBadShare:
		sc.spoilDealFor(b, p, victim, false)
		sc.spoilDealFor(b, p, victim2, false)
	case dMisdirected:
		sc.spoilDealFor(b, p, victim, true)
		sc.spoilDealFor(b, p, victim2, rng2(sc))
	case dBadIndex:
		b.Deals = append(b.Deals, dkg.Deal{ShareIndex: 1000 + uint32(sc.e.rng.Intn(5)), EncryptedShare: sc.e.rng.Bytes(40)})
	case dBadIndexAt:
		// DealBundle.Hash (signing, and signature verification at every receiver) sorts the deals by share
		// index, so the place of the out-of-range deal is decided by its value: an index missing from the
		// node list that lies between the indices of two holders (or below / above all of them)
		v, pos := sc.bogusIndexAt(b.Deals, p.f.Pos)
		p.f.Pos, p.f.BadIdx = pos, int(v)
		bad := dkg.Deal{ShareIndex: v, EncryptedShare: sc.e.rng.Bytes(40)}
		ds := append([]dkg.Deal{}, b.Deals[:pos]...)
		ds = append(ds, bad)
		b.Deals = append(ds, b.Deals[pos:]...)
	case dWrongThr:
		if sc.e.rng.Bool() && len(b.Public) > 1 {
			b.Public = b.Public[:len(b.Public)-1]
		} else {
			b.Public = append(b.Public, sc.e.suite.Point().Mul(sc.e.randScalar(), nil))
		}
	case dWrongSid:
		b.SessionID = flip(b.SessionID)
	case dDuplicate:
		out = append(out, copyDeal(b))
	case dConflict:
		b2 := copyDeal(base)
		sc.spoilDealFor(b2, p, victim, false)
		out = append(out, b2)
	case dForgedSig:
	case dBadPublic:
		for k := range b.Public {
			b.Public[k] = sc.e.suite.Point().Mul(sc.e.randScalar(), nil)
		}
	}
	for _, x := range out {
		x.Signature = sc.signPacket(p, x)
		if p.f.Deal == dForgedSig {
			x.Signature = flip(x.Signature)
		}
	}
	return out
}

func (sc *scen) mutateResps(p *party, base *dkg.ResponseBundle) []*dkg.ResponseBundle {
	if !p.faulty || p.f.Resp == rHonest {
		if base == nil {
			return nil
		}
		return []*dkg.ResponseBundle{base}
	}
	var b *dkg.ResponseBundle
	if base != nil {
		b = copyResp(base)
	} else {
		b = &dkg.ResponseBundle{ShareIndex: uint32(p.nidx), SessionID: append([]byte{}, sc.nonce...)}
	}
	var target uint32
	hasTarget := p.f.Target >= 0
	if hasTarget {
		target = uint32(sc.parties[p.f.Target].oidx)
	}
	accuse := func(x *dkg.ResponseBundle, st dkg.Status) {
		if !hasTarget {
			return
		}
		for k := range x.Responses {
			if x.Responses[k].DealerIndex == target {
				x.Responses[k].Status = st
				return
			}
		}
		x.Responses = append(x.Responses, dkg.Response{DealerIndex: target, Status: st})
	}
	out := []*dkg.ResponseBundle{b}
	switch p.f.Resp {
	case rAbsent:
		return nil
	case rFalseComplaint:
		accuse(b, dkg.Complaint)
	case rWrongSid:
		accuse(b, dkg.Complaint)
		b.SessionID = flip(b.SessionID)
	case rBadDealerIndex:
		b.Responses = append(b.Responses, dkg.Response{DealerIndex: 2000 + uint32(sc.e.rng.Intn(3)), Status: dkg.Complaint})
	case rSuccessStatus:
		if sc.fast {
			accuse(b, dkg.Status(2))
		} else {
			accuse(b, dkg.Success)
		}
	case rDuplicate:
		accuse(b, dkg.Complaint)
		out = append(out, copyResp(b))
	case rConflict:
		b2 := copyResp(b)
		accuse(b2, dkg.Complaint)
		if len(b.Responses) == len(b2.Responses) && len(b.Responses) > 0 {
			// make them differ for sure
			b.Responses = b.Responses[:len(b.Responses)-1]
		}
		out = append(out, b2)
	case rForgedSig:
		accuse(b, dkg.Complaint)
	case rOddStatus:
		accuse(b, dkg.Status(2))
	case rComplainAll:
		b.Responses = nil
		for _, o := range sc.oldNodes {
			b.Responses = append(b.Responses, dkg.Response{DealerIndex: o.Index, Status: dkg.Complaint})
		}
	}
	var res []*dkg.ResponseBundle
	for _, x := range out {
		if len(x.Responses) == 0 && base == nil {
			continue
		}
		x.Signature = sc.signPacket(p, x)
		if p.f.Resp == rForgedSig {
			x.Signature = flip(x.Signature)
		}
		res = append(res, x)
	}
	return res
}

func isIncluded(l []dkg.Node, i uint32) bool {
	for _, n := range l {
		if n.Index == i {
			return true
		}
	}
	return false
}

// bogusIndexAt picks a share index outside the new group that sorts after exactly
// `want` of the given (valid) deals; when the index list has no gap there, the
// nearest place that has one (above all indices there always is).
func (sc *scen) bogusIndexAt(deals []dkg.Deal, want int) (uint32, int) {
	var s []int
	for _, d := range deals {
		s = append(s, int(d.ShareIndex))
	}
	sort.Ints(s)
	if want < 0 || want > len(s) {
		want = len(s)
	}
	at := func(k int) (uint32, bool) {
		lo, hi := -1, 1<<31
		if k > 0 {
			lo = s[k-1]
		}
		if k < len(s) {
			hi = s[k]
		} else {
			lo += 90 + sc.e.rng.Intn(5) // far above, as a careless or malicious dealer would write it
		}
		for v := lo + 1; v < hi && v < lo+2000; v++ {
			if !isIncluded(sc.newNodes, uint32(v)) {
				return uint32(v), true
			}
		}
		return 0, false
	}
	for dist := 0; dist <= len(s); dist++ {
		for _, k := range []int{want - dist, want + dist} {
			if k < 0 || k > len(s) {
				continue
			}
			if v, ok := at(k); ok {
				return v, k
			}
		}
	}
	panic("no share index outside the group")
}

// unsolicitedJust: the well-formed justification bundle a dealer could send
// although nobody complained (a true share for one holder); the fault Just is
// then applied to it.
func (sc *scen) unsolicitedJust(p *party) *dkg.JustificationBundle {
	if p.oidx < 0 || p.gen == nil || len(p.gen.VerifPriCoeffs()) == 0 {
		return nil
	}
	var h *party
	if p.f.Victim >= 0 && sc.parties[p.f.Victim].nidx >= 0 {
		h = sc.parties[p.f.Victim]
	}
	if h == nil {
		for _, x := range sc.parties {
			if x.nidx >= 0 && x.id != p.id {
				h = x
				break
			}
		}
	}
	if h == nil {
		return nil
	}
	return &dkg.JustificationBundle{DealerIndex: uint32(p.oidx), SessionID: append([]byte{}, sc.nonce...),
		Justifications: []dkg.Justification{{ShareIndex: uint32(h.nidx), Share: sc.trueShare(p, uint32(h.nidx))}}}
}

func (sc *scen) mutateJusts(p *party, base *dkg.JustificationBundle) []*dkg.JustificationBundle {
	if base == nil && p.faulty && p.f.Unsol {
		base = sc.unsolicitedJust(p)
	}
	if base == nil {
		return nil
	}
	if !p.faulty || p.f.Just == jHonest {
		return []*dkg.JustificationBundle{base}
	}
	b := copyJust(base)
	out := []*dkg.JustificationBundle{b}
	spoil := func(x *dkg.JustificationBundle) {
		for k := range x.Justifications {
			x.Justifications[k].Share = sc.e.suite.Scalar().Add(x.Justifications[k].Share, sc.e.scalar(1))
		}
	}
	switch p.f.Just {
	case jMissing:
		return nil
	case jBadShare:
		spoil(b)
	case jWrongSid:
		b.SessionID = flip(b.SessionID)
	case jDuplicate:
		out = append(out, copyJust(b))
	case jConflict:
		b2 := copyJust(b)
		spoil(b2)
		out = append(out, b2)
	case jBadIndex:
		b.Justifications = append(b.Justifications, dkg.Justification{ShareIndex: 3000, Share: sc.e.randScalar()})
	case jForgedSig:
	case jPartialOmit:
		if len(b.Justifications) > 0 {
			k := sc.e.rng.Intn(len(b.Justifications))
			b.Justifications = append(b.Justifications[:k:k], b.Justifications[k+1:]...)
		}
	case jPartialBad:
		if len(b.Justifications) > 0 {
			k := sc.e.rng.Intn(len(b.Justifications))
			b.Justifications[k].Share = sc.e.suite.Scalar().Add(b.Justifications[k].Share, sc.e.scalar(1))
		}
	}
	for _, x := range out {
		x.Signature = sc.signPacket(p, x)
		if p.f.Just == jForgedSig {
			x.Signature = flip(x.Signature)
		}
	}
	return out
}

// ------------------------------------------------------------------ delivery through the real packet store

// deliver hands the packets of one phase to a party in its own order, with its
// own duplications, through signature verification and set.Push.
func deliver[T dkg.Packet](sc *scen, p *party, board []T) *dkg.VerifSet {
	rng := sc.e.rng
	seq := make([]T, 0, 2*len(board))
	seq = append(seq, board...)
	for _, x := range board {
		if rng.Chance(25) {
			seq = append(seq, x)
		}
	}
	for i := len(seq) - 1; i > 0; i-- {
		j := rng.Intn(i + 1)
		seq[i], seq[j] = seq[j], seq[i]
	}
	set := dkg.VerifNewSet()
	for _, x := range seq {
		if err := dkg.VerifyPacketSignature(p.conf, x); err == nil {
			set.Push(x)
		}
	}
	return set
}

// ------------------------------------------------------------------ abstraction of bundles for the model

func (sc *scen) coqNodes(l []dkg.Node) string {
	var it []string
	for _, n := range l {
		id := -1
		for _, p := range sc.parties {
			if p.pub.Equal(n.Public) {
				id = p.id
			}
		}
		it = append(it, fmt.Sprintf("(%d, %d)", n.Index, id))
	}
	return vh.CoqList(it)
}

func (sc *scen) coqDealBundle(b *dkg.DealBundle) string {
	var ds []string
	for _, d := range b.Deals {
		val := "None"
		if h := sc.byNidx(d.ShareIndex); h != nil {
			if buf, err := ecies.Decrypt(sc.e.suite, h.priv, d.EncryptedShare, sha256.New); err == nil {
				s := sc.e.suite.Scalar()
				if err := s.UnmarshalBinary(buf); err == nil {
					val = "(Some " + coqScalar(s) + ")"
				}
			}
		}
		ds = append(ds, fmt.Sprintf("(wdeal %d %s)", d.ShareIndex, val))
	}
	var ps []string
	for _, c := range b.Public {
		ps = append(ps, coqPoint(c))
	}
	return fmt.Sprintf("(wdb %d %s %s %s)", b.DealerIndex, vh.CoqList(ds), vh.CoqList(ps), vh.CoqBool(bytes.Equal(b.SessionID, sc.nonce)))
}

func (sc *scen) coqRespBundle(b *dkg.ResponseBundle) string {
	var rs []string
	for _, r := range b.Responses {
		rs = append(rs, fmt.Sprintf("(%d, %d)", r.DealerIndex, r.Status))
	}
	return fmt.Sprintf("(wrb %d %s %s)", b.ShareIndex, vh.CoqList(rs), vh.CoqBool(bytes.Equal(b.SessionID, sc.nonce)))
}

func (sc *scen) coqJustBundle(b *dkg.JustificationBundle) string {
	var js []string
	for _, j := range b.Justifications {
		js = append(js, fmt.Sprintf("(%d, %s)", j.ShareIndex, coqScalar(j.Share)))
	}
	return fmt.Sprintf("(wjb %d %s %s)", b.DealerIndex, vh.CoqList(js), vh.CoqBool(bytes.Equal(b.SessionID, sc.nonce)))
}

func coqResult(r *dkg.Result) string {
	var q []string
	for _, n := range r.QUAL {
		q = append(q, fmt.Sprint(n.Index))
	}
	var cs []string
	for _, c := range r.Key.Commits {
		cs = append(cs, coqPoint(c))
	}
	return fmt.Sprintf("(wres %s %s %d %s)", vh.CoqList(q), vh.CoqList(cs), r.Key.Share.I, coqScalar(r.Key.Share.V))
}

func uniqSorted(xs []uint32) []string {
	m := map[uint32]bool{}
	for _, x := range xs {
		m[x] = true
	}
	var l []int
	for x := range m {
		l = append(l, int(x))
	}
	sort.Ints(l)
	var s []string
	for _, x := range l {
		s = append(s, fmt.Sprint(x))
	}
	return s
}

func (sc *scen) coqState(p *party) string {
	st := p.gen.VerifState()
	var cells []string
	for _, o := range sc.oldNodes {
		for _, n := range sc.newNodes {
			cells = append(cells, fmt.Sprint(int(st.Statuses[o.Index][n.Index])))
		}
	}
	return fmt.Sprintf("(KState %s %s %s %d)", vh.CoqList(cells), vh.CoqList(uniqSorted(st.Evicted)),
		vh.CoqList(uniqSorted(st.EvictedHolders)), int(st.Phase))
}

func errClass(err error) int {
	if err == nil {
		return 0
	}
	var pe *dkg.PhaseError
	if ok := asPhaseError(err, &pe); ok {
		return 1
	}
	if strings.Contains(err.Error(), dkg.ErrEvicted.Error()) {
		return 2
	}
	return 3
}

func asPhaseError(err error, pe **dkg.PhaseError) bool {
	x, ok := err.(*dkg.PhaseError)
	if ok {
		*pe = x
	}
	return ok
}

func (sc *scen) coqConfig(p *party) string {
	old := "[]"
	if sc.reshare {
		old = sc.coqNodes(sc.oldNodes)
	}
	var priv []string
	for _, c := range p.gen.VerifPriCoeffs() {
		priv = append(priv, coqScalar(c))
	}
	hasShare := sc.reshare && p.oidx >= 0
	var oc []string
	if sc.reshare {
		for _, c := range sc.oldCommits {
			oc = append(oc, coqPoint(c))
		}
	}
	return fmt.Sprintf("(wcfg %s %s %d %d %d %s %s %s %s %s)", old, sc.coqNodes(sc.newNodes), p.id, sc.tNew,
		map[bool]int{true: sc.tOld, false: 0}[sc.reshare], vh.CoqBool(sc.fast), vh.CoqBool(hasShare),
		vh.CoqBool(sc.reshare && !hasShare), vh.CoqList(priv), vh.CoqList(oc))
}

// ------------------------------------------------------------------ running one scenario

type outcome struct {
	completed []*party // parties holding a result
}

func (sc *scen) run() {
	e := sc.e
	emit := e.dlog
	// ---- deal phase
	var dealBoard []*dkg.DealBundle
	for _, p := range sc.parties {
		if p.oidx < 0 {
			continue
		}
		b, err := p.gen.Deals()
		if emit {
			obs := "None"
			if err == nil {
				obs = "(Some " + sc.coqDealBundle(b) + ")"
			}
			p.calls = append(p.calls, "(KDeals "+obs+")", sc.coqState(p))
		}
		if err != nil {
			p.ended, p.errPhase = true, "deals"
			continue
		}
		out := sc.mutateDeals(p, b)
		if (len(out) == 1 || (p.faulty && p.f.Deal == dDuplicate)) && !(p.faulty && p.f.Deal == dForgedSig) {
			sc.dealPub[p.id] = out[0].Public
		}
		dealBoard = append(dealBoard, out...)
	}
	// ---- response phase
	var respBoard []*dkg.ResponseBundle
	for _, p := range sc.parties {
		if p.ended {
			continue
		}
		list := deliver(sc, p, dealBoard).ToDeals()
		var r *dkg.ResponseBundle
		var err error
		panicked, msg := vh.Try(func() { r, err = p.gen.ProcessDeals(list) })
		if panicked {
			e.rep.Fail("pedersen.ProcessDeals/panic", msg, sc.describe())
			p.ended = true
			continue
		}
		if emit {
			var bs []string
			for _, b := range list {
				bs = append(bs, sc.coqDealBundle(b))
			}
			obs := "None"
			if r != nil {
				obs = "(Some " + sc.coqRespBundle(r) + ")"
			}
			p.calls = append(p.calls, fmt.Sprintf("(KProcDeals %s %s %s)", vh.CoqList(bs), vh.CoqBool(err != nil), obs), sc.coqState(p))
		}
		if err != nil {
			p.ended, p.errPhase = true, "process-deals"
			continue
		}
		if p.nidx >= 0 {
			respBoard = append(respBoard, sc.mutateResps(p, r)...)
		}
	}
	// ---- justification phase
	var justBoard []*dkg.JustificationBundle
	spoke := map[int]bool{} // parties whose generator reached the point where it may produce justifications
	for _, p := range sc.parties {
		if p.ended {
			continue
		}
		list := deliver(sc, p, respBoard).ToResponses()
		var res *dkg.Result
		var jb *dkg.JustificationBundle
		var err error
		panicked, msg := vh.Try(func() { res, jb, err = p.gen.ProcessResponses(list) })
		if panicked {
			e.rep.Fail("pedersen.ProcessResponses/panic", msg, sc.describe())
			p.ended = true
			continue
		}
		if emit {
			var bs []string
			for _, b := range list {
				bs = append(bs, sc.coqRespBundle(b))
			}
			ro, jo := "None", "None"
			if res != nil {
				ro = "(Some " + coqResult(res) + ")"
			}
			if jb != nil {
				jo = "(Some " + sc.coqJustBundle(jb) + ")"
			}
			p.calls = append(p.calls, fmt.Sprintf("(KProcResps %s %d %s %s)", vh.CoqList(bs), errClass(err), ro, jo), sc.coqState(p))
		}
		if err != nil {
			p.ended, p.errPhase = true, "process-responses"
			continue
		}
		if res != nil {
			p.res, p.ended = res, true
			continue
		}
		if p.oidx >= 0 {
			spoke[p.id] = true
			justBoard = append(justBoard, sc.mutateJusts(p, jb)...)
		}
	}
	// a faulty dealer whose own generator stopped or finished earlier can still broadcast in the justification phase
	for _, p := range sc.parties {
		if p.faulty && p.f.Unsol && p.oidx >= 0 && !spoke[p.id] {
			justBoard = append(justBoard, sc.mutateJusts(p, nil)...)
		}
	}
	// ---- finish phase
	for _, p := range sc.parties {
		if p.ended {
			continue
		}
		list := deliver(sc, p, justBoard).ToJustifications()
		var res *dkg.Result
		var err error
		panicked, msg := vh.Try(func() { res, err = p.gen.ProcessJustifications(list) })
		if panicked {
			e.rep.Fail("pedersen.ProcessJustifications/panic", msg, sc.describe())
			p.ended = true
			continue
		}
		if emit {
			var bs []string
			for _, b := range list {
				bs = append(bs, sc.coqJustBundle(b))
			}
			ro := "None"
			if res != nil {
				ro = "(Some " + coqResult(res) + ")"
			}
			p.calls = append(p.calls, fmt.Sprintf("(KProcJusts %s %d %s)", vh.CoqList(bs), errClass(err), ro), sc.coqState(p))
		}
		p.ended = true
		if err != nil {
			p.errPhase = "process-justifications"
			continue
		}
		p.res = res
	}
}

// ------------------------------------------------------------------ oracles (property clauses on the implementation)

func (sc *scen) tag() string {
	t := "pedersen-" + sc.kind
	if sc.fast {
		t += "-fast"
	}
	return t
}

func pointsEqual(a, b []kyber.Point) bool {
	if len(a) != len(b) {
		return false
	}
	for i := range a {
		if !a[i].Equal(b[i]) {
			return false
		}
	}
	return true
}

func qualIdx(r *dkg.Result) []int {
	var q []int
	for _, n := range r.QUAL {
		q = append(q, int(n.Index))
	}
	sort.Ints(q)
	return q
}

// dealerQualifiedAt: did the generator of p count dealer (old index) among the
// qualified dealers of its result?
func (sc *scen) dealerQualifiedAt(p *party, dealer uint32) bool {
	st := p.gen.VerifState()
	for _, x := range st.Evicted {
		if x == dealer {
			return false
		}
	}
	for _, s := range st.Statuses[dealer] {
		if s == dkg.Complaint {
			return false
		}
	}
	if !sc.reshare {
		for _, x := range st.EvictedHolders {
			if x == dealer {
				return false
			}
		}
		in := false
		for _, n := range p.res.QUAL {
			if n.Index == dealer {
				in = true
			}
		}
		return in
	}
	return true
}

func subsets(n, k int, f func([]int)) {
	idx := make([]int, k)
	var rec func(start, d int)
	rec = func(start, d int) {
		if d == k {
			f(idx)
			return
		}
		for i := start; i < n; i++ {
			idx[d] = i
			rec(i+1, d+1)
		}
	}
	rec(0, 0)
}

func (sc *scen) oracles() {
	e := sc.e
	tag := sc.tag()
	desc := sc.describe()
	var done []*party // honest holders with a result
	anyFault := false
	for _, p := range sc.parties {
		if p.faulty {
			anyFault = true
		}
	}
	for _, p := range sc.honestNew() {
		if p.res != nil {
			done = append(done, p)
		}
	}
	fail := func(key, what string) {
		d := map[string]interface{}{}
		for k, v := range desc {
			d[k] = v
		}
		d["what"] = what
		e.rep.Fail(key, what, d)
	}
	// completion when everyone is honest
	if !anyFault {
		for _, p := range sc.parties {
			if p.errPhase != "" {
				fail(tag+"/all-honest-completes", fmt.Sprintf("party %d (old %d, new %d) stopped with an error in %s although everybody is honest", p.id, p.oidx, p.nidx, p.errPhase))
			}
			if p.nidx >= 0 && p.res == nil {
				fail(tag+"/all-honest-completes", fmt.Sprintf("share holder %d got no result although everybody is honest", p.id))
			}
		}
	}
	if len(done) == 0 {
		e.rep.Dist(tag + ":nobody-completed")
		return
	}
	ref := done[0]
	// agreement
	for _, p := range done[1:] {
		if !pointsEqual(p.res.Key.Commits, ref.res.Key.Commits) {
			fail(tag+"/agreement-commits", fmt.Sprintf("honest holders %d and %d output different commitment polynomials", ref.id, p.id))
		}
		if fmt.Sprint(qualIdx(p.res)) != fmt.Sprint(qualIdx(ref.res)) {
			fail(tag+"/agreement-qual", fmt.Sprintf("honest holders %d and %d output different QUAL: %v vs %v", ref.id, p.id, qualIdx(ref.res), qualIdx(p.res)))
		}
	}
	// shares on the polynomial
	pub := share.NewPubPoly(e.suite, e.suite.Point().Base(), ref.res.Key.Commits)
	for _, p := range done {
		if len(p.res.Key.Commits) != sc.tNew {
			fail(tag+"/commits-length", fmt.Sprintf("holder %d: %d commitments for threshold %d", p.id, len(p.res.Key.Commits), sc.tNew))
		}
		if p.res.Key.Share.I != uint32(p.nidx) {
			fail(tag+"/share-index", fmt.Sprintf("holder %d: share index %d, expected %d", p.id, p.res.Key.Share.I, p.nidx))
		}
		own := share.NewPubPoly(e.suite, e.suite.Point().Base(), p.res.Key.Commits)
		if !own.Check(p.res.Key.Share) {
			fail(tag+"/share-on-polynomial", fmt.Sprintf("holder %d: output share does not lie on its output polynomial", p.id))
		}
	}
	// any t shares reconstruct a secret matching the public key
	if len(done) >= sc.tNew {
		subsets(len(done), sc.tNew, func(ix []int) {
			var shs []*share.PriShare
			for _, i := range ix {
				shs = append(shs, done[i].res.Key.Share)
			}
			sec, err := share.RecoverSecret(e.suite, shs, uint32(sc.tNew), uint32(sc.nNew))
			if err != nil || !e.suite.Point().Mul(sec, nil).Equal(pub.Commit()) {
				fail(tag+"/t-shares-recover-key", fmt.Sprintf("shares of holders %v do not reconstruct the secret of the public key (err %v)", ix, err))
			}
		})
	}
	// key = sum of the qualified dealers' contributions / unchanged after resharing
	if sc.reshare {
		if !ref.res.Key.Commits[0].Equal(sc.oldCommits[0]) {
			fail(tag+"/key-unchanged", "the public key changed in the resharing")
		}
	} else {
		sum := e.suite.Point().Null()
		okSum := true
		for _, n := range ref.res.QUAL {
			d := sc.byOidx(n.Index)
			pp, ok := sc.dealPub[d.id]
			if !ok || len(pp) == 0 {
				okSum = false
				break
			}
			sum = e.suite.Point().Add(sum, pp[0])
		}
		if okSum && !sum.Equal(ref.res.Key.Commits[0]) {
			fail(tag+"/key-is-sum-of-qual", "public key differs from the sum of the qualified dealers' constant commitments")
		}
		if !okSum {
			fail(tag+"/key-is-sum-of-qual", "a dealer without a unique deliverable deal bundle is in QUAL")
		}
	}
	// honest share holders are in QUAL (resharing: QUAL lists new nodes; fresh: covered by honest-dealer-disqualified too)
	for _, p := range done {
		in := map[int]bool{}
		for _, x := range qualIdx(p.res) {
			in[x] = true
		}
		for _, hN := range sc.honestNew() {
			if !in[hN.nidx] {
				fail(tag+"/honest-holder-not-in-qual", fmt.Sprintf("honest share holder %d (new index %d) is not in QUAL %v of honest holder %d", hN.id, hN.nidx, qualIdx(p.res), p.id))
			}
		}
	}
	// honest dealers stay, unjustified bad dealers go
	for _, p := range done {
		for _, d := range sc.parties {
			if d.oidx < 0 {
				continue
			}
			q := sc.dealerQualifiedAt(p, uint32(d.oidx))
			if !d.faulty && !q {
				fail(tag+"/honest-dealer-disqualified", fmt.Sprintf("honest dealer %d (old index %d) is disqualified at honest holder %d", d.id, d.oidx, p.id))
			}
			if d.faulty && q && sc.mustDisqualify(d) {
				fail(tag+"/bad-dealer-qualified", fmt.Sprintf("dealer %d (deal fault %s, justification %s) is qualified at honest holder %d", d.id, dName[d.f.Deal], jName[d.f.Just], p.id))
			}
		}
	}
	e.rep.Dist(fmt.Sprintf("%s:completed=%d/%d", tag, len(done), len(sc.honestNew())))
}

// mustDisqualify: the fault script leaves an invalid (or no) deal to an honest
// holder without a valid justification.
func (sc *scen) mustDisqualify(d *party) bool {
	hv := func(v int) bool { return v >= 0 && !sc.parties[v].faulty && v != d.id && sc.parties[v].nidx >= 0 }
	victimHonest := hv(d.f.Victim)
	unjustified := d.f.Just == jMissing || d.f.Just == jBadShare || d.f.Just == jWrongSid || d.f.Just == jConflict || d.f.Just == jForgedSig
	if d.f.Just == jPartialOmit || d.f.Just == jPartialBad {
		// the complaint that is not (validly) answered is drawn among all complaints against the dealer: it is the
		// complaint of an honest holder for sure when every victim is honest
		unjustified = hv(d.f.Victim) && (d.f.Victim2 < 0 || hv(d.f.Victim2))
	}
	switch d.f.Deal {
	case dAbsent, dConflict, dForgedSig, dWrongSid, dWrongThr, dBadIndex, dBadIndexAt, dBadPublic:
		return true
	case dBadShare, dMisdirected:
		return victimHonest && unjustified
	}
	return false
}

// ------------------------------------------------------------------ generation

var kinds = []string{"fresh", "overlap", "disjoint", "grow", "shrink"}

func (e *env) randomScen(maxN int) *scen {
	rng := e.rng
	kind := kinds[rng.Intn(len(kinds))]
	if rng.Chance(35) {
		kind = "fresh"
	}
	fast := rng.Chance(40)
	pickT := func(n int) int { ts := thresholds(n); return ts[rng.Intn(len(ts))] }
	var nOld, nNew int
	switch kind {
	case "fresh":
		nNew = 3 + rng.Intn(maxN-2)
		nOld = nNew
	case "overlap":
		nOld = 3 + rng.Intn(maxN-2)
		nNew = nOld
	case "disjoint":
		nOld = 3 + rng.Intn(maxN-2)
		nNew = 3 + rng.Intn(maxN-2)
	case "grow":
		nOld = 3 + rng.Intn(maxN-3)
		nNew = nOld + 1 + rng.Intn(maxN-nOld)
	case "shrink":
		nOld = 4 + rng.Intn(maxN-3)
		nNew = 3 + rng.Intn(nOld-3)
	}
	return newScen(e, kind, fast, nOld, pickT(nOld), nNew, pickT(nNew))
}

func (e *env) runScen(sc *scen, cases *[]string, caseID *int) {
	if err := sc.setup(); err != nil {
		e.rep.Fail("pedersen.NewDistKeyHandler/valid-config-refused", err.Error(), sc.describe())
		return
	}
	sc.run()
	sc.oracles()
	var canon strings.Builder
	fmt.Fprintf(&canon, "%v", sc.describe())
	nf := 0
	for _, p := range sc.parties {
		if p.faulty {
			nf++
			e.rep.Dist("fault:deal=" + dName[p.f.Deal])
			e.rep.Dist("fault:resp=" + rName[p.f.Resp])
			e.rep.Dist("fault:just=" + jName[p.f.Just])
		}
	}
	e.rep.Dist(fmt.Sprintf("%s:%s n=%d t=%d faulty=%d", e.name, sc.tag(), sc.nNew, sc.tNew, nf))
	if e.dlog && cases != nil {
		for _, p := range sc.parties {
			id := *caseID
			*caseID++
			*cases = append(*cases, fmt.Sprintf("(CNode %d %s %s)", id, sc.coqConfig(p), vh.CoqList(p.calls)))
			d := sc.describe()
			d["party"] = p.id
			e.rep.Index(id, d)
			e.rep.Count(canon.String()+fmt.Sprint(p.id), nf > 0 || sc.reshare)
		}
	} else {
		e.rep.Count(canon.String(), nf > 0 || sc.reshare)
	}
	e.rep.Sample(sc.describe())
}

// recoverUnrelated: what computeResharingResult relies on.  The values handed to
// share.RecoverSecret / RecoverPriPoly (private) and share.RecoverCommit
// (public) in a resharing are NOT shares of one polynomial; both sides must
// therefore use the same subset - the t lowest distinct indices with a value -
// whatever the order of the slice, the number of entries above t and the nil
// holes.  Oracle: for unrelated values v_i at indices i (unsorted, > t entries,
// nil entries, entries with a nil value), commit(RecoverSecret) =
// RecoverCommit(commit v_i) = commit of the interpolation at 0 over the t lowest
// indices, RecoverPriPoly(...).Secret() agrees, and a permutation of the slice
// changes nothing.
func recoverUnrelated(e *env, n int) {
	rng := e.rng
	g := e.suite
	for c := 0; c < n; c++ {
		t := 1 + rng.Intn(4)
		m := t + rng.Intn(4) // entries with a value
		idx := indices(rng, m)
		var pri []*share.PriShare
		var pub []*share.PubShare
		for _, i := range idx {
			v := e.randScalar()
			pri = append(pri, &share.PriShare{I: uint32(i), V: v})
			pub = append(pub, &share.PubShare{I: uint32(i), V: g.Point().Mul(v, nil)})
		}
		// expected: Lagrange interpolation at 0 over the t lowest indices
		exp := g.Scalar().Zero()
		for a := 0; a < t; a++ {
			num, den := g.Scalar().One(), g.Scalar().One()
			xa := g.Scalar().SetInt64(int64(idx[a] + 1))
			for b := 0; b < t; b++ {
				if a == b {
					continue
				}
				xb := g.Scalar().SetInt64(int64(idx[b] + 1))
				num = g.Scalar().Mul(num, xb)
				den = g.Scalar().Mul(den, g.Scalar().Sub(xb, xa))
			}
			exp = g.Scalar().Add(exp, g.Scalar().Mul(pri[a].V, g.Scalar().Div(num, den)))
		}
		// the slice as a caller may hand it over: permuted, with nil holes and value-less entries
		perm := permutation(rng, m)
		var ps []*share.PriShare
		var qs []*share.PubShare
		for _, k := range perm {
			if rng.Chance(20) {
				ps, qs = append(ps, nil), append(qs, nil)
			}
			ps, qs = append(ps, pri[k]), append(qs, pub[k])
		}
		nn := uint32(len(ps) + rng.Intn(3))
		desc := map[string]interface{}{"suite": e.name, "t": t, "indices_in_slice_order": func() []int {
			var r []int
			for _, x := range ps {
				if x == nil {
					r = append(r, -1)
				} else {
					r = append(r, int(x.I))
				}
			}
			return r
		}()}
		sec, err1 := share.RecoverSecret(g, ps, uint32(t), nn)
		com, err2 := share.RecoverCommit(g, qs, uint32(t), nn)
		pp, err3 := share.RecoverPriPoly(g, ps, uint32(t), nn)
		e.rep.Dist("share.Recover* on unrelated values")
		e.rep.Count(fmt.Sprint("recover", desc, rng.U64()), m > t)
		if err1 != nil || err2 != nil || err3 != nil {
			e.rep.Fail("share.Recover/unrelated-values/refused", fmt.Sprint(err1, err2, err3), desc)
			continue
		}
		if !sec.Equal(exp) {
			e.rep.Fail("share.RecoverSecret/unrelated-values/not-the-t-lowest-indices", "RecoverSecret does not interpolate over the t lowest indices of the slice", desc)
		}
		if !pp.Secret().Equal(exp) {
			e.rep.Fail("share.RecoverPriPoly/unrelated-values/not-the-t-lowest-indices", "RecoverPriPoly does not interpolate over the t lowest indices of the slice", desc)
		}
		if !com.Equal(g.Point().Mul(exp, nil)) {
			e.rep.Fail("share.RecoverCommit/unrelated-values/not-the-t-lowest-indices", "RecoverCommit does not interpolate over the t lowest indices of the slice", desc)
		}
		if !com.Equal(g.Point().Mul(sec, nil)) {
			e.rep.Fail("share.Recover/unrelated-values/private-and-public-side-use-different-subsets", "commit(RecoverSecret(values)) differs from RecoverCommit(commit values)", desc)
		}
	}
}

// packet-store correspondence: random push sequences through the real set
func (e *env) setCases(n int, cases *[]string, caseID *int) {
	rng := e.rng
	for c := 0; c < n; c++ {
		senders := 2 + rng.Intn(3)
		variants := 1 + rng.Intn(3)
		// distinct response bundles per sender
		var pool []*dkg.ResponseBundle
		for s := 0; s < senders; s++ {
			for v := 0; v < variants; v++ {
				pool = append(pool, &dkg.ResponseBundle{ShareIndex: uint32(s), SessionID: []byte{1},
					Responses: []dkg.Response{{DealerIndex: uint32(v), Status: dkg.Complaint}}})
			}
		}
		hashID := func(p dkg.Packet) int {
			h, _ := p.Hash()
			for i, q := range pool {
				hq, _ := q.Hash()
				if bytes.Equal(h, hq) {
					return i
				}
			}
			return -1
		}
		set := dkg.VerifNewSet()
		var pushes []string
		l := rng.Intn(10)
		for i := 0; i < l; i++ {
			var p *dkg.ResponseBundle
			if rng.Chance(60) {
				p = pool[rng.Intn(senders)*variants] // mostly the first variant: re-broadcasts
			} else {
				p = pool[rng.Intn(len(pool))]
			}
			if rng.Chance(30) {
				p = copyResp(p)
			}
			set.Push(p)
			pushes = append(pushes, fmt.Sprintf("(%d, %d)", p.ShareIndex, hashID(p)))
		}
		var stored []string
		st := set.Stored()
		var keys []int
		for k := range st {
			keys = append(keys, int(k))
		}
		sort.Ints(keys)
		for _, k := range keys {
			stored = append(stored, fmt.Sprintf("(%d, %d)", k, hashID(st[uint32(k)])))
		}
		id := *caseID
		*caseID++
		*cases = append(*cases, fmt.Sprintf("(CSet %d %s %s %s %d)", id, vh.CoqList(pushes), vh.CoqList(stored),
			vh.CoqList(uniqSorted(set.Bad())), set.Len()))
		e.rep.Index(id, map[string]interface{}{"kind": "packet-set", "pushes": pushes})
		e.rep.Count("set"+strings.Join(pushes, ","), l > 1)
		e.rep.Dist("packet-set sequences")
		// oracle: the store depends only on the set of packets
		set2 := dkg.VerifNewSet()
		var again []*dkg.ResponseBundle
		for _, s := range pushes {
			var a, b int
			fmt.Sscanf(s, "(%d, %d)", &a, &b)
			again = append(again, pool[b])
		}
		for _, i := range permutation(rng, len(again)) {
			set2.Push(again[i])
			if rng.Bool() {
				set2.Push(again[i])
			}
		}
		if fmt.Sprint(uniqSorted(set.Bad())) != fmt.Sprint(uniqSorted(set2.Bad())) || set.Len() != set2.Len() {
			e.rep.Fail("pedersen.set.Push/order-dependent", "the packet store depends on the delivery order", pushes)
		}
	}
}

func main() {
	o := vh.ParseFlags()
	rng := vh.NewRng(o.Seed)
	rep := vh.NewReport("C11", o.Seed, o.Tier)
	rep.Rule = "a case = one party of one DKG run (config, every Deals/ProcessDeals/ProcessResponses/ProcessJustifications call with the bundles delivered to it and everything it returned, status matrix and eviction lists after each call); non-trivial = at least one faulty party or a resharing"

	dl := vh.NewDlogGroup(vh.Q61, nil)
	ed := edwards25519.NewBlakeSHA256Ed25519()
	envD := &env{suite: dl, dlog: true, name: "dlog61", auth: schnorr.NewScheme(dl), rng: rng.Fork(), rep: rep}
	envE := &env{suite: ed, dlog: false, name: "ed25519", auth: schnorr.NewScheme(ed), rng: rng.Fork(), rep: rep}

	var cases []string
	caseID := 0
	maxN := 5
	nD, nE, nSet := 212, 40, 150
	if o.Thorough {
		maxN = 7
		nD, nE, nSet = 1500, 200, 600
	}
	if o.Search {
		nD, nE = 4*nD, 2*nE
	}
	cs := &cases
	if o.Search {
		cs = nil
	}
	pedersenBatch(envD, nD, maxN, o.Thorough, cs, &caseID)
	pedersenBatch(envE, nE, maxN, false, nil, &caseID)
	nDrvD, nDrvE := 36, 12
	if o.Thorough {
		nDrvD, nDrvE = 250, 40
	}
	if o.Search {
		nDrvD, nDrvE = 3*nDrvD, 2*nDrvE
	}
	recoverUnrelated(envD, 60)
	recoverUnrelated(envE, 8)
	driverBatch(envD, nDrvD, maxN)
	driverBatch(envE, nDrvE, maxN)
	if !o.Search {
		envD.setCases(nSet, &cases, &caseID)
	} else {
		var dummy []string
		envD.setCases(nSet, &dummy, &caseID)
	}
	rabinBatch(envD, envE, o, &cases, &caseID)

	if !o.Search {
		vh.WriteShards(o.Out, "c11", &vh.CaseFile{Header: "From Kyber Require Import DKG.DKGRun.", Type: "case", Runner: "mismatches", Items: cases}, 60, rep)
	}
	rep.Note("synchronous harness: a phase ends when the harness says so; within a phase every party receives the board in its own order with its own duplications through VerifyPacketSignature and set.Push. Protocol-driver runs (driver.go): real dkg.Protocol goroutines over a scripted board and phaser, synchronous schedule (every packet reaches everybody before the next tick), compared with the synchronous calls on the full boards")
	rep.Write(o.Out)
	_ = big.NewInt
}

// pedersenBatch: the structured part (all-honest runs of every kind, every
// single fault of the menu, exhaustive fault assignment for small n in the
// thorough tier) followed by random scenarios.
func pedersenBatch(e *env, n int, maxN int, exhaustive bool, cases *[]string, caseID *int) {
	rng := e.rng
	count := 0
	// all honest, every kind, fast on/off
	for _, kind := range kinds {
		for _, fast := range []bool{false, true} {
			var sc *scen
			switch kind {
			case "fresh":
				sc = newScen(e, kind, fast, 4, 3, 4, 3)
			case "overlap":
				sc = newScen(e, kind, fast, 4, 3, 4, 3)
			case "disjoint":
				sc = newScen(e, kind, fast, 3, 2, 4, 3)
			case "grow":
				sc = newScen(e, kind, fast, 3, 2, 5, 3)
			case "shrink":
				sc = newScen(e, kind, fast, 5, 3, 3, 2)
			}
			e.runScen(sc, cases, caseID)
			count++
		}
	}
	// all honest, node lists in decreasing / shuffled index order, strictly more than oldT old dealers (all of
	// them, and oldT+1 with one absent dealer): the dealers that count are the oldT LOWEST indices, not the first
	// oldT of the list
	for _, order := range []int{2, 3} {
		for _, kind := range []string{"fresh", "overlap", "disjoint", "grow", "shrink"} {
			e.forceOrder = order
			var sc *scen
			fast := rng.Chance(40)
			switch kind {
			case "fresh":
				sc = newScen(e, kind, fast, 4, 3, 4, 3)
			case "overlap":
				sc = newScen(e, kind, fast, 5, 3, 5, 3)
			case "disjoint":
				sc = newScen(e, kind, fast, 4, 2, 4, 3)
			case "grow":
				sc = newScen(e, kind, fast, 4, 3, 5, 3)
			case "shrink":
				sc = newScen(e, kind, fast, 5, 3, 3, 2)
			}
			e.forceOrder = 0
			e.runScen(sc, cases, caseID)
			count++
		}
		// one old dealer absent: oldT+1 dealers left
		e.forceOrder = order
		sc := newScen(e, "disjoint", false, 5, 3, 4, 3)
		e.forceOrder = 0
		sc.assignFaults(1, func(int) (int, int, int) { return dAbsent, rHonest, jHonest })
		e.runScen(sc, cases, caseID)
		count++
	}
	// every single fault of the menu, one faulty party, n=4 t=3 (fresh) and a resharing
	one := func(kind string, fast bool, d, r, j int) {
		var sc *scen
		if kind == "fresh" {
			sc = newScen(e, kind, fast, 4, 3, 4, 3)
		} else if kind == "disjoint" {
			sc = newScen(e, kind, fast, 4, 3, 4, 3)
		} else {
			sc = newScen(e, kind, fast, 4, 3, 4, 3)
		}
		sc.assignFaults(1, func(int) (int, int, int) { return d, r, j })
		e.runScen(sc, cases, caseID)
		count++
	}
	for _, kind := range []string{"fresh", "overlap", "disjoint"} {
		for d := 1; d < dNumFaults; d++ {
			one(kind, rng.Chance(30), d, rHonest, rng.Intn(jNumFaults))
		}
		for r := 1; r < rNumFaults; r++ {
			one(kind, rng.Chance(30), dHonest, r, jHonest)
		}
		for j := 0; j < jNumFaults; j++ {
			one(kind, rng.Chance(30), dBadShare+rng.Intn(2), rHonest, j)
		}
	}
	// two faulty dealers, n=5 t=3 (fresh, node indices with gaps): one lists an out-of-range share index
	// which sorts after `pos` valid deals (so honest holders listed before it have accepted their share and
	// those after it have not, while all of them evict the dealer), the other is honest until the justification phase and then broadcasts a
	// justification bundle nobody asked for, with every justification fault of the menu
	two := func(fast bool, pos, j int) {
		e.forceIdx = []int{0, 2, 4, 6, 8}
		sc := newScen(e, "fresh", fast, 5, 3, 5, 3)
		e.forceIdx = nil
		sc.assignFaults(2, func(i int) (int, int, int) {
			if i == 0 {
				return dBadIndexAt, rHonest, jHonest
			}
			return dHonest, rHonest, j
		})
		for _, p := range sc.parties {
			if p.faulty && p.f.Deal == dBadIndexAt {
				p.f.Pos, p.f.Unsol = pos, false
			} else if p.faulty {
				p.f.Unsol = true
			}
		}
		e.runScen(sc, cases, caseID)
		count++
	}
	for j := 0; j < jNumFaults; j++ {
		if j == jPartialOmit || j == jPartialBad {
			continue // nothing to answer partially: nobody complains about a dealer that behaved until then
		}
		for pos := 1; pos <= 3; pos++ {
			two(false, pos, j)
		}
		two(true, 2, j)
	}
	// one dealer, invalid shares to TWO honest holders, the complaints answered completely / partly / not at all
	for _, j := range []int{jHonest, jPartialOmit, jPartialBad, jMissing} {
		for _, fast := range []bool{false, true} {
			sc := newScen(e, "fresh", fast, 5, 3, 5, 3)
			sc.assignFaults(1, func(int) (int, int, int) { return dBadShare, rHonest, j })
			hn := sc.honestNew()
			k := rng.Intn(len(hn))
			for _, p := range sc.parties {
				if p.faulty {
					p.f.Victim, p.f.Victim2 = hn[k].id, hn[(k+1+rng.Intn(len(hn)-1))%len(hn)].id
					p.f.Unsol = false
				}
			}
			e.runScen(sc, cases, caseID)
			count++
		}
	}
	if exhaustive {
		// n = 3 (t = 2, 3) and n = 4 (t = 3, 4): every assignment of a deal fault x justification fault
		// to one party, and every pair of deal faults to two parties where n-t allows
		for _, nt := range [][2]int{{3, 2}, {4, 3}} {
			for d := 0; d < dNumFaults; d++ {
				for r := 0; r < rNumFaults; r++ {
					for j := 0; j < jNumFaults; j++ {
						if d == 0 && r == 0 {
							continue
						}
						sc := newScen(e, "fresh", (d+r+j)%3 == 0, nt[0], nt[1], nt[0], nt[1])
						sc.assignFaults(1, func(int) (int, int, int) { return d, r, j })
						e.runScen(sc, cases, caseID)
						count++
					}
				}
			}
		}
	}
	for ; count < n; count++ {
		sc := e.randomScen(maxN)
		nf := 0
		if !rng.Chance(10) {
			nf = 1 + rng.Intn(3)
		}
		sc.assignFaults(nf, func(int) (int, int, int) {
			d, r, j := dHonest, rHonest, jHonest
			switch rng.Intn(4) {
			case 0:
				d = rng.Intn(dNumFaults)
				j = rng.Intn(jNumFaults)
			case 1:
				r = rng.Intn(rNumFaults)
			case 2:
				d = dBadShare + rng.Intn(2)
				j = rng.Intn(jNumFaults)
				r = rng.Intn(rNumFaults)
			default:
				d = rng.Intn(dNumFaults)
				r = rng.Intn(rNumFaults)
				j = rng.Intn(jNumFaults)
			}
			return d, r, j
		})
		e.runScen(sc, cases, caseID)
	}
}
