// Harness for property C05 (value semantics of point / scalar operations).
//
// For every kyber group implementation it runs short programs of API calls
// over a small pool of point and scalar variables with every aliasing pattern
// of receiver and operands, and
//   - oracles (implementation only): the returned value equals the receiver,
//     no variable other than the receiver changes, the result equals the one
//     obtained on fresh unaliased copies, Clone/Set results are independent of
//     their source under every later mutation;
//   - correspondence: the observed value of every variable after every call is
//     written into cases_*.v, where the transcriptions of Heap/Transcr.v are
//     executed (aliased semantics) and must predict exactly these values.
//
// All point values are tracked as known linear combinations of the generator
// and of at most two picked points; they are reported to Coq as discrete
// logarithms (picked points get random pseudo-logarithms).
package main

import (
	"fmt"
	"math/big"
	"os"
	"runtime/debug"
	"strings"
	"time"

	"go.dedis.ch/kyber/v4"
	"kyverif/hg"
	"kyverif/vh"
)

const (
	mAdd = iota
	mSub
	mNeg
	mMul
	mMulBase
	mNull
	mBase
	mSet
	mClone
	mPick
	mEmbed
)
const (
	sAdd = 20 + iota
	sSub
	sNeg
	sMul
	sDiv
	sInv
	sOne
	sZero
	sSetInt
	sPick
	sSetBytes
	sSet
	sClone
)

var mname = map[int]string{mAdd: "Add", mSub: "Sub", mNeg: "Neg", mMul: "Mul", mMulBase: "MulBase", mNull: "Null",
	mBase: "Base", mSet: "Set", mClone: "Clone", mPick: "Pick", mEmbed: "Embed",
	sAdd: "Scalar.Add", sSub: "Scalar.Sub", sNeg: "Scalar.Neg", sMul: "Scalar.Mul", sDiv: "Scalar.Div", sInv: "Scalar.Inv",
	sOne: "Scalar.One", sZero: "Scalar.Zero", sSetInt: "Scalar.SetInt64", sPick: "Scalar.Pick", sSetBytes: "Scalar.SetBytes",
	sSet: "Scalar.Set", sClone: "Scalar.Clone"}

const np, ns = 4, 3

// trace: the calls of the program being executed (diagnostics for panics outside the guarded calls)
var trace []string

type vec [3]*big.Int

func (v vec) key() string { return v[0].String() + "," + v[1].String() + "," + v[2].String() }

type call struct {
	m   int
	env []int
	orc *big.Int
	// extra inputs of the real call
	k    int64  // SetInt64
	data []byte // Embed / SetBytes
}

type runner struct {
	im   *hg.Impl
	rng  *vh.Rng
	rep  *vh.Report
	q    *big.Int
	rho  [3]*big.Int
	seed [2][]byte
	penc [3]string // encodings of generator, picked point, embedded point
	edat []byte
	memo map[string]string   // vector key -> encoding
	tab  map[string]*big.Int // encoding -> flattened value
	pts  []kyber.Point
	scs  []kyber.Scalar
	pv   []vec
	sv   []*big.Int
	// values recorded at start-up, before any mutating call under test: group constants obtained
	// through the API and objects that are kept alive and must never change afterwards
	constEnc  map[string]string
	sentinels map[string]kyber.Point
	sentEnc   map[string]string
	s0        *big.Int
	reported  map[string]bool
}

func (r *runner) mod(x *big.Int) *big.Int { return new(big.Int).Mod(x, r.q) }

func (r *runner) flat(v vec) *big.Int {
	s := new(big.Int).Set(v[0])
	for i := 1; i < 3; i++ {
		s.Add(s, new(big.Int).Mul(v[i], r.rho[i]))
	}
	return r.mod(s)
}

func zvec() vec { return vec{new(big.Int), new(big.Int), new(big.Int)} }

// enc of the point with the given coordinates, computed on fresh objects only
func (r *runner) lincomb(v vec) string {
	k := v.key()
	if e, ok := r.memo[k]; ok {
		return e
	}
	im := r.im
	var acc kyber.Point
	for i := 0; i < 3; i++ {
		if v[i].Sign() == 0 {
			continue
		}
		t := im.NewPoint().Mul(im.NewScalar(v[i]), im.FreshPoint(r.penc[i]))
		if acc == nil {
			acc = t
		} else {
			acc = im.NewPoint().Add(acc, t)
		}
	}
	if acc == nil {
		// identity: g - g on fresh objects (Null itself is under test)
		acc = im.NewPoint().Sub(im.FreshPoint(r.penc[0]), im.FreshPoint(r.penc[0]))
	}
	e := hg.Enc(acc)
	r.memo[k] = e
	r.tab[e] = r.flat(v)
	return e
}

func newRunner(im *hg.Impl, rng *vh.Rng, rep *vh.Report) *runner {
	r := &runner{im: im, rng: rng, rep: rep, q: im.Q, memo: map[string]string{}, tab: map[string]*big.Int{}}
	r.rho[0] = big.NewInt(1)
	r.rho[1] = rng.BigBelow(r.q)
	r.rho[2] = rng.BigBelow(r.q)
	r.seed[0] = rng.Bytes(16)
	r.seed[1] = rng.Bytes(16)
	r.penc[0] = hg.Enc(im.Gen())
	if im.HasPick {
		r.penc[1] = hg.Enc(im.NewPoint().Pick(vh.NewSeqStream(r.seed[0])))
	}
	if im.HasEmbed {
		n := im.NewPoint().EmbedLen()
		r.edat = rng.Bytes(rng.Intn(n + 1))
		r.penc[2] = hg.Enc(im.NewPoint().Embed(r.edat, vh.NewSeqStream(r.seed[1])))
	}
	r.s0 = new(big.Int).Add(rng.BigBelow(new(big.Int).Sub(r.q, big.NewInt(2))), big.NewInt(2))
	r.reported = map[string]bool{}
	r.sentinels = map[string]kyber.Point{"Gen": im.Gen(), "Null()": im.NewPoint().Null(),
		"Set(Gen)": im.NewPoint().Set(im.Gen()), "Mul(s0,Gen)": im.NewPoint().Mul(im.NewScalar(r.s0), im.Gen())}
	if im.HasBase {
		b := im.NewPoint().Base()
		r.sentinels["Base()"] = b
		r.sentinels["Base().Clone()"] = im.NewPoint().Base().Clone()
		r.sentinels["Neg(Base())"] = im.NewPoint().Neg(b)
	}
	if im.HasMulBase {
		r.sentinels["Mul(s0,nil)"] = im.NewPoint().Mul(im.NewScalar(r.s0), nil)
	}
	r.sentEnc = map[string]string{}
	for k, p := range r.sentinels {
		r.sentEnc[k] = hg.Enc(p)
	}
	r.constEnc = r.constants(true)
	return r
}

// constants recomputes, through the API on fresh receivers, the values that depend only on the group
func (r *runner) constants(full bool) map[string]string {
	im := r.im
	c := map[string]string{}
	c["Null()"] = hg.Enc(im.NewPoint().Null())
	c["Gen"] = hg.Enc(im.Gen())
	if im.HasBase {
		c["Base()"] = hg.Enc(im.NewPoint().Base())
	}
	c["order"] = im.G.Scalar().GroupOrder().Int.String()
	c["Scalar.One()"] = hg.ScalarVal(im.G.Scalar().One()).String()
	c["Scalar.Zero()"] = hg.ScalarVal(im.G.Scalar().Zero()).String()
	c["Scalar.SetInt64(-1)"] = hg.ScalarVal(im.G.Scalar().SetInt64(-1)).String()
	if full {
		if im.HasMulBase {
			c["Mul(s0,nil)"] = hg.Enc(im.NewPoint().Mul(im.NewScalar(r.s0), nil))
		}
		c["Mul(s0,Gen)"] = hg.Enc(im.NewPoint().Mul(im.NewScalar(r.s0), im.Gen()))
	}
	return c
}

// checkConstants: after a mutating call, every group constant and every object created at
// start-up must still have the value recorded at start-up (a receiver that shares storage with a
// constant or with an earlier result corrupts it when it is written in place)
func (r *runner) checkConstants(after string, full bool) {
	pan, msg := vh.Try(func() {
		now := r.constants(full)
		for k, v := range now {
			if v != r.constEnc[k] && !r.reported["c:"+k] {
				r.reported["c:"+k] = true
				r.rep.Fail(r.im.Name+"/group-constant-changed:"+k, "a value that depends only on the group differs from the one recorded at start-up",
					map[string]interface{}{"impl": r.im.Name, "constant": k, "first_seen_after": after,
						"at_startup": vh.Hex([]byte(r.constEnc[k])), "now": vh.Hex([]byte(v))})
			}
		}
		for k, p := range r.sentinels {
			if e := hg.Enc(p); e != r.sentEnc[k] && !r.reported["s:"+k] {
				r.reported["s:"+k] = true
				r.rep.Fail(r.im.Name+"/earlier-result-changed:"+k, "an object created at start-up and never used as a receiver since changed its value",
					map[string]interface{}{"impl": r.im.Name, "object": k, "first_seen_after": after,
						"at_startup": vh.Hex([]byte(r.sentEnc[k])), "now": vh.Hex([]byte(e))})
			}
		}
	})
	if pan && !r.reported["panic"] {
		r.reported["panic"] = true
		r.rep.Fail(r.im.Name+"/group-constant-panic", msg, map[string]interface{}{"after": after})
	}
}

func (r *runner) initPool() []*big.Int {
	r.pts, r.scs, r.pv, r.sv = nil, nil, nil, nil
	var init []*big.Int
	for i := 0; i < np; i++ {
		var k *big.Int
		switch r.rng.Intn(6) {
		case 0:
			k = new(big.Int)
		case 1:
			if i > 0 {
				k = new(big.Int).Set(r.pv[r.rng.Intn(i)][0])
			} else {
				k = big.NewInt(1)
			}
		case 2:
			if i > 0 {
				k = r.mod(new(big.Int).Neg(r.pv[r.rng.Intn(i)][0]))
			} else {
				k = big.NewInt(2)
			}
		default:
			k = r.rng.EdgeScalar(r.q)
		}
		v := zvec()
		v[0] = k
		r.pv = append(r.pv, v)
		pt := r.im.FreshPoint(r.lincomb(v))
		if r.rng.Bool() { // the same value in computed (non-normalised) form instead of freshly decoded
			z := r.im.FreshPoint(r.lincomb(vec{r.rng.BigBelow(r.q), new(big.Int), new(big.Int)}))
			pt = r.im.NewPoint().Sub(r.im.NewPoint().Add(pt, z), z)
		}
		r.pts = append(r.pts, pt)
		init = append(init, r.flat(v))
	}
	for i := 0; i < ns; i++ {
		k := r.rng.EdgeScalar(r.q)
		r.sv = append(r.sv, k)
		r.scs = append(r.scs, r.scalarInState(k))
		init = append(init, k)
	}
	return init
}

// scalarInState builds a scalar of value k in one of the internal states the API can produce: set
// from bytes, or decoded by UnmarshalBinary from an unreduced encoding k + j*q (where accepted)
func (r *runner) scalarInState(k *big.Int) kyber.Scalar {
	im := r.im
	if r.rng.Chance(40) {
		probe := im.G.Scalar()
		l := probe.MarshalSize()
		max := new(big.Int).Lsh(big.NewInt(1), uint(8*l))
		jmax := new(big.Int).Div(new(big.Int).Sub(new(big.Int).Sub(max, big.NewInt(1)), k), r.q)
		if jmax.Sign() > 0 {
			j := new(big.Int).Add(r.rng.BigBelow(jmax), big.NewInt(1))
			if r.rng.Bool() {
				j = jmax // the largest representative: top bits of the encoding set
			}
			v := new(big.Int).Add(k, new(big.Int).Mul(j, r.q))
			b := v.FillBytes(make([]byte, l))
			if probe.ByteOrder() == kyber.LittleEndian {
				for i, n := 0, len(b); i < n/2; i++ {
					b[i], b[n-1-i] = b[n-1-i], b[i]
				}
			}
			ok := false
			vh.Try(func() { ok = probe.UnmarshalBinary(b) == nil && hg.ScalarVal(probe).Cmp(k) == 0 })
			if ok {
				// the reference run works on copies BY VALUE: only representations on which the
				// implementation itself computes by value can be compared with it.  (Found on the
				// unchanged tree: edwards25519 Mul with a scalar decoded from an encoding >= 2^255 + l
				// returns a wrong point - a correctness defect of Mul / UnmarshalBinary, outside C05.)
				consistent := false
				vh.Try(func() {
					red := im.NewScalar(k)
					consistent = hg.Enc(im.NewPoint().Mul(probe, im.Gen())) == hg.Enc(im.NewPoint().Mul(red, im.Gen())) &&
						(!im.HasMulBase || hg.Enc(im.NewPoint().Mul(probe, nil)) == hg.Enc(im.NewPoint().Mul(red, nil))) &&
						hg.ScalarVal(im.G.Scalar().Mul(probe, probe)).Cmp(hg.ScalarVal(im.G.Scalar().Mul(red, red))) == 0
				})
				if consistent {
					r.rep.Dist("pool-scalar:unreduced-encoding")
					return probe
				}
				r.rep.Dist("pool-scalar:unreduced-encoding-not-computed-by-value")
				if !r.reported["note:repr"] {
					r.reported["note:repr"] = true
					r.rep.Note(im.Name + ": Mul(s, P) with a scalar decoded by UnmarshalBinary from the unreduced encoding 0x" + v.Text(16) +
						" differs from Mul with the reduced scalar of the same value (not a C05 matter; such representations are used in the operand-state matrix only)")
				}
			}
		}
	}
	return im.NewScalar(k)
}

// operandStates: every operation with a private receiver, on operands in every internal state the
// API can produce (hg.PointForms / hg.ScalarForms: decoded from unreduced encodings, computed,
// identities, constants, long SetBytes, Pick ...): what the API shows of the operand - encoding,
// String, equality with a clone taken before - must be the same before and after
func (r *runner) operandStates() {
	im := r.im
	other := func() kyber.Point { return hg.NonNormal(im, r.rng) }
	otherS := func() kyber.Scalar { return im.NewScalar(r.rng.BigBelow(r.q)) }
	sview := func(s kyber.Scalar) string { b, _ := s.MarshalBinary(); return vh.Hex(b) + "|" + s.String() }
	pview := func(p kyber.Point) string { b, _ := p.MarshalBinary(); return vh.Hex(b) + "|" + p.String() }
	type sop struct {
		name string
		f    func(s kyber.Scalar)
	}
	sops := []sop{
		{"Mul", func(s kyber.Scalar) { im.NewPoint().Mul(s, other()) }},
		{"Scalar.Add", func(s kyber.Scalar) { im.G.Scalar().Add(s, otherS()); im.G.Scalar().Add(otherS(), s) }},
		{"Scalar.Sub", func(s kyber.Scalar) { im.G.Scalar().Sub(s, otherS()); im.G.Scalar().Sub(otherS(), s) }},
		{"Scalar.Mul", func(s kyber.Scalar) { im.G.Scalar().Mul(s, otherS()); im.G.Scalar().Mul(otherS(), s) }},
		{"Scalar.Neg", func(s kyber.Scalar) { im.G.Scalar().Neg(s) }},
		{"Scalar.Set", func(s kyber.Scalar) { im.G.Scalar().Set(s) }},
		{"Scalar.Clone", func(s kyber.Scalar) { s.Clone() }},
		{"Scalar.Equal", func(s kyber.Scalar) { s.Equal(otherS()); otherS().Equal(s); s.Equal(s) }},
		{"Scalar.MarshalBinary", func(s kyber.Scalar) { _, _ = s.MarshalBinary(); _ = s.String() }},
		{"Scalar.Div", func(s kyber.Scalar) { im.G.Scalar().Div(s, im.NewScalar(big.NewInt(3))) }},
	}
	if im.HasMulBase {
		sops = append(sops, sop{"MulBase", func(s kyber.Scalar) { im.NewPoint().Mul(s, nil) }})
	}
	for _, f := range hg.ScalarForms(im, r.rng) {
		ops := sops
		if new(big.Int).GCD(nil, nil, new(big.Int).Mod(hg.ScalarVal(f.Mk()), r.q), r.q).Cmp(big.NewInt(1)) == 0 {
			ops = append(append([]sop{}, sops...), sop{"Scalar.Inv", func(s kyber.Scalar) { im.G.Scalar().Inv(s); im.G.Scalar().Div(otherS(), s) }})
		}
		for _, op := range ops {
			key := ""
			var before, after string
			pan, msg := vh.Try(func() {
				s := f.Mk()
				keep := s.Clone()
				eq0 := s.Equal(keep) && keep.Equal(s)
				before = sview(s)
				op.f(s)
				after = sview(s)
				if before != after || (s.Equal(keep) && keep.Equal(s)) != eq0 {
					key = im.Name + "." + op.name + "/operand-changed{scalar " + f.Name + "}"
				}
			})
			if pan {
				r.rep.Fail(im.Name+"."+op.name+"/panic{scalar "+f.Name+"}", msg, nil)
			} else if key != "" {
				r.rep.Fail(key, "an operand (not the receiver) shows a different value after the call",
					map[string]interface{}{"impl": im.Name, "operation": op.name, "operand_state": f.Name, "before": before, "after": after})
			}
			r.rep.Dist("operand-state:scalar " + f.Name)
		}
	}
	type pop struct {
		name string
		f    func(p kyber.Point)
	}
	pops := []pop{
		{"Add", func(p kyber.Point) {
			im.NewPoint().Add(p, other())
			im.NewPoint().Add(other(), p)
			im.NewPoint().Add(p, p)
		}},
		{"Sub", func(p kyber.Point) {
			im.NewPoint().Sub(p, other())
			im.NewPoint().Sub(other(), p)
			im.NewPoint().Sub(p, p)
		}},
		{"Neg", func(p kyber.Point) { im.NewPoint().Neg(p) }},
		{"Set", func(p kyber.Point) { im.NewPoint().Set(p) }},
		{"Mul", func(p kyber.Point) { im.NewPoint().Mul(otherS(), p) }},
		{"Clone", func(p kyber.Point) { p.Clone() }},
		{"Equal", func(p kyber.Point) { p.Equal(other()); other().Equal(p); p.Equal(p) }},
		{"MarshalBinary", func(p kyber.Point) { _, _ = p.MarshalBinary(); _ = p.String() }},
	}
	if im.HasEmbed {
		pops = append(pops, pop{"Data", func(p kyber.Point) { _, _ = p.Data() }})
	}
	for _, f := range hg.PointForms(im, r.rng) {
		for _, op := range pops {
			key := ""
			var before, after string
			pan, msg := vh.Try(func() {
				p := f.Mk()
				if im.Prep != nil {
					im.Prep(p)
				}
				keep := p.Clone()
				eq0 := p.Equal(keep) && keep.Equal(p)
				before = pview(p)
				op.f(p)
				after = pview(p)
				if before != after || (p.Equal(keep) && keep.Equal(p)) != eq0 {
					key = im.Name + "." + op.name + "/operand-changed{point " + f.Name + "}"
				}
			})
			if pan {
				r.rep.Fail(im.Name+"."+op.name+"/panic{point "+f.Name+"}", msg, nil)
			} else if key != "" {
				r.rep.Fail(key, "an operand (not the receiver) shows a different value after the call",
					map[string]interface{}{"impl": im.Name, "operation": op.name, "operand_state": f.Name, "before": before, "after": after})
			}
			r.rep.Dist("operand-state:point " + f.Name)
		}
	}
	r.checkConstants("operand-state matrix", true)
}

// separationAfter: the history continues after res := recv.Op(a, b).  First the receiver is
// updated in place several times (growing it to full size) and every operand must keep its value;
// then every operand is updated in place and the receiver (and the other operand) must keep
// theirs.  Operands and receivers are prepared in the states where storage sharing stays invisible
// right after the call: zeros and small values living in objects that held full-size values before
// (Sub(x,x), Zero(), SetInt64(0|1|5) on a used object, Mul by zero), fresh zeros, ordinary values.
func (r *runner) separationAfter() {
	im := r.im
	G := im.G
	full := func() kyber.Scalar { return im.NewScalar(new(big.Int).Sub(r.q, r.rng.BigBelow(big.NewInt(1000)))) }
	rnd := func() kyber.Scalar { return im.NewScalar(r.rng.BigBelow(r.q)) }
	type sst struct {
		name string
		mk   func() kyber.Scalar
	}
	sstates := []sst{
		{"random", rnd},
		{"fresh Zero()", func() kyber.Scalar { return G.Scalar().Zero() }},
		{"fresh One()", func() kyber.Scalar { return G.Scalar().One() }},
		{"used: Sub(x,x)", func() kyber.Scalar { x := full(); return x.Sub(x, x) }},
		{"used: Zero()", func() kyber.Scalar { return full().Zero() }},
		{"used: SetInt64(0)", func() kyber.Scalar { return full().SetInt64(0) }},
		{"used: SetInt64(1)", func() kyber.Scalar { return full().SetInt64(1) }},
		{"used: SetInt64(5)", func() kyber.Scalar { return full().SetInt64(5) }},
		{"used: One()", func() kyber.Scalar { return full().One() }},
		{"used: Mul(x,0)", func() kyber.Scalar { x := full(); return x.Mul(x, G.Scalar().Zero()) }},
		{"used: Set(0)", func() kyber.Scalar { return full().Set(G.Scalar().Zero()) }},
		{"used: SetBytes(empty)", func() kyber.Scalar { return full().SetBytes([]byte{}) }},
		{"used: Neg(0)", func() kyber.Scalar { return full().Neg(G.Scalar().Zero()) }},
	}
	sval := func(x kyber.Scalar) string { return hg.ScalarVal(x).String() }
	type sop struct {
		name  string
		arity int
		f     func(recv, a, b kyber.Scalar) kyber.Scalar
		ok    func(a, b kyber.Scalar) bool
	}
	inv := func(x kyber.Scalar) bool { return new(big.Int).ModInverse(hg.ScalarVal(x), r.q) != nil }
	sops := []sop{
		{"Scalar.Add", 2, func(v, a, b kyber.Scalar) kyber.Scalar { return v.Add(a, b) }, nil},
		{"Scalar.Sub", 2, func(v, a, b kyber.Scalar) kyber.Scalar { return v.Sub(a, b) }, nil},
		{"Scalar.Mul", 2, func(v, a, b kyber.Scalar) kyber.Scalar { return v.Mul(a, b) }, nil},
		{"Scalar.Div", 2, func(v, a, b kyber.Scalar) kyber.Scalar { return v.Div(a, b) }, func(a, b kyber.Scalar) bool { return inv(b) }},
		{"Scalar.Neg", 1, func(v, a, _ kyber.Scalar) kyber.Scalar { return v.Neg(a) }, nil},
		{"Scalar.Inv", 1, func(v, a, _ kyber.Scalar) kyber.Scalar { return v.Inv(a) }, func(a, _ kyber.Scalar) bool { return inv(a) }},
		{"Scalar.Set", 1, func(v, a, _ kyber.Scalar) kyber.Scalar { return v.Set(a) }, nil},
		{"Scalar.Clone", 1, func(_, a, _ kyber.Scalar) kyber.Scalar { return a.Clone() }, nil},
	}
	grow := []func(x kyber.Scalar){
		func(x kyber.Scalar) { x.Add(x, full()) },
		func(x kyber.Scalar) { x.Mul(x, full()) },
		func(x kyber.Scalar) { x.Sub(x, rnd()) },
		func(x kyber.Scalar) { x.Neg(x) },
		func(x kyber.Scalar) { x.SetInt64(3) },
		func(x kyber.Scalar) { x.Add(x, full()) },
	}
	fail := func(key, state string, info map[string]interface{}) {
		info["impl"], info["operand_state"] = im.Name, state
		r.rep.Fail(key+"{"+state+"}", "receiver and operand are not separate objects after the call: a later in-place update of one changed the other", info)
	}
	for _, op := range sops {
		for ai, sa := range sstates {
			for bi, sb := range sstates {
				if op.arity == 1 && bi > 0 {
					break
				}
				if op.arity == 2 && bi > 2 && bi != 3 && ai != bi {
					continue // second operand: ordinary, fresh zero, fresh one, used zero, or the same state as the first
				}
				for _, usedRecv := range []bool{false, true} {
					state := sa.name
					if op.arity == 2 {
						state += " / " + sb.name
					}
					if usedRecv {
						state += " / used receiver"
					}
					pan, msg := vh.Try(func() {
						// several continuations, each on a fresh instance of the call: sharing can be
						// broken by the first write that reallocates, so every kind of first write is tried
						for first := -1; first < len(grow); first++ {
							a, b := sa.mk(), sb.mk()
							if op.ok != nil && !op.ok(a, b) {
								return
							}
							recv := G.Scalar()
							if usedRecv {
								recv = full()
							}
							res := op.f(recv, a, b)
							va, vb := sval(a), sval(b)
							order := grow
							if first >= 0 {
								order = []func(kyber.Scalar){grow[first]}
							}
							for k, g := range order {
								g(res)
								if sval(a) != va || sval(b) != vb {
									fail(im.Name+"."+op.name+"/operand-changed-by-later-receiver-write", state,
										map[string]interface{}{"first_write": first, "step": k, "a_before": va, "a_now": sval(a), "b_before": vb, "b_now": sval(b)})
									return
								}
							}
							operands := []kyber.Scalar{a}
							if op.arity == 2 {
								operands = append(operands, b)
							}
							for oi, x := range operands {
								vr := sval(res)
								vo := sval(operands[len(operands)-1-oi])
								for k, g := range grow {
									g(x)
									if sval(res) != vr || (len(operands) == 2 && sval(operands[1-oi]) != vo) {
										fail(im.Name+"."+op.name+"/receiver-changed-by-later-operand-write", state,
											map[string]interface{}{"first_write": first, "operand": oi, "step": k, "receiver_before": vr, "receiver_now": sval(res)})
										return
									}
								}
							}
						}
					})
					if pan {
						r.rep.Fail(im.Name+"."+op.name+"/panic-in-continued-history{"+state+"}", msg, nil)
					}
					r.rep.Dist("separation:" + op.name)
				}
			}
		}
	}
	// points: fresh computed values are sums of a few precomputed points (used as operands only)
	var pre []kyber.Point
	for i := 0; i < 5; i++ {
		pre = append(pre, hg.NonNormal(im, r.rng))
	}
	sum := func() kyber.Point {
		i := r.rng.Intn(len(pre))
		j := (i + 1 + r.rng.Intn(len(pre)-1)) % len(pre)
		p := im.NewPoint().Add(pre[i], pre[j])
		if r.rng.Bool() {
			p.Add(p, pre[(j+1)%len(pre)])
		}
		return p
	}
	type pst struct {
		name string
		mk   func() kyber.Point
	}
	pstates := []pst{
		{"computed", sum},
		{"fresh Null()", func() kyber.Point { return im.NewPoint().Null() }},
		{"generator", func() kyber.Point { return im.Gen() }},
		{"used: Null()", func() kyber.Point { return sum().Null() }},
		{"used: Sub(p,p)", func() kyber.Point { p := sum(); return p.Sub(p, p) }},
		{"used: Set(Null)", func() kyber.Point { return sum().Set(im.NewPoint().Null()) }},
		{"used: Mul(0,p)", func() kyber.Point { p := sum(); return p.Mul(G.Scalar().Zero(), p) }},
		{"used: Neg(Null)", func() kyber.Point { return sum().Neg(im.NewPoint().Null()) }},
		{"decoded", func() kyber.Point { return im.FreshPoint(hg.Enc(sum())) }},
	}
	if im.HasBase {
		pstates = append(pstates, pst{"used: Base()", func() kyber.Point { return sum().Base() }})
	}
	type pop struct {
		name  string
		arity int
		f     func(recv, a, b kyber.Point) kyber.Point
	}
	pops := []pop{
		{"Add", 2, func(v, a, b kyber.Point) kyber.Point { return v.Add(a, b) }},
		{"Sub", 2, func(v, a, b kyber.Point) kyber.Point { return v.Sub(a, b) }},
		{"Neg", 1, func(v, a, _ kyber.Point) kyber.Point { return v.Neg(a) }},
		{"Set", 1, func(v, a, _ kyber.Point) kyber.Point { return v.Set(a) }},
		{"Clone", 1, func(_, a, _ kyber.Point) kyber.Point { return a.Clone() }},
		{"Mul", 1, func(v, a, _ kyber.Point) kyber.Point { return v.Mul(im.NewScalar(big.NewInt(1)), a) }},
		{"Mul(0)", 1, func(v, a, _ kyber.Point) kyber.Point { return v.Mul(G.Scalar().Zero(), a) }},
	}
	pgrow := []func(x kyber.Point){
		func(x kyber.Point) { x.Add(x, sum()) },
		func(x kyber.Point) { x.Neg(x) },
		func(x kyber.Point) { x.Sub(x, sum()) },
		func(x kyber.Point) { x.Add(x, x) },
	}
	if !im.Slow {
		pgrow = append(pgrow, func(x kyber.Point) { x.Mul(im.NewScalar(big.NewInt(3)), x) })
	}
	for _, op := range pops {
		for ai, sa := range pstates {
			for bi, sb := range pstates {
				if op.arity == 1 && bi > 0 {
					break
				}
				if op.arity == 2 && bi != 0 && bi != 3 && !(ai == bi && !im.Slow) {
					continue // second operand: computed, used Null(), or the same state as the first
				}
				state := sa.name
				if op.arity == 2 {
					state += " / " + sb.name
				}
				pan, msg := vh.Try(func() {
					for first := -1; first < 2; first++ {
						a, b := sa.mk(), sb.mk()
						recv := im.NewPoint()
						st := state
						if (ai+bi+first)%2 == 0 {
							recv = sum()
							if im.Prep != nil {
								im.Prep(recv)
							}
							st += " / used receiver"
						}
						res := op.f(recv, a, b)
						va, vb := hg.Enc(a), hg.Enc(b)
						order := pgrow
						if first >= 0 {
							order = []func(kyber.Point){pgrow[first]}
						}
						for k, g := range order {
							g(res)
							if hg.Enc(a) != va || hg.Enc(b) != vb {
								fail(im.Name+"."+op.name+"/operand-changed-by-later-receiver-write", "point "+st, map[string]interface{}{"first_write": first, "step": k})
								return
							}
						}
						operands := []kyber.Point{a}
						if op.arity == 2 {
							operands = append(operands, b)
						}
						for oi, x := range operands {
							vr := hg.Enc(res)
							vo := hg.Enc(operands[len(operands)-1-oi])
							for k, g := range pgrow {
								g(x)
								if hg.Enc(res) != vr || (len(operands) == 2 && hg.Enc(operands[1-oi]) != vo) {
									fail(im.Name+"."+op.name+"/receiver-changed-by-later-operand-write", "point "+st, map[string]interface{}{"first_write": first, "operand": oi, "step": k})
									return
								}
							}
						}
					}
				})
				if pan {
					r.rep.Fail(im.Name+"."+op.name+"/panic-in-continued-history{point "+state+"}", msg, nil)
				}
				r.rep.Dist("separation:" + op.name)
			}
		}
	}
	r.checkConstants("continued histories", false)
}

func (r *runner) snapshot() []string {
	var o []string
	for _, p := range r.pts {
		o = append(o, "p:"+hg.Enc(p))
	}
	for _, s := range r.scs {
		o = append(o, "s:"+hg.ScalarVal(s).String())
	}
	return o
}

func (r *runner) value(enc string) *big.Int {
	// enc is a tagged observation: "s:"+decimal value of a scalar, "p:"+raw encoding of a point
	// (raw point encodings are arbitrary bytes: they must never be inspected for a tag themselves)
	if strings.HasPrefix(enc, "s:") {
		if v, ok := new(big.Int).SetString(enc[2:], 10); ok {
			return v
		}
		return big.NewInt(-1)
	}
	if v, ok := r.tab[enc[2:]]; ok {
		return v
	}
	return big.NewInt(-1)
}

func pattern(env []int) string {
	names := []string{"r", "a", "b"}
	var parts []string
	seen := map[int]bool{}
	for i := range env {
		if seen[i] {
			continue
		}
		grp := []string{names[i]}
		for j := i + 1; j < len(env); j++ {
			if env[j] == env[i] {
				grp = append(grp, names[j])
				seen[j] = true
			}
		}
		if len(grp) > 1 {
			parts = append(parts, strings.Join(grp, "="))
		}
	}
	if len(parts) == 0 {
		return "distinct"
	}
	return strings.Join(parts, ",")
}

// apply performs call c on the given pool and returns the returned object's encoding
func (r *runner) apply(c *call, pts []kyber.Point, scs []kyber.Scalar) string {
	im := r.im
	P := func(i int) kyber.Point { return pts[c.env[i]] }
	S := func(i int) kyber.Scalar { return scs[c.env[i]-np] }
	var rp kyber.Point
	var rs kyber.Scalar
	switch c.m {
	case mAdd:
		rp = P(0).Add(P(1), P(2))
	case mSub:
		rp = P(0).Sub(P(1), P(2))
	case mNeg:
		rp = P(0).Neg(P(1))
	case mMul:
		rp = P(0).Mul(S(1), P(2))
	case mMulBase:
		rp = P(0).Mul(S(1), nil)
	case mNull:
		rp = P(0).Null()
	case mBase:
		rp = P(0).Base()
	case mSet:
		rp = P(0).Set(P(1))
	case mClone:
		rp = P(1).Clone()
		pts[c.env[0]] = rp
	case mPick:
		rp = P(0).Pick(vh.NewSeqStream(r.seed[0]))
	case mEmbed:
		rp = P(0).Embed(r.edat, vh.NewSeqStream(r.seed[1]))
	case sAdd:
		rs = S(0).Add(S(1), S(2))
	case sSub:
		rs = S(0).Sub(S(1), S(2))
	case sNeg:
		rs = S(0).Neg(S(1))
	case sMul:
		rs = S(0).Mul(S(1), S(2))
	case sDiv:
		rs = S(0).Div(S(1), S(2))
	case sInv:
		rs = S(0).Inv(S(1))
	case sOne:
		rs = S(0).One()
	case sZero:
		rs = S(0).Zero()
	case sSetInt:
		rs = S(0).SetInt64(c.k)
	case sPick:
		rs = S(0).Pick(vh.NewSeqStream(c.data))
	case sSetBytes:
		rs = S(0).SetBytes(c.data)
	case sSet:
		rs = S(0).Set(S(1))
	case sClone:
		rs = S(1).Clone()
		scs[c.env[0]-np] = rs
	}
	_ = im
	if rp != nil {
		return "p:" + hg.Enc(rp)
	}
	return "s:" + hg.ScalarVal(rs).String()
}

// mirror: value semantics on the tracked coordinates; also fills c.orc
func (r *runner) mirror(c *call) {
	pv := func(i int) vec { return r.pv[c.env[i]] }
	sv := func(i int) *big.Int { return r.sv[c.env[i]-np] }
	lin := func(f func(i int) *big.Int) vec {
		var o vec
		for i := 0; i < 3; i++ {
			o[i] = r.mod(f(i))
		}
		return o
	}
	unit := func(k int) vec { v := zvec(); v[k] = big.NewInt(1); return v }
	c.orc = new(big.Int)
	setP := func(v vec) { r.pv[c.env[0]] = v; r.lincomb(v) }
	setS := func(v *big.Int) { r.sv[c.env[0]-np] = r.mod(v) }
	switch c.m {
	case mAdd:
		a, b := pv(1), pv(2)
		setP(lin(func(i int) *big.Int { return new(big.Int).Add(a[i], b[i]) }))
	case mSub:
		a, b := pv(1), pv(2)
		setP(lin(func(i int) *big.Int { return new(big.Int).Sub(a[i], b[i]) }))
	case mNeg:
		a := pv(1)
		setP(lin(func(i int) *big.Int { return new(big.Int).Neg(a[i]) }))
	case mMul:
		s, b := sv(1), pv(2)
		setP(lin(func(i int) *big.Int { return new(big.Int).Mul(s, b[i]) }))
	case mMulBase:
		s := sv(1)
		b := unit(0)
		setP(lin(func(i int) *big.Int { return new(big.Int).Mul(s, b[i]) }))
	case mNull:
		setP(zvec())
	case mBase:
		setP(unit(0))
	case mSet, mClone:
		a := pv(1)
		setP(lin(func(i int) *big.Int { return a[i] }))
	case mPick:
		setP(unit(1))
		c.orc = r.rho[1]
	case mEmbed:
		setP(unit(2))
		c.orc = r.rho[2]
	case sAdd:
		setS(new(big.Int).Add(sv(1), sv(2)))
	case sSub:
		setS(new(big.Int).Sub(sv(1), sv(2)))
	case sNeg:
		setS(new(big.Int).Neg(sv(1)))
	case sMul:
		setS(new(big.Int).Mul(sv(1), sv(2)))
	case sDiv:
		inv := new(big.Int).ModInverse(sv(2), r.q)
		c.orc = inv
		setS(new(big.Int).Mul(sv(1), inv))
	case sInv:
		inv := new(big.Int).ModInverse(sv(1), r.q)
		c.orc = inv
		setS(inv)
	case sOne:
		setS(big.NewInt(1))
	case sZero:
		setS(new(big.Int))
	case sSetInt:
		c.orc = r.mod(big.NewInt(c.k))
		setS(c.orc)
	case sPick:
		c.orc = hg.ScalarVal(r.im.G.Scalar().Pick(vh.NewSeqStream(c.data)))
		setS(c.orc)
	case sSetBytes:
		c.orc = hg.ScalarVal(r.im.G.Scalar().SetBytes(c.data))
		setS(c.orc)
	case sSet, sClone:
		setS(sv(1))
	}
}

func (r *runner) supported(m int) bool {
	im := r.im
	switch m {
	case mBase:
		return im.HasBase
	case mMulBase:
		return im.HasMulBase
	case mPick:
		return im.HasPick
	case mEmbed:
		return im.HasEmbed
	}
	return true
}

var pointMethods = []int{mAdd, mSub, mNeg, mMul, mMulBase, mNull, mBase, mSet, mClone, mPick, mEmbed}
var scalarMethods = []int{sAdd, sSub, sNeg, sMul, sDiv, sInv, sOne, sZero, sSetInt, sPick, sSetBytes, sSet, sClone}

func arity(m int) int { // number of variables (receiver included)
	switch m {
	case mAdd, mSub, mMul, sAdd, sSub, sMul, sDiv:
		return 3
	case mNeg, mSet, mClone, mMulBase, sNeg, sInv, sSet, sClone:
		return 2
	}
	return 1
}

// cell of variable i of method m, given abstract slot numbers (0..2)
func (r *runner) cellsFor(m int, slots []int) []int {
	env := make([]int, len(slots))
	for i, s := range slots {
		isScalar := m >= 20 || ((m == mMul || m == mMulBase) && i == 1)
		if isScalar {
			env[i] = np + s%ns
		} else {
			env[i] = s % np
		}
	}
	return env
}

func (r *runner) fill(c *call) bool {
	switch c.m {
	case sSetInt:
		ks := []int64{0, 1, -1, 2, -2, 1 << 40, -(1 << 40), 9223372036854775807, -9223372036854775807}
		c.k = ks[r.rng.Intn(len(ks))]
		if r.rng.Bool() {
			c.k = int64(r.rng.U64())
		}
	case sPick:
		c.data = r.rng.Bytes(16)
	case sSetBytes:
		c.data = r.rng.Bytes(r.rng.Intn(40))
	case sDiv:
		if new(big.Int).ModInverse(r.sv[c.env[2]-np], r.q) == nil {
			return false
		}
	case sInv:
		if new(big.Int).ModInverse(r.sv[c.env[1]-np], r.q) == nil {
			return false
		}
	}
	return true
}

// step runs one call: oracles on the implementation, mirror, observation
func (r *runner) step(c *call) (obs []*big.Int, ok bool) {
	im := r.im
	name := im.Name + "." + mname[c.m]
	pat := pattern(c.env)
	before := r.snapshot()
	// the same call on fresh, unaliased copies
	fp := make([]kyber.Point, np)
	fs := make([]kyber.Scalar, ns)
	fenv := make([]int, len(c.env))
	usedP, usedS := 0, 0
	for i, cell := range c.env {
		if cell < np {
			fp[usedP] = im.FreshPoint(before[cell][2:])
			fenv[i] = usedP
			usedP++
		} else {
			fs[usedS] = im.FreshScalar(r.scs[cell-np])
			fenv[i] = np + usedS
			usedS++
		}
	}
	fc := *c
	fc.env = fenv
	var freshRecv string
	replay := map[string]interface{}{"impl": im.Name, "method": mname[c.m], "cells": c.env, "pattern": pat,
		"before": hexAll(before)}
	if pan, msg := vh.Try(func() {
		r.apply(&fc, fp, fs)
		if fenv[0] < np {
			freshRecv = "p:" + hg.Enc(fp[fenv[0]])
		} else {
			freshRecv = "s:" + hg.ScalarVal(fs[fenv[0]-np]).String()
		}
	}); pan {
		r.rep.Fail(name+"/panic[fresh]", "panic on unaliased operands: "+msg, replay)
		return nil, false
	}
	var ret string
	if pan, msg := vh.Try(func() { ret = r.apply(c, r.pts, r.scs) }); pan {
		r.rep.Fail(name+"/panic["+pat+"]", "panic: "+msg, replay)
		return nil, false
	}
	if im.Prep != nil { // Clone does not carry the opt-in flag: the program switches it on again
		for _, p := range r.pts {
			im.Prep(p)
		}
	}
	after := r.snapshot()
	r.checkConstants(name+"["+pat+"]", false)
	replay["after"] = hexAll(after)
	replay["returned"] = hexAll([]string{ret})[0]
	replay["fresh_result"] = hexAll([]string{freshRecv})[0]
	rc := c.env[0]
	if ret != after[rc] {
		r.rep.Fail(name+"/receiver-differs-from-result", "the receiver does not hold the value the method returned", replay)
	}
	for i := range after {
		if i != rc && after[i] != before[i] {
			r.rep.Fail(name+"/operand-changed["+pat+"]", fmt.Sprintf("variable %d changed although it is not the receiver", i), replay)
		}
	}
	if after[rc] != freshRecv {
		r.rep.Fail(name+"/aliased-differs["+pat+"]", "result differs from the one computed on fresh unaliased copies", replay)
	}
	r.mirror(c)
	for _, e := range after {
		obs = append(obs, r.value(e))
	}
	obs = append(obs, r.value(ret))
	r.rep.Dist(mname[c.m] + "[" + pat + "]")
	return obs, true
}

func hexAll(s []string) []string {
	var o []string
	for _, x := range s {
		if strings.HasPrefix(x, "s:") {
			o = append(o, x)
		} else {
			o = append(o, vh.Hex([]byte(x[2:])))
		}
	}
	return o
}

// runProgram executes the calls produced by gen (gen returns nil to stop) and emits a case
func (r *runner) runProgram(id int, gen func(k int) *call, items *[]string) {
	trace = trace[:0]
	init := r.initPool()
	{
		var iv []string
		for _, v := range init {
			iv = append(iv, v.String())
		}
		trace = append(trace, "init "+strings.Join(iv, ","))
	}
	var calls []string
	var observed []string
	var desc []string
	for k := 0; ; k++ {
		c := gen(k)
		if c == nil {
			break
		}
		if !r.supported(c.m) || !r.fill(c) {
			continue
		}
		trace = append(trace, fmt.Sprintf("%s%v k=%d data=%x", mname[c.m], c.env, c.k, c.data))
		obs, ok := r.step(c)
		if !ok {
			break
		}
		var envs, os []string
		for _, e := range c.env {
			envs = append(envs, vh.CoqInt(e))
		}
		for _, o := range obs {
			os = append(os, vh.CoqZ(o))
		}
		calls = append(calls, fmt.Sprintf("(%d, %s, %s)", c.m, vh.CoqList(envs), vh.CoqZ(c.orc)))
		observed = append(observed, vh.CoqList(os))
		desc = append(desc, fmt.Sprintf("%s%v", mname[c.m], c.env))
	}
	r.checkConstants("program "+strings.Join(desc, ";"), true)
	if len(calls) > 0 && r.im.OracleOnly {
		r.rep.Count(r.im.Name+":"+strings.Join(desc, ";"), true)
	}
	if len(calls) == 0 || r.im.OracleOnly {
		return
	}
	var is []string
	for _, v := range init {
		is = append(is, vh.CoqZ(v))
	}
	*items = append(*items, fmt.Sprintf("(CProg %d %s %d %d %d %d %s %s %s)", id, vh.CoqZ(r.q), r.im.PImpl, r.im.SImpl, np, ns,
		vh.CoqList(is), vh.CoqList(calls), vh.CoqList(observed)))
	canon := r.im.Name + ":" + strings.Join(desc, ";")
	r.rep.Count(canon, true)
	r.rep.Index(id, map[string]interface{}{"impl": r.im.Name, "calls": desc})
	r.rep.Sample(map[string]interface{}{"impl": r.im.Name, "calls": desc})
}

var patterns3 = [][]int{{0, 1, 2}, {0, 0, 1}, {0, 1, 0}, {0, 1, 1}, {0, 0, 0}}
var patterns2 = [][]int{{0, 1}, {0, 0}}

func (r *runner) slotPatterns(m int) [][]int {
	switch arity(m) {
	case 3:
		if m == mMul { // receiver / scalar / point: the point may be the receiver
			return [][]int{{0, 0, 1}, {0, 0, 0}, {0, 1, 0}}
		}
		return patterns3
	case 2:
		if m == mMulBase {
			return [][]int{{0, 0}}
		}
		return patterns2
	}
	return [][]int{{0}}
}

// cloneIndependence: after c := p.Clone() / c.Set(p), no mutation of one changes the other
func (r *runner) cloneIndependence() {
	im := r.im
	type mut struct {
		name string
		f    func(p kyber.Point)
	}
	other := func() kyber.Point {
		return im.NewPoint().Mul(im.NewScalar(r.rng.EdgeScalar(r.q)), im.Gen())
	}
	muts := []mut{
		{"Null", func(p kyber.Point) { p.Null() }},
		{"Neg", func(p kyber.Point) { p.Neg(p) }},
		{"Add", func(p kyber.Point) { p.Add(p, other()) }},
		{"Sub", func(p kyber.Point) { p.Sub(other(), p) }},
		{"Set", func(p kyber.Point) { p.Set(other()) }},
		{"Mul", func(p kyber.Point) { p.Mul(im.NewScalar(big.NewInt(3)), p) }},
		{"UnmarshalBinary", func(p kyber.Point) { _ = p.UnmarshalBinary([]byte(hg.Enc(other()))) }},
	}
	if im.HasBase {
		muts = append(muts, mut{"Base", func(p kyber.Point) { p.Base() }})
	}
	if im.HasPick {
		muts = append(muts, mut{"Pick", func(p kyber.Point) { p.Pick(vh.NewSeqStream(r.rng.Bytes(8))) }})
	}
	if im.HasEmbed {
		muts = append(muts, mut{"Embed", func(p kyber.Point) { p.Embed([]byte{1, 2, 3}, vh.NewSeqStream(r.rng.Bytes(8))) }})
	}
	starts := []func() kyber.Point{
		func() kyber.Point { return other() },
		func() kyber.Point { return im.FreshPoint(r.lincomb(vec{big.NewInt(1), new(big.Int), new(big.Int)})) },
		func() kyber.Point { return im.FreshPoint(r.lincomb(zvec())) },
		func() kyber.Point { p := other(); return im.NewPoint().Add(p, other()) }, // non-normalised representation
		func() kyber.Point { return im.NewPoint().Null() },                        // values obtained from the group itself
		func() kyber.Point { return im.Gen() },
	}
	if im.HasMulBase {
		starts = append(starts, func() kyber.Point { return im.NewPoint().Mul(im.NewScalar(big.NewInt(5)), nil) })
	}
	for _, how := range []string{"Clone", "Set"} {
		for si, st := range starts {
			for _, mu := range muts {
				for dir := 0; dir < 2; dir++ {
					var key string
					pan, msg := vh.Try(func() {
						p := st()
						var c kyber.Point
						if how == "Clone" {
							c = p.Clone()
						} else {
							c = im.NewPoint().Set(p)
						}
						want := hg.Enc(p)
						if hg.Enc(c) != want {
							key = im.Name + "." + how + "/copy-differs"
							return
						}
						if dir == 0 {
							mu.f(p)
							if hg.Enc(c) != want {
								key = im.Name + "." + how + "/copy-changed-by:" + mu.name
							}
						} else {
							mu.f(c)
							if hg.Enc(p) != want {
								key = im.Name + "." + how + "/source-changed-by:" + mu.name
							}
						}
					})
					r.checkConstants(how+" then "+mu.name, false)
					if pan {
						r.rep.Fail(im.Name+"."+how+"/panic:"+mu.name, msg, map[string]interface{}{"start": si})
					} else if key != "" {
						r.rep.Fail(key, "Clone/Set result is not independent of its source",
							map[string]interface{}{"impl": im.Name, "copy": how, "mutation": mu.name, "start": si, "mutated": []string{"source", "copy"}[dir]})
					}
					r.rep.Dist("independence:" + how)
				}
			}
		}
	}
	// scalars
	type smut struct {
		name string
		f    func(s kyber.Scalar)
	}
	so := func() kyber.Scalar { return im.NewScalar(r.rng.EdgeScalar(r.q)) }
	smuts := []smut{
		{"Zero", func(s kyber.Scalar) { s.Zero() }}, {"One", func(s kyber.Scalar) { s.One() }},
		{"SetInt64", func(s kyber.Scalar) { s.SetInt64(-7) }}, {"Neg", func(s kyber.Scalar) { s.Neg(s) }},
		{"Add", func(s kyber.Scalar) { s.Add(s, so()) }}, {"Mul", func(s kyber.Scalar) { s.Mul(so(), s) }},
		{"Set", func(s kyber.Scalar) { s.Set(so()) }}, {"SetBytes", func(s kyber.Scalar) { s.SetBytes([]byte{9, 9}) }},
		{"Pick", func(s kyber.Scalar) { s.Pick(vh.NewSeqStream(r.rng.Bytes(8))) }},
		{"Sub", func(s kyber.Scalar) { s.Sub(so(), s) }},
	}
	for _, how := range []string{"Clone", "Set"} {
		for _, mu := range smuts {
			for dir := 0; dir < 2; dir++ {
				for _, start := range []*big.Int{r.rng.BigBelow(r.q), new(big.Int).Sub(r.q, big.NewInt(1)), big.NewInt(0)} {
					p := im.NewScalar(start)
					var c kyber.Scalar
					if how == "Clone" {
						c = p.Clone()
					} else {
						c = im.G.Scalar().Set(p)
					}
					want := hg.ScalarVal(p).String()
					bad := ""
					if hg.ScalarVal(c).String() != want {
						bad = "/copy-differs"
					} else if dir == 0 {
						mu.f(p)
						if hg.ScalarVal(c).String() != want {
							bad = "/copy-changed-by:" + mu.name
						}
					} else {
						mu.f(c)
						if hg.ScalarVal(p).String() != want {
							bad = "/source-changed-by:" + mu.name
						}
					}
					if bad != "" {
						r.rep.Fail(im.Name+".Scalar."+how+bad, "scalar Clone/Set result is not independent of its source",
							map[string]interface{}{"impl": im.Name, "start": start.String(), "mutation": mu.name})
					}
				}
			}
		}
	}
}

func merge(rep, sub *vh.Report) {
	rep.Evaluations += sub.Evaluations
	rep.Distinct += sub.Distinct
	for k, v := range sub.Distribution {
		rep.Distribution[k] += v
	}
	for _, f := range sub.Failures {
		rep.Fail(f.Key, f.Desc, f.Replay)
		rep.Distribution["oracle_failure:"+f.Key]--
	}
	for k, v := range sub.CaseIndex {
		rep.CaseIndex[k] = v
	}
	for _, x := range sub.Samples {
		rep.Sample(x)
	}
	rep.Notes = append(rep.Notes, sub.Notes...)
}

func inPlaceMulOK(im *hg.Impl, rng *vh.Rng, rep *vh.Report) bool {
	ok := true
	for k := 0; k < 3; k++ {
		s := new(big.Int).Add(rng.BigBelow(new(big.Int).Sub(im.Q, big.NewInt(3))), big.NewInt(2))
		if k == 0 {
			s = big.NewInt(8) // the cofactor-sized multiplier Pick uses
		}
		pan, msg := vh.Try(func() {
			want := hg.Enc(im.NewPoint().Mul(im.NewScalar(s), im.Gen()))
			p := im.Gen()
			ret := p.Mul(im.NewScalar(s), p)
			if hg.Enc(p) != want || hg.Enc(ret) != want {
				ok = false
				rep.Fail(im.Name+".Mul/aliased-differs[r=b]", "result differs from the one computed on fresh unaliased copies (pre-flight on the generator)",
					map[string]interface{}{"impl": im.Name, "scalar": s.String(), "fresh_result": vh.Hex([]byte(want)), "after": vh.Hex([]byte(hg.Enc(p)))})
			}
		})
		if pan {
			ok = false
			rep.Fail(im.Name+".Mul/panic[r=b]", msg, nil)
		}
	}
	return ok
}

func runImpl(im *hg.Impl, rng *vh.Rng, rep *vh.Report, itemsp *[]string, id, draws, progs int, search bool) int {
	items := *itemsp
	defer func() { *itemsp = items }()
	{
		// pre-flight: Pick / Embed multiply by the cofactor in place and retry while the result is the
		// identity, so a broken in-place Mul makes them loop for ever; find that out first (on the
		// generator, no Pick involved), report it, and leave Pick / Embed out for this implementation
		// so that the rest of the matrix and the correspondence still run
		if !inPlaceMulOK(im, rng, rep) {
			cp := *im
			cp.HasPick, cp.HasEmbed = false, false
			im = &cp
		}
		r := newRunner(im, rng, rep)
		d, p := draws, progs
		if (im.Slow || im.Alt) && !search {
			d, p = (draws+1)/2, (progs+1)/2
		}
		r.cloneIndependence()
		r.operandStates()
		r.separationAfter()
		// a variable that received a value from the group itself (Base, Null, Mul by the base) or a
		// constant scalar is re-used as the receiver of a later write; then the group's values are
		// observed again (by the constants oracle after every call, and by Base / Mul(s,nil) calls in
		// the program for the model): catches receivers that share storage with group constants
		type kw struct{ k, w, alias int }
		var reuse []kw
		for _, k := range []int{mBase, mNull, mMulBase} {
			for _, w := range []int{mNull, mBase, mNeg, mAdd, mSub, mSet, mMul, mMulBase, mPick, mEmbed} {
				reuse = append(reuse, kw{k, w, 0})
			}
			reuse = append(reuse, kw{k, mNeg, 1}, kw{k, mAdd, 1}, kw{k, mMul, 1})
		}
		for _, k := range []int{sOne, sZero, sSetInt} {
			for _, w := range []int{sZero, sOne, sNeg, sAdd, sMul, sSetInt, sSet, sPick, sSetBytes} {
				reuse = append(reuse, kw{k, w, 0})
			}
		}
		nre := len(reuse)
		if (im.Slow || im.Alt) && !search {
			nre = 12
			for i := len(reuse) - 1; i > 0; i-- {
				j := r.rng.Intn(i + 1)
				reuse[i], reuse[j] = reuse[j], reuse[i]
			}
		}
		for _, x := range reuse[:nre] {
			if !r.supported(x.k) || !r.supported(x.w) {
				continue
			}
			x := x
			id++
			r.runProgram(id, func(i int) *call {
				operands := []int{0, 1, 2} // receiver 0, operands 1, 2 (distinct)
				if x.alias == 1 {
					operands = []int{0, 0, 1}
					if x.w == mMul {
						operands = []int{0, 0, 0}
					}
				} else if x.w == mMul {
					operands = []int{0, 0, 1}
				}
				switch i {
				case 0:
					return &call{m: x.k, env: r.cellsFor(x.k, []int{0, 0, 0}[:arity(x.k)])}
				case 1:
					return &call{m: x.w, env: r.cellsFor(x.w, operands[:arity(x.w)])}
				case 2:
					if x.k >= 20 {
						return &call{m: sOne, env: r.cellsFor(sOne, []int{2})}
					}
					return &call{m: mBase, env: r.cellsFor(mBase, []int{3})}
				case 3:
					if x.k >= 20 {
						return &call{m: sSetInt, env: r.cellsFor(sSetInt, []int{1})}
					}
					return &call{m: mMulBase, env: r.cellsFor(mMulBase, []int{2, 1})}
				case 4:
					if x.k >= 20 {
						return nil
					}
					return &call{m: mNull, env: r.cellsFor(mNull, []int{3})}
				}
				return nil
			}, &items)
		}
		for _, m := range append(append([]int{}, pointMethods...), scalarMethods...) {
			if !r.supported(m) {
				continue
			}
			for _, slots := range r.slotPatterns(m) {
				for k := 0; k < d; k++ {
					mm, sl := m, slots
					id++
					r.runProgram(id, func(i int) *call {
						if i > 0 {
							return nil
						}
						return &call{m: mm, env: r.cellsFor(mm, sl)}
					}, &items)
				}
			}
		}
		all := append(append([]int{}, pointMethods...), scalarMethods...)
		for k := 0; k < p; k++ {
			n := 6 + r.rng.Intn(7)
			id++
			r.runProgram(id, func(i int) *call {
				if i >= n {
					return nil
				}
				var m int
				if r.rng.Chance(70) {
					m = pointMethods[r.rng.Intn(len(pointMethods))]
				} else {
					m = all[r.rng.Intn(len(all))]
				}
				slots := make([]int, arity(m))
				for j := range slots {
					slots[j] = r.rng.Intn(3) // small range: frequent aliasing
					if r.rng.Chance(25) {
						slots[j] = r.rng.Intn(4)
					}
				}
				return &call{m: m, env: r.cellsFor(m, slots)}
			}, &items)
		}
	}
	return id
}

func main() {
	o := vh.ParseFlags()
	rep := vh.NewReport("C05", o.Seed, o.Tier)
	rep.Rule = "per implementation: every mutating method x every aliasing pattern of receiver/operands x operand draws (single-call programs) + random programs of 6-12 calls over 4 point and 3 scalar variables; constant-reuse programs (Base/Null/Mul-by-base or a constant scalar, then a later write to the same variable, then the group values again); every implementation also on its opt-in paths (AllowVarTime, full-group curves, caller DST); continued histories after every operation (receiver then operands updated in place, with zeros / small values in used objects: the others must keep their values); operand-state matrix (every operation with a private receiver on operands decoded from unreduced encodings, computed, identity, constants, Pick, long SetBytes: encoding/String/Equal of the operand before and after); pool values in unreduced / computed internal states; oracles at every call: receiver = result, other variables unchanged, result = result on fresh copies, group constants and objects created at start-up unchanged; Clone/Set independence under every mutator; all observed values compared with the Coq transcriptions"
	rng := vh.NewRng(o.Seed)
	var items []string
	id := 0
	draws, progs := 2, 4
	if o.Thorough {
		draws, progs = 6, 20
	}
	if o.Search {
		draws, progs = 8, 40
	}
	hung := false
	for _, im := range hg.All() {
		// each implementation works on its own report; a broken aliasing case can make kyber loop
		// for ever (Pick retries until the cofactor multiple is not the identity): watchdog
		sub := vh.NewReport("C05", o.Seed, o.Tier)
		var subItems []string
		subID := id
		imRng := rng.Fork()
		done := make(chan struct{})
		t0 := time.Now()
		go func() {
			defer close(done)
			defer func() {
				if e := recover(); e != nil {
					sub.Fail(im.Name+"/harness-panic", fmt.Sprint(e), map[string]interface{}{"impl": im.Name,
						"stack": string(debug.Stack()), "current_program": append([]string{}, trace...)})
				}
			}()
			trace = trace[:0]
			subID = runImpl(im, imRng, sub, &subItems, subID, draws, progs, o.Search)
		}()
		limit := 90 * time.Second
		if o.Thorough || o.Search {
			limit = 900 * time.Second
		}
		select {
		case <-done:
			if os.Getenv("C05_TIMING") != "" {
				fmt.Fprintf(os.Stderr, "%-32s %6d ms %5d calls\n", im.Name, time.Since(t0).Milliseconds(), sub.Evaluations)
			}
			id = subID
			items = append(items, subItems...)
			merge(rep, sub)
		case <-time.After(limit):
			hung = true
			rep.Fail(im.Name+"/hang", "an operation of this implementation did not terminate (aliased call looping for ever)",
				map[string]interface{}{"impl": im.Name, "last_calls": fmt.Sprint(sub.Samples)})
			id += 100000
		}
	}
	if !o.Search {
		vh.WriteShards(o.Out, "c05", &vh.CaseFile{Header: "From Kyber Require Import Heap.AliasRun.", Type: "case",
			Runner: "mismatches", Items: items}, 60, rep)
	}
	rep.Write(o.Out)
	if hung {
		os.Exit(0) // leave the stuck goroutine behind
	}
}
