// The sliding-window recoding and the variable-time multiplier of
// group/edwards25519 against Group/Slide.v (cases CSlide / CMulV of
// Group/SlideRun.v), written as a second family of shards of the C01 run.
package main

import (
	"fmt"
	"math/big"

	"go.dedis.ch/kyber/v4"
	"go.dedis.ch/kyber/v4/group/edwards25519"

	"kyverif/vh"
)

func le32(v *big.Int) [32]byte {
	var out [32]byte
	b := v.Bytes()
	for i := range b {
		out[len(b)-1-i] = b[i]
	}
	return out
}

func slideCases(rng *vh.Rng, rep *vh.Report, o vh.Opts) {
	one := big.NewInt(1)
	two255 := new(big.Int).Lsh(one, 255)
	two256 := new(big.Int).Lsh(one, 256)
	L, _ := new(big.Int).SetString("7237005577332262213973186563042994240857116359379907606001950938285454250989", 10)

	var scalars []*big.Int
	add := func(v *big.Int) {
		if v.Sign() >= 0 && v.Cmp(two256) < 0 {
			scalars = append(scalars, new(big.Int).Set(v))
		}
	}
	// 0, 1, small, 2^k, 2^k +- 1
	for i := 0; i < 40; i++ {
		add(big.NewInt(int64(i)))
	}
	for k := 0; k <= 256; k++ {
		p := new(big.Int).Lsh(one, uint(k))
		if k%3 == 0 || k > 245 {
			add(p)
			add(new(big.Int).Sub(p, one))
			add(new(big.Int).Add(p, one))
		}
	}
	// runs of ones [lo,hi): long carries, carries that reach position 255 or leave it
	for _, hi := range []int{255, 256, 254, 251, 250, 200, 129, 64} {
		for _, lo := range []int{0, 1, 2, 3, 4, 5, 6, 7, 63, 120, 240, 248, 249, 250, 251, 252, 253, 254} {
			if lo < hi {
				v := new(big.Int).Lsh(one, uint(hi))
				v.Sub(v, new(big.Int).Lsh(one, uint(lo)))
				add(v)
				add(new(big.Int).Add(v, one))
				if lo > 8 {
					add(new(big.Int).Add(v, big.NewInt(int64(1+2*rng.Intn(100)))))
				}
			}
		}
	}
	// byte patterns
	for _, pat := range []byte{0x55, 0xAA, 0xFF, 0x0F, 0xF0, 0x11, 0x1F, 0xF1, 0x80, 0x7F, 0x21, 0x84, 0xEF, 0xFE} {
		for _, top := range []byte{0x00, 0x0F, 0x10, 0x3F, 0x7F, 0x80, 0xFF} {
			var b [32]byte
			for i := range b {
				b[i] = pat
			}
			b[31] = top
			v := new(big.Int)
			for i := 31; i >= 0; i-- {
				v.Lsh(v, 8)
				v.Or(v, big.NewInt(int64(b[i])))
			}
			add(v)
		}
	}
	// around the group order and its multiples, around 2^255
	for m := int64(1); m <= 16; m++ {
		for d := int64(-2); d <= 2; d++ {
			v := new(big.Int).Mul(L, big.NewInt(m))
			v.Add(v, big.NewInt(d))
			add(v)
		}
	}
	nRand := 300
	if o.Thorough {
		nRand = 3000
	}
	for i := 0; i < nRand; i++ {
		b := rng.Bytes(32)
		switch rng.Intn(4) {
		case 0:
			b[31] &= 0x7F
		case 1:
			b[31] &= 0x0F
		case 2: // sparse
			for j := range b {
				if rng.Intn(3) > 0 {
					b[j] = 0
				}
			}
		}
		v := new(big.Int)
		for j := 31; j >= 0; j-- {
			v.Lsh(v, 8)
			v.Or(v, big.NewInt(int64(b[j])))
		}
		add(v)
	}

	var items []string
	id := 100000
	for _, v := range scalars {
		a := le32(v)
		r := edwards25519.VerifSlide(&a)
		digs := make([]byte, 256)
		sum := new(big.Int)
		okRange := true
		for i := 255; i >= 0; i-- {
			digs[i] = byte(r[i])
			sum.Lsh(sum, 1)
			sum.Add(sum, big.NewInt(int64(r[i])))
			d := int(r[i])
			if d != 0 && (d%2 == 0 || d < -15 || d > 15) {
				okRange = false
			}
		}
		pre := v.Cmp(two255) <= 0
		if !okRange {
			rep.Fail("edwards25519.slide/digit-range", "digit not zero-or-odd in [-15,15]", map[string]string{"scalar": vh.Hex(a[:])})
		}
		if pre && sum.Cmp(v) != 0 {
			rep.Fail("edwards25519.slide/value", "sum d_i 2^i != scalar (scalar <= 2^255)", map[string]string{"scalar": vh.Hex(a[:])})
		}
		if !pre {
			diff := new(big.Int).Sub(v, sum)
			if diff.Sign() != 0 && diff.Cmp(two256) != 0 {
				rep.Fail("edwards25519.slide/value-mod-2^256", "sum d_i 2^i differs from scalar by neither 0 nor 2^256", map[string]string{"scalar": vh.Hex(a[:])})
			}
			if diff.Sign() != 0 {
				rep.Dist("slide/carry-lost(scalar>2^255)")
			} else {
				rep.Dist("slide/scalar>2^255,no-overflow")
			}
		} else {
			rep.Dist("slide/precondition-holds")
		}
		items = append(items, fmt.Sprintf("CSlide %d %s %s", id, vh.CoqBytes(a[:]), vh.CoqBytes(digs)))
		rep.Count(vh.Hex(a[:]), v.Sign() != 0)
		id++
	}

	// geScalarMultVartime through the public API
	suite := edwards25519.NewBlakeSHA256Ed25519()
	nMul := 60
	if o.Thorough {
		nMul = 400
	}
	for i := 0; i < nMul; i++ {
		v := rng.EdgeScalar(L)
		a := le32(v)
		s := suite.Scalar().SetBytes(a[:])
		sb, _ := s.MarshalBinary()
		if len(sb) != 32 || [32]byte(sb) != a {
			panic("scalar encoding")
		}
		B := suite.Point().Base()
		P := suite.Point()
		P.(kyber.AllowsVarTime).AllowVarTime(true)
		if panicked, msg := vh.Try(func() { P.Mul(s, B) }); panicked {
			rep.Fail("edwards25519.Point.Mul/vartime-panic", msg, map[string]string{"scalar": vh.Hex(a[:])})
			continue
		}
		Q := suite.Point().Mul(s, B)
		R := suite.Point().Mul(s, nil)
		if !P.Equal(Q) || !P.Equal(R) {
			rep.Fail("edwards25519.Point.Mul/vartime-vs-constant-time", "variable-time and constant-time multiples differ", map[string]string{"scalar": vh.Hex(a[:])})
			continue
		}
		items = append(items, fmt.Sprintf("CMulV %d %s %s", id, vh.CoqBytes(a[:]), vh.CoqZ(v)))
		rep.Dist("mulv")
		id++
	}

	for i, it := range items {
		_ = i
		_ = it
	}
	vh.WriteShards(o.Out, "c01slide", &vh.CaseFile{Header: "From Kyber Require Import Group.SlideRun.", Type: "case", Runner: "mismatches", Items: items}, 150, rep)
}
