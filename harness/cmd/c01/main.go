// Correspondence + oracle harness for property C01 (group and scalar-action laws in all 20 groups).
package main

import (
	"fmt"
	"math/big"

	"go.dedis.ch/kyber/v4/pairing/bn254"

	"kyverif/grpprog"
	"kyverif/vh"
)

func main() {
	o := vh.ParseFlags()
	rng := vh.NewRng(o.Seed)
	rep := vh.NewReport("C01", o.Seed, o.Tier)
	rep.Rule = "per group instance (20): random straight-line programs over a scalar pool (edge-biased constants 0,1,2,q-1,q-2,2^k,2^k+-1; Add/Sub/Mul/Neg/Inv/Div) and a point pool (Null, Base, Pick/Hash/Embed, Set/Clone, Add, Sub, Neg, Mul(s,P), Mul(s,nil)); observables: exact scalar values and the Equal/bytes partition of all points; plus every identity of the property evaluated two ways on edge operands. distinct = distinct program text; non-trivial = at least 3 point operations"
	cf := &vh.CaseFile{Header: "From Kyber Require Import Group.GrpProg.", Type: "case", Runner: "mismatches"}
	nprog, nops, nlaws := 12, 30, 12
	if o.Thorough {
		nprog, nops, nlaws = 150, 60, 200
	}
	if o.Search {
		nprog, nlaws = 0, 8*nlaws
	}
	id := 0
	for _, in := range grpprog.Groups() {
		for k := 0; k < nprog; k++ {
			r := rng.Fork()
			p := grpprog.RunGroup(r, in, nops, rep)
			if p.Panic != "" {
				rep.Fail("C01/"+in.Name+"/panic", "group operation panicked: "+p.Panic, map[string]interface{}{"group": in.Name, "program": p.Text})
				continue
			}
			cf.Items = append(cf.Items, p.Coq(id))
			desc := map[string]interface{}{"group": in.Name, "program": p.Text, "partition": p.Part[0]}
			rep.Index(id, desc)
			rep.Count(fmt.Sprint(in.Name, p.Text), len(p.Part[0]) >= 3)
			rep.Dist("group:" + in.Name)
			rep.DistN("ops", len(p.Ops))
			rep.DistN("unknown-log-points", p.NPick)
			rep.DistN("receiver-is-existing-object", p.NInPlace)
			if k == 0 && id%7 == 0 {
				rep.Sample(desc)
			}
			id++
		}
		grpprog.Laws(rng.Fork(), in, rep, nlaws)
	}
	// bn254 endomorphism split (lattice.go) against Group/GLV.v, for which non-negativity,
	// size and k1 + k2*lambda = k (mod r) are proved for every k
	glvCases(rng.Fork(), rep, cf, &id, o)
	rep.Note("points of unknown logarithm (Pick/Hash/Embed) carry harness-chosen random logarithms in the model: partitions agree except with probability ~ #points^2/q per program")
	vh.WriteShards(o.Out, "c01", cf, 15, rep)
	if !o.Search {
		slideCases(rng.Fork(), rep, o)
	}
	rep.Write(o.Out)
}

func glvCases(r *vh.Rng, rep *vh.Report, cf *vh.CaseFile, id *int, o vh.Opts) {
	q := grpprog.Order(bn254.NewSuite().G1())
	lambda, _ := new(big.Int).SetString("4407920970296243842393367215006156084916469457145843978461", 10)
	det := new(big.Int).Lsh(q, 1)
	inv := []*big.Int{}
	for _, s := range []string{"147946756881789318990833708069417712965", "147946756881789319010696353538189108491"} {
		v, _ := new(big.Int).SetString(s, 10)
		inv = append(inv, v)
	}
	var ks []*big.Int
	add := func(v *big.Int) { ks = append(ks, new(big.Int).Mod(v, q)) }
	n := 60
	if o.Thorough {
		n = 1500
	}
	for i := 0; i < n; i++ {
		switch i % 6 {
		case 0:
			add(r.EdgeScalar(q))
		case 1: // around multiples of the eigenvalue
			m := big.NewInt(int64(r.Intn(5)))
			v := new(big.Int).Mul(lambda, m)
			add(v.Add(v, big.NewInt(int64(r.Intn(41)-20))))
		case 2: // lambda plus something of the size of the short basis entries
			v := new(big.Int).Add(lambda, r.BigBelow(new(big.Int).Lsh(big.NewInt(1), uint(40+r.Intn(30)))))
			add(v)
		case 3: // at the rounding threshold of one of the two quotients: k*inv_i = j*det + det/4 +- small
			j := r.BigBelow(inv[i/6%2])
			v := new(big.Int).Mul(j, det)
			v.Add(v, new(big.Int).Rsh(det, 2))
			v.Div(v, inv[i/6%2])
			add(v.Add(v, big.NewInt(int64(r.Intn(5)-2))))
		case 4:
			add(new(big.Int).Sub(q, big.NewInt(int64(1+r.Intn(1000)))))
		default:
			add(r.BigBelow(q))
		}
	}
	var items []string
	for _, k := range ks {
		d := bn254.VerifDecompose(k)
		items = append(items, fmt.Sprintf("(%s, (%s, %s))", vh.CoqZ(k), vh.CoqZ(d[0]), vh.CoqZ(d[1])))
		rep.Count("glv/"+k.String(), true)
		rep.Dist("glv")
		// oracle: non-negative, short, and congruent
		chk := new(big.Int).Mul(d[1], lambda)
		chk.Add(chk, d[0]).Sub(chk, k).Mod(chk, q)
		if d[0].Sign() < 0 || d[1].Sign() < 0 || d[0].BitLen() > 130 || d[1].BitLen() > 130 || chk.Sign() != 0 {
			rep.Fail("C01/bn254.G1/endomorphism-split", "the endomorphism split of a scalar is negative, too long or not congruent to the scalar",
				map[string]string{"k": k.String(), "k1": d[0].String(), "k2": d[1].String()})
		}
		if len(items) == 40 {
			cf.Items = append(cf.Items, fmt.Sprintf("CGlv %d %s", *id, vh.CoqList(items)))
			rep.Index(*id, map[string]interface{}{"kind": "bn254 endomorphism split", "first_k": k.String()})
			*id++
			items = nil
		}
	}
	if len(items) > 0 {
		cf.Items = append(cf.Items, fmt.Sprintf("CGlv %d %s", *id, vh.CoqList(items)))
		rep.Index(*id, map[string]interface{}{"kind": "bn254 endomorphism split"})
		*id++
	}
}
