// Correspondence + oracle harness for property C01 (group and scalar-action laws in all 20 groups).
package main

import (
	"fmt"

	"kyverif/grpprog"
	"kyverif/vh"
)

func main() {
	o := vh.ParseFlags()
	rng := vh.NewRng(o.Seed)
	rep := vh.NewReport("C01", o.Seed, o.Tier)
	rep.Rule = "per group instance (20): random straight-line programs over a scalar pool (edge-biased constants 0,1,2,q-1,q-2,2^k,2^k+-1; Add/Sub/Mul/Neg/Inv/Div) and a point pool (Null, Base, Pick/Hash/Embed, Set/Clone, Add, Sub, Neg, Mul(s,P), Mul(s,nil)); observables: exact scalar values and the Equal/bytes partition of all points; plus every identity of the property evaluated two ways on edge operands. distinct = distinct program text; non-trivial = at least 3 point operations"
	cf := &vh.CaseFile{Header: "From Kyber Require Import Group.GrpProg.", Type: "case", Runner: "mismatches"}
	nprog, nops, nlaws := 12, 30, 12
	if o.Thorough {
		nprog, nops, nlaws = 150, 60, 200
	}
	if o.Search {
		nprog, nlaws = 0, 8*nlaws
	}
	id := 0
	for _, in := range grpprog.Groups() {
		for k := 0; k < nprog; k++ {
			r := rng.Fork()
			p := grpprog.RunGroup(r, in, nops, rep)
			if p.Panic != "" {
				rep.Fail("C01/"+in.Name+"/panic", "group operation panicked: "+p.Panic, map[string]interface{}{"group": in.Name, "program": p.Text})
				continue
			}
			cf.Items = append(cf.Items, p.Coq(id))
			desc := map[string]interface{}{"group": in.Name, "program": p.Text, "partition": p.Part[0]}
			rep.Index(id, desc)
			rep.Count(fmt.Sprint(in.Name, p.Text), len(p.Part[0]) >= 3)
			rep.Dist("group:" + in.Name)
			rep.DistN("ops", len(p.Ops))
			rep.DistN("unknown-log-points", p.NPick)
			if k == 0 && id%7 == 0 {
				rep.Sample(desc)
			}
			id++
		}
		grpprog.Laws(rng.Fork(), in, rep, nlaws)
	}
	rep.Note("points of unknown logarithm (Pick/Hash/Embed) carry harness-chosen random logarithms in the model: partitions agree except with probability ~ #points^2/q per program")
	vh.WriteShards(o.Out, "c01", cf, 15, rep)
	rep.Write(o.Out)
}
