package main

// simple shuffle, biffle and sequence shuffle runs

import (
	"fmt"

	"go.dedis.ch/kyber/v4"
	"go.dedis.ch/kyber/v4/proof"
	"go.dedis.ch/kyber/v4/shuffle"

	"kyverif/vh"
)

// ---------------------------------------------------------------- simple shuffle

func (e *env) simpleVerifier(k int, g, Gamma sc) proof.Verifier {
	return func(ctx proof.VerifierContext) error {
		ss := shuffle.SimpleShuffle{}
		ss.Init(e.S, k)
		return ss.Verify(e.pt(g), e.pt(Gamma), ctx)
	}
}

func coqSimple(p []item, k int) (string, bool) {
	if len(p) != 6*k-1 {
		return "", false
	}
	return fmt.Sprintf("%s %s %s %s", zItems(p[:k]), zItems(p[k:2*k]), zItems(p[2*k:4*k]), zItems(p[4*k:])), true
}

// is y = gamma * (a permutation of x) ?
func (e *env) isScaledPerm(gamma sc, x, y []sc) bool {
	cnt := map[string]int{}
	for i := range x {
		cnt[e.mul(gamma, x[i]).String()]++
	}
	for i := range y {
		cnt[y[i].String()]--
	}
	for _, v := range cnt {
		if v != 0 {
			return false
		}
	}
	return len(x) == len(y)
}

func (c *run) verifySimple(e *env, k int, g, gamma sc, x, y []sc, pf []byte, altered bool, what string) int {
	return c.verifySimpleWith(e, k, g, gamma, x, y, pf, altered, what, nil)
}

// vr != nil: a verifier closure (object) with a history
func (c *run) verifySimpleWith(e *env, k int, g, gamma sc, x, y []sc, pf []byte, altered bool, what string, vr proof.Verifier) int {
	const name = "SimpleShuffle"
	Gamma := e.mul(gamma, g)
	va, vb := vr, vr
	if vr == nil {
		va, vb = e.simpleVerifier(k, g, Gamma), e.simpleVerifier(k, g, Gamma)
	}
	v1 := verifyReal(e.S, name, va, pf)
	v2, rv := verifyRec(e.S, name, vb, pf)
	if v1 != v2 {
		c.rep.Fail("harness/recording-verifier-diverges", "simple shuffle: "+what, nil)
	}
	c.rep.Dist(fmt.Sprintf("%s/simple-verify/%s/verdict=%d", e.name, what, v1))
	c.rep.Count(fmt.Sprintf("sv/%s/%x", e.name, pf), true)
	if e.dlog && !c.search && v1 != vDecode && v1 != vPanic {
		tr, ok := coqSimple(itemsOf(rv.log, 'P'), k)
		r := itemsOf(rv.log, 'R')
		if ok && len(r) == 2 {
			id := c.next()
			c.cf.Items = append(c.cf.Items, fmt.Sprintf("(CSimpleVerify %d %s %s %s %s %s %s)", id, zSc(g), zSc(Gamma), tr,
				vh.CoqZ(ival(r[0])), vh.CoqZ(ival(r[1])), vh.CoqBool(v1 == vOK)))
			c.rep.Index(id, fmt.Sprintf("SimpleShuffle.Verify k=%d %s verdict=%d", k, what, v1))
		}
	}
	if v1 == vOK {
		// the statement of the transcript: its own X, Y (first message) must be a scaled permutation
		truth := e.isScaledPerm(gamma, x, y)
		if !truth || altered {
			c.rep.Fail("shuffle.SimpleShuffle.Verify/false-statement-accepted", what,
				map[string]any{"suite": e.name, "k": k, "g": hexScs([]sc{g}), "gamma": hexScs([]sc{gamma}), "x": hexScs(x), "y": hexScs(y), "proof": vh.Hex(pf), "altered": altered})
		}
	}
	if v1 == vPanic && what == "mutated" {
		c.rep.Dist(e.name + "/panic-on-mutated-proof-bytes")
	} else if v1 == vPanic {
		c.rep.Fail("shuffle.SimpleShuffle.Verify/panic", what, map[string]any{"proof": vh.Hex(pf)})
	}
	return v1
}

func (c *run) simpleOne(e *env, k int, pi []int) {
	g := e.rndnz()
	gamma := e.rndnz()
	x := e.rnds(k)
	if e.r.Chance(20) && k > 2 {
		x[1] = x[0].Clone()
	}
	y := make([]sc, k)
	for i := range y {
		y[i] = e.mul(gamma, x[pi[i]])
	}
	for variant := 0; variant < 2; variant++ {
		yy := clones(y)
		what := "honest"
		if variant == 1 { // y is not a scaled permutation of x: Prove still runs, Verify must reject
			what = "not-a-permutation"
			switch e.r.Intn(3) {
			case 0:
				yy[e.r.Intn(k)] = e.rnd()
			case 1:
				j := e.r.Intn(k)
				yy[j] = yy[(j+1)%k].Clone()
				if e.isScaledPerm(gamma, x, yy) {
					yy[j] = e.rnd()
				}
			case 2:
				for i := range yy {
					yy[i] = e.mul(yy[i], e.small(2))
				}
			}
		}
		ss := shuffle.SimpleShuffle{}
		ss.Init(e.S, k)
		rp := newRecProver(e.S, "SimpleShuffle", e.st)
		var err error
		pan, msg := vh.Try(func() { err = ss.Prove(e.pt(g), gamma.Clone(), clones(x), clones(yy), e.st, rp) })
		if pan || err != nil {
			if variant == 0 {
				c.rep.Fail("shuffle.SimpleShuffle.Prove/honest-prover-fails", fmt.Sprint(msg, err), nil)
			}
			continue
		}
		pf := rp.Proof()
		v := c.verifySimple(e, k, g, gamma, x, yy, pf, false, what)
		if variant == 0 && v != vOK {
			c.rep.Fail("shuffle.SimpleShuffle/honest-proof-rejected", fmt.Sprintf("k=%d pi=%v verdict=%d", k, pi, v),
				map[string]any{"suite": e.name, "g": hexScs([]sc{g}), "gamma": hexScs([]sc{gamma}), "x": hexScs(x), "pi": pi})
		}
		if e.dlog && !c.search {
			tr, ok := coqSimple(itemsOf(rp.log, 'P'), k)
			r := itemsOf(rp.log, 'R')
			th := itemsOf(rp.log, 'S')
			if ok && len(r) == 2 && len(th) == 2*k-1 {
				id := c.next()
				c.cf.Items = append(c.cf.Items, fmt.Sprintf("(CSimple %d %s %s %s %s %s %s %s %s %s)", id, zSc(g), zSc(gamma),
					zScs(x), zScs(yy), zItems(th), vh.CoqZ(ival(r[0])), vh.CoqZ(ival(r[1])), tr, vh.CoqBool(v == vOK)))
				c.rep.Index(id, fmt.Sprintf("SimpleShuffle.Prove k=%d %s", k, what))
			}
		}
		if variant == 0 {
			// mutation of the honest proof
			for m := 0; m < 3; m++ {
				mp := append([]byte{}, pf...)
				mp[e.r.Intn(len(mp))] ^= byte(1 << e.r.Intn(8))
				c.verifySimple(e, k, g, gamma, x, yy, mp, true, "mutated")
			}
			// verified against another Gamma / G
			g2 := e.add(g, e.rndnz())
			if v := verifyReal(e.S, "SimpleShuffle", e.simpleVerifier(k, g2, e.mul(gamma, g)), pf); v == vOK {
				c.rep.Fail("shuffle.SimpleShuffle.Verify/altered-parameters-accepted", "other G", nil)
			}
			if v := verifyReal(e.S, "SimpleShuffle", e.simpleVerifier(k, g, e.mul(e.add(gamma, e.one()), g)), pf); v == vOK {
				c.rep.Fail("shuffle.SimpleShuffle.Verify/altered-parameters-accepted", "other Gamma", nil)
			}
		} else {
			// malicious prover: every equation but one satisfied
			skips := []int{e.r.Intn(2 * k), k, 2*k - 1, 0}
			if c.search {
				skips = nil
				for j := 0; j < 2*k; j++ {
					skips = append(skips, j)
				}
			}
			for _, j := range skips {
				rp := newRecProver(e.S, "SimpleShuffle", e.st)
				if err := e.forgeSimple(rp, g, gamma, x, yy, j); err != nil {
					continue
				}
				c.verifySimple(e, k, g, gamma, x, yy, rp.Proof(), false, fmt.Sprintf("forged-all-but-eq"))
			}
		}
	}
}

func (c *run) simpleAll(e *env, kmax int) {
	for k := 2; k <= 4; k++ {
		if !e.dlog && k > 3 {
			break
		}
		for _, pi := range allPerms(k) {
			c.simpleOne(e, k, pi)
		}
	}
	for _, k := range []int{5, 6, 8, kmax} {
		if k > 8 && !c.thor {
			continue
		}
		c.simpleOne(e, k, randPerm(e.r, k))
	}
}

// ---------------------------------------------------------------- biffle

func mirrorBifflePred() proof.Predicate {
	and0 := proof.And(proof.Rep("Xbar0-X0", "beta0", "G"), proof.Rep("Ybar0-Y0", "beta0", "H"),
		proof.Rep("Xbar1-X1", "beta1", "G"), proof.Rep("Ybar1-Y1", "beta1", "H"))
	and1 := proof.And(proof.Rep("Xbar0-X1", "beta1", "G"), proof.Rep("Ybar0-Y1", "beta1", "H"),
		proof.Rep("Xbar1-X0", "beta0", "G"), proof.Rep("Ybar1-Y0", "beta0", "H"))
	return proof.Or(and0, and1)
}

func (e *env) bifflePoints(s *stmt) map[string]kyber.Point {
	d := func(a, b sc) kyber.Point { return e.pt(e.sub(a, b)) }
	return map[string]kyber.Point{"G": e.pt(s.g), "H": e.pt(s.h),
		"Xbar0-X0": d(s.xb[0], s.x[0]), "Ybar0-Y0": d(s.yb[0], s.y[0]), "Xbar1-X1": d(s.xb[1], s.x[1]), "Ybar1-Y1": d(s.yb[1], s.y[1]),
		"Xbar0-X1": d(s.xb[0], s.x[1]), "Ybar0-Y1": d(s.yb[0], s.y[1]), "Xbar1-X0": d(s.xb[1], s.x[0]), "Ybar1-Y0": d(s.yb[1], s.y[0])}
}

func arr2(p []kyber.Point) [2]kyber.Point { return [2]kyber.Point{p[0], p[1]} }

func (e *env) biffleVerifier(s *stmt) proof.Verifier {
	return shuffle.BiffleVerifier(e.S, e.pt(s.g), e.pt(s.h), arr2(e.pts(s.x)), arr2(e.pts(s.y)), arr2(e.pts(s.xb)), arr2(e.pts(s.yb)))
}

func (c *run) verifyBiffle(e *env, s *stmt, pf []byte, altered bool, what string) int {
	return c.verifyBiffleWith(e, s, pf, altered, what, nil)
}

func (c *run) verifyBiffleWith(e *env, s *stmt, pf []byte, altered bool, what string, vr proof.Verifier) int {
	const name = "Biffle"
	va, vb := vr, vr
	if vr == nil {
		va, vb = e.biffleVerifier(s), e.biffleVerifier(s)
	}
	v1 := verifyReal(e.S, name, va, pf)
	v2, rv := verifyRec(e.S, name, vb, pf)
	if v1 != v2 {
		c.rep.Fail("harness/recording-verifier-diverges", "biffle: "+what, nil)
	}
	c.rep.Dist(fmt.Sprintf("%s/biffle-verify/%s/verdict=%d", e.name, what, v1))
	c.rep.Count(fmt.Sprintf("bv/%s/%x/%s", e.name, pf, what), true)
	p := itemsOf(rv.log, 'P')
	r := itemsOf(rv.log, 'R')
	if e.dlog && !c.search && v1 != vDecode && v1 != vPanic && len(r) == 1 && (len(p) == 14 || (len(p) == 10 && v1 == vInvalid)) {
		for len(p) < 14 { // the responses are not read when the sub-challenges are rejected
			p = append(p, item{s: e.zero()})
		}
		id := c.next()
		c.cf.Items = append(c.cf.Items, fmt.Sprintf("(CBiffleVerify %d %s %s %s %s %s %s %s %s %s %d)", id, zSc(s.g), zSc(s.h),
			zScs([]sc{s.x[0], s.x[1], s.y[0], s.y[1]}), zScs([]sc{s.xb[0], s.xb[1], s.yb[0], s.yb[1]}),
			zItems(p[:8]), vh.CoqZ(ival(p[8])), vh.CoqZ(ival(p[9])), zItems(p[10:14]), vh.CoqZ(ival(r[0])), v1))
		c.rep.Index(id, fmt.Sprintf("BiffleVerifier %s verdict=%d", what, v1))
	}
	if v1 == vOK {
		_, truth := e.isShuffle(s.g, s.h, s.x, s.y, s.xb, s.yb)
		if !truth || altered {
			c.rep.Fail("shuffle.BiffleVerifier/false-statement-accepted", what, s.replay(e, map[string]any{"proof": vh.Hex(pf), "altered": altered}))
		}
	}
	if v1 == vPanic && what == "mutated" {
		c.rep.Dist(e.name + "/panic-on-mutated-proof-bytes")
	} else if v1 == vPanic {
		c.rep.Fail("shuffle.BiffleVerifier/panic", what, s.replay(e, map[string]any{"proof": vh.Hex(pf)}))
	}
	return v1
}

func (c *run) biffleOne(e *env) {
	var in *inst
	for {
		in = e.newInst(2)
		// the two plaintexts differ, so that the branch Biffle() took can be read off its output
		if !e.mul(e.sub(in.x[0], in.x[1]), in.h).Equal(e.mul(e.sub(in.y[0], in.y[1]), in.g)) {
			break
		}
	}
	G, H := e.pt(in.g), e.pt(in.h)
	X, Y := arr2(e.pts(in.x)), arr2(e.pts(in.y))
	var Xb, Yb [2]kyber.Point
	var pr proof.Prover
	gd := newGuard(e, map[string][]kyber.Point{"G": {G}, "H": {H}, "X": X[:], "Y": Y[:]}, nil)
	if pan, msg := vh.Try(func() { Xb, Yb, pr = shuffle.Biffle(e.S, G, H, X, Y, e.st) }); pan {
		c.rep.Fail("shuffle.Biffle/honest-prover-fails", msg, nil)
		return
	}
	gd.check(c, "shuffle.Biffle")
	gout := newGuard(e, map[string][]kyber.Point{"Xbar": Xb[:], "Ybar": Yb[:]}, nil)
	if !e.samePlaintexts(in, X[:], Y[:], Xb[:], Yb[:]) {
		c.rep.Fail("shuffle.Biffle/output-not-a-shuffle", "plaintext multisets differ", map[string]any{"suite": e.name})
	}
	// one verifier closure for every proof of this statement
	bv := shuffle.BiffleVerifier(e.S, G, H, X, Y, Xb, Yb)
	gd.check(c, "shuffle.BiffleVerifier")
	gout.check(c, "shuffle.BiffleVerifier/outputs")
	var s *stmt
	var pi []int
	if e.dlog {
		dg := e.S.(*vh.DlogGroup)
		xb := []sc{dg.ScalarOf(vh.Dlog(Xb[0])), dg.ScalarOf(vh.Dlog(Xb[1]))}
		yb := []sc{dg.ScalarOf(vh.Dlog(Yb[0])), dg.ScalarOf(vh.Dlog(Yb[1]))}
		s = &stmt{in.g, in.h, in.x, in.y, xb, yb}
		pi, _ = e.isShuffle(in.g, in.h, in.x, in.y, xb, yb)
	}
	var pf0 []byte
	// the prover closure that Biffle returned, used for several proofs
	for n := 0; n < 3; n++ {
		what := fmt.Sprintf("reuse:biffle/prover-closure#%d", n+1)
		rp := newRecProver(e.S, "Biffle", e.st)
		var err error
		pan, msg := vh.Try(func() { err = (func(proof.ProverContext) error)(pr)(rp) })
		gd.check(c, "shuffle.Biffle prover")
		gout.check(c, "shuffle.Biffle prover/outputs")
		c.rep.Dist(what)
		if pan || err != nil {
			c.rep.Fail("shuffle.Biffle/honest-prover-fails", fmt.Sprint(what, msg, err), nil)
			return
		}
		pf := rp.Proof()
		if n == 0 {
			pf0 = pf
		}
		if v := verifyReal(e.S, "Biffle", bv, pf); v != vOK {
			c.rep.Fail("shuffle.Biffle/honest-proof-rejected", fmt.Sprintf("%s verdict %d", what, v), map[string]any{"suite": e.name, "proof": vh.Hex(pf)})
		}
		gd.check(c, "shuffle.BiffleVerifier run")
		c.rep.Count(fmt.Sprintf("bf/%s/%x", e.name, pf), true)
		if e.dlog && pi != nil {
			pri := itemsOf(rp.log, 'S')
			r := itemsOf(rp.log, 'R')
			p := itemsOf(rp.log, 'P')
			if len(pri) == 5 && len(r) == 1 && len(p) == 14 && !c.search {
				beta := make([]sc, 2)
				for i := 0; i < 2; i++ {
					beta[pi[i]] = e.div(e.sub(s.xb[i], in.x[pi[i]]), in.g)
				}
				id := c.next()
				c.cf.Items = append(c.cf.Items, fmt.Sprintf("(CBiffle %d %s %s %s %s %s %s %s %s %s %s %s %s %s)", id, vh.CoqBool(pi[0] == 1),
					zSc(in.g), zSc(in.h), zSc(beta[0]), zSc(beta[1]), zScs([]sc{in.x[0], in.x[1], in.y[0], in.y[1]}),
					zItems(pri), vh.CoqZ(ival(r[0])), zScs([]sc{s.xb[0], s.xb[1], s.yb[0], s.yb[1]}),
					zItems(p[:8]), vh.CoqZ(ival(p[8])), vh.CoqZ(ival(p[9])), zItems(p[10:])))
				c.rep.Index(id, "Biffle prover "+what)
			}
			c.verifyBiffleWith(e, s, pf, false, what, bv)
		}
	}
	// the verifier closure after a rejected proof, and the first proof once more
	bad := append([]byte{}, pf0...)
	bad[len(bad)-1] ^= 1
	if v := verifyReal(e.S, "Biffle", bv, bad); v == vOK {
		c.rep.Fail("shuffle.BiffleVerifier/false-statement-accepted", "mutated proof, reused verifier closure", nil)
	}
	if v := verifyReal(e.S, "Biffle", bv, pf0); v != vOK {
		c.rep.Fail("shuffle.Biffle/honest-proof-rejected", "reuse:biffle/verifier-closure-after-rejection", map[string]any{"suite": e.name})
	}
	c.rep.Dist("reuse:biffle/verifier-closure-after-rejection")
	gd.check(c, "shuffle.BiffleVerifier run")
	gout.check(c, "shuffle.BiffleVerifier run/outputs")
	if e.dlog {
		c.verifyBiffle(e, s, pf0, false, "honest")
		c.biffleAdversaries(e, in, s, pf0)
	}
}

// own prover for the biffle predicate with chosen outputs, branch and secrets
func (e *env) biffleProve(s *stmt, bit int, b0, b1 sc, tamper int) ([]byte, error) {
	or := mirrorBifflePred()
	pr := or.Prover(e.S, map[string]kyber.Scalar{"beta0": b0, "beta1": b1}, e.bifflePoints(s), map[proof.Predicate]int{or: bit})
	rp := newRecProver(e.S, "Biffle", e.st)
	rp.tamper = tamper
	rp.repl = func(it item) item {
		if it.p != nil {
			return item{p: e.S.Point().Add(it.p, e.pt(e.rndnz()))}
		}
		return item{s: e.add(it.s, e.rndnz())}
	}
	var err error
	pan, _ := vh.Try(func() { err = (func(proof.ProverContext) error)(pr)(rp) })
	if pan {
		return nil, errNoForge
	}
	return rp.Proof(), err
}

func (c *run) biffleAdversaries(e *env, in *inst, hs *stmt, pf []byte) {
	pi := randPerm(e.r, 2)
	beta := e.rnds(2)
	for _, f := range e.families(in, pi, beta) {
		s := &stmt{in.g, in.h, in.x, in.y, f.xb, f.yb}
		if pf != nil {
			c.verifyBiffle(e, s, pf, true, "reuse/"+f.name)
		}
		for bit := 0; bit < 2; bit++ {
			// secrets that fit the G equations of the chosen branch
			b0 := e.div(e.sub(f.xb[bit], in.x[0]), in.g)
			b1 := e.div(e.sub(f.xb[1-bit], in.x[1]), in.g)
			if p, err := e.biffleProve(s, bit, b0, b1, -1); err == nil {
				c.verifyBiffle(e, s, p, false, "forge/"+f.name)
			}
		}
	}
	// simulator: both branches answered with sub-challenges of the prover's choice (they do
	// not add up to the challenge); accepted only by a verifier that does not check the sum
	for _, f := range e.families(in, pi, beta) {
		s := &stmt{in.g, in.h, in.x, in.y, f.xb, f.yb}
		pts := e.bifflePoints(s)
		names := [][3]string{{"Xbar0-X0", "G", "0"}, {"Ybar0-Y0", "H", "0"}, {"Xbar1-X1", "G", "1"}, {"Ybar1-Y1", "H", "1"},
			{"Xbar0-X1", "G", "1"}, {"Ybar0-Y1", "H", "1"}, {"Xbar1-X0", "G", "0"}, {"Ybar1-Y0", "H", "0"}}
		ci := []kyber.Scalar{e.rnd(), e.rnd()}
		r := [2][2]sc{{e.rnd(), e.rnd()}, {e.rnd(), e.rnd()}} // r[branch][beta index]
		rp := newRecProver(e.S, "Biffle", e.st)
		for n, nm := range names {
			br := n / 4
			bi := int(nm[2][0] - '0')
			V := e.S.Point().Mul(ci[br], pts[nm[0]])
			V.Add(V, e.S.Point().Mul(r[br][bi], pts[nm[1]]))
			rp.Put(V)
		}
		cc := e.S.Scalar()
		rp.PubRand(cc)
		rp.Put(ci)
		for br := 0; br < 2; br++ {
			rp.Put(r[br][0])
			rp.Put(r[br][1])
		}
		c.verifyBiffle(e, s, rp.Proof(), false, "simulated/"+f.name)
	}
	// own honest proof, each value perturbed
	xb, yb := e.shuffleOut(in, pi, beta)
	s := &stmt{in.g, in.h, in.x, in.y, xb, yb}
	if p, err := e.biffleProve(s, pi[0], beta[0], beta[1], -1); err == nil {
		if v := c.verifyBiffle(e, s, p, false, "own-honest"); v != vOK {
			c.rep.Fail("shuffle.Biffle/honest-proof-rejected", "own prover on the biffle predicate", s.replay(e, nil))
		}
		for idx := 0; idx < 14; idx++ {
			if q, err := e.biffleProve(s, pi[0], beta[0], beta[1], idx); err == nil {
				c.verifyBiffle(e, s, q, true, "perturb")
			}
		}
		for m := 0; m < 4; m++ {
			mp := append([]byte{}, p...)
			mp[e.r.Intn(len(mp))] ^= byte(1 << e.r.Intn(8))
			c.verifyBiffle(e, s, mp, true, "mutated")
		}
		s2 := &stmt{e.add(in.g, e.one()), in.h, in.x, in.y, xb, yb}
		c.verifyBiffle(e, s2, p, true, "wrong-G")
		s3 := &stmt{in.g, e.add(in.h, e.one()), in.x, in.y, xb, yb}
		c.verifyBiffle(e, s3, p, true, "wrong-H")
	}
}

func (c *run) biffleAll(e *env) {
	n := 6
	if c.thor {
		n = 20
	}
	for i := 0; i < n; i++ {
		c.biffleOne(e)
	}
	if !e.dlog { // adversaries on the real groups too (verdicts only)
		in := e.newInst(2)
		c.biffleAdversaries(e, in, nil, nil)
	}
}

// ---------------------------------------------------------------- sequences

func (c *run) seqOne(e *env, k, NQ int) {
	g, h := e.rndnz(), e.rndnz()
	x := make([][]sc, NQ)
	y := make([][]sc, NQ)
	for j := 0; j < NQ; j++ {
		x[j] = mulAll(e, e.rnds(k), g)
		y[j] = e.rnds(k)
	}
	G, H := e.pt(g), e.pt(h)
	X := make([][]kyber.Point, NQ)
	Y := make([][]kyber.Point, NQ)
	for j := range x {
		X[j], Y[j] = e.pts(x[j]), e.pts(y[j])
	}
	var XX, YY [][]kyber.Point
	var getProver func(e []kyber.Scalar) (proof.Prover, error)
	gpts := map[string][]kyber.Point{"G": {G}, "H": {H}}
	for j := range X {
		gpts[fmt.Sprintf("X[%d]", j)] = X[j]
		gpts[fmt.Sprintf("Y[%d]", j)] = Y[j]
	}
	gd := newGuard(e, gpts, nil)
	pan, msg := vh.Try(func() { XX, YY, getProver = shuffle.SequencesShuffle(e.S, G, H, X, Y, e.st) })
	if pan {
		c.rep.Fail("shuffle.SequencesShuffle/panic", msg, nil)
		return
	}
	gd.check(c, "shuffle.SequencesShuffle")
	opts := map[string][]kyber.Point{}
	for j := range XX {
		opts[fmt.Sprintf("Xbar[%d]", j)] = XX[j]
		opts[fmt.Sprintf("Ybar[%d]", j)] = YY[j]
	}
	gout := newGuard(e, opts, nil)
	ev := e.rnds(NQ)
	pr, err := getProver(ev)
	if err != nil {
		c.rep.Fail("shuffle.SequencesShuffle/honest-prover-fails", err.Error(), nil)
		return
	}
	rp := newRecProver(e.S, "PairShuffle", e.st)
	pan, msg = vh.Try(func() { err = (func(proof.ProverContext) error)(pr)(rp) })
	if pan || err != nil {
		c.rep.Fail("shuffle.SequencesShuffle/honest-prover-fails", fmt.Sprint(msg, err), nil)
		return
	}
	pf := rp.Proof()
	xu, yu, xd, yd := shuffle.GetSequenceVerifiable(e.S, X, Y, XX, YY, ev)
	v := verifyReal(e.S, "PairShuffle", shuffle.Verifier(e.S, G, H, xu, yu, xd, yd), pf)
	c.rep.Dist(fmt.Sprintf("%s/sequences/NQ=%d/verdict=%d", e.name, NQ, v))
	c.rep.Count(fmt.Sprintf("seq/%s/%x", e.name, pf), true)
	if v != vOK {
		c.rep.Fail("shuffle.SequencesShuffle/honest-proof-rejected", fmt.Sprintf("k=%d NQ=%d verdict=%d", k, NQ, v), map[string]any{"suite": e.name})
	}
	gd.check(c, "shuffle.SequencesShuffle prover + GetSequenceVerifiable + Verifier")
	gout.check(c, "shuffle.SequencesShuffle prover + GetSequenceVerifiable + Verifier/outputs")
	// history: the same prover again (twice), then getProver with another e, then the first e again
	type seqRun struct {
		ev []sc
		rp *recProver
	}
	var extra []seqRun
	ev2 := e.rnds(NQ)
	evg := newGuard(e, nil, map[string][]sc{"e": ev, "e2": ev2})
	for n, what := range []string{"reuse:seq/prover-closure#2", "reuse:seq/prover-closure#3-HashProve", "reuse:seq/getProver-other-e", "reuse:seq/getProver-first-e-again"} {
		evn := ev
		prn := pr
		if n == 2 {
			evn = ev2
		}
		if n >= 2 {
			var e2 error
			if prn, e2 = getProver(evn); e2 != nil {
				c.rep.Fail("shuffle.SequencesShuffle/honest-prover-fails", what+": "+e2.Error(), nil)
				continue
			}
		}
		var pfn []byte
		var errn error
		var rpn *recProver
		pan, msg := vh.Try(func() {
			if n == 1 {
				pfn, errn = proof.HashProve(e.S, "PairShuffle", prn)
			} else {
				rpn = newRecProver(e.S, "PairShuffle", e.st)
				errn = (func(proof.ProverContext) error)(prn)(rpn)
				pfn = rpn.Proof()
			}
		})
		c.rep.Dist(what)
		if pan || errn != nil {
			c.rep.Fail("shuffle.SequencesShuffle/honest-prover-fails", fmt.Sprint(what, msg, errn), nil)
			continue
		}
		a1, a2, a3, a4 := shuffle.GetSequenceVerifiable(e.S, X, Y, XX, YY, evn)
		vn := verifyReal(e.S, "PairShuffle", shuffle.Verifier(e.S, G, H, a1, a2, a3, a4), pfn)
		c.rep.Count(fmt.Sprintf("seq/%s/%x", e.name, pfn), true)
		if vn != vOK {
			c.rep.Fail("shuffle.SequencesShuffle/honest-proof-rejected", fmt.Sprintf("%s: k=%d NQ=%d verdict=%d", what, k, NQ, vn), map[string]any{"suite": e.name, "history": what})
		}
		gd.check(c, "shuffle.SequencesShuffle prover + GetSequenceVerifiable + Verifier")
		gout.check(c, "shuffle.SequencesShuffle prover + GetSequenceVerifiable + Verifier/outputs")
		evg.check(c, "shuffle.SequencesShuffle getProver(e)")
		if rpn != nil {
			extra = append(extra, seqRun{evn, rpn})
		}
	}
	// every sequence decrypts to the same permutation of its plaintexts
	key := e.div(h, g)
	dec := func(Xs, Ys []kyber.Point) []string {
		out := make([]string, len(Xs))
		for i := range Xs {
			out[i] = e.S.Point().Sub(Ys[i], e.S.Point().Mul(key, Xs[i])).String()
		}
		return out
	}
	m0, mb0 := dec(X[0], Y[0]), dec(XX[0], YY[0])
	pi := make([]int, k)
	for i := range pi {
		pi[i] = -1
		for a := range m0 {
			if m0[a] == mb0[i] {
				pi[i] = a
			}
		}
	}
	good := true
	for j := 0; j < NQ && good; j++ {
		m, mb := dec(X[j], Y[j]), dec(XX[j], YY[j])
		for i := range pi {
			if pi[i] < 0 || m[pi[i]] != mb[i] {
				good = false
			}
		}
	}
	if !good {
		c.rep.Fail("shuffle.SequencesShuffle/output-not-a-shuffle", "sequences are not permuted alike", map[string]any{"suite": e.name, "k": k, "NQ": NQ})
		return
	}
	// consolidated statement in the scalar domain
	cons := func(m [][]sc) []sc {
		out := make([]sc, k)
		for i := range out {
			out[i] = e.zero()
			for j := range m {
				out[i] = e.add(out[i], e.mul(ev[j], m[j][i]))
			}
		}
		return out
	}
	if e.dlog {
		dg := e.S.(*vh.DlogGroup)
		logs := func(P [][]kyber.Point) [][]sc {
			out := make([][]sc, len(P))
			for j := range P {
				out[j] = make([]sc, len(P[j]))
				for i := range P[j] {
					out[j][i] = dg.ScalarOf(vh.Dlog(P[j][i]))
				}
			}
			return out
		}
		xb, yb := logs(XX), logs(YY)
		beta := make([][]sc, NQ)
		for j := range beta {
			beta[j] = make([]sc, k)
			for i := 0; i < k; i++ {
				beta[j][pi[i]] = e.div(e.sub(xb[j][i], x[j][pi[i]]), g)
			}
		}
		pri := itemsOf(rp.log, 'S')
		tr, ok1 := coqPtr(itemsOf(rp.log, 'P'), k)
		ch, ok2 := coqChal(itemsOf(rp.log, 'R'), k)
		if ok1 && ok2 && len(pri) == 5*k+2 && !c.search {
			pt1 := func(P []kyber.Point) string {
				its := make([]item, len(P))
				for i := range P {
					its[i] = item{p: P[i]}
				}
				return zItems(its)
			}
			id := c.next()
			c.cf.Items = append(c.cf.Items, fmt.Sprintf("(CSeq %d %s %s %s %s %s %s %s %s %s %s %s %s %s %s %s %s %s %s %s %s %s %d)", id,
				zInts(pi), zSc(g), zSc(h), zScs(ev), zRows(beta), zRows(x), zRows(y), zRows(xb), zRows(yb),
				pt1(xu), pt1(yu), pt1(xd), pt1(yd),
				zItems(pri[:k]), zItems(pri[k:2*k]), zItems(pri[2*k:3*k]), vh.CoqZ(ival(pri[3*k])), vh.CoqZ(ival(pri[3*k+2])),
				zItems(pri[3*k+3:]), ch, tr, v))
			c.rep.Index(id, fmt.Sprintf("SequencesShuffle k=%d NQ=%d", k, NQ))
		}
		// the later runs of the history against the model: a pair shuffle on the consolidated vectors
		for _, run := range extra {
			consE := func(m [][]sc) []sc {
				out := make([]sc, k)
				for i := range out {
					out[i] = e.zero()
					for j := range m {
						out[i] = e.add(out[i], e.mul(run.ev[j], m[j][i]))
					}
				}
				return out
			}
			pri := itemsOf(run.rp.log, 'S')
			tr, ok1 := coqPtr(itemsOf(run.rp.log, 'P'), k)
			ch, ok2 := coqChal(itemsOf(run.rp.log, 'R'), k)
			if ok1 && ok2 && len(pri) == 5*k+2 && !c.search {
				id := c.next()
				c.cf.Items = append(c.cf.Items, fmt.Sprintf("(CPairProve %d %s %s %s %s %s %s %s %s %s %s %s %s %s %s)", id,
					zInts(pi), zSc(g), zSc(h), zScs(consE(beta)), zScs(consE(x)), zScs(consE(y)),
					zItems(pri[:k]), zItems(pri[k:2*k]), zItems(pri[2*k:3*k]), vh.CoqZ(ival(pri[3*k])), vh.CoqZ(ival(pri[3*k+2])),
					zItems(pri[3*k+3:]), ch, tr))
				c.rep.Index(id, fmt.Sprintf("SequencesShuffle prover run again (history) k=%d NQ=%d", k, NQ))
			}
		}
		// adversarial: one sequence altered, the consolidated pair shuffle must reject
		in := &inst{k: k, g: g, h: h, x: cons(x), y: cons(y)}
		for variant := 0; variant < 3; variant++ {
			xb2, yb2 := make([][]sc, NQ), make([][]sc, NQ)
			for j := range xb {
				xb2[j], yb2[j] = clones(xb[j]), clones(yb[j])
			}
			j := e.r.Intn(NQ)
			a := e.r.Intn(k)
			b := (a + 1 + e.r.Intn(k-1)) % k
			what := ""
			switch variant {
			case 0:
				xb2[j][a], yb2[j][a] = e.rnd(), e.rnd()
				what = "replace-in-one-sequence"
			case 1:
				if NQ < 2 {
					continue
				}
				xb2[j][a], xb2[j][b] = xb2[j][b], xb2[j][a]
				yb2[j][a], yb2[j][b] = yb2[j][b], yb2[j][a]
				what = "one-sequence-permuted-differently"
			case 2:
				xb2[j][a], yb2[j][a] = e.add(xb2[j][a], xb2[j][b]), e.add(yb2[j][a], yb2[j][b])
				what = "sum-in-one-sequence"
			}
			s := &stmt{g, h, in.x, in.y, cons(xb2), cons(yb2)}
			vv := c.verifyPair(e, s, pf, "seq-reuse/"+what)
			c.judge(e, s, vv, true, "shuffle.SequencesShuffle/altered-output-accepted", what, nil)
			// the same through GetSequenceVerifiable, as a verifier of sequences would
			{
				XX2, YY2 := make([][]kyber.Point, NQ), make([][]kyber.Point, NQ)
				for jj := range xb2 {
					XX2[jj], YY2[jj] = e.pts(xb2[jj]), e.pts(yb2[jj])
				}
				ev2 := ev
				if variant == 2 {
					ev2 = e.rnds(NQ) // a fresh e chosen after the output was fixed
				}
				xu2, yu2, xd2, yd2 := shuffle.GetSequenceVerifiable(e.S, X, Y, XX2, YY2, ev2)
				if v3 := verifyReal(e.S, "PairShuffle", shuffle.Verifier(e.S, G, H, xu2, yu2, xd2, yd2), pf); v3 == vOK {
					c.rep.Fail("shuffle.GetSequenceVerifiable/altered-sequence-accepted", what,
						map[string]any{"suite": e.name, "k": k, "NQ": NQ, "sequence": j, "e": hexScs(ev2), "x": fmt.Sprint(x), "xbar": fmt.Sprint(xb2)})
				}
				c.rep.Count(fmt.Sprintf("seqv/%s/%x/%d", e.name, pf, variant), true)
			}
			f := outFam{name: "seq/" + what, xb: s.xb, yb: s.yb}
			c.tryForge(e, in, f, forgeOpt{mode: "untied", tie: e.r.Intn(3)})
			c.tryForge(e, in, f, forgeOpt{mode: "sigma", skip: e.r.Intn(k)})
			c.tryForge(e, in, f, forgeOpt{mode: "simple", skip: e.r.Intn(2 * k)})
		}
	}
}

func (c *run) seqAll(e *env, nq int) {
	for NQ := 1; NQ <= nq; NQ++ {
		for _, k := range []int{2, 3, 5} {
			if !e.dlog && k == 5 && NQ > 2 {
				continue
			}
			c.seqOne(e, k, NQ)
		}
	}
}
