package main

// Recording Fiat-Shamir contexts: line-by-line mirrors of proof/hash.go's
// hashProver / hashVerifier that additionally log every value put, got and
// drawn, so that the Coq model can be given the exact challenges and private
// randomness the implementation used. Proof bytes made here are always
// checked with the real proof.HashVerify; where the private randomness is
// reproducible they are also compared with the real proof.HashProve.

import (
	"bytes"
	"crypto/cipher"
	"reflect"

	"go.dedis.ch/kyber/v4"
	"go.dedis.ch/kyber/v4/proof"
)

type item struct {
	p kyber.Point
	s kyber.Scalar
}

type ev struct {
	kind  byte // 'P' put/get, 'R' public randomness, 'S' private randomness
	items []item
}

func flatten(out *[]item, v reflect.Value) {
	switch v.Kind() {
	case reflect.Ptr, reflect.Interface:
		if v.IsNil() {
			return
		}
		if v.CanInterface() {
			if s, ok := v.Interface().(kyber.Scalar); ok {
				*out = append(*out, item{s: s.Clone()})
				return
			}
			if p, ok := v.Interface().(kyber.Point); ok {
				*out = append(*out, item{p: p.Clone()})
				return
			}
		}
		flatten(out, v.Elem())
	case reflect.Struct:
		for i := 0; i < v.NumField(); i++ {
			if v.Type().Field(i).IsExported() {
				flatten(out, v.Field(i))
			}
		}
	case reflect.Slice, reflect.Array:
		for i := 0; i < v.Len(); i++ {
			flatten(out, v.Index(i))
		}
	}
}

func flat(objs ...any) []item {
	var out []item
	for _, o := range objs {
		flatten(&out, reflect.ValueOf(o))
	}
	return out
}

type streamReader struct{ cipher.Stream }

func (s *streamReader) Read(in []byte) (int, error) {
	x := make([]byte, len(in))
	s.XORKeyStream(x, x)
	copy(in, x)
	return len(in), nil
}

type recProver struct {
	S      proof.Suite
	proof  bytes.Buffer
	msg    bytes.Buffer
	pub    kyber.XOF
	pri    *streamReader
	log    []ev
	nput   int                    // items put so far
	tamper int                    // index of the put item to replace (-1: none)
	repl   func(it item) item     // replacement value
	hook   func(kind byte, n int) // called after each event
}

func newRecProver(S proof.Suite, name string, pri cipher.Stream) *recProver {
	return &recProver{S: S, pub: S.XOF([]byte(name)), pri: &streamReader{pri}, tamper: -1}
}

func enc(it item) []byte {
	var b []byte
	if it.p != nil {
		b, _ = it.p.MarshalBinary()
	} else {
		b, _ = it.s.MarshalBinary()
	}
	return b
}

func (c *recProver) Put(m any) error {
	var tmp bytes.Buffer
	if err := c.S.Write(&tmp, m); err != nil {
		return err
	}
	items := flat(m)
	buf := tmp.Bytes()
	off := 0
	for i := range items {
		e := enc(items[i])
		if !bytes.Equal(e, buf[off:off+len(e)]) {
			panic("c15: fixbuf layout is not the concatenation of the items")
		}
		if c.nput == c.tamper {
			items[i] = c.repl(items[i])
			copy(buf[off:], enc(items[i]))
		}
		off += len(e)
		c.nput++
	}
	if off != len(buf) {
		panic("c15: fixbuf layout has extra bytes")
	}
	c.msg.Write(buf)
	c.log = append(c.log, ev{'P', items})
	return nil
}

func (c *recProver) consume() {
	if c.msg.Len() > 0 {
		buf := c.msg.Bytes()
		c.pub.Reseed()
		c.pub.Write(buf)
		c.proof.Write(buf)
		c.msg.Reset()
	}
}

func (c *recProver) PubRand(data ...any) error {
	c.consume()
	if err := c.S.Read(c.pub, data...); err != nil {
		return err
	}
	c.log = append(c.log, ev{'R', flat(data...)})
	return nil
}

func (c *recProver) PriRand(data ...any) error {
	if err := c.S.Read(c.pri, data...); err != nil {
		return err
	}
	c.log = append(c.log, ev{'S', flat(data...)})
	return nil
}

func (c *recProver) Proof() []byte {
	c.consume()
	return append([]byte{}, c.proof.Bytes()...)
}

type recVerifier struct {
	S     proof.Suite
	proof bytes.Buffer
	prbuf []byte
	pub   kyber.XOF
	log   []ev
}

func newRecVerifier(S proof.Suite, name string, pf []byte) *recVerifier {
	c := &recVerifier{S: S, pub: S.XOF([]byte(name))}
	c.proof.Write(pf)
	c.prbuf = c.proof.Bytes()
	return c
}

func (c *recVerifier) consume() {
	l := len(c.prbuf) - c.proof.Len()
	if l > 0 {
		buf := c.prbuf[:l]
		c.pub.Reseed()
		c.pub.Write(buf)
		c.prbuf = c.proof.Bytes()
	}
}

func (c *recVerifier) Get(m any) error {
	if err := c.S.Read(&c.proof, m); err != nil {
		return err
	}
	c.log = append(c.log, ev{'P', flat(m)})
	return nil
}

func (c *recVerifier) PubRand(data ...any) error {
	c.consume()
	if err := c.S.Read(c.pub, data...); err != nil {
		return err
	}
	c.log = append(c.log, ev{'R', flat(data...)})
	return nil
}

// items of all events of one kind, in order
func itemsOf(log []ev, kind byte) []item {
	var out []item
	for _, e := range log {
		if e.kind == kind {
			out = append(out, e.items...)
		}
	}
	return out
}
