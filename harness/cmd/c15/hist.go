package main

// Object and call history: the same PairShuffle / SimpleShuffle object, the same
// proof.Prover and proof.Verifier closures used for several proofs (same and
// other inputs, other k after a second Init, verify after prove and prove after
// verify, a rejected proof in between), with the model's answer required every
// time; the caller's points, slices and scalars compared before and after every
// call; the caller's buffers overwritten after a call.

import (
	"bytes"
	"fmt"
	"sort"

	"go.dedis.ch/kyber/v4"
	"go.dedis.ch/kyber/v4/proof"
	"go.dedis.ch/kyber/v4/shuffle"

	"kyverif/vh"
)

// guard: snapshot of everything the caller hands to a call
type guard struct {
	e      *env
	names  []string
	pts    map[string][]kyber.Point
	scs    map[string][]sc
	before map[string][][]byte
}

func snapPts(p []kyber.Point) [][]byte {
	out := make([][]byte, len(p))
	for i := range p {
		if p[i] != nil {
			out[i], _ = p[i].MarshalBinary()
		}
	}
	return out
}
func snapScs(p []sc) [][]byte {
	out := make([][]byte, len(p))
	for i := range p {
		if p[i] != nil {
			out[i], _ = p[i].MarshalBinary()
		}
	}
	return out
}

func newGuard(e *env, pts map[string][]kyber.Point, scs map[string][]sc) *guard {
	g := &guard{e: e, pts: pts, scs: scs, before: map[string][][]byte{}}
	for n, p := range pts {
		g.names = append(g.names, n)
		g.before[n] = snapPts(p)
	}
	for n, p := range scs {
		g.names = append(g.names, n)
		g.before[n] = snapScs(p)
	}
	sort.Strings(g.names)
	return g
}

// check reports every caller value a call has changed
func (g *guard) check(c *run, call string) {
	c.rep.Dist("reuse:inputs-compared/" + call)
	for _, n := range g.names {
		var now [][]byte
		if p, ok := g.pts[n]; ok {
			now = snapPts(p)
		} else {
			now = snapScs(g.scs[n])
		}
		for i := range now {
			if !bytes.Equal(now[i], g.before[n][i]) {
				c.rep.Fail(call+"/inputs-mutated", fmt.Sprintf("the call changed the caller's %s[%d]", n, i),
					map[string]any{"suite": g.e.name, "argument": n, "index": i, "before": vh.Hex(g.before[n][i]), "after": vh.Hex(now[i])})
				return
			}
		}
	}
}

// an instance without equal ciphertexts or equal plaintexts (permutations can be read off outputs)
func (e *env) plainInst(k int) *inst {
	in := &inst{k: k, g: e.rndnz(), h: e.rndnz()}
	in.x, in.y = e.rnds(k), e.rnds(k)
	return in
}

func (c *run) expectOK(e *env, v int, key, what string, s *stmt) {
	c.rep.Dist("reuse:" + what)
	if v != vOK {
		c.rep.Fail(key, fmt.Sprintf("verdict %d in the call history: %s", v, what), s.replay(e, map[string]any{"history": what}))
	}
}

func (c *run) historyPair(e *env, k, k2 int) {
	in1, in2, in3 := e.newInst(k), e.newInst(k), e.newInst(k2)
	ps := &shuffle.PairShuffle{}
	ps.Init(e.S, k)
	const key = "shuffle.PairShuffle/honest-proof-rejected"
	// one prover object, several proofs
	pi1, b1 := randPerm(e.r, k), e.rnds(k)
	s1, pfA, _ := c.honestPairOn(e, in1, pi1, b1, ps, "reuse:pair/prove#1")
	_, pfB, _ := c.honestPairOn(e, in1, pi1, b1, ps, "reuse:pair/prove#2-same-input")
	s2, pfC, _ := c.honestPairOn(e, in2, randPerm(e.r, k), e.rnds(k), ps, "reuse:pair/prove#3-other-input")
	c.rep.Dist("reuse:pair/prove-on-one-object")
	if pfA == nil || pfB == nil || pfC == nil {
		return
	}
	// the same object as verifier, then as prover again
	mkV := func(obj *shuffle.PairShuffle, s *stmt) (proof.Verifier, *guard) {
		G, H, X, Y, Xb, Yb := e.pt(s.g), e.pt(s.h), e.pts(s.x), e.pts(s.y), e.pts(s.xb), e.pts(s.yb)
		gd := newGuard(e, map[string][]kyber.Point{"G": {G}, "H": {H}, "X": X, "Y": Y, "Xbar": Xb, "Ybar": Yb}, nil)
		return func(ctx proof.VerifierContext) error { return obj.Verify(G, H, X, Y, Xb, Yb, ctx) }, gd
	}
	v, gd := mkV(ps, s2)
	c.expectOK(e, c.verifyPairWith(e, s2, pfC, "reuse:pair/verify-on-prover-object", v), key, "pair/verify-on-prover-object", s2)
	gd.check(c, "shuffle.PairShuffle.Verify")
	c.honestPairOn(e, in1, randPerm(e.r, k), e.rnds(k), ps, "reuse:pair/prove-after-verify")
	// one verifier closure (shuffle.Verifier), many proofs: accept, accept again, reject, accept
	{
		G, H, X, Y, Xb, Yb := e.pt(s1.g), e.pt(s1.h), e.pts(s1.x), e.pts(s1.y), e.pts(s1.xb), e.pts(s1.yb)
		gd := newGuard(e, map[string][]kyber.Point{"G": {G}, "H": {H}, "X": X, "Y": Y, "Xbar": Xb, "Ybar": Yb}, nil)
		vf := shuffle.Verifier(e.S, G, H, X, Y, Xb, Yb)
		c.expectOK(e, c.verifyPairWith(e, s1, pfA, "reuse:pair/verifier#1", vf), key, "pair/verifier-closure#1", s1)
		c.expectOK(e, c.verifyPairWith(e, s1, pfA, "reuse:pair/verifier#2-same-proof", vf), key, "pair/verifier-closure#2-same-proof", s1)
		bad := append([]byte{}, pfA...)
		bad[len(bad)-1] ^= 1
		if vb := c.verifyPairWith(e, s1, bad, "reuse:pair/verifier#3-bad-proof", vf); vb == vOK {
			c.rep.Fail("proof.HashVerify(PairShuffle)/mutated-proof-accepted", "reused verifier closure", s1.replay(e, nil))
		}
		c.verifyPairWith(e, s1, pfC, "reuse:pair/verifier#4-proof-of-other-statement", vf)
		c.expectOK(e, c.verifyPairWith(e, s1, pfB, "reuse:pair/verifier#5-second-proof", vf), key, "pair/verifier-closure#5-after-rejections", s1)
		c.expectOK(e, c.verifyPairWith(e, s1, pfA, "reuse:pair/verifier#6-first-proof-again", vf), key, "pair/verifier-closure#6", s1)
		gd.check(c, "shuffle.Verifier")
	}
	// Init again on the used object, other k (larger and smaller)
	ps.Init(e.S, k2)
	s3, pfD, _ := c.honestPairOn(e, in3, randPerm(e.r, k2), e.rnds(k2), ps, "reuse:pair/re-init-other-k")
	if pfD != nil {
		v, _ := mkV(ps, s3)
		c.expectOK(e, c.verifyPairWith(e, s3, pfD, "reuse:pair/verify-after-re-init", v), key, "pair/verify-after-re-init", s3)
	}
	ps.Init(e.S, k)
	c.honestPairOn(e, in2, randPerm(e.r, k), e.rnds(k), ps, "reuse:pair/re-init-back")
	// a verifier object that first saw another k
	pv := &shuffle.PairShuffle{}
	pv.Init(e.S, k2)
	if pfD != nil {
		v, _ := mkV(pv, s3)
		c.verifyPairWith(e, s3, pfD, "reuse:pair/verifier-object-k2", v)
	}
	pv.Init(e.S, k)
	v, _ = mkV(pv, s1)
	c.expectOK(e, c.verifyPairWith(e, s1, pfA, "reuse:pair/verifier-object-re-init", v), key, "pair/verifier-object-re-init", s1)
}

// the proof.Prover returned by shuffle.Shuffle used for several proofs; caller buffers overwritten afterwards
func (c *run) historyShuffleAPI(e *env, k int) {
	in := e.plainInst(k)
	G, H, X, Y := e.pt(in.g), e.pt(in.h), e.pts(in.x), e.pts(in.y)
	gd := newGuard(e, map[string][]kyber.Point{"G": {G}, "H": {H}, "X": X, "Y": Y}, nil)
	var Xb, Yb []kyber.Point
	var pr proof.Prover
	if pan, msg := vh.Try(func() { Xb, Yb, pr = shuffle.Shuffle(e.S, G, H, X, Y, e.st) }); pan {
		c.rep.Fail("shuffle.Shuffle/panic", msg, nil)
		return
	}
	gd.check(c, "shuffle.Shuffle")
	gout := newGuard(e, map[string][]kyber.Point{"Xbar": Xb, "Ybar": Yb}, nil)
	// the statement in the scalar domain (dlog) for the model
	var s *stmt
	var pi []int
	var beta []sc
	if e.dlog {
		dg := e.S.(*vh.DlogGroup)
		xb, yb := make([]sc, k), make([]sc, k)
		for i := 0; i < k; i++ {
			xb[i], yb[i] = dg.ScalarOf(vh.Dlog(Xb[i])), dg.ScalarOf(vh.Dlog(Yb[i]))
		}
		s = &stmt{in.g, in.h, in.x, in.y, xb, yb}
		if p, ok := e.isShuffle(in.g, in.h, in.x, in.y, xb, yb); ok {
			pi = p
			beta = make([]sc, k)
			for i := 0; i < k; i++ {
				beta[pi[i]] = e.div(e.sub(xb[i], in.x[pi[i]]), in.g)
			}
		}
	}
	for n, name := range []string{"PairShuffle", "PairShuffle", "second protocol name"} {
		what := fmt.Sprintf("reuse:api/prover-closure#%d", n+1)
		var pf []byte
		var err error
		var rp *recProver
		pan, msg := vh.Try(func() {
			if n == 1 { // through the recording context: the model sees this run
				rp = newRecProver(e.S, name, e.st)
				err = (func(proof.ProverContext) error)(pr)(rp)
				pf = rp.Proof()
			} else {
				pf, err = proof.HashProve(e.S, name, pr)
			}
		})
		gd.check(c, "proof.HashProve(shuffle.Shuffle prover)")
		gout.check(c, "proof.HashProve(shuffle.Shuffle prover)/outputs")
		c.rep.Dist(what)
		if pan || err != nil {
			c.rep.Fail("shuffle.Shuffle/honest-prover-fails", fmt.Sprint(what, msg, err), nil)
			continue
		}
		v := verifyReal(e.S, name, shuffle.Verifier(e.S, G, H, X, Y, Xb, Yb), pf)
		c.rep.Count(fmt.Sprintf("hist/%s/%x", e.name, pf), true)
		if v != vOK {
			c.rep.Fail("shuffle.Shuffle/honest-proof-rejected", fmt.Sprintf("%s: proof number %d made with the proof.Prover that shuffle.Shuffle returned, verdict %d", what, n+1, v),
				map[string]any{"suite": e.name, "k": k, "name": name, "proof": vh.Hex(pf)})
		}
		if rp != nil && e.dlog && !c.search && pi != nil {
			pri := itemsOf(rp.log, 'S')
			tr, ok1 := coqPtr(itemsOf(rp.log, 'P'), k)
			ch, ok2 := coqChal(itemsOf(rp.log, 'R'), k)
			if ok1 && ok2 && len(pri) == 5*k+2 {
				id := c.next()
				c.cf.Items = append(c.cf.Items, fmt.Sprintf("(CPairProve %d %s %s %s %s %s %s %s %s %s %s %s %s %s %s)", id,
					zInts(pi), zSc(in.g), zSc(in.h), zScs(beta), zScs(in.x), zScs(in.y),
					zItems(pri[:k]), zItems(pri[k:2*k]), zItems(pri[2*k:3*k]), vh.CoqZ(ival(pri[3*k])), vh.CoqZ(ival(pri[3*k+2])),
					zItems(pri[3*k+3:]), ch, tr))
				c.rep.Index(id, what)
			}
			c.verifyPair(e, s, pf, what)
		}
	}
	// the caller reuses its buffers after the call: outputs and proofs must not depend on them
	X0, Y0, Xb0, Yb0 := e.pts(in.x), e.pts(in.y), make([]kyber.Point, k), make([]kyber.Point, k)
	for i := range Xb {
		Xb0[i], Yb0[i] = Xb[i].Clone(), Yb[i].Clone()
	}
	pf, err := proof.HashProve(e.S, "PairShuffle", pr)
	one := e.pt(e.one())
	for i := range X {
		X[i].Add(X[i], one)
		Y[i].Add(Y[i], one)
	}
	gout.check(c, "caller overwrites X,Y after shuffle.Shuffle/outputs")
	c.rep.Dist("reuse:api/caller-buffers-overwritten-after-call")
	if err == nil {
		if v := verifyReal(e.S, "PairShuffle", shuffle.Verifier(e.S, e.pt(in.g), e.pt(in.h), X0, Y0, Xb0, Yb0), pf); v != vOK {
			c.rep.Fail("shuffle.Shuffle/honest-proof-rejected", "proof made before the caller overwrote its input buffers, verified against copies of the original statement", nil)
		}
	}
}

func (c *run) historySimple(e *env, k, k2 int) {
	ss := &shuffle.SimpleShuffle{}
	ss.Init(e.S, k)
	vobj := &shuffle.SimpleShuffle{}
	vobj.Init(e.S, k)
	g := e.rndnz()
	type stm struct {
		gamma sc
		x, y  []sc
		pf    []byte
	}
	var made []stm
	prove := func(obj *shuffle.SimpleShuffle, kk int, what string) *stm {
		gamma := e.rndnz()
		x := e.rnds(kk)
		pi := randPerm(e.r, kk)
		y := make([]sc, kk)
		for i := range y {
			y[i] = e.mul(gamma, x[pi[i]])
		}
		rp := newRecProver(e.S, "SimpleShuffle", e.st)
		G := e.pt(g)
		gd := newGuard(e, map[string][]kyber.Point{"G": {G}}, map[string][]sc{"gamma": {gamma}, "x": x, "y": y})
		var err error
		pan, msg := vh.Try(func() { err = obj.Prove(G, gamma, x, y, e.st, rp) })
		gd.check(c, "shuffle.SimpleShuffle.Prove")
		c.rep.Dist(what)
		if pan || err != nil {
			c.rep.Fail("shuffle.SimpleShuffle.Prove/honest-prover-fails", fmt.Sprint(what, msg, err), nil)
			return nil
		}
		st := &stm{gamma, x, y, rp.Proof()}
		v := c.verifySimple(e, kk, g, gamma, x, y, st.pf, false, what)
		if v != vOK {
			c.rep.Fail("shuffle.SimpleShuffle/honest-proof-rejected", fmt.Sprintf("%s verdict=%d", what, v),
				map[string]any{"suite": e.name, "k": kk, "history": what})
		}
		if e.dlog && !c.search {
			tr, ok := coqSimple(itemsOf(rp.log, 'P'), kk)
			r := itemsOf(rp.log, 'R')
			th := itemsOf(rp.log, 'S')
			if ok && len(r) == 2 && len(th) == 2*kk-1 {
				id := c.next()
				c.cf.Items = append(c.cf.Items, fmt.Sprintf("(CSimple %d %s %s %s %s %s %s %s %s %s)", id, zSc(g), zSc(gamma),
					zScs(x), zScs(y), zItems(th), vh.CoqZ(ival(r[0])), vh.CoqZ(ival(r[1])), tr, vh.CoqBool(v == vOK)))
				c.rep.Index(id, what)
			}
		}
		return st
	}
	for n, what := range []string{"reuse:simple/prove#1", "reuse:simple/prove#2", "reuse:simple/prove#3"} {
		_ = n
		if st := prove(ss, k, what); st != nil {
			made = append(made, *st)
		}
	}
	// one verifier object for all of them, a bad proof in between
	for n, st := range made {
		Gamma := e.mul(st.gamma, g)
		vf := func(ctx proof.VerifierContext) error { return vobj.Verify(e.pt(g), e.pt(Gamma), ctx) }
		what := fmt.Sprintf("reuse:simple/verifier-object#%d", n+1)
		if v := c.verifySimpleWith(e, k, g, st.gamma, st.x, st.y, st.pf, false, what, vf); v != vOK {
			c.rep.Fail("shuffle.SimpleShuffle/honest-proof-rejected", what, nil)
		}
		bad := append([]byte{}, st.pf...)
		bad[len(bad)-1] ^= 1
		c.verifySimpleWith(e, k, g, st.gamma, st.x, st.y, bad, true, "reuse:simple/verifier-object-bad-proof", vf)
		c.rep.Dist(what)
	}
	// prover object used as verifier and as prover again; Init with another k
	if len(made) > 0 {
		st := made[len(made)-1]
		Gamma := e.mul(st.gamma, g)
		vf := func(ctx proof.VerifierContext) error { return ss.Verify(e.pt(g), e.pt(Gamma), ctx) }
		c.verifySimpleWith(e, k, g, st.gamma, st.x, st.y, st.pf, false, "reuse:simple/verify-on-prover-object", vf)
		prove(ss, k, "reuse:simple/prove-after-verify")
	}
	ss.Init(e.S, k2)
	prove(ss, k2, "reuse:simple/re-init-other-k")
	ss.Init(e.S, k)
	prove(ss, k, "reuse:simple/re-init-back")
}

func (c *run) history(e *env) {
	ks := [][2]int{{2, 4}, {3, 2}, {5, 3}}
	if !e.dlog && !c.thor {
		ks = ks[:2]
	}
	for _, kk := range ks {
		c.historyPair(e, kk[0], kk[1])
		c.historySimple(e, kk[0], kk[1])
		c.historyShuffleAPI(e, kk[0])
	}
}
