package main

// Instances with known discrete logarithms, the decision procedure for "the
// output is a permutation of re-encryptions of the input", and malicious
// provers. Every point the harness creates is a known multiple of the base
// point, on every suite; the malicious provers compute in the scalar domain
// and only convert to points when they send a message.

import (
	"crypto/cipher"

	"go.dedis.ch/kyber/v4"
	"go.dedis.ch/kyber/v4/proof"

	"kyverif/vh"
)

type sc = kyber.Scalar

type rngStream struct{ r *vh.Rng }

func (s *rngStream) XORKeyStream(dst, src []byte) {
	k := s.r.Bytes(len(src))
	for i := range src {
		dst[i] = src[i] ^ k[i]
	}
}

type env struct {
	name string
	dlog bool
	S    proof.Suite
	r    *vh.Rng
	st   cipher.Stream
}

func (e *env) zero() sc     { return e.S.Scalar().Zero() }
func (e *env) one() sc      { return e.S.Scalar().One() }
func (e *env) add(a, b sc) sc { return e.S.Scalar().Add(a, b) }
func (e *env) sub(a, b sc) sc { return e.S.Scalar().Sub(a, b) }
func (e *env) mul(a, b sc) sc { return e.S.Scalar().Mul(a, b) }
func (e *env) div(a, b sc) sc { return e.S.Scalar().Div(a, b) }
func (e *env) neg(a sc) sc  { return e.S.Scalar().Neg(a) }
func (e *env) isz(a sc) bool { return a.Equal(e.zero()) }
func (e *env) rnd() sc      { return e.S.Scalar().Pick(e.st) }
func (e *env) rndnz() sc {
	for {
		x := e.rnd()
		if !e.isz(x) {
			return x
		}
	}
}
func (e *env) small(n int64) sc    { return e.S.Scalar().SetInt64(n) }
func (e *env) pt(s sc) kyber.Point { return e.S.Point().Mul(s, nil) }
func (e *env) pts(s []sc) []kyber.Point {
	out := make([]kyber.Point, len(s))
	for i := range s {
		out[i] = e.pt(s[i])
	}
	return out
}
func (e *env) rnds(n int) []sc {
	out := make([]sc, n)
	for i := range out {
		out[i] = e.rnd()
	}
	return out
}
func (e *env) dot(a, b []sc) sc {
	acc := e.zero()
	for i := range a {
		acc = e.add(acc, e.mul(a[i], b[i]))
	}
	return acc
}
func clones(a []sc) []sc {
	out := make([]sc, len(a))
	for i := range a {
		out[i] = a[i].Clone()
	}
	return out
}

// an ElGamal shuffle statement with known logarithms (w.r.t. the base point)
type inst struct {
	k    int
	g, h sc
	x, y []sc
}

func (e *env) newInst(k int) *inst {
	in := &inst{k: k}
	if e.r.Chance(25) {
		in.g = e.one() // G = standard base
	} else {
		in.g = e.rndnz()
	}
	in.h = e.rndnz()
	in.x = make([]sc, k)
	in.y = make([]sc, k)
	for i := 0; i < k; i++ {
		r := e.rnd()
		m := e.rnd()
		switch e.r.Intn(12) {
		case 0:
			m = e.zero() // identity plaintext
		case 1:
			if i > 0 { // same ciphertext twice
				in.x[i], in.y[i] = in.x[i-1].Clone(), in.y[i-1].Clone()
				continue
			}
		case 2:
			r = e.zero() // unblinded
		}
		in.x[i] = e.mul(r, in.g)
		in.y[i] = e.add(e.mul(r, in.h), m)
	}
	return in
}

func randPerm(r *vh.Rng, k int) []int {
	pi := make([]int, k)
	for i := range pi {
		pi[i] = i
	}
	for i := k - 1; i > 0; i-- {
		j := r.Intn(i + 1)
		pi[i], pi[j] = pi[j], pi[i]
	}
	return pi
}

func allPerms(k int) [][]int {
	var out [][]int
	var rec func(cur []int, used []bool)
	rec = func(cur []int, used []bool) {
		if len(cur) == k {
			out = append(out, append([]int{}, cur...))
			return
		}
		for i := 0; i < k; i++ {
			if !used[i] {
				used[i] = true
				rec(append(cur, i), used)
				used[i] = false
			}
		}
	}
	rec(nil, make([]bool, k))
	return out
}

// honest output in the scalar domain
func (e *env) shuffleOut(in *inst, pi []int, beta []sc) (xb, yb []sc) {
	xb = make([]sc, in.k)
	yb = make([]sc, in.k)
	for i := range pi {
		xb[i] = e.add(e.mul(beta[pi[i]], in.g), in.x[pi[i]])
		yb[i] = e.add(e.mul(beta[pi[i]], in.h), in.y[pi[i]])
	}
	return
}

// isShuffle decides whether (xb,yb) is a permutation of re-encryptions of
// (x,y) under G = g*B, H = h*B: slot i may come from input j iff
// (xb_i - x_j)*h = (yb_i - y_j)*g; a perfect matching must exist.
func (e *env) isShuffle(g, h sc, x, y, xb, yb []sc) ([]int, bool) {
	k := len(x)
	if len(xb) != k || len(yb) != k || len(y) != k {
		return nil, false
	}
	ok := make([][]bool, k)
	for i := 0; i < k; i++ {
		ok[i] = make([]bool, k)
		for j := 0; j < k; j++ {
			ok[i][j] = e.mul(e.sub(xb[i], x[j]), h).Equal(e.mul(e.sub(yb[i], y[j]), g))
		}
	}
	match := make([]int, k) // input j -> slot
	for j := range match {
		match[j] = -1
	}
	var try func(i int, seen []bool) bool
	try = func(i int, seen []bool) bool {
		for j := 0; j < k; j++ {
			if ok[i][j] && !seen[j] {
				seen[j] = true
				if match[j] < 0 || try(match[j], seen) {
					match[j] = i
					return true
				}
			}
		}
		return false
	}
	for i := 0; i < k; i++ {
		if !try(i, make([]bool, k)) {
			return nil, false
		}
	}
	pi := make([]int, k)
	for j, i := range match {
		pi[i] = j
	}
	return pi, true
}

// ---------------------------------------------------------------- mirrors of the message structs

type mEga1 struct {
	Gamma            kyber.Point
	A, C, U, W       []kyber.Point
	Lambda1, Lambda2 kyber.Point
}
type mEga2 struct{ Zrho []kyber.Scalar }
type mEga3 struct{ D []kyber.Point }
type mEga4 struct{ Zlambda kyber.Scalar }
type mEga5 struct {
	Zsigma []kyber.Scalar
	Ztau   kyber.Scalar
}
type mSsa0 struct{ X, Y []kyber.Point }
type mSsa1 struct{ Zt kyber.Scalar }
type mSsa2 struct{ Theta []kyber.Point }
type mSsa3 struct{ Zc kyber.Scalar }
type mSsa4 struct{ Zalpha []kyber.Scalar }

// ---------------------------------------------------------------- malicious simple shuffle

// forgeSimple proves "y = gamma * perm(x)" for vectors where this may be false:
// all 2k verification equations but number skip are satisfied (alpha is
// propagated forwards from c below skip and backwards from c above it).
// With skip = k and y a scaled permutation of x this is the honest prover.
func (e *env) forgeSimple(ctx proof.ProverContext, g, gamma sc, x, y []sc, skip int) error {
	k := len(x)
	if err := ctx.Put(&mSsa0{e.pts(mulAll(e, x, g)), e.pts(mulAll(e, y, g))}); err != nil {
		return err
	}
	var v1 mSsa1
	if err := ctx.PubRand(&v1); err != nil {
		return err
	}
	t := v1.Zt
	n := 2 * k
	p := make([]sc, n)
	qq := make([]sc, n)
	for i := 0; i < k; i++ {
		p[i] = e.sub(x[i], t)
		qq[i] = e.sub(y[i], e.mul(gamma, t))
		p[k+i] = gamma
		qq[k+i] = e.one()
	}
	theta := make([]sc, n+1) // theta[i+1] is the code's theta[i]; theta[0] = theta[n] = 0
	theta[0], theta[n] = e.zero(), e.zero()
	for i := 1; i < n; i++ {
		theta[i] = e.rnd()
	}
	Th := make([]sc, n)
	for i := 0; i < n; i++ {
		Th[i] = e.mul(e.sub(e.mul(theta[i], p[i]), e.mul(theta[i+1], qq[i])), g)
	}
	if err := ctx.Put(&mSsa2{e.pts(Th)}); err != nil {
		return err
	}
	var v3 mSsa3
	if err := ctx.PubRand(&v3); err != nil {
		return err
	}
	c := v3.Zc
	// a[i] = theta[i] + run[i]; equation i: a[i]*p[i] - a[i+1]*q[i] = Theta[i]/g
	run := make([]sc, n+1)
	run[0] = c
	for i := 0; i < skip; i++ { // forwards: run[i+1] = run[i]*p[i]/q[i]
		if e.isz(qq[i]) {
			run[i+1] = e.zero()
		} else {
			run[i+1] = e.div(e.mul(run[i], p[i]), qq[i])
		}
	}
	run[n] = c
	for i := n - 1; i > skip; i-- { // backwards: run[i] = run[i+1]*q[i]/p[i]
		if e.isz(p[i]) {
			run[i] = e.zero()
		} else {
			run[i] = e.div(e.mul(run[i+1], qq[i]), p[i])
		}
	}
	alpha := make([]sc, n-1)
	for i := 1; i < n; i++ {
		alpha[i-1] = e.add(theta[i], run[i])
	}
	return ctx.Put(&mSsa4{alpha})
}

func mulAll(e *env, v []sc, s sc) []sc {
	out := make([]sc, len(v))
	for i := range v {
		out[i] = e.mul(v[i], s)
	}
	return out
}

// ---------------------------------------------------------------- malicious pair shuffle

type forgeOpt struct {
	mode string // "untied", "sigma", "simple", "linear"
	tie  int    // untied: 0 = unrelated simple-shuffle vectors, 1 = X side tied, 2 = Y side tied
	skip int    // simple: index of the simple-shuffle equation left unsatisfied
	M    [][]sc // linear: xbar = M*x + beta*g
	beta []sc   // linear
}

// solve2 finds the two unknowns (coefficients a1,b1 / a2,b2) of a1*u+a2*v = r1, b1*u+b2*v = r2
func (e *env) solve2(a1, a2, b1, b2, r1, r2 sc) (u, v sc, ok bool) {
	det := e.sub(e.mul(a1, b2), e.mul(a2, b1))
	if e.isz(det) {
		return nil, nil, false
	}
	u = e.div(e.sub(e.mul(r1, b2), e.mul(a2, r2)), det)
	v = e.div(e.sub(e.mul(a1, r2), e.mul(r1, b1)), det)
	return u, v, true
}

// solveT solves M^T sigma = rho by Gaussian elimination
func (e *env) solveT(M [][]sc, rho []sc) ([]sc, bool) {
	k := len(rho)
	a := make([][]sc, k)
	for i := 0; i < k; i++ {
		a[i] = make([]sc, k+1)
		for j := 0; j < k; j++ {
			a[i][j] = M[j][i].Clone()
		}
		a[i][k] = rho[i].Clone()
	}
	for col := 0; col < k; col++ {
		piv := -1
		for r := col; r < k; r++ {
			if !e.isz(a[r][col]) {
				piv = r
				break
			}
		}
		if piv < 0 {
			return nil, false
		}
		a[col], a[piv] = a[piv], a[col]
		inv := e.div(e.one(), a[col][col])
		for j := col; j <= k; j++ {
			a[col][j] = e.mul(a[col][j], inv)
		}
		for r := 0; r < k; r++ {
			if r != col && !e.isz(a[r][col]) {
				f := a[r][col].Clone()
				for j := col; j <= k; j++ {
					a[r][j] = e.sub(a[r][j], e.mul(f, a[col][j]))
				}
			}
		}
	}
	out := make([]sc, k)
	for i := range out {
		out[i] = a[i][k]
	}
	return out, true
}

// forgePair is a prover for the claim "(xb,yb) is a shuffle of in" that does
// not need the claim to be true. It knows every discrete logarithm.
//
//	untied: commits to arbitrary A, C, U, W, Lambda; after rho it solves (34),(35)
//	        for sigma and tau, sets D = sigma*Gamma - W so that (33) holds, and runs an honest simple
//	        shuffle on vectors of its own (this is what a verifier without the tie accepts).
//	linear: the same without knowing any logarithm, for xb = M*x + beta*G, M invertible.
//	        tie = 3: as an honest prover for the identity permutation except sigma = M^-T*rho and
//	        D = sigma*Gamma - W; the tie then holds in aggregate exactly when the rows of M sum to 1.
//	sigma:  honest commitments for a permutation of its choice, sigma[i0] and tau solved from (34),(35):
//	        only (33) at i0 is violated (tie = 0); or D follows sigma, so that (33) holds and only the Y half
//	        of the tie at i0 is violated (tie = 1); or sigma moves along e_i0 - e_i1, so that moreover every
//	        sum over the indices is the honest one (tie = 2: a verifier checking the tie in aggregate accepts).
//	simple: as untied, but the simple shuffle is on R = A + lambda*B, S = C + lambda*D as the tie demands;
//	        since S is then not a scaled permutation of R, one simple-shuffle equation (skip) stays violated.
func (e *env) forgePair(in *inst, xb, yb []sc, o forgeOpt) proof.Prover {
	return func(ctx proof.ProverContext) error {
		k := in.k
		g, h := in.g, in.h
		gamma := e.rndnz()
		a, cc, u, w := e.rnds(k), e.rnds(k), e.rnds(k), e.rnds(k)
		l1, l2 := e.rnd(), e.rnd()
		pi := randPerm(e.r, k)
		tau0 := e.rnd()
		beta := e.rnds(k)
		switch o.mode {
		case "linear":
			for i := range w {
				w[i] = e.zero()
			}
			l1, l2 = e.zero(), e.zero()
			if o.tie == 3 {
				// everything that does not depend on sigma as an honest prover for the identity
				// permutation would send it: W = gamma*u*G, C = gamma*A, Lambda = tau0*(G,H)
				for i := range w {
					w[i] = u[i].Clone()
					cc[i] = e.mul(gamma, a[i])
				}
				l1, l2 = e.mul(tau0, g), e.mul(tau0, h)
			}
		case "sigma":
			// honest step 1 for permutation pi and blinding beta
			piinv := make([]int, k)
			for i := range pi {
				piinv[pi[i]] = i
			}
			wb := tau0.Clone()
			l1, l2 = e.zero(), e.zero()
			for i := 0; i < k; i++ {
				cc[i] = e.mul(gamma, a[pi[i]])
				wb = e.add(wb, e.mul(w[i], beta[pi[i]]))
				l1 = e.add(l1, e.mul(e.sub(w[piinv[i]], u[i]), in.x[i]))
				l2 = e.add(l2, e.mul(e.sub(w[piinv[i]], u[i]), in.y[i]))
			}
			l1 = e.add(l1, e.mul(wb, g))
			l2 = e.add(l2, e.mul(wb, h))
		}
		// logs of the points sent: scalar*g (the code multiplies G)
		gw := mulAll(e, w, gamma)
		if o.mode != "sigma" && !(o.mode == "linear" && o.tie == 3) {
			gw = w // W arbitrary: log of W[i] w.r.t. G is w[i]
		}
		p1 := &mEga1{Gamma: e.pt(e.mul(gamma, g)),
			A: e.pts(mulAll(e, a, g)), C: e.pts(mulAll(e, cc, g)), U: e.pts(mulAll(e, u, g)),
			W: e.pts(mulAll(e, gw, g)), Lambda1: e.pt(l1), Lambda2: e.pt(l2)}
		if err := ctx.Put(p1); err != nil {
			return err
		}
		var v2 mEga2
		v2.Zrho = make([]kyber.Scalar, k)
		if err := ctx.PubRand(&v2); err != nil {
			return err
		}
		rho := v2.Zrho
		b := make([]sc, k)
		for i := range b {
			b[i] = e.sub(rho[i], u[i])
		}
		// targets of (34),(35): sum sigma_i*xb_i - tau*g = l1 + sum rho_i*x_i
		r1 := e.add(l1, e.dot(rho, in.x))
		r2 := e.add(l2, e.dot(rho, in.y))
		sigma := make([]sc, k)
		var tau sc
		d := make([]sc, k) // log of D[i] w.r.t. G
		switch o.mode {
		case "linear":
			s, ok := e.solveT(o.M, rho)
			if !ok {
				return errNoForge
			}
			sigma = s
			tau = e.dot(sigma, o.beta)
			if o.tie == 3 {
				tau = e.sub(tau, tau0)
			}
		case "sigma":
			for i := 0; i < k; i++ {
				sigma[i] = e.add(w[i], b[pi[i]])
			}
			i0 := o.skip % k
			if o.tie == 2 {
				// sigma = honest + eps*(e_a - e_b): the sum of sigma stays the honest one
				i1 := (i0 + 1) % k
				for i := 0; i < k; i++ {
					r1 = e.sub(r1, e.mul(sigma[i], xb[i]))
					r2 = e.sub(r2, e.mul(sigma[i], yb[i]))
				}
				eps, t0, ok := e.solve2(e.sub(xb[i0], xb[i1]), e.neg(g), e.sub(yb[i0], yb[i1]), e.neg(h), r1, r2)
				if !ok {
					return errNoForge
				}
				sigma[i0], sigma[i1], tau = e.add(sigma[i0], eps), e.sub(sigma[i1], eps), t0
			} else {
				for i := 0; i < k; i++ {
					if i != i0 {
						r1 = e.sub(r1, e.mul(sigma[i], xb[i]))
						r2 = e.sub(r2, e.mul(sigma[i], yb[i]))
					}
				}
				s0, t0, ok := e.solve2(xb[i0], e.neg(g), yb[i0], e.neg(h), r1, r2)
				if !ok {
					return errNoForge
				}
				sigma[i0], tau = s0, t0
			}
		default:
			// pivots: two slots with independent (xb,yb)
			p0, p1i := -1, -1
			for i := 0; i < k && p0 < 0; i++ {
				for j := i + 1; j < k; j++ {
					if !e.isz(e.sub(e.mul(xb[i], yb[j]), e.mul(xb[j], yb[i]))) {
						p0, p1i = i, j
						break
					}
				}
			}
			if p0 < 0 {
				return errNoForge
			}
			tau = e.rnd()
			r1 = e.add(r1, e.mul(tau, g))
			r2 = e.add(r2, e.mul(tau, h))
			for i := 0; i < k; i++ {
				if i != p0 && i != p1i {
					sigma[i] = e.rnd()
					r1 = e.sub(r1, e.mul(sigma[i], xb[i]))
					r2 = e.sub(r2, e.mul(sigma[i], yb[i]))
				}
			}
			s0, s1, ok := e.solve2(xb[p0], xb[p1i], yb[p0], yb[p1i], r1, r2)
			if !ok {
				return errNoForge
			}
			sigma[p0], sigma[p1i] = s0, s1
		}
		for i := 0; i < k; i++ {
			if o.mode == "sigma" && o.tie == 0 {
				d[i] = e.mul(gamma, b[pi[i]])
			} else {
				d[i] = e.sub(e.mul(sigma[i], gamma), gw[i]) // (33): sigma*Gamma = W + D
			}
		}
		if err := ctx.Put(&mEga3{e.pts(mulAll(e, d, g))}); err != nil {
			return err
		}
		var v4 mEga4
		if err := ctx.PubRand(&v4); err != nil {
			return err
		}
		lambda := v4.Zlambda
		if err := ctx.Put(&mEga5{sigma, tau}); err != nil {
			return err
		}
		// vectors the tie demands
		r := make([]sc, k)
		s := make([]sc, k)
		for i := 0; i < k; i++ {
			r[i] = e.add(a[i], e.mul(lambda, b[i]))
			s[i] = e.add(cc[i], e.mul(lambda, d[i]))
		}
		switch o.mode {
		case "simple":
			return e.forgeSimple(ctx, g, gamma, r, s, o.skip%(2*k))
		case "sigma":
			// the honest simple shuffle on R and gamma*perm(R); with tie > 0 the D that was sent follows
			// sigma, so C + lambda*D differs from S exactly where sigma differs from the honest value
			for i := 0; i < k; i++ {
				s[i] = e.mul(gamma, r[pi[i]])
			}
			return e.forgeSimple(ctx, g, gamma, r, s, k)
		}
		if o.mode == "linear" && o.tie == 3 {
			return e.forgeSimple(ctx, g, gamma, r, mulAll(e, r, gamma), k)
		}
		// untied / linear: an honest simple shuffle on vectors of the prover's choosing
		xs := e.rnds(k)
		ys := make([]sc, k)
		switch o.tie {
		case 1: // X side tied
			xs = r
		case 2: // Y side tied: xs = perm^-1(s)/gamma
			for i := 0; i < k; i++ {
				xs[pi[i]] = e.div(s[i], gamma)
			}
		}
		for i := 0; i < k; i++ {
			ys[i] = e.mul(gamma, xs[pi[i]])
		}
		return e.forgeSimple(ctx, g, gamma, xs, ys, k)
	}
}

type forgeErr struct{}

func (forgeErr) Error() string { return "no forgery for this instance" }

var errNoForge = forgeErr{}
