// Correspondence harness and oracles for property C15 (verifiable shuffles):
// shuffle/simple.go, pair.go, sequences.go, biffle.go driven over the
// transparent dlog group (exact values for the Coq model Shuffle.ShuffleSM) and
// over Ed25519 and P-256 (verdicts).
package main

import (
	"crypto/cipher"
	"fmt"
	"math/big"
	"strings"

	"go.dedis.ch/kyber/v4"
	"go.dedis.ch/kyber/v4/group/edwards25519"
	"go.dedis.ch/kyber/v4/group/p256"
	"go.dedis.ch/kyber/v4/proof"
	"go.dedis.ch/kyber/v4/shuffle"

	"kyverif/vh"
)

type run struct {
	rep    *vh.Report
	cf     *vh.CaseFile
	id     int
	search bool
	thor   bool
}

func (c *run) next() int { c.id++; return c.id }

func newEnv(name string, r *vh.Rng) *env {
	e := &env{name: name, r: r, st: &rngStream{r}}
	switch name {
	case "dlog":
		e.dlog = true
		e.S = vh.NewDlogGroup(vh.Q61, e.st)
	case "ed25519":
		e.S = edwards25519.NewBlakeSHA256Ed25519WithRand(e.st)
	case "p256":
		e.S = p256.NewBlakeSHA256P256()
	}
	return e
}

// ---------------------------------------------------------------- verdicts

const (
	vOK      = 0
	vInvalid = 1 // "invalid PairShuffleProof" / biffle "bad sub-challenges"
	vSimple  = 2 // "incorrect SimpleShuffleProof" / biffle "commit mismatch"
	vMalf    = 3
	vDecode  = 9
	vPanic   = 10
)

func classify(err error, panicked bool) int {
	if panicked {
		return vPanic
	}
	if err == nil {
		return vOK
	}
	s := err.Error()
	switch {
	case strings.Contains(s, "invalid PairShuffleProof"), strings.Contains(s, "bad sub-challenges"):
		return vInvalid
	case strings.Contains(s, "incorrect SimpleShuffleProof"), strings.Contains(s, "commit mismatch"):
		return vSimple
	case strings.Contains(s, "malformed SimpleShuffleProof"):
		return vMalf
	}
	return vDecode
}

func verifyReal(S proof.Suite, name string, v proof.Verifier, pf []byte) int {
	var err error
	pan, _ := vh.Try(func() { err = proof.HashVerify(S, name, v, pf) })
	return classify(err, pan)
}

func verifyRec(S proof.Suite, name string, v proof.Verifier, pf []byte) (int, *recVerifier) {
	rv := newRecVerifier(S, name, pf)
	var err error
	pan, _ := vh.Try(func() { err = (func(proof.VerifierContext) error)(v)(rv) })
	return classify(err, pan), rv
}

// ---------------------------------------------------------------- Coq literals

func ival(it item) *big.Int {
	if it.p != nil {
		return vh.Dlog(it.p)
	}
	return vh.ScalarVal(it.s)
}
func zItems(its []item) string {
	s := make([]string, len(its))
	for i := range its {
		s[i] = vh.CoqZ(ival(its[i]))
	}
	return vh.CoqList(s)
}
func zScs(v []sc) string {
	s := make([]string, len(v))
	for i := range v {
		s[i] = vh.CoqZ(vh.ScalarVal(v[i]))
	}
	return vh.CoqList(s)
}
func zSc(v sc) string { return vh.CoqZ(vh.ScalarVal(v)) }
func zInts(v []int) string {
	s := make([]string, len(v))
	for i := range v {
		s[i] = vh.CoqInt(v[i])
	}
	return vh.CoqList(s)
}
func zRows(m [][]sc) string {
	s := make([]string, len(m))
	for i := range m {
		s[i] = zScs(m[i])
	}
	return vh.CoqList(s)
}
func hexScs(v []sc) []string {
	out := make([]string, len(v))
	for i := range v {
		out[i] = vh.ScalarVal(v[i]).Text(16)
	}
	return out
}

// transcript of a pair shuffle (put/got items, in order) as a Coq [ptr]
func coqPtr(p []item, k int) (string, bool) {
	if len(p) != 12*k+3 {
		return "", false
	}
	o := 0
	take := func(n int) []item { s := p[o : o+n]; o += n; return s }
	gam := take(1)
	A, C, U, W := take(k), take(k), take(k), take(k)
	l := take(2)
	D := take(k)
	sig := take(k)
	tau := take(1)
	sx, sy := take(k), take(k)
	th := take(2 * k)
	al := take(2*k - 1)
	return fmt.Sprintf("(PTr %s %s %s %s %s %s %s %s %s %s %s %s %s %s)", vh.CoqZ(ival(gam[0])),
		zItems(A), zItems(C), zItems(U), zItems(W), vh.CoqZ(ival(l[0])), vh.CoqZ(ival(l[1])),
		zItems(D), zItems(sig), vh.CoqZ(ival(tau[0])), zItems(sx), zItems(sy), zItems(th), zItems(al)), true
}

// challenges of a pair shuffle: rho(k), lambda, t, c
func coqChal(r []item, k int) (string, bool) {
	if len(r) != k+3 {
		return "", false
	}
	return fmt.Sprintf("%s %s %s %s", zItems(r[:k]), vh.CoqZ(ival(r[k])), vh.CoqZ(ival(r[k+1])), vh.CoqZ(ival(r[k+2]))), true
}

// ---------------------------------------------------------------- pair shuffle statements

type stmt struct {
	g, h           sc
	x, y, xb, yb   []sc
}

func (e *env) pairVerifier(s *stmt) proof.Verifier {
	return shuffle.Verifier(e.S, e.pt(s.g), e.pt(s.h), e.pts(s.x), e.pts(s.y), e.pts(s.xb), e.pts(s.yb))
}

func (s *stmt) replay(e *env, extra map[string]any) map[string]any {
	m := map[string]any{"suite": e.name, "k": len(s.x), "g": hexScs([]sc{s.g}), "h": hexScs([]sc{s.h}),
		"x": hexScs(s.x), "y": hexScs(s.y), "xbar": hexScs(s.xb), "ybar": hexScs(s.yb),
		"note": "all values are discrete logarithms (hex) w.r.t. the base point: G=g*B, H=h*B, X[i]=x[i]*B, ..."}
	for k, v := range extra {
		m[k] = v
	}
	return m
}

// verifyPair runs the real HashVerify and the recording verifier, emits the
// model case (dlog) and returns the verdict.
func (c *run) verifyPair(e *env, s *stmt, pf []byte, what string) int {
	return c.verifyPairWith(e, s, pf, what, nil)
}

// verifyPairWith: vr != nil is a verifier closure the caller keeps using (object history)
func (c *run) verifyPairWith(e *env, s *stmt, pf []byte, what string, vr proof.Verifier) int {
	const name = "PairShuffle"
	va, vb := vr, vr
	if vr == nil {
		va, vb = e.pairVerifier(s), e.pairVerifier(s)
	}
	v1 := verifyReal(e.S, name, va, pf)
	v2, rv := verifyRec(e.S, name, vb, pf)
	if v1 != v2 {
		c.rep.Fail("proof.HashVerify/verdict-differs-from-Fiat-Shamir-specification",
			fmt.Sprintf("proof.HashVerify=%d, verifier run with challenges derived as hash.go specifies (XOF(name), reseeded with every complete message)=%d (%s, k=%d, first message %d bytes)",
				v1, v2, what, len(s.x), (4*len(s.x)+3)*e.S.PointLen()), s.replay(e, map[string]any{"proof": vh.Hex(pf)}))
	}
	c.rep.Dist(fmt.Sprintf("%s/pair-verify/%s/verdict=%d", e.name, what, v1))
	k := len(s.x)
	if e.dlog && !c.search && len(s.xb) == k && v1 != vDecode && v1 != vPanic {
		tr, ok1 := coqPtr(itemsOf(rv.log, 'P'), k)
		ch, ok2 := coqChal(itemsOf(rv.log, 'R'), k)
		if ok1 && ok2 {
			id := c.next()
			c.cf.Items = append(c.cf.Items, fmt.Sprintf("(CPairVerify %d %s %s %s %s %s %s %s %s %d)", id,
				zSc(s.g), zSc(s.h), zScs(s.x), zScs(s.y), zScs(s.xb), zScs(s.yb), tr, ch, v1))
			c.rep.Index(id, fmt.Sprintf("PairShuffle.Verify k=%d %s verdict=%d", k, what, v1))
			c.rep.Count(fmt.Sprintf("pv/%d/%s/%x", k, what, pf), true)
			return v1
		}
	}
	c.rep.Count(fmt.Sprintf("pv/%s/%d/%s/%x", e.name, k, what, pf), true)
	return v1
}

// the property's oracle: an accepted proof means the output is a permutation
// of re-encryptions, and (altered) the proof and parameters are the honest ones
func (c *run) judge(e *env, s *stmt, v int, altered bool, key, what string, extra map[string]any) {
	if v != vOK {
		// a panic while decoding mutated bytes (P-256 accepts off-curve encodings and panics in the
		// next group operation: property C04) is not an acceptance; it is counted, not reported here
		if v == vPanic && strings.HasPrefix(what, "bit-flip") || v == vPanic && strings.HasPrefix(what, "byte-set") || v == vPanic && what == "last-byte" {
			c.rep.Dist(e.name + "/panic-on-mutated-proof-bytes")
		} else if v == vPanic && len(s.xb) == len(s.x) {
			c.rep.Fail("shuffle.PairShuffle.Verify/panic", what, s.replay(e, extra))
		}
		return
	}
	_, truth := e.isShuffle(s.g, s.h, s.x, s.y, s.xb, s.yb)
	if !truth {
		c.rep.Fail(key, "accepted although the output is not a permutation of re-encryptions of the input: "+what, s.replay(e, extra))
	} else if altered {
		c.rep.Fail(key, "accepted although the proof or the public parameters were altered: "+what, s.replay(e, extra))
	}
}

// honest PairShuffle.Prove under the recording context
func (c *run) honestPair(e *env, in *inst, pi []int, beta []sc) (*stmt, []byte, *recProver) {
	return c.honestPairOn(e, in, pi, beta, nil, "honest")
}

// honestPairOn: ps != nil is a PairShuffle object with a history (already Init'ed for in.k)
func (c *run) honestPairOn(e *env, in *inst, pi []int, beta []sc, ps *shuffle.PairShuffle, what string) (*stmt, []byte, *recProver) {
	k := in.k
	xb, yb := e.shuffleOut(in, pi, beta)
	s := &stmt{in.g, in.h, in.x, in.y, xb, yb}
	if ps == nil {
		ps = &shuffle.PairShuffle{}
		ps.Init(e.S, k)
	}
	rp := newRecProver(e.S, "PairShuffle", e.st)
	var err error
	G, H, X, Y, B := e.pt(in.g), e.pt(in.h), e.pts(in.x), e.pts(in.y), clones(beta)
	gd := newGuard(e, map[string][]kyber.Point{"G": {G}, "H": {H}, "X": X, "Y": Y}, map[string][]sc{"beta": B})
	pan, msg := vh.Try(func() {
		err = ps.Prove(pi, G, H, B, X, Y, e.st, rp)
	})
	gd.check(c, "shuffle.PairShuffle.Prove")
	if pan || err != nil {
		c.rep.Fail("shuffle.PairShuffle.Prove/honest-prover-fails", fmt.Sprint(msg, err), s.replay(e, map[string]any{"pi": pi, "beta": hexScs(beta)}))
		return s, nil, rp
	}
	pf := rp.Proof()
	if e.dlog && !c.search {
		pri := itemsOf(rp.log, 'S') // u w a tau0 nu gamma theta
		tr, ok1 := coqPtr(itemsOf(rp.log, 'P'), k)
		ch, ok2 := coqChal(itemsOf(rp.log, 'R'), k)
		if ok1 && ok2 && len(pri) == 3*k+3+2*k-1 {
			id := c.next()
			c.cf.Items = append(c.cf.Items, fmt.Sprintf("(CPairProve %d %s %s %s %s %s %s %s %s %s %s %s %s %s %s)", id,
				zInts(pi), zSc(in.g), zSc(in.h), zScs(beta), zScs(in.x), zScs(in.y),
				zItems(pri[:k]), zItems(pri[k:2*k]), zItems(pri[2*k:3*k]), vh.CoqZ(ival(pri[3*k])), vh.CoqZ(ival(pri[3*k+2])),
				zItems(pri[3*k+3:]), ch, tr))
			c.rep.Index(id, fmt.Sprintf("PairShuffle.Prove k=%d pi=%v (%s)", k, pi, what))
			c.rep.Count(fmt.Sprintf("pp/%x", pf), true)
		} else {
			c.rep.Fail("harness/pair-prover-layout", "unexpected message layout of PairShuffle.Prove", nil)
		}
	}
	v := c.verifyPair(e, s, pf, what)
	if v != vOK {
		c.rep.Fail("shuffle.PairShuffle/honest-proof-rejected", fmt.Sprintf("verdict %d (%s)", v, what), s.replay(e, map[string]any{"pi": pi, "beta": hexScs(beta), "history": what}))
	}
	return s, pf, rp
}

type outFam struct {
	name   string
	xb, yb []sc
	linM   [][]sc // non-nil: xb = M*x + lb*g (an invertible linear map known to a prover without logarithms)
	lb     []sc
}

func (e *env) permMatrix(pi []int) [][]sc {
	k := len(pi)
	M := make([][]sc, k)
	for i := range M {
		M[i] = make([]sc, k)
		for j := range M[i] {
			M[i][j] = e.zero()
		}
		M[i][pi[i]] = e.one()
	}
	return M
}

// adversarial outputs derived from an honest shuffle (pi, beta)
func (e *env) families(in *inst, pi []int, beta []sc) []outFam {
	k := in.k
	hx, hy := e.shuffleOut(in, pi, beta)
	cp := func() ([]sc, []sc) { return clones(hx), clones(hy) }
	pb := make([]sc, k) // blinding per output slot
	for i := range pb {
		pb[i] = beta[pi[i]]
	}
	var out []outFam
	j := e.r.Intn(k)
	i := (j + 1 + e.r.Intn(k-1)) % k
	{ // single-slot replacement by a fresh ciphertext
		xb, yb := cp()
		xb[j], yb[j] = e.rnd(), e.rnd()
		out = append(out, outFam{name: "replace", xb: xb, yb: yb})
	}
	{ // only the X half / only the Y half of one slot
		xb, yb := cp()
		xb[j] = e.add(xb[j], e.rndnz())
		out = append(out, outFam{name: "replace-x", xb: xb, yb: yb})
		xb, yb = cp()
		yb[j] = e.add(yb[j], e.rndnz())
		out = append(out, outFam{name: "add-plaintext", xb: xb, yb: yb})
	}
	{ // duplication (re-randomised)
		xb, yb := cp()
		b := e.rnd()
		xb[j], yb[j] = e.add(xb[i], e.mul(b, in.g)), e.add(yb[i], e.mul(b, in.h))
		out = append(out, outFam{name: "duplicate", xb: xb, yb: yb})
	}
	{ // drop: the slot holds the identity pair
		xb, yb := cp()
		xb[j], yb[j] = e.zero(), e.zero()
		out = append(out, outFam{name: "drop", xb: xb, yb: yb})
	}
	{ // homomorphic sum: slot j += input pi[i]
		xb, yb := cp()
		xb[j], yb[j] = e.add(xb[j], in.x[pi[i]]), e.add(yb[j], in.y[pi[i]])
		M := e.permMatrix(pi)
		M[j][pi[i]] = e.add(M[j][pi[i]], e.one())
		out = append(out, outFam{name: "sum", xb: xb, yb: yb, linM: M, lb: pb})
	}
	{ // scalar multiple of every ciphertext
		s := e.add(e.small(2), e.small(int64(e.r.Intn(5))))
		xb, yb := make([]sc, k), make([]sc, k)
		M := e.permMatrix(pi)
		for a := 0; a < k; a++ {
			xb[a] = e.add(e.mul(s, in.x[pi[a]]), e.mul(pb[a], in.g))
			yb[a] = e.add(e.mul(s, in.y[pi[a]]), e.mul(pb[a], in.h))
			M[a][pi[a]] = s.Clone()
		}
		out = append(out, outFam{name: "scalar-multiple", xb: xb, yb: yb, linM: M, lb: pb})
	}
	{ // general invertible linear combination
		M := make([][]sc, k)
		for a := range M {
			M[a] = e.rnds(k)
		}
		xb, yb := make([]sc, k), make([]sc, k)
		for a := 0; a < k; a++ {
			xb[a] = e.add(e.dot(M[a], in.x), e.mul(pb[a], in.g))
			yb[a] = e.add(e.dot(M[a], in.y), e.mul(pb[a], in.h))
		}
		out = append(out, outFam{name: "linear-combination", xb: xb, yb: yb, linM: M, lb: pb})
	}
	{ // affine combination: invertible M whose rows sum to 1 (sums over the slots are preserved)
		M := make([][]sc, k)
		for a := range M {
			M[a] = e.rnds(k)
			sum := e.zero()
			for b := 0; b < k-1; b++ {
				sum = e.add(sum, M[a][b])
			}
			M[a][k-1] = e.sub(e.one(), sum)
		}
		xb, yb := make([]sc, k), make([]sc, k)
		for a := 0; a < k; a++ {
			xb[a] = e.add(e.dot(M[a], in.x), e.mul(pb[a], in.g))
			yb[a] = e.add(e.dot(M[a], in.y), e.mul(pb[a], in.h))
		}
		out = append(out, outFam{name: "affine-combination", xb: xb, yb: yb, linM: M, lb: pb})
	}
	{ // slot j = 2*in_a - in_b, the other slots an honest shuffle (rows sum to 1, one row is not a unit vector)
		M := e.permMatrix(pi)
		a, b := pi[j], pi[i]
		M[j][a] = e.small(2)
		M[j][b] = e.neg(e.one())
		xb, yb := cp()
		xb[j] = e.add(e.sub(e.mul(e.small(2), in.x[a]), in.x[b]), e.mul(pb[j], in.g))
		yb[j] = e.add(e.sub(e.mul(e.small(2), in.y[a]), in.y[b]), e.mul(pb[j], in.h))
		out = append(out, outFam{name: "affine-2a-b", xb: xb, yb: yb, linM: M, lb: pb})
	}
	{ // permutation times diagonal: each ciphertext multiplied by its own scalar
		M := e.permMatrix(pi)
		xb, yb := make([]sc, k), make([]sc, k)
		for a := 0; a < k; a++ {
			sa := e.add(e.small(2), e.small(int64(a)))
			M[a][pi[a]] = sa
			xb[a] = e.add(e.mul(sa, in.x[pi[a]]), e.mul(pb[a], in.g))
			yb[a] = e.add(e.mul(sa, in.y[pi[a]]), e.mul(pb[a], in.h))
		}
		out = append(out, outFam{name: "perm-times-diagonal", xb: xb, yb: yb, linM: M, lb: pb})
	}
	if k == 2 && e.r.Chance(60) || k == 2 && len(pi) == 2 && pi[0] == 0 { // the k=2 attack of the design round
		M := [][]sc{{e.one(), e.one()}, {e.zero(), e.one()}}
		xb := []sc{e.add(in.x[0], in.x[1]), in.x[1].Clone()}
		yb := []sc{e.add(in.y[0], in.y[1]), in.y[1].Clone()}
		out = append(out, outFam{name: "sum-k2", xb: xb, yb: yb, linM: M, lb: []sc{e.zero(), e.zero()}})
	}
	return out
}

func attackKey(mode string) string {
	switch mode {
	case "linear":
		return "shuffle.PairShuffle.Verify/linear-combination-accepted"
	case "untied":
		return "shuffle.PairShuffle.Verify/untied-simple-shuffle-forgery-accepted"
	case "sigma":
		return "shuffle.PairShuffle.Verify/eq33-forgery-accepted"
	case "sigma-tie":
		return "shuffle.PairShuffle.Verify/partial-tie-forgery-accepted"
	}
	return "shuffle.PairShuffle.Verify/simple-shuffle-forgery-accepted"
}

func (c *run) tryForge(e *env, in *inst, f outFam, o forgeOpt) {
	s := &stmt{in.g, in.h, in.x, in.y, f.xb, f.yb}
	rp := newRecProver(e.S, "PairShuffle", e.st)
	var err error
	pan, msg := vh.Try(func() { err = (func(proof.ProverContext) error)(e.forgePair(in, f.xb, f.yb, o))(rp) })
	what := fmt.Sprintf("forged proof (%s tie=%d skip=%d) for output family %s", o.mode, o.tie, o.skip, f.name)
	if pan {
		c.rep.Fail("harness/forger-panics", msg, s.replay(e, nil))
		return
	}
	if err != nil {
		c.rep.Dist(e.name + "/forge/" + o.mode + "/no-forgery-for-instance")
		return
	}
	pf := rp.Proof()
	v := c.verifyPair(e, s, pf, "forge-"+o.mode+"/"+f.name)
	km := o.mode
	if o.mode == "sigma" && o.tie > 0 || o.mode == "linear" && o.tie == 3 {
		km = "sigma-tie"
	}
	c.judge(e, s, v, false, attackKey(km), what, map[string]any{"family": f.name, "strategy": o.mode, "proof": vh.Hex(pf)})
}

func (c *run) pairAdversaries(e *env, k int) {
	in := e.newInst(k)
	pi := randPerm(e.r, k)
	beta := e.rnds(k)
	hs, pf, hrp := c.honestPair(e, in, pi, beta)
	if pf == nil {
		return
	}
	c.latePatch(e, in, hs, itemsOf(hrp.log, 'P'), itemsOf(hrp.log, 'R'))
	for _, f := range e.families(in, pi, beta) {
		// (1) the honest proof of the honest output, replayed for the altered output
		s := &stmt{in.g, in.h, in.x, in.y, f.xb, f.yb}
		v := c.verifyPair(e, s, pf, "reuse/"+f.name)
		altered := false // (with equal input ciphertexts a family may reproduce the honest output)
		for a := range f.xb {
			if !f.xb[a].Equal(hs.xb[a]) || !f.yb[a].Equal(hs.yb[a]) {
				altered = true
			}
		}
		c.judge(e, s, v, altered, "shuffle.PairShuffle.Verify/altered-output-accepted", "honest proof replayed for output family "+f.name,
			map[string]any{"family": f.name, "proof": vh.Hex(pf)})
		// (2) malicious provers
		for tie := 0; tie < 3; tie++ {
			c.tryForge(e, in, f, forgeOpt{mode: "untied", tie: tie})
		}
		if f.linM != nil {
			c.tryForge(e, in, f, forgeOpt{mode: "linear", M: f.linM, beta: f.lb, tie: e.r.Intn(3)})
			c.tryForge(e, in, f, forgeOpt{mode: "linear", M: f.linM, beta: f.lb, tie: 3})
		}
		c.tryForge(e, in, f, forgeOpt{mode: "sigma", skip: e.r.Intn(k)})
		c.tryForge(e, in, f, forgeOpt{mode: "sigma", tie: 1, skip: e.r.Intn(k)})
		c.tryForge(e, in, f, forgeOpt{mode: "sigma", tie: 2, skip: e.r.Intn(k)})
		c.tryForge(e, in, f, forgeOpt{mode: "simple", skip: e.r.Intn(2 * k)})
		c.tryForge(e, in, f, forgeOpt{mode: "simple", skip: k})
		if c.search {
			for j := 0; j < 2*k; j++ {
				c.tryForge(e, in, f, forgeOpt{mode: "simple", skip: j})
			}
			for j := 0; j < k; j++ {
				c.tryForge(e, in, f, forgeOpt{mode: "sigma", skip: j})
				c.tryForge(e, in, f, forgeOpt{mode: "sigma", tie: 1, skip: j})
				c.tryForge(e, in, f, forgeOpt{mode: "sigma", tie: 2, skip: j})
			}
		}
	}
	// swap without re-proof: a valid shuffle, but not the one the proof is about
	{
		xb, yb := clones(hs.xb), clones(hs.yb)
		a := e.r.Intn(k)
		b := (a + 1 + e.r.Intn(k-1)) % k
		if !(xb[a].Equal(xb[b]) && yb[a].Equal(yb[b])) {
			xb[a], xb[b] = xb[b], xb[a]
			yb[a], yb[b] = yb[b], yb[a]
			s := &stmt{in.g, in.h, in.x, in.y, xb, yb}
			v := c.verifyPair(e, s, pf, "swap-without-reproof")
			c.judge(e, s, v, true, "shuffle.PairShuffle.Verify/swap-without-reproof-accepted", "two output slots swapped, proof unchanged", map[string]any{"proof": vh.Hex(pf)})
			// swapping only the X halves is not a shuffle at all
			xb2 := clones(hs.xb)
			xb2[a], xb2[b] = xb2[b], xb2[a]
			s2 := &stmt{in.g, in.h, in.x, in.y, xb2, clones(hs.yb)}
			v = c.verifyPair(e, s2, pf, "swap-x-only")
			c.judge(e, s2, v, true, "shuffle.PairShuffle.Verify/altered-output-accepted", "X halves of two slots swapped", map[string]any{"proof": vh.Hex(pf)})
		}
	}
	// altered inputs and public parameters
	for _, w := range []string{"G", "H", "X", "Y"} {
		s := &stmt{in.g.Clone(), in.h.Clone(), clones(in.x), clones(in.y), hs.xb, hs.yb}
		switch w {
		case "G":
			s.g = e.add(s.g, e.rndnz())
		case "H":
			s.h = e.add(s.h, e.rndnz())
		case "X":
			s.x[e.r.Intn(k)] = e.rnd()
		case "Y":
			s.y[e.r.Intn(k)] = e.rnd()
		}
		v := c.verifyPair(e, s, pf, "wrong-"+w)
		c.judge(e, s, v, true, "shuffle.PairShuffle.Verify/altered-parameters-accepted", "verified with a different "+w, map[string]any{"proof": vh.Hex(pf)})
	}
	// length mismatch (an output with one ciphertext more / fewer) must not be accepted
	{
		s := &stmt{in.g, in.h, in.x, in.y, append(clones(hs.xb), e.rnd()), append(clones(hs.yb), e.rnd())}
		if v := verifyReal(e.S, "PairShuffle", e.pairVerifier(s), pf); v == vOK {
			c.rep.Fail("shuffle.PairShuffle.Verify/added-ciphertext-accepted", "output with k+1 ciphertexts accepted", s.replay(e, nil))
		}
		s = &stmt{in.g, in.h, in.x, in.y, clones(hs.xb)[:k-1], clones(hs.yb)[:k-1]}
		if v := verifyReal(e.S, "PairShuffle", e.pairVerifier(s), pf); v == vOK {
			c.rep.Fail("shuffle.PairShuffle.Verify/dropped-ciphertext-accepted", "output with k-1 ciphertexts accepted", s.replay(e, nil))
		}
		c.rep.Count(fmt.Sprintf("len/%s/%x", e.name, pf), true)
	}
	// proof byte mutation, truncation
	nm := 6
	if c.search {
		nm = 60
	}
	for m := 0; m < nm; m++ {
		mp := append([]byte{}, pf...)
		what := "bit-flip"
		switch e.r.Intn(4) {
		case 0:
			mp[e.r.Intn(len(mp))] ^= byte(1 << e.r.Intn(8))
		case 1:
			p := e.r.Intn(len(mp))
			mp[p] = byte(e.r.Intn(256))
			if mp[p] == pf[p] {
				mp[p] ^= 0x80
			}
			what = "byte-set"
		case 2:
			mp = mp[:e.r.Intn(len(mp))]
			what = "truncate"
		case 3: // low bit of the last byte: the last scalar of the last message
			mp[len(mp)-1] ^= 1
			what = "last-byte"
		}
		v := c.verifyPair(e, hs, mp, "mutate-"+what)
		c.judge(e, hs, v, true, "proof.HashVerify(PairShuffle)/mutated-proof-accepted", what, map[string]any{"proof": vh.Hex(mp), "honest_proof": vh.Hex(pf)})
	}
}

// latePatch: values of an honest proof rewritten AFTER all challenges are known so that the verifier's
// equations hold for an altered output, every challenge assumed unchanged. Each patched value precedes a
// challenge, so a Fiat-Shamir transform that binds the whole transcript rejects; it is accepted exactly when
// the patched bytes are not bound by the challenges that follow them.
func (c *run) latePatch(e *env, in *inst, hs *stmt, P, R []item) {
	k := in.k
	if len(P) != 12*k+3 || len(R) != k+3 {
		return
	}
	rho := make([]sc, k)
	sigma := make([]sc, k)
	for i := 0; i < k; i++ {
		rho[i] = R[i].s
		sigma[i] = P[5*k+3+i].s
	}
	tau := P[6*k+3].s
	Gamma := P[0].p
	// logarithms of the honest Lambda1, Lambda2 from (34), (35)
	rx, ry := e.dot(rho, in.x), e.dot(rho, in.y)
	l1 := e.sub(e.sub(e.dot(sigma, hs.xb), rx), e.mul(tau, in.g))
	l2 := e.sub(e.sub(e.dot(sigma, hs.yb), ry), e.mul(tau, in.h))
	build := func(patch map[int]item) []byte {
		var b []byte
		for i := range P {
			if it, ok := patch[i]; ok {
				b = append(b, enc(it)...)
			} else {
				b = append(b, enc(P[i])...)
			}
		}
		return b
	}
	for trial := 0; trial < 3; trial++ {
		xb, yb := clones(hs.xb), clones(hs.yb)
		j := e.r.Intn(k)
		what := "replace"
		switch trial {
		case 0:
			xb[j], yb[j] = e.rnd(), e.rnd()
		case 1:
			yb[j] = e.add(yb[j], e.rndnz())
			what = "add-plaintext"
		case 2:
			o := (j + 1) % k
			xb[j], yb[j] = e.add(xb[j], in.x[o]), e.add(yb[j], in.y[o])
			what = "sum"
		}
		s := &stmt{in.g, in.h, in.x, in.y, xb, yb}
		i0 := e.r.Intn(k)
		// sigma[i0], tau re-solved from (34),(35) for the new output
		r1, r2 := e.add(l1, rx), e.add(l2, ry)
		for i := 0; i < k; i++ {
			if i != i0 {
				r1 = e.sub(r1, e.mul(sigma[i], xb[i]))
				r2 = e.sub(r2, e.mul(sigma[i], yb[i]))
			}
		}
		s0, t0, ok := e.solve2(xb[i0], e.neg(in.g), yb[i0], e.neg(in.h), r1, r2)
		names := []string{"Lambda1,Lambda2"}
		patches := map[string]map[int]item{
			"Lambda1,Lambda2": {
				4*k + 1: {p: e.pt(e.sub(e.sub(e.dot(sigma, xb), rx), e.mul(tau, in.g)))},
				4*k + 2: {p: e.pt(e.sub(e.sub(e.dot(sigma, yb), ry), e.mul(tau, in.h)))}},
		}
		if ok {
			sG := e.S.Point().Mul(s0, Gamma)
			patches["sigma,tau,W"] = map[int]item{5*k + 3 + i0: {s: s0}, 6*k + 3: {s: t0},
				3*k + 1 + i0: {p: e.S.Point().Sub(sG, P[4*k+3+i0].p)}}
			patches["sigma,tau,D"] = map[int]item{5*k + 3 + i0: {s: s0}, 6*k + 3: {s: t0},
				4*k + 3 + i0: {p: e.S.Point().Sub(sG, P[3*k+1+i0].p)}}
			patches["sigma,tau"] = map[int]item{5*k + 3 + i0: {s: s0}, 6*k + 3: {s: t0}}
			names = append(names, "sigma,tau,W", "sigma,tau,D", "sigma,tau")
		}
		for _, name := range names {
			pf := build(patches[name])
			v := c.verifyPair(e, s, pf, "late-patch")
			c.judge(e, s, v, false, "proof.HashVerify/value-rewritten-after-the-challenges-accepted",
				fmt.Sprintf("honest proof, output family %s, %s recomputed after all challenges were known (k=%d, first message %d bytes)", what, name, k, (4*k+3)*e.S.PointLen()),
				map[string]any{"patched": name, "family": what, "proof": vh.Hex(pf)})
		}
	}
}

// a VerifierContext that passes everything on to the context proof.HashVerify made and records what
// the implementation decoded and which challenges IT derived
type tapVerifier struct {
	inner proof.VerifierContext
	log   []ev
}

func (t *tapVerifier) Get(m any) error {
	err := t.inner.Get(m)
	if err == nil {
		t.log = append(t.log, ev{'P', flat(m)})
	}
	return err
}
func (t *tapVerifier) PubRand(data ...any) error {
	err := t.inner.PubRand(data...)
	if err == nil {
		t.log = append(t.log, ev{'R', flat(data...)})
	}
	return err
}

// the same adversary against a proof made by proof.HashProve, with the challenges proof.HashVerify itself
// derives (whatever they are a function of)
func (c *run) latePatchReal(e *env, in *inst, pi []int, beta []sc, hs *stmt) {
	ps := shuffle.PairShuffle{}
	ps.Init(e.S, in.k)
	var pf []byte
	var err error
	pan, _ := vh.Try(func() {
		pf, err = proof.HashProve(e.S, "PairShuffle", func(ctx proof.ProverContext) error {
			return ps.Prove(pi, e.pt(in.g), e.pt(in.h), clones(beta), e.pts(in.x), e.pts(in.y), e.st, ctx)
		})
	})
	if pan || err != nil {
		return
	}
	tap := &tapVerifier{}
	inner := e.pairVerifier(hs)
	pan, _ = vh.Try(func() {
		err = proof.HashVerify(e.S, "PairShuffle", func(ctx proof.VerifierContext) error {
			tap.inner = ctx
			return (func(proof.VerifierContext) error)(inner)(tap)
		}, pf)
	})
	if pan || err != nil {
		c.rep.Fail("shuffle.PairShuffle/honest-proof-rejected", fmt.Sprintf("proof.HashProve then proof.HashVerify, k=%d: %v", in.k, err), hs.replay(e, nil))
		return
	}
	c.latePatch(e, in, hs, itemsOf(tap.log, 'P'), itemsOf(tap.log, 'R'))
}

// instances whose messages are far longer than any fixed-size buffer
func (c *run) largeK(e *env) {
	ks := map[string][]int{"dlog": {24, 64, 300}, "ed25519": {17, 40}, "p256": {9, 20}}[e.name]
	if c.thor {
		ks = append(ks, map[string]int{"dlog": 1000, "ed25519": 130, "p256": 64}[e.name])
	}
	for n, k := range ks {
		in := e.newInst(k)
		pi := randPerm(e.r, k)
		beta := e.rnds(k)
		save := c.search
		if n > 0 {
			c.search = true // verdicts only: no Coq case for the very large ones
		}
		hs, pf, rp := c.honestPair(e, in, pi, beta)
		if pf != nil {
			c.latePatch(e, in, hs, itemsOf(rp.log, 'P'), itemsOf(rp.log, 'R'))
			c.latePatchReal(e, in, pi, beta, hs)
			// a replaced slot with the honest proof
			xb, yb := clones(hs.xb), clones(hs.yb)
			xb[k-1], yb[k-1] = e.rnd(), e.rnd()
			s := &stmt{in.g, in.h, in.x, in.y, xb, yb}
			v := c.verifyPair(e, s, pf, "reuse/replace")
			c.judge(e, s, v, true, "shuffle.PairShuffle.Verify/altered-output-accepted", "honest proof replayed for a replaced slot", nil)
		}
		c.apiShuffle(e, k)
		c.search = save
	}
}

// transcript splicing between two honest proofs (same statement, and two statements)
func (c *run) splice(e *env, k int) {
	in := e.newInst(k)
	pi := randPerm(e.r, k)
	beta := e.rnds(k)
	s1, pf1, _ := c.honestPair(e, in, pi, beta)
	_, pf2, _ := c.honestPair(e, in, pi, beta) // same statement and witness, fresh prover randomness
	in3 := e.newInst(k)
	s3, pf3, _ := c.honestPair(e, in3, randPerm(e.r, k), e.rnds(k))
	if pf1 == nil || pf2 == nil || pf3 == nil {
		return
	}
	pl, sl := e.S.PointLen(), e.S.ScalarLen()
	bounds := []int{}
	off := 0
	for _, n := range []int{(4*k + 3) * pl, k * pl, (k + 1) * sl, 2 * k * pl, 2 * k * pl, (2*k - 1) * sl} {
		off += n
		bounds = append(bounds, off)
	}
	if off != len(pf1) {
		c.rep.Fail("harness/proof-layout", fmt.Sprintf("proof length %d, expected %d", len(pf1), off), nil)
		return
	}
	for bi, b := range bounds[:len(bounds)-1] {
		for _, other := range [][]byte{pf2, pf3} {
			sp := append(append([]byte{}, pf1[:b]...), other[b:]...)
			v := c.verifyPair(e, s1, sp, fmt.Sprintf("splice@%d", bi))
			c.judge(e, s1, v, true, "shuffle.PairShuffle.Verify/spliced-transcript-accepted", fmt.Sprintf("messages 0..%d of one honest proof followed by the rest of another", bi), map[string]any{"proof": vh.Hex(sp)})
			sp2 := append(append([]byte{}, other[:b]...), pf1[b:]...)
			v = c.verifyPair(e, s3, sp2, fmt.Sprintf("splice2@%d", bi))
			c.judge(e, s3, v, true, "shuffle.PairShuffle.Verify/spliced-transcript-accepted", "spliced proof against the second statement", map[string]any{"proof": vh.Hex(sp2)})
		}
	}
}

// every single value of the transcript replaced, challenges recomputed from the altered transcript
func (c *run) perturb(e *env, k int, all bool) {
	in := e.newInst(k)
	pi := randPerm(e.r, k)
	beta := e.rnds(k)
	xb, yb := e.shuffleOut(in, pi, beta)
	s := &stmt{in.g, in.h, in.x, in.y, xb, yb}
	n := 12*k + 3
	for idx := 0; idx < n; idx++ {
		if !all && !e.r.Chance(25) {
			continue
		}
		ps := shuffle.PairShuffle{}
		ps.Init(e.S, k)
		rp := newRecProver(e.S, "PairShuffle", e.st)
		rp.tamper = idx
		rp.repl = func(it item) item {
			if it.p != nil {
				return item{p: e.S.Point().Add(it.p, e.pt(e.rndnz()))}
			}
			return item{s: e.add(it.s, e.rndnz())}
		}
		var err error
		pan, _ := vh.Try(func() {
			err = ps.Prove(pi, e.pt(in.g), e.pt(in.h), clones(beta), e.pts(in.x), e.pts(in.y), e.st, rp)
		})
		if pan || err != nil {
			continue
		}
		pf := rp.Proof()
		v := c.verifyPair(e, s, pf, "perturb")
		c.judge(e, s, v, true, "shuffle.PairShuffle.Verify/perturbed-transcript-accepted",
			fmt.Sprintf("value %d of the transcript replaced (challenges recomputed), k=%d", idx, k), map[string]any{"index": idx, "proof": vh.Hex(pf)})
	}
}

// Shuffle(): the exported entry point (its own permutation and blinding factors)
func (c *run) apiShuffle(e *env, k int) {
	in := e.newInst(k)
	G, H, X, Y := e.pt(in.g), e.pt(in.h), e.pts(in.x), e.pts(in.y)
	if in.g.Equal(e.one()) && e.r.Bool() {
		G = nil // "If g or h is nil, the standard base point is used"
	}
	var Xb, Yb []kyber.Point
	var pf []byte
	var err error
	pan, msg := vh.Try(func() {
		var pr proof.Prover
		Xb, Yb, pr = shuffle.Shuffle(e.S, G, H, X, Y, e.st)
		pf, err = proof.HashProve(e.S, "PairShuffle", pr)
	})
	if pan || err != nil {
		c.rep.Fail("shuffle.Shuffle/honest-prover-fails", fmt.Sprint(msg, err), nil)
		return
	}
	v := verifyReal(e.S, "PairShuffle", shuffle.Verifier(e.S, G, H, X, Y, Xb, Yb), pf)
	if v2, _ := verifyRec(e.S, "PairShuffle", shuffle.Verifier(e.S, G, H, X, Y, Xb, Yb), pf); v2 != v {
		c.rep.Fail("proof.HashProve/challenges-differ-from-Fiat-Shamir-specification",
			fmt.Sprintf("a proof made by proof.HashProve: proof.HashVerify=%d, verifier run with challenges derived as hash.go specifies=%d (k=%d, first message %d bytes)",
				v, v2, k, (4*k+3)*e.S.PointLen()), map[string]any{"suite": e.name, "k": k, "proof": vh.Hex(pf)})
	}
	c.rep.Dist(fmt.Sprintf("%s/Shuffle()/verdict=%d", e.name, v))
	c.rep.Count(fmt.Sprintf("api/%s/%x", e.name, pf), true)
	if v != vOK {
		c.rep.Fail("shuffle.Shuffle/honest-proof-rejected", fmt.Sprintf("k=%d verdict=%d", k, v), map[string]any{"suite": e.name, "k": k, "proof": vh.Hex(pf)})
	}
	// the output decrypts to the same multiset of plaintexts
	if !e.samePlaintexts(in, X, Y, Xb, Yb) {
		c.rep.Fail("shuffle.Shuffle/output-not-a-shuffle", "plaintext multisets differ", map[string]any{"suite": e.name, "k": k})
	}
	if e.dlog && !c.search {
		xb, yb := make([]sc, k), make([]sc, k)
		for i := 0; i < k; i++ {
			xb[i] = e.S.(*vh.DlogGroup).ScalarOf(vh.Dlog(Xb[i]))
			yb[i] = e.S.(*vh.DlogGroup).ScalarOf(vh.Dlog(Yb[i]))
		}
		if pi, ok := e.isShuffle(in.g, in.h, in.x, in.y, xb, yb); ok {
			beta := make([]sc, k)
			for i := 0; i < k; i++ {
				beta[pi[i]] = e.div(e.sub(xb[i], in.x[pi[i]]), in.g)
			}
			id := c.next()
			c.cf.Items = append(c.cf.Items, fmt.Sprintf("(CShuffleOut %d %s %s %s %s %s %s %s %s)", id, zSc(in.g), zSc(in.h),
				zInts(pi), zScs(beta), zScs(in.x), zScs(in.y), zScs(xb), zScs(yb)))
			c.rep.Index(id, fmt.Sprintf("Shuffle() output k=%d", k))
		}
	}
}

// decrypt with the key h/g and compare plaintext multisets
func (e *env) samePlaintexts(in *inst, X, Y, Xb, Yb []kyber.Point) bool {
	key := e.div(in.h, in.g)
	cnt := map[string]int{}
	for i := range X {
		m := e.S.Point().Sub(Y[i], e.S.Point().Mul(key, X[i]))
		cnt[m.String()]++
	}
	for i := range Xb {
		m := e.S.Point().Sub(Yb[i], e.S.Point().Mul(key, Xb[i]))
		cnt[m.String()]--
	}
	for _, v := range cnt {
		if v != 0 {
			return false
		}
	}
	return len(X) == len(Xb)
}

var _ cipher.Stream = (*rngStream)(nil)

// HashProve and the recording prover produce the same bytes when the private randomness is the same
func (c *run) mirrorSanity(name string, seed uint64, k int) {
	mk := func() (*env, *inst, []int, []sc) {
		e := newEnv(name, vh.NewRng(seed))
		in := e.newInst(k)
		return e, in, randPerm(e.r, k), e.rnds(k)
	}
	e1, in1, pi1, b1 := mk()
	ps := shuffle.PairShuffle{}
	ps.Init(e1.S, k)
	pf1, err := proof.HashProve(e1.S, "PairShuffle", func(ctx proof.ProverContext) error {
		return ps.Prove(pi1, e1.pt(in1.g), e1.pt(in1.h), b1, e1.pts(in1.x), e1.pts(in1.y), e1.st, ctx)
	})
	e2, in2, pi2, b2 := mk()
	ps2 := shuffle.PairShuffle{}
	ps2.Init(e2.S, k)
	rp := newRecProver(e2.S, "PairShuffle", e2.S.RandomStream())
	err2 := ps2.Prove(pi2, e2.pt(in2.g), e2.pt(in2.h), b2, e2.pts(in2.x), e2.pts(in2.y), e2.st, rp)
	pf2 := rp.Proof()
	c.rep.Count(fmt.Sprintf("mirror/%s/%d/%x", name, k, pf1), true)
	if err != nil || err2 != nil || string(pf1) != string(pf2) {
		at := 0
		for at < len(pf1) && at < len(pf2) && pf1[at] == pf2[at] {
			at++
		}
		c.rep.Fail("proof.HashProve/transcript-differs-from-Fiat-Shamir-specification",
			fmt.Sprintf("same statement, witness and private randomness: the proof bytes of proof.HashProve and of a prover context that derives every challenge as hash.go specifies (XOF(name), reseeded with each complete message) differ from byte %d on (%s, k=%d, first message %d bytes, proof %d bytes)",
				at, name, k, (4*k+3)*e1.S.PointLen(), len(pf1)),
			map[string]any{"suite": name, "k": k, "seed": seed, "HashProve": vh.Hex(pf1), "specification": vh.Hex(pf2)})
	}
}

func main() {
	o := vh.ParseFlags()
	rng := vh.NewRng(o.Seed)
	rep := vh.NewReport("C15", o.Seed, o.Tier)
	rep.Rule = "dlog group: k in 2..8 (thorough ..40), every permutation for k<=4 (thorough k<=5), NQ 1..3 (thorough ..4); per k one instance x adversarial output families (replace, replace-x, add-plaintext, duplicate, drop, sum, scalar multiple, linear combination, swap) x {honest proof replayed, malicious provers untied/linear/sigma/simple}, altered G/H/X/Y, splicing at every message boundary, every transcript value perturbed, byte mutation, values re-solved after the challenges (late patch), partial-tie provers, arbitrary invertible linear maps; large k (dlog 24/64/300, Ed25519 17/40, P-256 9/20) and byte-for-byte comparison of proof.HashProve with specification-derived challenges up to 72 KB messages; verdicts also over Ed25519 and P-256"
	c := &run{rep: rep, search: o.Search, thor: o.Thorough,
		cf: &vh.CaseFile{Header: "From Kyber Require Import Shuffle.ShuffleSM Shuffle.ShuffleRun.", Type: "case", Runner: "mismatches"}}

	// the Fiat-Shamir transcript of the implementation against the specification, byte for byte, also for
	// messages far longer than any fixed-size buffer (first message: (4k+3) points)
	for _, k := range []int{3, 64, 2000} {
		c.mirrorSanity("dlog", o.Seed+uint64(k), k)
	}
	for _, k := range []int{3, 17, 70} {
		c.mirrorSanity("ed25519", o.Seed+uint64(k), k)
	}

	kmax, permk, nq := 8, 4, 3
	if o.Thorough {
		kmax, permk, nq = 40, 5, 4
	}
	rounds := 1
	if o.Search {
		rounds = 4
	}
	for _, name := range []string{"dlog", "ed25519", "p256"} {
		e := newEnv(name, rng.Fork())
		for round := 0; round < rounds; round++ {
			// honest proofs: every permutation for small k
			for k := 2; k <= permk; k++ {
				if name != "dlog" && k > 3 {
					break
				}
				for _, pi := range allPerms(k) {
					c.honestPair(e, e.newInst(k), pi, e.rnds(k))
				}
			}
			ks := []int{}
			for k := 2; k <= kmax; k++ {
				if k <= 8 || k%8 == 0 || k == kmax {
					ks = append(ks, k)
				}
			}
			for _, k := range ks {
				if name == "p256" && k > 5 && !(o.Thorough && k == kmax) {
					continue
				}
				if k > permk {
					c.honestPair(e, e.newInst(k), randPerm(e.r, k), e.rnds(k))
					// identity permutation, zero blinding
					zb := make([]sc, k)
					id := make([]int, k)
					for i := range zb {
						zb[i] = e.zero()
						id[i] = i
					}
					c.honestPair(e, e.newInst(k), id, zb)
				}
				c.apiShuffle(e, k)
				if k <= 12 {
					c.pairAdversaries(e, k)
				}
			}
			c.largeK(e)
			for _, k := range []int{2, 3} {
				c.splice(e, k)
				c.perturb(e, k, name == "dlog")
			}
			c.history(e)
			c.simpleAll(e, kmax)
			c.biffleAll(e)
			c.seqAll(e, nq)
		}
	}
	if !o.Search {
		vh.WriteShards(o.Out, "c15", c.cf, 90, rep)
	}
	rep.Write(o.Out)
}
