// Correspondence + oracle harness for property C19 (XOFs, random.Bits/Int,
// multi-reader random stream).
package main

import (
	"bytes"
	"crypto/sha256"
	"fmt"
	"io"
	"math/big"
	"strings"

	"go.dedis.ch/kyber/v4"
	"go.dedis.ch/kyber/v4/compatible/compatiblemod"
	"go.dedis.ch/kyber/v4/util/random"
	"go.dedis.ch/kyber/v4/xof/blake2xb"
	"go.dedis.ch/kyber/v4/xof/blake2xs"
	"go.dedis.ch/kyber/v4/xof/keccak"
	"golang.org/x/crypto/blake2b"
	"golang.org/x/crypto/blake2s"
	"golang.org/x/crypto/sha3"

	"kyverif/vh"
)

var kindName = []string{"blake2xb", "blake2xs", "keccak"}
var ksize = []int{64, 32, 0}

func newXof(kind int, seed []byte) kyber.XOF {
	switch kind {
	case 0:
		return blake2xb.New(seed)
	case 1:
		return blake2xs.New(seed)
	}
	return keccak.New(seed)
}

// refOut: single-shot reference output of the primitive, computed with
// golang.org/x/crypto directly (no kyber code involved).
func refOut(kind int, key, abs []byte, n int) []byte {
	out := make([]byte, n)
	switch kind {
	case 0:
		x, err := blake2b.NewXOF(blake2b.OutputLengthUnknown, key)
		if err != nil {
			panic(err)
		}
		x.Write(abs)
		io.ReadFull(x, out)
	case 1:
		x, err := blake2s.NewXOF(blake2s.OutputLengthUnknown, key)
		if err != nil {
			panic(err)
		}
		x.Write(abs)
		io.ReadFull(x, out)
	default:
		x := sha3.NewShake256()
		x.Write(key)
		x.Write(abs)
		x.Read(out)
	}
	return out
}

// abstract mirror used ONLY to know which oracle-table entries the model will need
type mirror struct {
	key, abs []byte
	pos      int
	seed     []byte
	reading  bool
}

func mirrorNew(kind int, seed []byte) *mirror {
	m := &mirror{seed: append([]byte{}, seed...)}
	ks := ksize[kind]
	if len(seed) > ks {
		m.key = append([]byte{}, seed[:ks]...)
		m.abs = append([]byte{}, seed[ks:]...)
	} else {
		m.key = append([]byte{}, seed...)
	}
	if kind == 2 { // keccak: no key, all absorbed
		m.key = nil
		m.abs = append([]byte{}, seed...)
	}
	return m
}

type table struct {
	kind    int
	entries map[string]*entry
	order   []string
}
type entry struct {
	key, abs []byte
	need     int
}

func (t *table) need(m *mirror, upto int) {
	k := vh.Hex(m.key) + "|" + vh.Hex(m.abs)
	e, ok := t.entries[k]
	if !ok {
		e = &entry{key: append([]byte{}, m.key...), abs: append([]byte{}, m.abs...)}
		t.entries[k] = e
		t.order = append(t.order, k)
	}
	if upto > e.need {
		e.need = upto
	}
}
func (t *table) coq() string {
	var items []string
	for _, k := range t.order {
		e := t.entries[k]
		items = append(items, fmt.Sprintf("(%d, %s, %s, %s)", t.kind, vh.CoqBytes(e.key), vh.CoqBytes(e.abs),
			vh.CoqBytes(refOut(t.kind, e.key, e.abs, e.need))))
	}
	return vh.CoqList(items)
}

var seedLens = []int{0, 1, 2, 16, 31, 32, 33, 63, 64, 65, 100, 127, 128, 129, 200, 300}
var chunkLens = []int{0, 0, 1, 1, 2, 3, 7, 8, 15, 16, 17, 31, 32, 33, 63, 64, 65, 127, 128, 129, 200, 255, 256, 257, 500, 600}

func main() {
	o := vh.ParseFlags()
	rng := vh.NewRng(o.Seed)
	rep := vh.NewReport("C19", o.Seed, o.Tier)
	rep.Rule = "XOF cases: kind x seed length (edge-biased 0..300) x random op sequences over a pool (Read/Write/XORKeyStream/Reseed/Reset/Clone, chunk sizes edge-biased 0..600); Bits: bitlen 0..1030 x exact; Int: moduli 1..521 bits incl 2^k, 2^k+-1; randstream: 1..4 readers with short/failing readers. distinct = distinct canonical case text; non-trivial = at least one Read/XOR of > 0 bytes (XOF), bitlen > 0 (Bits), modulus > 1 (Int), >= 1 working reader (randstream)"
	cf := &vh.CaseFile{Header: "From Kyber Require Import Xof.XofSM Xof.XofRun.", Type: "case", Runner: "mismatches"}

	nXof, nBits, nInt, nRS := 240, 0, 150, 60
	maxOps := 30
	if o.Thorough {
		nXof, nInt, nRS = 3000, 1500, 400
		maxOps = 60
	}
	id := 0
	if o.Search {
		for c := 0; c < 6*nXof; c++ {
			r := rng.Fork()
			oracleReset(r, rep, c%3)
			oracleClone(r, rep, c%3)
			oracleChunks(r, rep, c%3)
		}
		nXof, nInt, nRS = 0, 4*nInt, 4*nRS
	}
	// ---------------- XOF operation sequences
	for c := 0; c < nXof; c++ {
		r := rng.Fork()
		kind := c % 3
		seed := r.Bytes(r.Pick(seedLens))
		if r.Chance(5) {
			seed = r.Bytes(r.Intn(301))
		}
		xofCase(r, rep, cf, id, kind, seed, 1+r.Intn(maxOps))
		id++
	}
	// ---------------- property oracles on the implementation alone
	for c := 0; c < nXof; c++ {
		r := rng.Fork()
		oracleReset(r, rep, c%3)
		oracleClone(r, rep, c%3)
		oracleChunks(r, rep, c%3)
		oracleRefused(r, rep, c%3)
	}
	for c := 0; c < nRS; c++ {
		rsHistory(rng.Fork(), rep)
	}
	// ---------------- random.Bits: every bit length 0..1030, both modes
	step := 1
	for bl := 0; bl <= 1030; bl += step {
		for _, exact := range []bool{false, true} {
			r := rng.Fork()
			bitsCase(r, rep, cf, id, bl, exact)
			id++
			nBits++
		}
		if !o.Thorough && bl > 80 {
			step = 7
		}
	}
	// ---------------- random.Int
	for c := 0; c < nInt; c++ {
		r := rng.Fork()
		intCase(r, rep, cf, id, c)
		id++
	}
	// ---------------- multi-reader stream
	for c := 0; c < nRS; c++ {
		r := rng.Fork()
		rsCase(r, rep, cf, id)
		id++
	}
	vh.WriteShards(o.Out, "c19", cf, 60, rep)
	rep.Write(o.Out)
}

type opRec struct {
	Op   string `json:"op"`
	V    int    `json:"v"`
	N    int    `json:"n,omitempty"`
	Data string `json:"data,omitempty"`
	Obs  string `json:"obs"`
}

// wipe overwrites a buffer the caller handed to the XOF: an implementation that
// keeps a reference instead of a copy will see garbage later (e.g. at Reset)
func wipe(b []byte) {
	for i := range b {
		b[i] ^= 0xa5
	}
}

func xofCase(r *vh.Rng, rep *vh.Report, cf *vh.CaseFile, id, kind int, seed []byte, nops int) {
	callerSeed := append(make([]byte, 0, len(seed)+r.Intn(40)), seed...) // spare capacity too
	pool := []kyber.XOF{newXof(kind, callerSeed)}
	wipe(callerSeed)
	mir := []*mirror{mirrorNew(kind, seed)}
	tbl := &table{kind: kind, entries: map[string]*entry{}}
	var ops, obs []string
	var recs []opRec
	nontrivial := false
	for i := 0; i < nops; i++ {
		v := r.Intn(len(pool))
		x, m := pool[v], mir[v]
		var rec opRec
		rec.V = v
		panicked := false
		c := r.Intn(100)
		if m.reading && c >= 40 && c < 55 && r.Chance(92) {
			c = r.Intn(40) // a Write after a Read panics: keep those rare
		}
		switch {
		case c < 40: // Read
			n := r.Pick(chunkLens)
			m.reading = true
			buf := make([]byte, n)
			panicked, _ = vh.Try(func() { x.Read(buf) })
			tbl.need(m, m.pos+n)
			m.pos += n
			ops = append(ops, fmt.Sprintf("rd %d %d", v, n))
			obs = append(obs, "OBytes "+vh.CoqBytes(buf))
			rec = opRec{"Read", v, n, "", vh.Hex(buf)}
			rep.Dist("op:Read")
			if n > 0 {
				nontrivial = true
			}
		case c < 55: // Write (panics after a read)
			data := r.Bytes(r.Pick(chunkLens) % 140)
			callerData := append([]byte{}, data...)
			panicked, _ = vh.Try(func() { x.Write(callerData) })
			wipe(callerData)
			ops = append(ops, fmt.Sprintf("wr %d %s", v, vh.CoqBytes(data)))
			obs = append(obs, "OUnit")
			m.abs = append(m.abs, data...)
			rec = opRec{"Write", v, len(data), vh.Hex(data), ""}
			rep.Dist("op:Write")
		case c < 70: // XORKeyStream
			src := r.Bytes(r.Pick(chunkLens))
			dl := len(src)
			if r.Chance(15) {
				dl = len(src) + r.Intn(9)
			} else if r.Chance(8) && len(src) > 0 {
				dl = r.Intn(len(src))
			}
			dst := make([]byte, dl)
			panicked, _ = vh.Try(func() { x.XORKeyStream(dst, src) })
			tbl.need(m, m.pos+len(src))
			m.pos += len(src)
			m.reading = true
			ops = append(ops, fmt.Sprintf("xr %d %d %s", v, dl, vh.CoqBytes(src)))
			if !panicked {
				obs = append(obs, "OBytes "+vh.CoqBytes(dst[:len(src)]))
			}
			rec = opRec{"XORKeyStream", v, dl, vh.Hex(src), vh.Hex(dst)}
			rep.Dist("op:XORKeyStream")
			if len(src) > 0 {
				nontrivial = true
			}
		case c < 80: // Reseed
			panicked, _ = vh.Try(func() { x.Reseed() })
			tbl.need(m, m.pos+128)
			k := refOut(kind, m.key, m.abs, m.pos+128)[m.pos:]
			nm := mirrorNew(kind, k)
			m.key, m.abs, m.pos, m.reading = nm.key, nm.abs, 0, false
			ops = append(ops, fmt.Sprintf("rs %d", v))
			obs = append(obs, "OUnit")
			rec = opRec{"Reseed", v, 0, "", ""}
			rep.Dist("op:Reseed")
		case c < 90: // Reset (mostly on the factory object)
			if v != 0 && r.Chance(55) {
				v = 0
				x, m = pool[0], mir[0]
			}
			panicked, _ = vh.Try(func() { x.Reset() })
			nm := mirrorNew(kind, m.seed)
			m.key, m.abs, m.pos, m.reading = nm.key, nm.abs, 0, false
			ops = append(ops, fmt.Sprintf("rt %d", v))
			obs = append(obs, "OUnit")
			rec = opRec{"Reset", v, 0, "", ""}
			if v == 0 {
				rep.Dist("op:Reset(factory)")
			} else {
				rep.Dist("op:Reset(clone)")
			}
		default: // Clone
			var y kyber.XOF
			panicked, _ = vh.Try(func() { y = x.Clone() })
			if !panicked {
				pool = append(pool, y)
				mir = append(mir, &mirror{key: append([]byte{}, m.key...), abs: append([]byte{}, m.abs...), pos: m.pos, reading: m.reading})
			}
			ops = append(ops, fmt.Sprintf("cl %d", v))
			obs = append(obs, "OUnit")
			rec = opRec{"Clone", v, 0, "", ""}
			rep.Dist("op:Clone")
		}
		if panicked {
			// replace the last observation by OPanic and stop
			if len(obs) == len(ops) {
				obs[len(obs)-1] = "OPanic"
			} else {
				obs = append(obs, "OPanic")
			}
			rec.Obs = "PANIC"
			recs = append(recs, rec)
			rep.Dist("outcome:panic")
			break
		}
		recs = append(recs, rec)
	}
	term := fmt.Sprintf("CXof %d %s %d %s %s %s", id, tbl.coq(), kind, vh.CoqBytes(seed),
		vh.CoqList(ops), vh.CoqList(obs))
	cf.Items = append(cf.Items, term)
	desc := map[string]interface{}{"type": "xof", "kind": kindName[kind], "seed": vh.Hex(seed), "ops": recs}
	rep.Index(id, desc)
	rep.Count(fmt.Sprintf("xof %d %x %v", kind, seed, ops), nontrivial)
	rep.Dist("xof:" + kindName[kind])
	rep.Dist(fmt.Sprintf("seedlen:%s", bucket(len(seed), []int{0, 1, 32, 33, 64, 65, 128, 129})))
	rep.Sample(desc)
}

func bucket(n int, edges []int) string {
	for i := len(edges) - 1; i >= 0; i-- {
		if n >= edges[i] {
			return fmt.Sprintf(">=%d", edges[i])
		}
	}
	return "<"
}

// ---- oracles (the property evaluated directly on the implementation)

func randomHistory(r *vh.Rng, x kyber.XOF, n int, allowReset bool) (hist []string, panicked bool) {
	for i := 0; i < n; i++ {
		p, _ := vh.Try(func() {
			switch c := r.Intn(100); {
			case c < 40:
				k := r.Pick(chunkLens)
				x.Read(make([]byte, k))
				hist = append(hist, fmt.Sprintf("Read %d", k))
			case c < 55:
				d := r.Bytes(r.Intn(40))
				hist = append(hist, "Write "+vh.Hex(d))
				x.Write(d)
			case c < 70:
				k := r.Pick(chunkLens)
				hist = append(hist, fmt.Sprintf("XORKeyStream %d", k))
				x.XORKeyStream(make([]byte, k), make([]byte, k))
			case c < 85:
				hist = append(hist, "Reseed")
				x.Reseed()
			default:
				if allowReset {
					hist = append(hist, "Reset")
					x.Reset()
				}
			}
		})
		if p {
			return hist, true
		}
	}
	return hist, false
}

// Reset of a factory XOF returns it to the seeded initial state.
func oracleReset(r *vh.Rng, rep *vh.Report, kind int) {
	seed := r.Bytes(r.Pick(seedLens))
	callerSeed := append(make([]byte, 0, len(seed)+8), seed...)
	x := newXof(kind, callerSeed)
	wipe(callerSeed) // the caller may reuse its buffer
	hist, _ := randomHistory(r, x, 1+r.Intn(8), true)
	if r.Chance(40) { // a clone that is reset must not disturb the original
		c := x.Clone()
		vh.Try(func() { c.Reset(); c.Read(make([]byte, 40)) })
		hist = append(hist, "Clone;clone.Reset;clone.Read 40")
	}
	x.Reset()
	got := make([]byte, 96)
	x.Read(got)
	want := make([]byte, 96)
	newXof(kind, seed).Read(want)
	rep.Dist("oracle:reset")
	if !bytes.Equal(got, want) {
		reseeded := false
		for _, h := range hist {
			if h == "Reseed" {
				reseeded = true
			}
		}
		key := kindName[kind] + ".Reset"
		if reseeded {
			key += "-after-Reseed"
		}
		rep.Fail(key, "Reset does not return the XOF to its seeded initial state",
			map[string]interface{}{"kind": kindName[kind], "seed": vh.Hex(seed), "history": hist,
				"after_reset": vh.Hex(got), "fresh": vh.Hex(want)})
	}
}

// a call that is refused (panics: destination shorter than source) leaves the
// state as it was: the object continues exactly like a twin that never made it
func oracleRefused(r *vh.Rng, rep *vh.Report, kind int) {
	seed := r.Bytes(r.Pick(seedLens))
	x, y := newXof(kind, seed), newXof(kind, seed)
	pre := r.Intn(200)
	x.Read(make([]byte, pre))
	y.Read(make([]byte, pre))
	var early []kyber.XOF
	if r.Bool() {
		early = append(early, x.Clone())
	}
	ls := 1 + r.Intn(300)
	ld := r.Intn(ls)
	refused, msg := vh.Try(func() { x.XORKeyStream(make([]byte, ld), make([]byte, ls)) })
	rep.Dist(fmt.Sprintf("oracle:refused-call:%s:panicked=%v", kindName[kind], refused))
	if !refused {
		return // the call was served: nothing to compare
	}
	got, want := make([]byte, 96), make([]byte, 96)
	x.Read(got)
	y.Read(want)
	ctx := map[string]interface{}{"kind": kindName[kind], "seed": vh.Hex(seed), "read_before": pre, "src_len": ls, "dst_len": ld, "panic": msg,
		"after_refused_call": vh.Hex(got), "twin": vh.Hex(want)}
	if !bytes.Equal(got, want) {
		rep.Fail(kindName[kind]+".refused-call-changes-state", "an XORKeyStream call that was refused (destination shorter than source) changed the XOF state", ctx)
	}
	for _, c := range early {
		cw := make([]byte, 96)
		c.Read(cw)
		if !bytes.Equal(cw, want) {
			rep.Fail(kindName[kind]+".refused-call-changes-clone", "a clone taken before a refused call no longer continues like the twin", ctx)
		}
	}
}

// flakyReader fails while down is set, and delivers its data otherwise
type flakyReader struct {
	data []byte
	down bool
}

func (f *flakyReader) Read(p []byte) (int, error) {
	if f.down || len(f.data) == 0 {
		return 0, io.ErrUnexpectedEOF
	}
	n := copy(p, f.data)
	f.data = f.data[n:]
	return n, nil
}

// rsHistory: a multi-source stream has no memory: whatever happened in earlier
// calls (all sources failing and the call panicking, some sources short), a
// later call returns what a fresh stream over the same sources returns.
func rsHistory(r *vh.Rng, rep *vh.Report) {
	nr := 1 + r.Intn(3)
	var fl []*flakyReader
	var rs []io.Reader
	for i := 0; i < nr; i++ {
		f := &flakyReader{data: r.Bytes(400)}
		fl = append(fl, f)
		rs = append(rs, f)
	}
	s := random.New(rs...)
	var hist []string
	for step := 0; step < 4; step++ {
		// choose which sources are down in this call
		mode := r.Intn(4)
		up := 0
		for i, f := range fl {
			switch mode {
			case 0:
				f.down = true
			case 1:
				f.down = false
			default:
				f.down = r.Bool() && i > 0
			}
			if !f.down {
				up++
			}
		}
		// a fresh stream over copies of the sources in the same condition
		var rs2 []io.Reader
		for _, f := range fl {
			rs2 = append(rs2, &flakyReader{data: append([]byte{}, f.data...), down: f.down})
		}
		l := r.Pick([]int{1, 16, 32, 33, 64})
		got, want := make([]byte, l), make([]byte, l)
		p1, _ := vh.Try(func() { s.XORKeyStream(got, make([]byte, l)) })
		p2, _ := vh.Try(func() { random.New(rs2...).XORKeyStream(want, make([]byte, l)) })
		hist = append(hist, fmt.Sprintf("call %d: %d of %d sources up, len %d, panicked=%v", step, up, nr, l, p1))
		rep.Dist(fmt.Sprintf("rs-history:up=%d/%d", up, nr))
		if p1 != p2 || (!p1 && !bytes.Equal(got, want)) {
			rep.Fail("random.New-history-dependent", "a multi-source stream behaves differently from a fresh stream over the same sources after an earlier call",
				map[string]interface{}{"history": hist, "reused_stream_panicked": p1, "fresh_stream_panicked": p2, "reused": vh.Hex(got), "fresh": vh.Hex(want)})
			return
		}
	}
}

// a Clone continues identically under further reads/writes/reseeds
func oracleClone(r *vh.Rng, rep *vh.Report, kind int) {
	seed := r.Bytes(r.Pick(seedLens))
	x := newXof(kind, seed)
	pre := r.Fork()
	hist, p := randomHistory(pre, x, r.Intn(5), true)
	if p {
		return
	}
	y := x.Clone()
	sfx := r.U64()
	var o1, o2 []byte
	run := func(z kyber.XOF, out *[]byte) []string {
		rr := vh.NewRng(sfx)
		var h []string
		vh.Try(func() {
			for i := 0; i < 6; i++ {
				switch c := rr.Intn(100); {
				case c < 50:
					b := make([]byte, rr.Pick(chunkLens))
					z.Read(b)
					*out = append(*out, b...)
					h = append(h, fmt.Sprintf("Read %d", len(b)))
				case c < 65:
					d := rr.Bytes(rr.Intn(30))
					h = append(h, "Write "+vh.Hex(d))
					z.Write(d)
				case c < 80:
					b := make([]byte, rr.Pick(chunkLens))
					z.XORKeyStream(b, b)
					*out = append(*out, b...)
					h = append(h, fmt.Sprintf("XORKeyStream %d", len(b)))
				default:
					h = append(h, "Reseed")
					z.Reseed()
				}
			}
		})
		return h
	}
	h := run(x, &o1)
	run(y, &o2)
	rep.Dist("oracle:clone")
	if !bytes.Equal(o1, o2) {
		rep.Fail(kindName[kind]+".Clone-diverges", "clone and original produce different output under the same operations",
			map[string]interface{}{"kind": kindName[kind], "seed": vh.Hex(seed), "prefix": hist, "suffix": h})
	}
}

// chunked reads = single-shot reference; XORKeyStream = XOR of Read
func oracleChunks(r *vh.Rng, rep *vh.Report, kind int) {
	seed := r.Bytes(r.Pick(seedLens))
	x := newXof(kind, seed)
	var got []byte
	var chunks []int
	for i := 0; i < 1+r.Intn(8); i++ {
		n := r.Pick(chunkLens)
		b := make([]byte, n)
		if r.Bool() {
			x.Read(b)
		} else {
			src := r.Bytes(n)
			x.XORKeyStream(b, src)
			for j := range b {
				b[j] ^= src[j]
			}
		}
		got = append(got, b...)
		chunks = append(chunks, n)
	}
	m := mirrorNew(kind, seed)
	want := refOut(kind, m.key, m.abs, len(got))
	rep.Dist("oracle:chunks")
	if !bytes.Equal(got, want) {
		rep.Fail(kindName[kind]+".chunked-read", "chunked Read/XORKeyStream output differs from the single-shot reference",
			map[string]interface{}{"kind": kindName[kind], "seed": vh.Hex(seed), "chunks": chunks})
	}
}

// ---- random.Bits

type fixedStream struct {
	buf []byte
	pos int
}

func (s *fixedStream) XORKeyStream(dst, src []byte) {
	for i := range src {
		if s.pos >= len(s.buf) {
			panic("fixedStream exhausted")
		}
		dst[i] = src[i] ^ s.buf[s.pos]
		s.pos++
	}
}

func adversarialStream(r *vh.Rng, n int) []byte {
	b := r.Bytes(n)
	switch r.Intn(5) {
	case 0:
		for i := range b {
			b[i] = 0xff
		}
	case 1:
		for i := range b {
			b[i] = 0
		}
	case 2: // 0xff prefix forcing retries
		k := r.Intn(n + 1)
		for i := 0; i < k; i++ {
			b[i] = 0xff
		}
	}
	return b
}

func bitsCase(r *vh.Rng, rep *vh.Report, cf *vh.CaseFile, id, bl int, exact bool) {
	n := (bl + 7) / 8
	st := adversarialStream(r, n+3)
	fs := &fixedStream{buf: st}
	var out []byte
	p, msg := vh.Try(func() { out = random.Bits(uint(bl), exact, fs) })
	obs := vh.CoqOption(vh.CoqBytes(out), !p)
	cf.Items = append(cf.Items, fmt.Sprintf("CBits %d %d %s %s %s", id, bl, vh.CoqBool(exact), vh.CoqBytes(st), obs))
	desc := map[string]interface{}{"type": "bits", "bitlen": bl, "exact": exact, "stream": vh.Hex(st), "out": vh.Hex(out), "panic": msg}
	rep.Index(id, desc)
	rep.Count(fmt.Sprintf("bits %d %v %x", bl, exact, st), bl > 0)
	rep.Dist("bits")
	if bl == 0 {
		rep.Sample(desc)
	}
	// oracle: range
	if p {
		rep.Fail(fmt.Sprintf("random.Bits(%d,%v)-panics", bl, exact), "random.Bits panics: "+msg, desc)
		return
	}
	v := new(big.Int).SetBytes(out)
	if len(out) != n || v.BitLen() > bl || (exact && bl > 0 && v.BitLen() != bl) {
		rep.Fail("random.Bits-range", "random.Bits result out of the requested range", desc)
	}
	// no bias: the result must be the stream bytes themselves, only masked to bitlen bits
	// (and with the top bit forced when exact) - any other map from stream to value is not uniform
	if n > 0 && len(out) == n {
		want := append([]byte{}, st[:n]...)
		if hb := uint(bl) & 7; hb != 0 {
			want[0] &= byte(0xff) >> (8 - hb)
			if exact {
				want[0] |= 1 << (hb - 1)
			}
		} else if exact {
			want[0] |= 0x80
		}
		if !bytes.Equal(want, out) {
			desc["want"] = vh.Hex(want)
			rep.Fail("random.Bits-not-uniform", "random.Bits does not return the masked stream bytes (biased or stream-independent result)", desc)
		}
	}
}

func intCase(r *vh.Rng, rep *vh.Report, cf *vh.CaseFile, id, c int) {
	var m *big.Int
	one := big.NewInt(1)
	bitsN := 1 + r.Intn(521)
	switch c % 6 {
	case 0:
		m = big.NewInt(int64(1 + c/6%4)) // 1,2,3,4
	case 1:
		m = new(big.Int).Lsh(one, uint(bitsN))
	case 2:
		m = new(big.Int).Lsh(one, uint(bitsN))
		m.Sub(m, one)
	case 3:
		m = new(big.Int).Lsh(one, uint(bitsN))
		m.Add(m, one)
	default:
		m = new(big.Int).SetBytes(r.Bytes((bitsN + 7) / 8))
		m.SetBit(m, bitsN-1, 1)
		m.Rsh(m, uint(m.BitLen()-bitsN))
	}
	if m.Sign() == 0 {
		m = big.NewInt(1)
	}
	n := (m.BitLen() + 7) / 8
	// stream: some rejected candidates first (0xff..), then random
	var st []byte
	rej := r.Intn(4)
	for i := 0; i < rej; i++ {
		st = append(st, bytes.Repeat([]byte{0xff}, n)...)
	}
	st = append(st, make([]byte, n)...) // an all-zero candidate guarantees termination
	if r.Chance(70) {
		copy(st[rej*n:], r.Bytes(n))
		st = append(st, make([]byte, n)...)
	}
	for len(st) < 40*n { // plenty of fallback candidates
		st = append(st, r.Bytes(n)...)
		st = append(st, make([]byte, n)...)
	}
	fs := &fixedStream{buf: st}
	mod := compatiblemod.FromBigInt(m)
	var v *big.Int
	p, msg := vh.Try(func() { v = random.Int(mod, fs).ToBigInt() })
	desc := map[string]interface{}{"type": "int", "modulus": m.String(), "stream_prefix": vh.Hex(st[:min(len(st), 4*n)]), "panic": msg}
	if p {
		rep.Fail("random.Int-panics", "random.Int panics: "+msg, desc)
		v = big.NewInt(-1)
	}
	desc["value"] = v.String()
	desc["consumed"] = fs.pos
	cf.Items = append(cf.Items, fmt.Sprintf("CInt %d %s %s %s %d", id, vh.CoqZ(m), vh.CoqBytes(st[:min(len(st), fs.pos+2*n)]), vh.CoqZ(v), fs.pos))
	rep.Index(id, desc)
	rep.Count(fmt.Sprintf("int %s %x", m, st[:min(len(st), fs.pos)]), m.Cmp(one) > 0)
	rep.Dist(fmt.Sprintf("int:rejected=%d", fs.pos/n-1))
	if c < 2 {
		rep.Sample(desc)
	}
	if !p && (v.Sign() < 0 || v.Cmp(m) >= 0) {
		rep.Fail("random.Int-range", "random.Int result not below the modulus", desc)
	}
}

// ---- multi-reader random stream

// limReader delivers its data in pieces of at most chunk bytes (0 = as much as asked),
// optionally returning the last piece together with io.EOF: all legal io.Reader behaviours.
type limReader struct {
	data    []byte
	chunk   int
	eofWith bool
}

func (l *limReader) Read(p []byte) (int, error) {
	if len(l.data) == 0 {
		return 0, io.EOF
	}
	if l.chunk > 0 && len(p) > l.chunk {
		p = p[:l.chunk]
	}
	n := copy(p, l.data)
	l.data = l.data[n:]
	if l.eofWith && len(l.data) == 0 {
		return n, io.EOF
	}
	return n, nil
}

func rsCase(r *vh.Rng, rep *vh.Report, cf *vh.CaseFile, id int) {
	nr := 1 + r.Intn(4)
	var readers []io.Reader
	var rd [][]byte
	var coqReaders []string
	working := 0
	for i := 0; i < nr; i++ {
		var n int
		switch r.Intn(4) {
		case 0:
			n = 0 // failing reader
		case 1:
			n = 1 + r.Intn(31) // short reader
		default:
			n = 32 + r.Intn(40)
		}
		d := r.Bytes(n)
		rd = append(rd, d)
		chunk := []int{0, 0, 1, 7, 31, 33}[r.Intn(6)]
		readers = append(readers, &limReader{data: append([]byte{}, d...), chunk: chunk, eofWith: r.Chance(30)})
		rep.Dist(fmt.Sprintf("rs:reader-chunk=%d", chunk))
		coqReaders = append(coqReaders, vh.CoqBytes(d))
		if n >= 32 {
			working++
		}
	}
	l := r.Pick([]int{0, 1, 16, 32, 33, 64, 100})
	dst := make([]byte, l)
	s := random.New(readers...)
	p, msg := vh.Try(func() { s.XORKeyStream(dst, make([]byte, l)) })
	// reference tables, computed without kyber
	var buf []byte
	for _, d := range rd {
		buf = append(buf, d[:min(len(d), 32)]...)
	}
	seed := sha256.Sum256(buf)
	shaTbl := fmt.Sprintf("[(%s, %s)]", vh.CoqBytes(buf), vh.CoqBytes(seed[:]))
	tbl := &table{kind: 0, entries: map[string]*entry{}}
	tbl.need(mirrorNew(0, seed[:]), l)
	cf.Items = append(cf.Items, fmt.Sprintf("CRS %d %s %s %s %d %s", id, tbl.coq(), shaTbl, vh.CoqList(coqReaders), l,
		vh.CoqOption(vh.CoqBytes(dst), !p)))
	var lens []string
	for _, d := range rd {
		lens = append(lens, fmt.Sprint(len(d)))
	}
	desc := map[string]interface{}{"type": "randstream", "reader_lengths": strings.Join(lens, ","), "len": l, "panic": msg, "out": vh.Hex(dst)}
	rep.Index(id, desc)
	rep.Count(fmt.Sprintf("rs %x %d", rd, l), working > 0)
	rep.Dist(fmt.Sprintf("rs:readers=%d,working=%d", nr, working))
	if id%20 == 0 {
		rep.Sample(desc)
	}
	// oracle: works iff one reader works; equal consumed bytes => equal output
	if p != (working == 0) {
		rep.Fail("random.New-availability", "random stream must work exactly when at least one reader delivers", desc)
	}
	if !p {
		var rs2 []io.Reader
		for _, d := range rd {
			rs2 = append(rs2, &limReader{data: append([]byte{}, d...)})
		}
		dst2 := make([]byte, l)
		random.New(rs2...).XORKeyStream(dst2, make([]byte, l))
		if !bytes.Equal(dst, dst2) {
			rep.Fail("random.New-determinism", "same consumed bytes, different output", desc)
		}
		// depends on every reader: changing one consumed byte of any reader (also a short one) changes the output
		if l >= 16 {
			for ri, d := range rd {
				if len(d) == 0 {
					continue
				}
				var rs3 []io.Reader
				for rj, e := range rd {
					c := append([]byte{}, e...)
					if rj == ri {
						c[r.Intn(min(len(c), 32))] ^= 0x40
					}
					rs3 = append(rs3, &limReader{data: c})
				}
				dst3 := make([]byte, l)
				random.New(rs3...).XORKeyStream(dst3, make([]byte, l))
				if bytes.Equal(dst, dst3) {
					desc["reader_changed"] = ri
					rep.Fail("random.New-ignores-reader", "output does not depend on the bytes consumed from one of the readers", desc)
				}
			}
		}
	}
}
