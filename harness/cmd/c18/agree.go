package main

import (
	"fmt"

	"go.dedis.ch/kyber/v4/group/edwards25519"
	"go.dedis.ch/kyber/v4/group/edwards25519vartime"
	"go.dedis.ch/kyber/v4/pairing/bls12381/circl"
	"go.dedis.ch/kyber/v4/pairing/bls12381/gnark"
	"go.dedis.ch/kyber/v4/pairing/bls12381/kilic"

	"kyverif/grpprog"
	"kyverif/vh"
)

// firstDiff returns the first index at which the two lists differ (-1: equal).
func firstDiff(a, b []string) int {
	for i := 0; i < len(a) && i < len(b); i++ {
		if a[i] != b[i] {
			return i
		}
	}
	if len(a) != len(b) {
		return min(len(a), len(b))
	}
	return -1
}

func at(l []string, i int) string {
	if i >= 0 && i < len(l) {
		return l[i]
	}
	return "<none>"
}

// programAgreement runs the same random straight-line program (same generator
// state, hence the same operations, operands, aliasing pattern, object reuse,
// streams and payloads) on every implementation of one group and requires
// byte-identical encodings of every scalar and point the program leaves.
func programAgreement(rng *vh.Rng, rep *vh.Report, o vh.Opts) {
	nprog, nops := 4, 34
	if o.Thorough {
		nprog, nops = 60, 40
	}
	if o.Search {
		nprog *= 5
	}
	k, c, g := kilic.NewBLS12381Suite(), circl.NewSuiteBLS12381(), gnark.NewSuiteBLS12381()
	families := []struct {
		name string
		ins  []grpprog.Inst
	}{
		{"ed25519", []grpprog.Inst{
			{Name: "ed25519", G: edwards25519.NewBlakeSHA256Ed25519()},
			{Name: "ed25519+vartime", G: edwards25519.NewBlakeSHA256Ed25519(), VarTime: true},
			{Name: "ed25519vartime-pkg", G: edwards25519vartime.NewBlakeSHA256Ed25519(false)},
		}},
		{"bls12381.G1", []grpprog.Inst{{Name: "kilic.G1", G: k.G1(), HashOnly: true}, {Name: "circl.G1", G: c.G1(), HashOnly: true}, {Name: "gnark.G1", G: g.G1(), HashOnly: true}}},
		{"bls12381.G2", []grpprog.Inst{{Name: "kilic.G2", G: k.G2(), HashOnly: true}, {Name: "circl.G2", G: c.G2(), HashOnly: true}, {Name: "gnark.G2", G: g.G2(), HashOnly: true}}},
	}
	for _, fam := range families {
		for n := 0; n < nprog; n++ {
			base := *rng.Fork()
			var ref *grpprog.Prog
			for i, in := range fam.ins {
				r := base
				p := grpprog.RunGroup(&r, in, nops, rep)
				if p.Panic != "" {
					rep.Fail("C18/"+in.Name+"/program-panic", "operation panicked: "+p.Panic, map[string]interface{}{"impl": in.Name, "program": p.Text})
					continue
				}
				if i == 0 || ref == nil {
					ref = p
					rep.Count(fmt.Sprint("prog/", fam.name, p.Text), len(p.Enc[0]) >= 3)
					rep.DistN("program-agreement:"+fam.name+":ops", len(p.Ops))
					continue
				}
				rep.Dist("program-agreement:" + fam.name)
				ctx := func(extra map[string]string) map[string]interface{} {
					m := map[string]interface{}{"family": fam.name, "impl": in.Name, "reference_impl": fam.ins[0].Name, "program": p.Text}
					for k, v := range extra {
						m[k] = v
					}
					return m
				}
				if d := firstDiff(ref.Text, p.Text); d >= 0 {
					rep.Fail("C18/"+fam.name+"/program-diverges", "the same generator state produced different programs on two implementations (an operation is supported, or two values are Equal, on one only)",
						ctx(map[string]string{"step": fmt.Sprint(d), "here": at(p.Text, d), "reference": at(ref.Text, d)}))
					continue
				}
				sa, sb := ref.ScEnc, p.ScEnc
				if fam.name == "ed25519" {
					// the edwards25519vartime package encodes scalars in the other byte order: compare the values
					sa, sb = nil, nil
					for i := range ref.Scalars {
						sa = append(sa, ref.Scalars[i].String())
					}
					for i := range p.Scalars {
						sb = append(sb, p.Scalars[i].String())
					}
				}
				if d := firstDiff(sa, sb); d >= 0 {
					rep.Fail("C18/"+fam.name+"/scalar-encoding-differs", "implementations disagree on the encoding of a scalar of the same program",
						ctx(map[string]string{"scalar": fmt.Sprintf("s%d", d), "got": at(sb, d), "reference": at(sa, d)}))
				}
				if d := firstDiff(ref.Enc[0], p.Enc[0]); d >= 0 {
					rep.Fail("C18/"+fam.name+"/point-encoding-differs", "implementations disagree on the encoding of a point of the same program",
						ctx(map[string]string{"point": fmt.Sprintf("P0_%d", d), "got": at(p.Enc[0], d), "reference": at(ref.Enc[0], d)}))
				}
			}
		}
	}
	// whole pairing programs on the three BLS12-381 suites
	suites := []grpprog.PSuite{{Name: "kilic", S: k, HashOnly: true}, {Name: "circl", S: c, HashOnly: true}, {Name: "gnark", S: g, HashOnly: true}}
	for n := 0; n < (nprog+1)/2; n++ {
		base := *rng.Fork()
		var ref *grpprog.Prog
		for i, ps := range suites {
			r := base
			p := grpprog.RunPairing(&r, ps, nops, rep)
			if p.Panic != "" {
				rep.Fail("C18/"+ps.Name+"/program-panic", "operation panicked: "+p.Panic, map[string]interface{}{"suite": ps.Name, "program": p.Text})
				continue
			}
			if i == 0 || ref == nil {
				ref = p
				rep.Count(fmt.Sprint("pprog/", p.Text), len(p.Enc[2]) >= 1)
				continue
			}
			if firstDiff(ref.Text, p.Text) >= 0 {
				// the suites do not support the same GT operations: the programs differ legitimately
				rep.Dist("program-agreement:bls12381.pairing:diverged(unsupported-op)")
				continue
			}
			rep.Dist("program-agreement:bls12381.pairing")
			for gi := 0; gi < 3; gi++ {
				if d := firstDiff(ref.Enc[gi], p.Enc[gi]); d >= 0 {
					rep.Fail("C18/bls12381.pairing/point-encoding-differs", "suites disagree on the encoding of a point of the same pairing program",
						map[string]interface{}{"suite": ps.Name, "reference_suite": suites[0].Name, "program": p.Text, "point": fmt.Sprintf("P%d_%d", gi, d), "got": at(p.Enc[gi], d), "reference": at(ref.Enc[gi], d)})
				}
			}
			if d := firstDiff(ref.ScEnc, p.ScEnc); d >= 0 {
				rep.Fail("C18/bls12381.pairing/scalar-encoding-differs", "suites disagree on the encoding of a scalar of the same pairing program",
					map[string]interface{}{"suite": ps.Name, "program": p.Text, "scalar": fmt.Sprintf("s%d", d)})
			}
			if fmt.Sprint(ref.Verdicts) != fmt.Sprint(p.Verdicts) {
				rep.Fail("C18/bls12381.pairing/verdict-differs", "suites disagree on ValidatePairing verdicts of the same program",
					map[string]interface{}{"suite": ps.Name, "program": p.Text, "got": fmt.Sprint(p.Verdicts), "reference": fmt.Sprint(ref.Verdicts)})
			}
		}
	}
}
