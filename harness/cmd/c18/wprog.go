package main

import (
	"fmt"
	"math/big"

	"go.dedis.ch/kyber/v4"

	"kyverif/grpprog"
	"kyverif/vh"
)

type wcurve struct {
	ci      int
	p, a, b *big.Int
	prefix  []byte // encoding prefix (P-256: 0x04)
}

func bigs(s string) *big.Int { v, _ := new(big.Int).SetString(s, 10); return v }

var wcurves = []wcurve{
	{0, bigs("115792089210356248762697446949407573530086143415290314195533631308867097853951"), big.NewInt(-3),
		bigs("41058363725152142129326129780047268409114441015993725554835256314039467401291"), []byte{4}},
	{1, bigs("65000549695646603732796438742359905742825358107623003571877145026864184071783"), big.NewInt(0), big.NewInt(3), nil},
	{2, bigs("21888242871839275222246405745257275088696311157297823662689037894645226208583"), big.NewInt(0), big.NewInt(3), nil},
}

// onCurveY returns a y with y^2 = x^3 + a x + b (mod p), if there is one.
func (c wcurve) onCurveY(x *big.Int) *big.Int {
	r := new(big.Int).Exp(x, big.NewInt(3), c.p)
	r.Add(r, new(big.Int).Mul(c.a, x))
	r.Add(r, c.b)
	r.Mod(r, c.p)
	return new(big.Int).ModSqrt(r, c.p)
}

func (c wcurve) encode(x, y *big.Int) []byte {
	out := append([]byte{}, c.prefix...)
	out = append(out, x.FillBytes(make([]byte, 32))...)
	return append(out, y.FillBytes(make([]byte, 32))...)
}

// weierstrassPrograms runs programs of Add/Sub/Neg/Mul on P-256, BN256 G1 and
// BN254 G1 that start from arbitrary curve points - the points with the
// smallest abscissae (x = 0 where the curve has such a point), the generator,
// multiples of it - entered through UnmarshalBinary, and emits them as CWProg
// cases: the reference curve must produce the same encodings at every step.
func weierstrassPrograms(rng *vh.Rng, rep *vh.Report, cf *vh.CaseFile, id *int, o vh.Opts, groups []grpprog.Inst) {
	nprog, nops := 2, 9
	if o.Thorough {
		nprog, nops = 25, 14
	}
	for wi, c := range wcurves {
		in := groups[wi]
		q := grpprog.Order(in.G)
		// special start points: the curve points of smallest abscissa
		var special [][2]*big.Int
		for x := int64(0); x < 40 && len(special) < 3; x++ {
			if y := c.onCurveY(big.NewInt(x)); y != nil {
				special = append(special, [2]*big.Int{big.NewInt(x), y})
			}
		}
		for n := 0; n < nprog; n++ {
			r := rng.Fork()
			var starts [][2]*big.Int
			sp := special[0] // the smallest abscissa (x = 0 on P-256) in the first program of every run
			if n > 0 {
				sp = special[(n+int(o.Seed))%len(special)]
			}
			starts = append(starts, sp, [2]*big.Int{sp[0], new(big.Int).Sub(c.p, sp[1])})
			// a multiple of the generator, via its encoding
			kb, _ := in.G.Point().Mul(grpprog.MkScalar(in.G, r.EdgeScalar(q)), nil).MarshalBinary()
			kb = kb[len(c.prefix):]
			if new(big.Int).SetBytes(kb).Sign() != 0 {
				starts = append(starts, [2]*big.Int{new(big.Int).SetBytes(kb[:32]), new(big.Int).SetBytes(kb[32:])})
			}
			var pool []kyber.Point
			bad := false
			for _, st := range starts {
				p := in.G.Point()
				if err := p.UnmarshalBinary(c.encode(st[0], st[1])); err != nil {
					rep.Fail("C18/"+in.Name+"/curve-point-refused", "the encoding of a point of the curve is refused: "+err.Error(),
						map[string]string{"x": st[0].String(), "y": st[1].String()})
					bad = true
				}
				pool = append(pool, p)
			}
			if bad {
				continue
			}
			var ops, text []string
			pn, msg := vh.Try(func() {
				for len(ops) < nops {
					a, b := r.Intn(len(pool)), r.Intn(len(pool))
					if len(ops) < 4 {
						a = len(ops) % 2 // the special point and its negative first
					}
					np := in.G.Point()
					switch r.Intn(7) {
					case 0, 1:
						pool = append(pool, np.Add(pool[a], pool[b]))
						ops, text = append(ops, fmt.Sprintf("WAdd %d %d", a, b)), append(text, fmt.Sprintf("P%d := P%d + P%d", len(pool)-1, a, b))
					case 2, 3:
						pool = append(pool, np.Sub(pool[a], pool[b]))
						ops, text = append(ops, fmt.Sprintf("WSub %d %d", a, b)), append(text, fmt.Sprintf("P%d := P%d - P%d", len(pool)-1, a, b))
					case 4:
						pool = append(pool, np.Neg(pool[a]))
						ops, text = append(ops, fmt.Sprintf("WNeg %d", a)), append(text, fmt.Sprintf("P%d := -P%d", len(pool)-1, a))
					case 5:
						pool = append(pool, np.Sub(pool[a], pool[a]))
						ops, text = append(ops, fmt.Sprintf("WSub %d %d", a, a)), append(text, fmt.Sprintf("P%d := P%d - P%d", len(pool)-1, a, a))
					default:
						k := big.NewInt(int64(r.Intn(9)))
						if r.Chance(30) {
							k = r.EdgeScalar(q)
						}
						pool = append(pool, np.Mul(grpprog.MkScalar(in.G, k), pool[a]))
						ops, text = append(ops, fmt.Sprintf("WMul %s %d", vh.CoqZ(k), a)), append(text, fmt.Sprintf("P%d := %s * P%d", len(pool)-1, k, a))
					}
				}
			})
			if pn {
				rep.Fail("C18/"+in.Name+"/program-panic", "operation panicked: "+msg, map[string]interface{}{"program": text})
				continue
			}
			var st, encs []string
			for _, s := range starts {
				st = append(st, fmt.Sprintf("(%s, %s)", vh.CoqZ(s[0]), vh.CoqZ(s[1])))
			}
			for _, p := range pool {
				encs = append(encs, vh.CoqBytes(enc(p)))
			}
			cf.Items = append(cf.Items, fmt.Sprintf("CWProg %d %d %s %s %s", *id, c.ci, vh.CoqList(st), vh.CoqList(ops), vh.CoqList(encs)))
			rep.Index(*id, map[string]interface{}{"kind": "CWProg", "group": in.Name, "start_points": st, "program": text})
			rep.Count(fmt.Sprint("wprog/", in.Name, st, text), true)
			rep.Dist("weierstrass-program:" + in.Name)
			rep.Dist(fmt.Sprintf("weierstrass-program:special-x=%s", sp[0]))
			*id++
		}
	}
}
