// Correspondence + oracle harness for property C18: implementations of the same
// group agree bit for bit, with each other, with the reference curve model
// (Coq, CurveRef) and across build variants.
package main

import (
	"bytes"
	"context"
	"crypto/ed25519"
	"crypto/sha512"
	"fmt"
	"math/big"
	"os"
	"os/exec"
	"path/filepath"
	"strings"
	"time"

	"go.dedis.ch/kyber/v4"
	"go.dedis.ch/kyber/v4/group/edwards25519"
	"go.dedis.ch/kyber/v4/group/edwards25519vartime"
	"go.dedis.ch/kyber/v4/group/p256"
	"go.dedis.ch/kyber/v4/pairing"
	"go.dedis.ch/kyber/v4/pairing/bls12381/circl"
	"go.dedis.ch/kyber/v4/pairing/bls12381/gnark"
	"go.dedis.ch/kyber/v4/pairing/bls12381/kilic"
	"go.dedis.ch/kyber/v4/pairing/bn254"
	"go.dedis.ch/kyber/v4/pairing/bn256"
	"go.dedis.ch/kyber/v4/sign/bls"
	"go.dedis.ch/kyber/v4/sign/eddsa"

	"kyverif/grpprog"
	"kyverif/vh"
)

func enc(p interface{ MarshalBinary() ([]byte, error) }) []byte {
	b, err := p.MarshalBinary()
	if err != nil {
		return []byte("ERR:" + err.Error())
	}
	return b
}

// paths computes k.B in several ways on one implementation.
func paths(r *vh.Rng, in grpprog.Inst, q, k *big.Int) map[string][]byte {
	g := in.G
	np := func() kyber.Point {
		p := g.Point()
		if in.VarTime {
			if a, ok := p.(kyber.AllowsVarTime); ok {
				a.AllowVarTime(true)
			}
		}
		return p
	}
	out := map[string][]byte{}
	s := grpprog.MkScalar(g, k)
	out["Mul(k,nil)"] = enc(np().Mul(s, nil))
	out["Mul(k,Base)"] = enc(np().Mul(s, np().Base()))
	k1 := r.BigBelow(q)
	k2 := new(big.Int).Sub(k, k1)
	k2.Mod(k2, q)
	out["Mul(k1,nil)+Mul(k2,nil)"] = enc(np().Add(np().Mul(grpprog.MkScalar(g, k1), nil), np().Mul(grpprog.MkScalar(g, k2), nil)))
	nk := new(big.Int).Sub(q, k)
	nk.Mod(nk, q)
	out["Neg(Mul(q-k,nil))"] = enc(np().Neg(np().Mul(grpprog.MkScalar(g, nk), nil)))
	// k = a*b with a random invertible a: Mul(a, Mul(b, nil))
	a := r.BigBelow(q)
	if a.Sign() != 0 {
		b := new(big.Int).Mul(k, new(big.Int).ModInverse(a, q))
		b.Mod(b, q)
		out["Mul(a,Mul(b,nil))"] = enc(np().Mul(grpprog.MkScalar(g, a), np().Mul(grpprog.MkScalar(g, b), nil)))
	}
	// in place: receiver is the operand
	func() {
		c := np().Base()
		out["c:=Base; c.Mul(k,c)"] = enc(c.Mul(s, c))
	}()
	// non-base operand: k.B = (k*u^-1).(u.B) for a small unit u
	for _, u := range []int64{3, 7} {
		ui := new(big.Int).ModInverse(big.NewInt(u), q)
		ku := new(big.Int).Mul(k, ui)
		ku.Mod(ku, q)
		P := np().Mul(grpprog.MkScalar(g, ku), nil)
		out[fmt.Sprintf("Mul(%d, (k/%d).B)", u, u)] = enc(np().Mul(grpprog.MkScalar(g, big.NewInt(u)), P))
	}
	// decoded representation added to the computed one: k.B = (k/2).B + decode(encode((k/2).B)) for even k
	if k.Bit(0) == 0 {
		h := new(big.Int).Rsh(k, 1)
		P := np().Mul(grpprog.MkScalar(g, h), nil)
		if bb, err := P.MarshalBinary(); err == nil {
			P2 := np()
			if P2.UnmarshalBinary(bb) == nil {
				out["P+decode(encode(P))"] = enc(np().Add(P, P2))
			}
		}
	}
	out["Sub(Mul(k+1,nil),Base)"] = enc(np().Sub(np().Mul(grpprog.MkScalar(g, new(big.Int).Mod(new(big.Int).Add(k, big.NewInt(1)), q)), nil), np().Base()))
	return out
}

func items(its [][2]string) string {
	return vh.CoqList(func() []string {
		var s []string
		for _, it := range its {
			s = append(s, "("+it[0]+", "+it[1]+")")
		}
		return s
	}())
}

func main() {
	o := vh.ParseFlags()
	rng := vh.NewRng(o.Seed)
	rep := vh.NewReport("C18", o.Seed, o.Tier)
	rep.Rule = "for edge-biased scalars k: k.B computed along 6 paths on every implementation of a group; all encodings must be identical across paths and implementations (Ed25519 x3, BLS12-381 x3 incl. G1/G2/GT/hash/pairing/BLS signatures) and equal to the Coq reference curve (Ed25519, P-256, BN256 G1, BN254 G1); crypto/ed25519 key derivation; transcripts of one deterministic computation under build tags default/generic/constantTime. distinct = distinct (group, scalar); non-trivial = scalar not in {0,1}"
	cf := &vh.CaseFile{Header: "From Kyber Require Import CurveRef.RefRun.", Type: "case", Runner: "mismatches"}
	nk := 10
	if o.Thorough {
		nk = 120
	}
	if o.Search {
		nk *= 4
	}
	id := 0
	// ---------------------------------------------------------------- Ed25519 family
	eds := []grpprog.Inst{
		{Name: "ed25519", G: edwards25519.NewBlakeSHA256Ed25519()},
		{Name: "ed25519+vartime", G: edwards25519.NewBlakeSHA256Ed25519(), VarTime: true},
		{Name: "ed25519vartime-pkg", G: edwards25519vartime.NewBlakeSHA256Ed25519(false)},
	}
	L := grpprog.Order(eds[0].G)
	var its [][2]string
	flush := func(kind string) {
		if len(its) == 0 {
			return
		}
		cf.Items = append(cf.Items, fmt.Sprintf("%s %d %s", kind, id, items(its)))
		rep.Index(id, map[string]interface{}{"kind": kind, "items": len(its)})
		id++
		its = nil
	}
	small := func(i int, r *vh.Rng, q *big.Int) *big.Int {
		// every run covers some of the small scalars 0..40 (all of them in the thorough tier)
		if i < nk/2 {
			return big.NewInt(int64((int(o.Seed)*7 + i*3) % 41))
		}
		return r.EdgeScalar(q)
	}
	if o.Thorough {
		small = func(i int, r *vh.Rng, q *big.Int) *big.Int {
			if i < 41 {
				return big.NewInt(int64(i))
			}
			return r.EdgeScalar(q)
		}
	}
	for i := 0; i < nk; i++ {
		r := rng.Fork()
		k := small(i, r, L)
		var ref []byte
		for _, in := range eds {
			for path, b := range paths(r, in, L, k) {
				if ref == nil {
					ref = b
				}
				rep.Dist("ed25519:" + in.Name)
				if !bytes.Equal(ref, b) {
					rep.Fail("C18/"+in.Name+"/encoding-differs", "implementations/paths of Ed25519 disagree on the encoding of k.B",
						map[string]string{"k": k.String(), "impl": in.Name, "path": path, "got": vh.Hex(b), "reference": vh.Hex(ref)})
					its = append(its, [2]string{vh.CoqZ(k), vh.CoqBytes(b)})
				}
			}
		}
		its = append(its, [2]string{vh.CoqZ(k), vh.CoqBytes(ref)})
		rep.Count("ed25519/"+k.String(), k.Cmp(big.NewInt(1)) > 0)
		if i < 2 {
			rep.Sample(map[string]string{"group": "ed25519", "k": k.String(), "encoding": vh.Hex(ref)})
		}
		if len(its) >= 5 {
			flush("CEdMul")
		}
	}
	flush("CEdMul")
	// Embed / Data / Pick on the same payload and stream, at every payload-length boundary
	{
		r := rng.Fork()
		l := eds[0].G.Point().EmbedLen()
		np := func(in grpprog.Inst) kyber.Point {
			p := in.G.Point()
			if in.VarTime {
				if a, ok := p.(kyber.AllowsVarTime); ok {
					a.AllowVarTime(true)
				}
			}
			return p
		}
		for _, n := range []int{-1, 0, 0, 1, 2, l / 2, l - 1, l, l + 1, l + 9, r.Intn(l + 1), r.Intn(l + 1)} {
			var data []byte // n = -1: nil (Pick)
			if n >= 0 {
				data = append(make([]byte, 0, n+1), r.Bytes(n)...)
			}
			seed := r.Bytes(16)
			var refE, refD []byte
			for i, in := range eds {
				var e, d []byte
				pn, msg := vh.Try(func() {
					p := np(in).Embed(data, vh.NewSeqStream(seed))
					e = enc(p)
					dd, err := p.Data()
					if err != nil {
						d = []byte("ERR:" + err.Error())
					} else {
						d = append([]byte("OK:"), dd...)
					}
				})
				if pn {
					rep.Fail("C18/"+in.Name+"/embed-panic", msg, map[string]string{"payload": vh.Hex(data)})
					continue
				}
				rep.Dist(fmt.Sprintf("ed25519:embed:len=%d", n))
				if i == 0 {
					refE, refD = e, d
					continue
				}
				if !bytes.Equal(e, refE) || !bytes.Equal(d, refD) {
					rep.Fail("C18/"+in.Name+"/embed-differs", "implementations of Ed25519 disagree on Embed/Data for the same payload and stream",
						map[string]string{"impl": in.Name, "payload_len": fmt.Sprint(n), "payload": vh.Hex(data), "stream_seed": vh.Hex(seed),
							"point": vh.Hex(e), "reference_point": vh.Hex(refE), "data": string(d[:min(len(d), 3)]) + vh.Hex(d[min(len(d), 3):]), "reference_data": string(refD[:min(len(refD), 3)]) + vh.Hex(refD[min(len(refD), 3):])})
				}
			}
		}
	}
	// a point that served as the base of a multiplication and is then rewritten in place by
	// every method that can rewrite it: the next multiplication by it must agree across the
	// implementations (and with a multiplication by a fresh copy)
	{
		r := rng.Fork()
		np := func(in grpprog.Inst) kyber.Point {
			p := in.G.Point()
			if in.VarTime {
				if a, ok := p.(kyber.AllowsVarTime); ok {
					a.AllowVarTime(true)
				}
			}
			return p
		}
		rewriters := []string{"Embed", "Embed-empty", "Pick", "Set", "UnmarshalBinary", "Null", "Base", "Add", "Sub", "Neg", "Mul", "Mul-base", "Clone-assign"}
		for round := 0; round < 2; round++ {
			k0, s1, s2, ky := r.EdgeScalar(L), r.EdgeScalar(L), r.EdgeScalar(L), r.EdgeScalar(L)
			if s2.Sign() == 0 {
				s2.SetInt64(3)
			}
			payload, seed := r.Bytes(1+r.Intn(20)), r.Bytes(16)
			for _, how := range rewriters {
				var ref []byte
				for i, in := range eds {
					var out, fresh []byte
					pn, msg := vh.Try(func() {
						g := in.G
						X := np(in).Mul(grpprog.MkScalar(g, k0), nil)
						Y := np(in).Mul(grpprog.MkScalar(g, ky), nil)
						R := np(in)
						R.Mul(grpprog.MkScalar(g, s1), X) // X serves as a base once
						switch how {
						case "Embed":
							X.Embed(payload, vh.NewSeqStream(seed))
						case "Embed-empty":
							X.Embed([]byte{}, vh.NewSeqStream(seed))
						case "Pick":
							X.Pick(vh.NewSeqStream(seed))
						case "Set":
							X.Set(Y)
						case "UnmarshalBinary":
							if err := X.UnmarshalBinary(enc(Y)); err != nil {
								panic(err)
							}
						case "Null":
							X.Null()
						case "Base":
							X.Base()
						case "Add":
							X.Add(X, Y)
						case "Sub":
							X.Sub(Y, X)
						case "Neg":
							X.Neg(X)
						case "Mul":
							X.Mul(grpprog.MkScalar(g, ky), X)
						case "Mul-base":
							X.Mul(grpprog.MkScalar(g, ky), nil)
						case "Clone-assign":
							X = Y.Clone()
							if in.VarTime {
								if a, ok := X.(kyber.AllowsVarTime); ok {
									a.AllowVarTime(true)
								}
							}
						}
						out = enc(R.Mul(grpprog.MkScalar(g, s2), X))
						c := np(in)
						if err := c.UnmarshalBinary(enc(X)); err != nil {
							panic(err)
						}
						fresh = enc(np(in).Mul(grpprog.MkScalar(g, s2), c))
					})
					if pn {
						rep.Fail("C18/"+in.Name+"/base-history-panic", msg, map[string]string{"rewritten_by": how})
						continue
					}
					rep.Dist("ed25519:base-rewritten-by:" + how)
					if i == 0 {
						ref = out
					}
					if !bytes.Equal(out, ref) || !bytes.Equal(out, fresh) {
						rep.Fail("C18/"+in.Name+"/mul-after-base-rewritten-in-place", "a multiplication by a point that was used as a base before and then rewritten in place disagrees across implementations or with a multiplication by a fresh copy",
							map[string]string{"impl": in.Name, "rewritten_by": how, "s2": s2.String(), "got": vh.Hex(out), "reference_impl": vh.Hex(ref), "fresh_copy": vh.Hex(fresh)})
					}
				}
			}
		}
	}
	// crypto/ed25519 key derivation: public key = clamp(SHA-512(seed)[:32]).B
	for i := 0; i < nk/2+1; i++ {
		r := rng.Fork()
		seed := r.Bytes(32)
		pub := ed25519.NewKeyFromSeed(seed).Public().(ed25519.PublicKey)
		h := sha512.Sum512(seed)
		h[0] &= 248
		h[31] &= 127
		h[31] |= 64
		a := new(big.Int)
		for j := 31; j >= 0; j-- {
			a.Lsh(a, 8)
			a.Or(a, big.NewInt(int64(h[j])))
		}
		its = append(its, [2]string{vh.CoqZ(a), vh.CoqBytes(pub)})
		// kyber's EdDSA key derivation from the same 32 bytes of randomness
		e := eddsa.NewEdDSA(&fixed{buf: seed})
		kp := enc(e.Public)
		rep.Dist("ed25519:keygen")
		if !bytes.Equal(kp, pub) {
			rep.Fail("C18/eddsa/keygen", "kyber EdDSA public key differs from crypto/ed25519 for the same seed",
				map[string]string{"seed": vh.Hex(seed), "kyber": vh.Hex(kp), "go": vh.Hex(pub)})
		}
		rep.Count("keygen/"+vh.Hex(seed), true)
	}
	flush("CEdMul")
	// ---------------------------------------------------------------- Weierstrass references
	for ci, in := range []grpprog.Inst{
		{Name: "p256", G: p256.NewBlakeSHA256P256()},
		{Name: "bn256.G1", G: bn256.NewSuite().G1()},
		{Name: "bn254.G1", G: bn254.NewSuite().G1()},
	} {
		q := grpprog.Order(in.G)
		for i := 0; i < nk; i++ {
			r := rng.Fork()
			k := small(i, r, q)
			var ref []byte
			for path, b := range paths(r, in, q, k) {
				if ref == nil {
					ref = b
				}
				rep.Dist("weierstrass:" + in.Name)
				if !bytes.Equal(ref, b) {
					rep.Fail("C18/"+in.Name+"/encoding-differs", "computation paths disagree on the encoding of k.B",
						map[string]string{"k": k.String(), "impl": in.Name, "path": path, "got": vh.Hex(b), "reference": vh.Hex(ref)})
					its = append(its, [2]string{vh.CoqZ(k), vh.CoqBytes(b)})
				}
			}
			its = append(its, [2]string{vh.CoqZ(k), vh.CoqBytes(ref)})
			rep.Count(in.Name+"/"+k.String(), k.Cmp(big.NewInt(1)) > 0)
			if len(its) >= 5 {
				flush(fmt.Sprintf("CWMul %d", ci))
				// flush wrote "CWMul ci id items": fix the argument order (id first)
				last := cf.Items[len(cf.Items)-1]
				parts := strings.SplitN(last, " ", 4)
				cf.Items[len(cf.Items)-1] = fmt.Sprintf("CWMul %s %s %s", parts[2], parts[1], parts[3])
			}
		}
		if len(its) > 0 {
			flush(fmt.Sprintf("CWMul %d", ci))
			last := cf.Items[len(cf.Items)-1]
			parts := strings.SplitN(last, " ", 4)
			cf.Items[len(cf.Items)-1] = fmt.Sprintf("CWMul %s %s %s", parts[2], parts[1], parts[3])
		}
	}
	weierstrassPrograms(rng.Fork(), rep, cf, &id, o, []grpprog.Inst{
		{Name: "p256", G: p256.NewBlakeSHA256P256()},
		{Name: "bn256.G1", G: bn256.NewSuite().G1()},
		{Name: "bn254.G1", G: bn254.NewSuite().G1()},
	})
	// ---------------------------------------------------------------- BLS12-381 back-ends
	bl := []struct {
		name string
		s    pairing.Suite
	}{{"kilic", kilic.NewBLS12381Suite()}, {"circl", circl.NewSuiteBLS12381()}, {"gnark", gnark.NewSuiteBLS12381()}}
	q := grpprog.Order(bl[0].s.G1())
	cmp := func(what string, f func(s pairing.Suite) []byte, ctx map[string]string) {
		var ref []byte
		for i, b := range bl {
			var out []byte
			p, msg := vh.Try(func() { out = f(b.s) })
			if p {
				if !strings.Contains(msg, "unsupported") {
					rep.Fail("C18/bls12381/"+b.name+"/panic", msg, ctx)
				}
				continue
			}
			if i == 0 || ref == nil {
				ref = out
				continue
			}
			rep.Dist("bls12381:" + what)
			if !bytes.Equal(ref, out) {
				c := map[string]string{"what": what, "backend": b.name, "got": vh.Hex(out), "kilic": vh.Hex(ref)}
				for k, v := range ctx {
					c[k] = v
				}
				rep.Fail("C18/bls12381/"+what+"-differs", "BLS12-381 back-ends disagree on "+what, c)
			}
		}
	}
	nb := nk/2 + 2
	for i := 0; i < nb; i++ {
		r := rng.Fork()
		k := r.EdgeScalar(q)
		k2 := r.EdgeScalar(q)
		msg := r.Bytes(r.Intn(64))
		ctx := map[string]string{"k": k.String(), "k2": k2.String(), "msg": vh.Hex(msg)}
		cmp("scalar", func(s pairing.Suite) []byte {
			return enc(s.G1().Scalar().Mul(grpprog.MkScalar(s.G1(), k), grpprog.MkScalar(s.G1(), k2)))
		}, ctx)
		if k2.Sign() != 0 {
			// scalar operations whose receiver is also an operand
			cmp("scalar-div-receiver-is-divisor", func(s pairing.Suite) []byte {
				x := grpprog.MkScalar(s.G1(), k2)
				return enc(x.Div(grpprog.MkScalar(s.G1(), k), x))
			}, ctx)
			cmp("scalar-sub-receiver-is-second", func(s pairing.Suite) []byte {
				x := grpprog.MkScalar(s.G1(), k2)
				return enc(x.Sub(grpprog.MkScalar(s.G1(), k), x))
			}, ctx)
			cmp("scalar-mul-inv-in-place", func(s pairing.Suite) []byte {
				x := grpprog.MkScalar(s.G1(), k2)
				x.Inv(x)
				return enc(x.Mul(x, grpprog.MkScalar(s.G1(), k)))
			}, ctx)
		}
		cmp("G1-sub-receiver-is-second", func(s pairing.Suite) []byte {
			x := s.G1().Point().Mul(grpprog.MkScalar(s.G1(), k2), nil)
			return enc(x.Sub(s.G1().Point().Mul(grpprog.MkScalar(s.G1(), k), nil), x))
		}, ctx)
		cmp("G2-add-receiver-is-second", func(s pairing.Suite) []byte {
			x := s.G2().Point().Mul(grpprog.MkScalar(s.G2(), k2), nil)
			return enc(x.Add(s.G2().Point().Mul(grpprog.MkScalar(s.G2(), k), nil), x))
		}, ctx)
		cmp("GT-mul-in-place", func(s pairing.Suite) []byte {
			x := s.Pair(s.G1().Point().Base(), s.G2().Point().Base())
			return enc(x.Mul(grpprog.MkScalar(s.G1(), k), x))
		}, ctx)
		cmp("G1", func(s pairing.Suite) []byte { return enc(s.G1().Point().Mul(grpprog.MkScalar(s.G1(), k), nil)) }, ctx)
		cmp("G2", func(s pairing.Suite) []byte { return enc(s.G2().Point().Mul(grpprog.MkScalar(s.G2(), k), nil)) }, ctx)
		cmp("G1-sum", func(s pairing.Suite) []byte {
			return enc(s.G1().Point().Add(s.G1().Point().Mul(grpprog.MkScalar(s.G1(), k), nil), s.G1().Point().Mul(grpprog.MkScalar(s.G1(), k2), nil)))
		}, ctx)
		cmp("GT", func(s pairing.Suite) []byte {
			return enc(s.Pair(s.G1().Point().Mul(grpprog.MkScalar(s.G1(), k), nil), s.G2().Point().Mul(grpprog.MkScalar(s.G2(), k2), nil)))
		}, ctx)
		cmp("hashG1", func(s pairing.Suite) []byte {
			return enc(s.G1().Point().(interface{ Hash([]byte) kyber.Point }).Hash(msg))
		}, ctx)
		cmp("hashG2", func(s pairing.Suite) []byte {
			return enc(s.G2().Point().(interface{ Hash([]byte) kyber.Point }).Hash(msg))
		}, ctx)
		if k.Sign() != 0 {
			cmp("blsG1", func(s pairing.Suite) []byte {
				sg, err := bls.NewSchemeOnG1(s).Sign(grpprog.MkScalar(s.G1(), k), msg)
				if err != nil {
					return []byte("ERR")
				}
				return sg
			}, ctx)
			cmp("blsG2", func(s pairing.Suite) []byte {
				sg, err := bls.NewSchemeOnG2(s).Sign(grpprog.MkScalar(s.G1(), k), msg)
				if err != nil {
					return []byte("ERR")
				}
				return sg
			}, ctx)
		}
		// non-default domain separation tags: kilic takes them per suite, circl and gnark per call
		dst1, dst2 := r.Bytes(1+r.Intn(48)), r.Bytes(1+r.Intn(48))
		ks := kilic.NewBLS12381SuiteWithDST(dst1, dst2)
		type h2 interface {
			Hash2(msg, dst []byte) kyber.Point
		}
		for gi, dst := range [][]byte{dst1, dst2} {
			grp := func(s pairing.Suite) kyber.Group {
				if gi == 0 {
					return s.G1()
				}
				return s.G2()
			}
			want := enc(grp(bl[1].s).Point().(h2).Hash2(msg, dst))
			got := map[string][]byte{
				"gnark Hash2":                      enc(grp(bl[2].s).Point().(h2).Hash2(msg, dst)),
				"kilic WithDST fresh point":        enc(grp(ks).Point().(interface{ Hash([]byte) kyber.Point }).Hash(msg)),
				"kilic WithDST Base().Clone()":     enc(grp(ks).Point().Base().Clone().(interface{ Hash([]byte) kyber.Point }).Hash(msg)),
				"kilic WithDST Null().Set(Base())": enc(grp(ks).Point().Null().Set(grp(ks).Point().Base()).(interface{ Hash([]byte) kyber.Point }).Hash(msg)),
				"kilic WithDST Mul result":         enc(grp(ks).Point().Mul(grpprog.MkScalar(ks.G1(), k2), nil).(interface{ Hash([]byte) kyber.Point }).Hash(msg)),
				"kilic WithDST Clone of Clone":     enc(grp(ks).Point().Clone().Clone().(interface{ Hash([]byte) kyber.Point }).Hash(msg)),
			}
			for how, b := range got {
				rep.Dist(fmt.Sprintf("bls12381:hashG%d-custom-dst", gi+1))
				if !bytes.Equal(b, want) {
					rep.Fail(fmt.Sprintf("C18/bls12381/hashG%d-custom-dst-differs", gi+1), "BLS12-381 back-ends disagree on hash-to-curve under a non-default domain separation tag",
						map[string]string{"how": how, "msg": vh.Hex(msg), "dst": vh.Hex(dst), "got": vh.Hex(b), "circl Hash2": vh.Hex(want)})
				}
			}
		}
		rep.Count("bls12381/"+k.String()+"/"+vh.Hex(msg), true)
	}
	// ---------------------------------------------------------------- whole programs on every implementation
	programAgreement(rng.Fork(), rep, o)
	// ---------------------------------------------------------------- build variants
	variants(o, rep)
	vh.WriteShards(o.Out, "c18", cf, 2, rep)
	rep.Write(o.Out)
}

type fixed struct {
	buf []byte
	pos int
}

func (s *fixed) XORKeyStream(dst, src []byte) {
	for i := range src {
		dst[i] = src[i] ^ s.buf[s.pos%len(s.buf)]
		s.pos++
	}
}

// variants builds the transcript program under the build-tag sets and compares the outputs.
func variants(o vh.Opts, rep *vh.Report) {
	modflag := os.Getenv("VERIF_GO_MODFLAG")
	n := "8"
	if o.Thorough {
		n = "40"
	}
	run := func(tags string) (map[string]string, string) {
		bin := filepath.Join(o.Out, "c18t-"+strings.ReplaceAll(tags, ",", "-"))
		args := []string{"build"}
		if modflag != "" {
			args = append(args, modflag)
		}
		if tags != "default" {
			args = append(args, "-tags", tags)
		}
		args = append(args, "-o", bin, "./cmd/c18t")
		if out, err := exec.Command("go", args...).CombinedOutput(); err != nil {
			return nil, "build failed: " + string(out)
		}
		ctx, cancel := context.WithTimeout(context.Background(), 10*time.Minute)
		defer cancel()
		out, err := exec.CommandContext(ctx, bin, fmt.Sprint(o.Seed), n).Output()
		if err != nil {
			if ctx.Err() != nil {
				rep.Fail("C18/variant/"+tags+"/hang", "the transcript program did not terminate within 10 minutes under this build", map[string]string{"tags": tags})
			}
			return nil, "run failed: " + err.Error()
		}
		m := map[string]string{}
		for _, l := range strings.Split(string(out), "\n") {
			if i := strings.Index(l, ": "); i > 0 {
				m[l[:i]] = l[i+2:]
			}
		}
		os.Remove(bin)
		return m, ""
	}
	def, e := run("default")
	if e != "" {
		rep.Note("variant default: " + e)
		return
	}
	rep.DistN("transcript-lines:default", len(def))
	tagsets := []string{"constantTime"}
	if o.Thorough || o.Search {
		tagsets = append(tagsets, "generic", "purego")
	}
	for _, tags := range tagsets {
		v, e := run(tags)
		if e != "" {
			rep.Note("variant " + tags + ": " + e)
			continue
		}
		rep.DistN("transcript-lines:"+tags, len(v))
		nd := 0
		for label, val := range v {
			if d, ok := def[label]; ok && d != val {
				nd++
				if nd <= 3 {
					grp := strings.SplitN(label, "/", 3)
					rep.Fail("C18/variant/"+tags+"/"+strings.Join(grp[:min(2, len(grp))], "/"), "build variants disagree on the transcript",
						map[string]string{"tags": tags, "label": label, "default": d, "variant": val})
				}
			}
		}
		if tags != "constantTime" && len(v) != len(def) {
			rep.Fail("C18/variant/"+tags+"/missing-lines", "variant transcript has a different number of lines", map[string]int{"default": len(def), tags: len(v)})
		}
	}
}
