package main

import (
	"bytes"
	"fmt"
	"math/big"

	"go.dedis.ch/kyber/v4"
	"go.dedis.ch/kyber/v4/group/edwards25519"
	"go.dedis.ch/kyber/v4/sign/anon"
	"go.dedis.ch/kyber/v4/sign/schnorr"

	"kyverif/vh"
)

// ---------------------------------------------------------------- transparent group helpers

func be8(v *big.Int) []byte {
	b := v.Bytes()
	out := make([]byte, 8)
	copy(out[8-len(b):], b)
	return out
}
func dlogPointBytes(v *big.Int) []byte { return append([]byte{4}, be8(v)...) }

func decScalar61(b []byte) (*big.Int, bool) {
	if len(b) != 8 {
		return nil, false
	}
	v := new(big.Int).SetBytes(b)
	return v, v.Cmp(vh.Q61) < 0
}
func decPoint61(b []byte) (*big.Int, bool) {
	if len(b) != 9 || b[0] != 4 {
		return nil, false
	}
	return decScalar61(b[1:])
}

func zs(vs []*big.Int) string {
	var s []string
	for _, v := range vs {
		s = append(s, vh.CoqZ(v))
	}
	return vh.CoqList(s)
}

// ---------------------------------------------------------------- Schnorr over the transparent group (model cases)

func (h *H) schnorrDlogCases(n int) {
	for it := 0; it < n; it++ {
		r := h.rng.Fork()
		seed := r.Bytes(16)
		g := vh.NewDlogGroup(vh.Q61, vh.NewSeqStream(seed))
		// the identity key (x = 0) is outside the property: every (R, s = R) verifies under it
		xv := nonzeroEdge(r, vh.Q61)
		x := g.ScalarOf(xv)
		pub := g.Point().Mul(x, nil)
		pubb := mustBytes(pub)
		msg := msgOfLen(r, []int{0, 1, 7, 32, 64, 100, 300}, false)
		sig, err := schnorr.Sign(g, x, msg)
		if err != nil {
			h.rep.Fail("schnorr.Sign/fails:dlog", err.Error(), map[string]string{"x": xv.String(), "msg": vh.Hex(msg)})
			continue
		}
		kv := vh.ScalarVal(g.Scalar().Pick(vh.NewSeqStream(seed)))
		hashEntry := func(pubb, msg, sig []byte) []string {
			if len(sig) != 17 {
				return nil
			}
			if _, ok := decPoint61(sig[:9]); !ok {
				return nil
			}
			if _, ok := decPoint61(pubb); !ok {
				return nil
			}
			in := append(append(append([]byte{}, sig[:9]...), pubb...), msg...)
			hv := new(big.Int).Mod(new(big.Int).SetBytes(sha(in)), vh.Q61)
			return []string{fmt.Sprintf("(%s, %s)", vh.CoqBytes(in), vh.CoqZ(hv))}
		}
		id := h.id()
		h.add("schnorr-dlog-sign", fmt.Sprintf("CSchSign %d %s %s %s %s %s", id, vh.CoqList(hashEntry(pubb, msg, sig)),
			vh.CoqZ(xv), vh.CoqZ(kv), vh.CoqBytes(msg), vh.CoqBytes(sig)),
			map[string]string{"kind": "schnorr-dlog-sign", "x": xv.String(), "k": kv.String(), "msg": vh.Hex(msg), "sig": vh.Hex(sig)},
			xv.String()+kv.String()+vh.Hex(msg), id)

		type tri struct {
			name          string
			pub, msg, sig []byte
		}
		cat := func(a, b []byte) []byte { return append(append([]byte{}, a...), b...) }
		ts := []tri{{"honest", pubb, msg, sig}}
		for f := 0; f < 6; f++ {
			ts = append(ts, tri{"bitflip-sig", pubb, msg, flipBit(sig, r.Intn(8*len(sig)))})
		}
		ts = append(ts, tri{"bitflip-sig", pubb, msg, flipBit(sig, 0)}, tri{"bitflip-sig", pubb, msg, flipBit(sig, 8*9+7)})
		sv, _ := decScalar61(sig[9:])
		Rv, _ := decPoint61(sig[:9])
		one := big.NewInt(1)
		ts = append(ts,
			tri{"s-plus-1", pubb, msg, cat(sig[:9], be8(new(big.Int).Mod(new(big.Int).Add(sv, one), vh.Q61)))},
			tri{"s-plus-q", pubb, msg, cat(sig[:9], be8(new(big.Int).Add(sv, vh.Q61)))}, // out of range: decoding error
			tri{"R-plus-B", pubb, msg, cat(dlogPointBytes(new(big.Int).Mod(new(big.Int).Add(Rv, one), vh.Q61)), sig[9:])},
			tri{"R-plus-B-s-plus-1", pubb, msg, cat(dlogPointBytes(new(big.Int).Mod(new(big.Int).Add(Rv, one), vh.Q61)), be8(new(big.Int).Mod(new(big.Int).Add(sv, one), vh.Q61)))},
			tri{"wrong-key", dlogPointBytes(r.BigBelow(vh.Q61)), msg, sig},
			tri{"bitflip-key", flipBit(pubb, r.Intn(72)), msg, sig},
			tri{"bad-key-tag", cat([]byte{5}, pubb[1:]), msg, sig},
			tri{"short-key", pubb[:8], msg, sig},
			tri{"extended-msg", pubb, cat(msg, []byte{0}), sig},
			tri{"truncated-sig", pubb, msg, sig[:16]},
			tri{"extended-sig", pubb, msg, cat(sig, []byte{0})},
			tri{"empty-sig", pubb, msg, nil},
			tri{"zero-sig", pubb, msg, cat(dlogPointBytes(big.NewInt(0)), be8(big.NewInt(0)))},
		)
		if len(msg) > 0 {
			ts = append(ts, tri{"bitflip-msg", pubb, flipBit(msg, r.Intn(8*len(msg))), sig}, tri{"truncated-msg", pubb, msg[:len(msg)-1], sig})
		}
		// a second honest signature with another nonce: accepted
		g2 := vh.NewDlogGroup(vh.Q61, vh.NewSeqStream(r.Bytes(16)))
		if sig2, err := schnorr.Sign(g2, x, msg); err == nil {
			ts = append(ts, tri{"honest-other-nonce", pubb, msg, sig2})
		}
		for _, t := range ts {
			var verr error
			if p, m := vh.Try(func() { verr = schnorr.VerifyWithChecks(g, t.pub, t.msg, t.sig) }); p {
				h.rep.Fail("schnorr.VerifyWithChecks/panic:dlog:"+t.name, m, map[string]string{"pub": vh.Hex(t.pub), "msg": vh.Hex(t.msg), "sig": vh.Hex(t.sig)})
				continue
			}
			ok := verr == nil
			honest := t.name == "honest" || t.name == "honest-other-nonce"
			// x = 0 (public key = identity) is a degenerate key: every (R, s = R) verifies for every
			// message; the theorems exclude it (A <> O), the model comparison below still covers it
			if xv.Sign() == 0 {
				h.rep.Dist("schnorr-dlog:identity-key")
			} else if ok != honest {
				key := "schnorr.Verify/tampered-accepted:dlog:" + t.name
				if honest {
					key = "schnorr.Verify/honest-rejected:dlog"
				}
				h.rep.Fail(key, "verdict differs from expectation", map[string]string{"pub": vh.Hex(t.pub), "msg": vh.Hex(t.msg), "sig": vh.Hex(t.sig), "err": fmt.Sprint(verr)})
			}
			id := h.id()
			h.add("schnorr-dlog-verify", fmt.Sprintf("CSchVerify %d %s %s %s %s %s", id, vh.CoqList(hashEntry(t.pub, t.msg, t.sig)),
				vh.CoqBytes(t.pub), vh.CoqBytes(t.msg), vh.CoqBytes(t.sig), vh.CoqBool(ok)),
				map[string]string{"kind": "schnorr-dlog-verify", "family": t.name, "pub": vh.Hex(t.pub), "msg": vh.Hex(t.msg), "sig": vh.Hex(t.sig), "accepted": fmt.Sprint(ok)},
				t.name+vh.Hex(t.pub)+vh.Hex(t.msg)+vh.Hex(t.sig), id)
		}
	}
}

// ---------------------------------------------------------------- ring signatures

type ringSuite interface {
	anon.Suite
}

func ringVerify(s anon.Suite, msg []byte, set anon.Set, scope, sig []byte) (tag []byte, ok bool, panicked bool) {
	var err error
	p, _ := vh.Try(func() { tag, err = anon.Verify(s, msg, set, scope, sig) })
	if p {
		return nil, false, true
	}
	return tag, err == nil, false
}

// ringOracle: the property evaluated on one suite (Ed25519 or the transparent group):
// every ring size 1..8, every signer position, unlinkable and two scopes; tag table; tampering.
func (h *H) ringOracle(name string, mk func(seed []byte) anon.Suite, sizes []int, tamper int) {
	scopes := [][]byte{nil, []byte("scope-A"), []byte("scope-B"), {}}
	r := h.rng.Fork()
	s0 := mk(r.Bytes(16))
	slen, plen := s0.ScalarLen(), s0.PointLen()
	// a pool of 8 keys; tags[key][scope]
	var xs []kyber.Scalar
	var Ps []kyber.Point
	for i := 0; i < 8; i++ {
		x := s0.Scalar().Pick(vh.NewSeqStream(r.Bytes(16)))
		xs = append(xs, x)
		Ps = append(Ps, s0.Point().Mul(x, nil))
	}
	tags := map[string][]byte{} // "key/scope" -> tag
	for _, n := range sizes {
		for pi := 0; pi < n; pi++ {
			for si, scope := range scopes {
				if si == 3 && (n+pi)%3 != 0 {
					continue
				}
				// ring: a rotation of the pool so that every key signs at every position
				off := r.Intn(8)
				set := make(anon.Set, n)
				for i := range set {
					set[i] = Ps[(off+i)%8]
				}
				ki := (off + pi) % 8
				msg := r.Bytes(r.Intn(80))
				suite := mk(r.Bytes(16))
				var sig []byte
				if p, m := vh.Try(func() { sig = anon.Sign(suite, msg, set, scope, pi, xs[ki]) }); p {
					h.rep.Fail("anon.Sign/panic:"+name, m, map[string]string{"n": fmt.Sprint(n), "pi": fmt.Sprint(pi), "scope": vh.Hex(scope)})
					continue
				}
				h.rep.Count("ring:"+name+vh.Hex(sig), true)
				h.rep.Dist(fmt.Sprintf("ring-%s:n%d", name, n))
				rp := map[string]string{"suite": name, "n": fmt.Sprint(n), "signer": fmt.Sprint(pi), "scope": vh.Hex(scope), "linkable": fmt.Sprint(scope != nil),
					"msg": vh.Hex(msg), "sig": vh.Hex(sig), "key_index": fmt.Sprint(ki), "ring_offset": fmt.Sprint(off)}
				wantLen := slen * (n + 1)
				if scope != nil {
					wantLen += plen
				}
				if len(sig) != wantLen {
					h.rep.Fail("anon.Sign/length:"+name, "unexpected signature length", rp)
				}
				tag, ok, _ := ringVerify(suite, msg, set, scope, sig)
				if !ok {
					h.rep.Fail("anon.Verify/honest-rejected:"+name, "honest ring signature rejected", rp)
					continue
				}
				if scope == nil {
					if tag == nil || len(tag) != 0 {
						h.rep.Fail("anon.Verify/unlinkable-tag:"+name, "unlinkable signature must return an empty non-nil tag", rp)
					}
				} else {
					// tag = x * Hb(scope)
					want := mustBytes(suite.Point().Mul(xs[ki], suite.Point().Pick(suite.XOF(scope))))
					if !bytes.Equal(tag, want) {
						h.rep.Fail("anon.Verify/tag-not-x-times-linkbase:"+name, "returned tag differs from x*H(scope)", rp)
					}
					key := fmt.Sprintf("%d/%s", ki, vh.Hex(scope))
					if old, seen := tags[key]; seen && !bytes.Equal(old, tag) {
						h.rep.Fail("anon.Verify/same-key-scope-different-tag:"+name, "two signatures by the same key in the same scope carry different tags", rp)
					}
					tags[key] = tag
				}
				// tampering
				if (n*8+pi+si)%tamper != 0 {
					continue
				}
				tam := func(fam string, msg2 []byte, set2 anon.Set, scope2, sig2 []byte) {
					_, ok, pan := ringVerify(suite, msg2, set2, scope2, sig2)
					if pan {
						h.rep.Dist("ring-" + name + ":verify-panicked:" + fam)
					}
					if ok {
						rp2 := map[string]string{"family": fam, "msg": vh.Hex(msg2), "sig": vh.Hex(sig2), "scope": vh.Hex(scope2)}
						for k, v := range rp {
							rp2["honest_"+k] = v
						}
						h.rep.Fail("anon.Verify/tampered-accepted:"+fam+":"+name, "tampered ring signature accepted", rp2)
					}
				}
				// one bit in every field: C0, each S_i, Tag
				for f := 0; f < n+1; f++ {
					tam("bitflip-scalar", msg, set, scope, flipBit(sig, 8*slen*f+r.Intn(8*slen-4)))
				}
				if scope != nil {
					tam("bitflip-tag", msg, set, scope, flipBit(sig, 8*slen*(n+1)+r.Intn(8*plen)))
					// a different valid tag
					t2 := mustBytes(suite.Point().Mul(xs[(ki+1)%8], suite.Point().Pick(suite.XOF(scope))))
					tam("other-tag", msg, set, scope, append(append([]byte{}, sig[:slen*(n+1)]...), t2...))
					other := []byte("scope-C")
					tam("other-scope", msg, set, other, sig)
					tam("scope-dropped", msg, set, nil, sig)
				} else {
					tam("scope-added", msg, set, []byte("scope-A"), sig)
				}
				tam("extended-msg", append(append([]byte{}, msg...), 1), set, scope, sig)
				if len(msg) > 0 {
					tam("bitflip-msg", flipBit(msg, r.Intn(8*len(msg))), set, scope, sig)
				}
				tam("truncated-sig", msg, set, scope, sig[:len(sig)-1])
				// ring changed: one key replaced, order changed, key appended / dropped
				set2 := append(anon.Set{}, set...)
				set2[r.Intn(n)] = suite.Point().Mul(suite.Scalar().Pick(vh.NewSeqStream(r.Bytes(16))), nil)
				tam("ring-key-replaced", msg, set2, scope, sig)
				if n >= 2 {
					set3 := append(anon.Set{}, set...)
					i := r.Intn(n - 1)
					if !set3[i].Equal(set3[i+1]) {
						set3[i], set3[i+1] = set3[i+1], set3[i]
						tam("ring-order-swapped", msg, set3, scope, sig)
					}
					tam("ring-key-dropped", msg, set[:n-1], scope, sig)
				}
				// trailing bytes are ignored by Verify (not a semantic change of any field): recorded, not judged
				if _, ok, _ := ringVerify(suite, msg, set, scope, append(append([]byte{}, sig...), 0)); ok {
					h.rep.Dist("ring-" + name + ":trailing-byte-accepted")
				}
			}
		}
	}
	// tag table: different keys or different scopes give different tags
	keys := make([]string, 0, len(tags))
	for k := range tags {
		keys = append(keys, k)
	}
	for i := range keys {
		for j := range keys {
			if i < j && bytes.Equal(tags[keys[i]], tags[keys[j]]) {
				h.rep.Fail("anon.Verify/different-key-or-scope-same-tag:"+name, "equal tags for different (key, scope)", map[string]string{"a": keys[i], "b": keys[j], "tag": vh.Hex(tags[keys[i]])})
			}
		}
	}
}

// ringDlogCases: sign/anon over the transparent group, for the model
func (h *H) ringDlogCases(sizes []int, tamper int) {
	r := h.rng.Fork()
	q := vh.Q61
	scopes := [][]byte{nil, []byte("scope-A"), []byte("scope-B")}
	for _, n := range sizes {
		for pi := 0; pi < n; pi++ {
			for si, scope := range scopes {
				seed := r.Bytes(16)
				g := vh.NewDlogGroup(q, vh.NewSeqStream(seed))
				var keys []*big.Int
				set := make(anon.Set, n)
				for i := range set {
					keys = append(keys, nonzeroEdge(r, q)) // identity keys (known private key 0) make the ring degenerate
					set[i] = g.PointOf(keys[i])
				}
				// a repeated key now and then
				if n >= 3 && r.Chance(20) {
					keys[(pi+1)%n] = keys[pi]
					set[(pi+1)%n] = g.PointOf(keys[pi])
				}
				xv := keys[pi]
				msg := r.Bytes(r.Intn(100))
				var sig []byte
				if p, m := vh.Try(func() { sig = anon.Sign(g, msg, set, scope, pi, g.ScalarOf(xv)) }); p {
					h.rep.Fail("anon.Sign/panic:dlog", m, map[string]string{"n": fmt.Sprint(n), "pi": fmt.Sprint(pi)})
					continue
				}
				// replay the picks: u, then n-1 responses
				st := vh.NewSeqStream(seed)
				uv := vh.ScalarVal(g.Scalar().Pick(st))
				var rs []*big.Int
				for i := 0; i < n-1; i++ {
					rs = append(rs, vh.ScalarVal(g.Scalar().Pick(st)))
				}
				tbl := newRingTables(g)
				tbl.mirrorVerify(msg, keys, scope, sig)
				id := h.id()
				desc := map[string]string{"kind": "ring-dlog-sign", "n": fmt.Sprint(n), "signer": fmt.Sprint(pi), "scope": vh.Hex(scope), "linkable": fmt.Sprint(scope != nil), "msg": vh.Hex(msg), "sig": vh.Hex(sig)}
				h.add("ring-dlog-sign", fmt.Sprintf("CRingSign %d %s %s %s %s %s %s %d %s %s %s %s", id, tbl.h1(), tbl.hb(),
					vh.CoqBytes(msg), zs(keys), vh.CoqBool(scope != nil), vh.CoqBytes(scope), pi, vh.CoqZ(xv), vh.CoqZ(uv), zs(rs), vh.CoqBytes(sig)),
					desc, vh.Hex(sig), id)

				type rt struct {
					name       string
					msg        []byte
					keys       []*big.Int
					scope, sig []byte
				}
				ts := []rt{{"honest", msg, keys, scope, sig}}
				if (n*8+pi+si)%tamper == 0 {
					for f := 0; f < n+1; f++ {
						ts = append(ts, rt{"bitflip-scalar", msg, keys, scope, flipBit(sig, 64*f+r.Intn(64))})
					}
					// s_j + 1 (a semantic change that decodes)
					j := r.Intn(n)
					sj, _ := decScalar61(sig[8*(j+1) : 8*(j+2)])
					s2 := append([]byte{}, sig...)
					copy(s2[8*(j+1):], be8(new(big.Int).Mod(new(big.Int).Add(sj, big.NewInt(1)), q)))
					ts = append(ts, rt{"s-plus-1", msg, keys, scope, s2})
					c0, _ := decScalar61(sig[:8])
					s3 := append([]byte{}, sig...)
					copy(s3, be8(new(big.Int).Mod(new(big.Int).Add(c0, big.NewInt(1)), q)))
					ts = append(ts, rt{"c0-plus-1", msg, keys, scope, s3})
					if scope != nil {
						ts = append(ts, rt{"bitflip-tag", msg, keys, scope, flipBit(sig, 64*(n+1)+8+r.Intn(64))})
						tg, _ := decPoint61(sig[8*(n+1):])
						s4 := append(append([]byte{}, sig[:8*(n+1)]...), dlogPointBytes(new(big.Int).Mod(new(big.Int).Add(tg, big.NewInt(1)), q))...)
						ts = append(ts, rt{"tag-plus-B", msg, keys, scope, s4})
						ts = append(ts, rt{"other-scope", msg, keys, []byte("scope-C"), sig})
						ts = append(ts, rt{"scope-dropped", msg, keys, nil, sig})
					} else {
						ts = append(ts, rt{"scope-added", msg, keys, []byte("scope-A"), sig})
					}
					ts = append(ts, rt{"extended-msg", append(append([]byte{}, msg...), 1), keys, scope, sig})
					ts = append(ts, rt{"truncated-sig", msg, keys, scope, sig[:len(sig)-1]})
					ts = append(ts, rt{"extended-sig", msg, keys, scope, append(append([]byte{}, sig...), 7)})
					k2 := append([]*big.Int{}, keys...)
					k2[r.Intn(n)] = r.BigBelow(q)
					ts = append(ts, rt{"ring-key-replaced", msg, k2, scope, sig})
					if n >= 2 {
						k3 := append([]*big.Int{}, keys...)
						k3[0], k3[n-1] = k3[n-1], k3[0]
						ts = append(ts, rt{"ring-order-swapped", msg, k3, scope, sig})
						ts = append(ts, rt{"ring-key-dropped", msg, keys[:n-1], scope, sig})
					}
					ts = append(ts, rt{"ring-key-appended", msg, append(append([]*big.Int{}, keys...), r.BigBelow(q)), scope, sig})
				}
				for _, t := range ts {
					set2 := make(anon.Set, len(t.keys))
					for i := range set2 {
						set2[i] = g.PointOf(t.keys[i])
					}
					tag, ok, pan := ringVerify(g, t.msg, set2, t.scope, t.sig)
					if pan {
						h.rep.Fail("anon.Verify/panic:dlog:"+t.name, "Verify panicked", map[string]string{"msg": vh.Hex(t.msg), "sig": vh.Hex(t.sig)})
						continue
					}
					same := t.name == "honest" || t.name == "extended-sig" ||
						(t.name == "ring-order-swapped" && t.keys[0].Cmp(t.keys[len(t.keys)-1]) == 0) ||
						(t.name == "ring-key-replaced" && sameKeys(t.keys, keys))
					// a ring containing the identity key (private key 0 is public knowledge) is
					// degenerate: the chain forgets its state at that position; excluded by the
					// theorems (P <> O), compared with the model only
					if hasZero(t.keys) || hasZero(keys) {
						h.rep.Dist("ring-dlog:identity-key-in-ring")
					} else if ok != same {
						key := "anon.Verify/tampered-accepted:" + t.name + ":dlog"
						if same {
							key = "anon.Verify/honest-rejected:dlog"
						}
						h.rep.Fail(key, "verdict differs from expectation", map[string]string{"family": t.name, "msg": vh.Hex(t.msg), "sig": vh.Hex(t.sig), "scope": vh.Hex(t.scope), "n": fmt.Sprint(len(t.keys))})
					}
					tb := newRingTables(g)
					tb.mirrorVerify(t.msg, t.keys, t.scope, t.sig)
					id := h.id()
					h.add("ring-dlog-verify", fmt.Sprintf("CRingVerify %d %s %s %s %s %s %s %s %s %s", id, tb.h1(), tb.hb(),
						vh.CoqBytes(t.msg), zs(t.keys), vh.CoqBool(t.scope != nil), vh.CoqBytes(t.scope), vh.CoqBytes(t.sig), vh.CoqBool(ok), vh.CoqBytes(tag)),
						map[string]string{"kind": "ring-dlog-verify", "family": t.name, "n": fmt.Sprint(len(t.keys)), "scope": vh.Hex(t.scope), "linkable": fmt.Sprint(t.scope != nil),
							"msg": vh.Hex(t.msg), "sig": vh.Hex(t.sig), "accepted": fmt.Sprint(ok), "tag": vh.Hex(tag)},
						t.name+vh.Hex(t.msg)+vh.Hex(t.sig)+fmt.Sprint(len(t.keys))+vh.Hex(t.scope), id)
				}
			}
		}
	}
}

func nonzeroEdge(r *vh.Rng, q *big.Int) *big.Int {
	for {
		if v := r.EdgeScalar(q); v.Sign() != 0 {
			return v
		}
	}
}

func hasZero(a []*big.Int) bool {
	for _, v := range a {
		if v.Sign() == 0 {
			return true
		}
	}
	return false
}

func sameKeys(a, b []*big.Int) bool {
	if len(a) != len(b) {
		return false
	}
	for i := range a {
		if a[i].Cmp(b[i]) != 0 {
			return false
		}
	}
	return true
}

// ringTables: the H1 / link-base oracle values the model will ask for, computed
// with the XOF directly (key = message, absorbed = scope||tag||PG||PH)
type ringTables struct {
	g        *vh.DlogGroup
	h1e, hbe []string
}

func newRingTables(g *vh.DlogGroup) *ringTables { return &ringTables{g: g} }
func (t *ringTables) h1() string              { return vh.CoqList(t.h1e) }
func (t *ringTables) hb() string              { return vh.CoqList(t.hbe) }

func (t *ringTables) H1(msg, data []byte) *big.Int {
	x := t.g.XOF(msg)
	x.Write(data)
	v := vh.ScalarVal(t.g.Scalar().Pick(x))
	t.h1e = append(t.h1e, fmt.Sprintf("(%s, %s, %s)", vh.CoqBytes(msg), vh.CoqBytes(data), vh.CoqZ(v)))
	return v
}
func (t *ringTables) Hb(scope []byte) *big.Int {
	v := vh.Dlog(t.g.Point().Pick(t.g.XOF(scope)))
	t.hbe = append(t.hbe, fmt.Sprintf("(%s, %s)", vh.CoqBytes(scope), vh.CoqZ(v)))
	return v
}

// mirrorVerify walks the verification chain only to know WHICH oracle inputs occur
func (t *ringTables) mirrorVerify(msg []byte, keys []*big.Int, scope, sig []byte) {
	q := t.g.Q
	n := len(keys)
	var hb *big.Int
	if scope != nil {
		hb = t.Hb(scope)
	}
	need := 8 * (n + 1)
	if len(sig) < need {
		return
	}
	c, ok := decScalar61(sig[:8])
	if !ok {
		return
	}
	var ss []*big.Int
	for i := 0; i < n; i++ {
		s, ok := decScalar61(sig[8*(i+1) : 8*(i+2)])
		if !ok {
			return
		}
		ss = append(ss, s)
	}
	var pre []byte
	var tag *big.Int
	if scope != nil {
		if len(sig) < need+9 {
			return
		}
		tag, ok = decPoint61(sig[need : need+9])
		if !ok {
			return
		}
		pre = append(append([]byte{}, scope...), dlogPointBytes(tag)...)
	}
	mulmod := func(a, b *big.Int) *big.Int { return new(big.Int).Mod(new(big.Int).Mul(a, b), q) }
	addmod := func(a, b *big.Int) *big.Int { return new(big.Int).Mod(new(big.Int).Add(a, b), q) }
	for i := 0; i < n; i++ {
		pg := addmod(ss[i], mulmod(c, keys[i]))
		data := append(append([]byte{}, pre...), dlogPointBytes(pg)...)
		if scope != nil {
			ph := addmod(mulmod(ss[i], hb), mulmod(c, tag))
			data = append(data, dlogPointBytes(ph)...)
		}
		c = t.H1(msg, data)
	}
}

func edRingSuite(seed []byte) anon.Suite {
	return edwards25519.NewBlakeSHA256Ed25519WithRand(vh.NewSeqStream(seed))
}
func dlogRingSuite(seed []byte) anon.Suite {
	return vh.NewDlogGroup(vh.Q61, vh.NewSeqStream(seed))
}
