package main

import (
	"bytes"
	"crypto/ed25519"
	"errors"
	"fmt"
	"math/big"

	"go.dedis.ch/kyber/v4"
	"go.dedis.ch/kyber/v4/group/edwards25519"
	"go.dedis.ch/kyber/v4/sign/eddsa"
	"go.dedis.ch/kyber/v4/sign/schnorr"

	"kyverif/vh"
)

var edSuite = edwards25519.NewBlakeSHA256Ed25519()
var edL, _ = new(big.Int).SetString("7237005577332262213973186563042994240857116359379907606001950938285454250989", 10)
var edP = new(big.Int).Sub(new(big.Int).Lsh(big.NewInt(1), 255), big.NewInt(19))

func le32(v *big.Int) []byte {
	b := v.Bytes()
	if len(b) > 32 {
		panic("le32: too big")
	}
	out := make([]byte, 32)
	for i := range b {
		out[i] = b[len(b)-1-i]
	}
	return out
}
func leInt(b []byte) *big.Int {
	c := make([]byte, len(b))
	for i := range b {
		c[i] = b[len(b)-1-i]
	}
	return new(big.Int).SetBytes(c)
}

// raw scalar: the 32 bytes are used as they are (no reduction) by Point.Mul
func rawScalar(v *big.Int) kyber.Scalar {
	s := edSuite.Scalar()
	if err := s.UnmarshalBinary(le32(v)); err != nil {
		panic(err)
	}
	return s
}

// ---------------------------------------------------------------- registry of known points

type edPt struct {
	k *big.Int // logarithm of the prime-order component
	j int      // torsion component: j * T8
}

type edReg struct {
	m     map[string]edPt // canonical encoding -> coordinates in Z_L x Z_8
	rng   *vh.Rng
	tors  [8]kyber.Point
	torsI map[string]int
}

var order8y = []byte{0x26, 0xe8, 0x95, 0x8f, 0xc2, 0xb2, 0x27, 0xb0, 0x45, 0xc3, 0xf4,
	0x89, 0xf2, 0xef, 0x98, 0xf0, 0xd5, 0xdf, 0xac, 0x05, 0xd3, 0xc6,
	0x33, 0x39, 0xb1, 0x38, 0x02, 0x88, 0x6d, 0x53, 0xfc, 0x05}

func newEdReg(rng *vh.Rng) *edReg {
	r := &edReg{m: map[string]edPt{}, rng: rng, torsI: map[string]int{}}
	t8 := edSuite.Point()
	if err := t8.UnmarshalBinary(order8y); err != nil {
		panic(err)
	}
	acc := edSuite.Point().Null()
	for j := 0; j < 8; j++ {
		r.tors[j] = acc.Clone()
		b := mustBytes(acc)
		if _, dup := r.torsI[string(b)]; dup {
			panic("torsion generator is not of order 8")
		}
		r.torsI[string(b)] = j
		r.m[string(b)] = edPt{big.NewInt(0), j}
		acc = edSuite.Point().Add(acc, t8)
	}
	if !acc.Equal(edSuite.Point().Null()) {
		panic("8*T8 != O")
	}
	return r
}

// mk builds k*B + j*T8 and registers it.
func (r *edReg) mk(k *big.Int, j int) kyber.Point {
	kk := new(big.Int).Mod(k, edL)
	p := edSuite.Point().Mul(rawScalar(kk), nil)
	p = edSuite.Point().Add(p, r.tors[j%8])
	r.m[string(mustBytes(p))] = edPt{kk, j % 8}
	return p
}

// coords returns the coordinates of a decoded point; a point never seen before
// gets a random logarithm (its torsion component is computed: L*P = 5j*T8).
func (r *edReg) coords(p kyber.Point) edPt {
	b := string(mustBytes(p))
	if c, ok := r.m[b]; ok {
		return c
	}
	lp := edSuite.Point().Mul(rawScalar(edL), p)
	i, ok := r.torsI[string(mustBytes(lp))]
	if !ok {
		panic("L*P is not a torsion point")
	}
	c := edPt{r.rng.BigBelow(edL), (5 * i) % 8}
	if c.k.Sign() == 0 {
		c.k = big.NewInt(1)
	}
	r.m[b] = c
	return c
}

// entries: the point-table entries the model needs for a received 32-byte string
func (r *edReg) entries(raw []byte, seen map[string]bool) []string {
	if len(raw) != 32 {
		return nil
	}
	p := edSuite.Point()
	if err := p.UnmarshalBinary(raw); err != nil {
		return nil
	}
	c := r.coords(p)
	can := mustBytes(p)
	var out []string
	add := func(b []byte, canonical bool) {
		key := string(b)
		if seen[key] {
			return
		}
		seen[key] = true
		out = append(out, fmt.Sprintf("(%s, %d, %s, %s)", vh.CoqZ(c.k), c.j, vh.CoqBytes(b), vh.CoqBool(canonical)))
	}
	add(can, true)
	if !bytes.Equal(can, raw) {
		add(raw, false)
	}
	return out
}

func shaEntry(in []byte) string {
	return fmt.Sprintf("(%s, %s)", vh.CoqBytes(in), vh.CoqBytes(sha(in)))
}

// ---------------------------------------------------------------- EdDSA

func edVerdict(err error) int {
	switch {
	case err == nil:
		return 0
	case errors.Is(err, eddsa.ErrSignatureLength):
		return 1
	case errors.Is(err, eddsa.ErrSignatureNotCanonical):
		return 2
	case errors.Is(err, eddsa.ErrPointRNotCanonical):
		return 3
	case errors.Is(err, eddsa.ErrPointRInvalid):
		return 4
	case errors.Is(err, eddsa.ErrPointRSmallOrder):
		return 5
	case errors.Is(err, eddsa.ErrPKNotCanonical):
		return 6
	case errors.Is(err, eddsa.ErrPKInvalid):
		return 7
	case errors.Is(err, eddsa.ErrPKSmallOrder):
		return 8
	case errors.Is(err, eddsa.ErrSignatureRecNotEqual):
		return 9
	}
	return -1
}

func goVerify(pub, msg, sig []byte) (ok bool) {
	if len(pub) != ed25519.PublicKeySize {
		return false // crypto/ed25519 panics on a key of the wrong length
	}
	return ed25519.Verify(ed25519.PublicKey(pub), msg, sig)
}

type edKey struct {
	seed []byte
	e    *eddsa.EdDSA
	pub  []byte
	a    *big.Int // clamped secret (unreduced)
	pref []byte
}

func clampInt(d []byte) *big.Int {
	b := append([]byte{}, d[:32]...)
	b[0] &= 0xf8
	b[31] &= 0x7f
	b[31] |= 0x40
	return leInt(b)
}

func (h *H) newEdKey(seed []byte, viaStream bool) *edKey {
	k := &edKey{seed: seed}
	if viaStream {
		k.e = eddsa.NewEdDSA(&fixedStream{seed, 0})
	} else {
		k.e = &eddsa.EdDSA{}
		if err := k.e.UnmarshalBinary(append(append([]byte{}, seed...), make([]byte, 32)...)); err != nil {
			panic(err)
		}
	}
	k.pub = mustBytes(k.e.Public)
	d := sha(seed)
	k.a = clampInt(d)
	k.pref = d[32:]
	h.reg.m[string(k.pub)] = edPt{new(big.Int).Mod(k.a, edL), 0}
	return k
}

// a cipher.Stream handing out fixed bytes (then zeros)
type fixedStream struct {
	b []byte
	i int
}

func (f *fixedStream) XORKeyStream(dst, src []byte) {
	for i := range src {
		var k byte
		if f.i < len(f.b) {
			k = f.b[f.i]
		}
		f.i++
		dst[i] = src[i] ^ k
	}
}

// tampered (pub, msg, sig) triples derived from an honest signature; semantic = the
// triple differs semantically from the honest one (so it must be rejected)
type edTamper struct {
	name          string
	pub, msg, sig []byte
}

func (h *H) edTampers(r *vh.Rng, k *edKey, msg, sig []byte, nflip int) []edTamper {
	var out []edTamper
	add := func(name string, pub, m, s []byte) { out = append(out, edTamper{name, pub, m, s}) }
	cat := func(a, b []byte) []byte { return append(append([]byte{}, a...), b...) }
	R, S := sig[:32], sig[32:]
	if nflip >= 512 {
		for i := 0; i < 512; i++ {
			add("bitflip-sig", k.pub, msg, flipBit(sig, i))
		}
	} else {
		for i := 0; i < nflip; i++ {
			add("bitflip-sig", k.pub, msg, flipBit(sig, r.Intn(512)))
		}
		// the structurally interesting bits: sign bit of R, top bits of S
		for _, i := range []int{255, 248, 0, 256, 504, 508, 509, 510, 511} {
			add("bitflip-sig", k.pub, msg, flipBit(sig, i))
		}
	}
	// S + k*L for every k that fits 32 bytes
	sv := leInt(S)
	for kk := 1; ; kk++ {
		v := new(big.Int).Add(sv, new(big.Int).Mul(big.NewInt(int64(kk)), edL))
		if v.BitLen() > 256 {
			break
		}
		add("S-plus-kL", k.pub, msg, cat(R, le32(v)))
	}
	// y + p encodings of R and of the key (only representable when y < 19) and sign-bit variants
	for _, b := range [][]byte{R, k.pub} {
		y := leInt(b)
		sign := y.Bit(255)
		y.SetBit(y, 255, 0)
		yp := new(big.Int).Add(y, edP)
		if yp.BitLen() <= 255 {
			yp.SetBit(yp, 255, sign)
			if bytes.Equal(b, R) {
				add("R-noncanonical-y", k.pub, msg, cat(le32(yp), S))
			} else {
				add("key-noncanonical-y", le32(yp), msg, sig)
			}
		}
	}
	// R + T for the 7 non-trivial torsion points (same S)
	Rp := edSuite.Point()
	if err := Rp.UnmarshalBinary(R); err == nil {
		rc := h.reg.coords(Rp)
		for j := 1; j < 8; j++ {
			Rt := h.reg.mk(rc.k, (rc.j+j)%8)
			add("R-plus-torsion", k.pub, msg, cat(mustBytes(Rt), S))
		}
	}
	// key + T
	for j := 1; j < 8; j++ {
		At := h.reg.mk(new(big.Int).Mod(k.a, edL), j)
		add("key-plus-torsion", mustBytes(At), msg, sig)
	}
	// small-order R and small-order key, every encoding (canonical, sign bit, y+p)
	for _, e := range smallOrderEncodings(h.reg) {
		add("small-order-R", k.pub, msg, cat(e, S))
		add("small-order-key", e, msg, sig)
		// the classic forgery against a small-order key: R = s*B, any message
		s := r.BigBelow(edL)
		add("small-order-key-forgery", e, msg, cat(mustBytes(h.reg.mk(s, 0)), le32(s)))
		add("small-order-R-S0", k.pub, msg, cat(e, make([]byte, 32)))
	}
	// wrong key / message / lengths
	k2 := h.newEdKey(r.Bytes(32), false)
	add("wrong-key", k2.pub, msg, sig)
	if len(msg) > 0 {
		add("bitflip-msg", k.pub, flipBit(msg, r.Intn(8*len(msg))), sig)
		add("truncated-msg", k.pub, msg[:len(msg)-1], sig)
	}
	add("extended-msg", k.pub, cat(msg, []byte{0}), sig)
	add("truncated-sig", k.pub, msg, sig[:63])
	add("extended-sig", k.pub, msg, cat(sig, []byte{0}))
	add("empty-sig", k.pub, msg, nil)
	add("short-key", k.pub[:31], msg, sig)
	add("long-key", cat(k.pub, []byte{0}), msg, sig)
	add("bitflip-key", flipBit(k.pub, r.Intn(256)), msg, sig)
	add("bitflip-key", flipBit(k.pub, 255), msg, sig)
	// R replaced by another valid point, S replaced by a random canonical scalar
	add("other-R", k.pub, msg, cat(mustBytes(h.reg.mk(r.BigBelow(edL), 0)), S))
	add("other-S", k.pub, msg, cat(R, le32(r.BigBelow(edL))))
	add("S-zero", k.pub, msg, cat(R, make([]byte, 32)))
	return out
}

// all byte strings that decode to a point of small order: canonical, with the
// sign bit set, and y+p where that fits 255 bits
func smallOrderEncodings(reg *edReg) [][]byte {
	var out [][]byte
	seen := map[string]bool{}
	add := func(b []byte) {
		if !seen[string(b)] {
			seen[string(b)] = true
			out = append(out, b)
		}
	}
	for j := 0; j < 8; j++ {
		c := mustBytes(reg.tors[j])
		add(c)
		f := append([]byte{}, c...)
		f[31] ^= 0x80
		add(f)
		y := leInt(c)
		sign := y.Bit(255)
		y.SetBit(y, 255, 0)
		yp := new(big.Int).Add(y, edP)
		if yp.BitLen() <= 255 {
			for _, s := range []uint{0, 1} {
				v := new(big.Int).Set(yp)
				v.SetBit(v, 255, s)
				add(le32(v))
			}
			_ = sign
		}
	}
	return out
}

// semantically the same signature? (same length, R decodes to the same point, S same mod L)
func edSameSemantics(pub1, msg1, sig1, pub2, msg2, sig2 []byte) bool {
	if !bytes.Equal(msg1, msg2) || len(sig1) != 64 || len(sig2) != 64 || len(pub1) != 32 || len(pub2) != 32 {
		return false
	}
	A1, A2, R1, R2 := edSuite.Point(), edSuite.Point(), edSuite.Point(), edSuite.Point()
	if A1.UnmarshalBinary(pub1) != nil || A2.UnmarshalBinary(pub2) != nil ||
		R1.UnmarshalBinary(sig1[:32]) != nil || R2.UnmarshalBinary(sig2[:32]) != nil {
		return false
	}
	s1 := new(big.Int).Mod(leInt(sig1[32:]), edL)
	s2 := new(big.Int).Mod(leInt(sig2[32:]), edL)
	return A1.Equal(A2) && R1.Equal(R2) && s1.Cmp(s2) == 0
}

// edCheckTamper evaluates the property on one tampered triple (oracle part)
func (h *H) edCheckTamper(t edTamper, k *edKey, msg, sig []byte) (verdict int, gok bool) {
	var err error
	if p, m := vh.Try(func() { err = eddsa.VerifyWithChecks(t.pub, t.msg, t.sig) }); p {
		h.rep.Fail("eddsa.VerifyWithChecks/panic:"+t.name, "verification panicked: "+m,
			map[string]string{"pub": vh.Hex(t.pub), "msg": vh.Hex(t.msg), "sig": vh.Hex(t.sig)})
		return -2, false
	}
	verdict = edVerdict(err)
	gok = goVerify(t.pub, t.msg, t.sig)
	h.rep.Dist(fmt.Sprintf("eddsa-tamper:%s:verdict%d", t.name, verdict))
	if err != nil {
		return
	}
	rp := map[string]string{"family": t.name, "pub": vh.Hex(t.pub), "msg": vh.Hex(t.msg), "sig": vh.Hex(t.sig),
		"honest_pub": vh.Hex(k.pub), "honest_msg": vh.Hex(msg), "honest_sig": vh.Hex(sig)}
	if !gok {
		h.rep.Fail("eddsa.VerifyWithChecks/accepted-but-crypto-ed25519-rejects:"+t.name,
			"kyber accepts a signature that crypto/ed25519 rejects", rp)
	}
	identical := bytes.Equal(t.pub, k.pub) && bytes.Equal(t.msg, msg) && bytes.Equal(t.sig, sig)
	if identical {
		return
	}
	if edSameSemantics(k.pub, msg, sig, t.pub, t.msg, t.sig) {
		h.rep.Fail("eddsa.VerifyWithChecks/second-encoding-accepted:"+t.name,
			"a second encoding of the same (key, R, S) is accepted", rp)
		return
	}
	// accepted although semantically different: only legitimate for a mixed-order key
	// whose torsion part is annihilated by the challenge (model-predicted; see cases)
	if t.name == "key-plus-torsion" || t.name == "mixed-order-key" {
		h.rep.Dist("eddsa-tamper:mixed-order-key-accepted")
		return
	}
	h.rep.Fail("eddsa.VerifyWithChecks/tampered-accepted:"+t.name, "tampered input accepted", rp)
	return
}

func (h *H) edVerifyCase(kind string, t edTamper, verdict int, gok bool) {
	id := h.id()
	seen := map[string]bool{}
	var pts []string
	if len(t.sig) >= 32 {
		pts = append(pts, h.reg.entries(t.sig[:32], seen)...)
	}
	pts = append(pts, h.reg.entries(t.pub, seen)...)
	var shaT []string
	if len(t.sig) >= 32 {
		in := append(append(append([]byte{}, t.sig[:32]...), t.pub...), t.msg...)
		shaT = append(shaT, shaEntry(in))
	}
	term := fmt.Sprintf("CEdVerify %d %s %s %s %s %s %d %s", id, vh.CoqList(shaT), vh.CoqList(pts),
		vh.CoqBytes(t.pub), vh.CoqBytes(t.msg), vh.CoqBytes(t.sig), verdict, vh.CoqBool(gok))
	h.add(kind, term, map[string]string{"kind": kind, "family": t.name, "pub": vh.Hex(t.pub), "msg": vh.Hex(t.msg), "sig": vh.Hex(t.sig),
		"kyber_verdict": fmt.Sprint(verdict), "crypto_ed25519": fmt.Sprint(gok)}, t.name+vh.Hex(t.pub)+vh.Hex(t.msg)+vh.Hex(t.sig), id)
}

// eddsa: honest signing vs crypto/ed25519, tamper families, cases for the model
func (h *H) eddsaAll(nkeys int, emit bool, nflip int, tamperEvery int, emitSets int, signCases int, mixedEvery int) {
	sets, signs := 0, 0
	for it := 0; it < nkeys; it++ {
		r := h.rng.Fork()
		seed := r.Bytes(32)
		switch it {
		case 0:
			seed = make([]byte, 32)
		case 1:
			seed = bytes.Repeat([]byte{0xff}, 32)
		}
		k := h.newEdKey(seed, it%2 == 0)
		gpriv := ed25519.NewKeyFromSeed(seed)
		gpub := []byte(gpriv.Public().(ed25519.PublicKey))
		rp := map[string]string{"seed": vh.Hex(seed)}
		if !bytes.Equal(gpub, k.pub) {
			h.rep.Fail("eddsa.Public/differs-from-crypto-ed25519", "public key differs from crypto/ed25519", rp)
		}
		if vh.ScalarVal(k.e.Secret).Cmp(new(big.Int).Mod(k.a, edL)) != 0 {
			h.rep.Fail("eddsa.Secret/not-clamped-digest", "secret scalar is not the clamped SHA-512 digest", rp)
		}
		lens := []int{0, 1, 31, 32, 33, 64, 4096}
		if it%8 == 0 {
			lens = append(lens, 2, 63, 65, 127, 128, 129, 1000, 4095)
		}
		for li, n := range lens {
			msg := r.Bytes(n)
			sig, err := k.e.Sign(msg)
			rp := map[string]string{"seed": vh.Hex(seed), "msg": vh.Hex(msg)}
			if err != nil {
				h.rep.Fail("eddsa.Sign/error", err.Error(), rp)
				continue
			}
			h.rep.Count("eddsa-sign:"+vh.Hex(sig), true)
			h.rep.Dist("eddsa-sign")
			rp["sig"] = vh.Hex(sig)
			gsig := ed25519.Sign(gpriv, msg)
			if !bytes.Equal(sig, gsig) {
				rp["crypto_ed25519"] = vh.Hex(gsig)
				h.rep.Fail("eddsa.Sign/differs-from-crypto-ed25519", "signature is not byte-identical to crypto/ed25519", rp)
			}
			if sig2, _ := k.e.Sign(msg); !bytes.Equal(sig, sig2) {
				h.rep.Fail("eddsa.Sign/nondeterministic", "two signatures of the same message differ", rp)
			}
			if err := eddsa.Verify(k.e.Public, msg, sig); err != nil {
				h.rep.Fail("eddsa.Verify/honest-rejected", err.Error(), rp)
			}
			if err := eddsa.VerifyWithChecks(k.pub, msg, sig); err != nil {
				h.rep.Fail("eddsa.VerifyWithChecks/honest-rejected", err.Error(), rp)
			}
			if !goVerify(k.pub, msg, sig) {
				h.rep.Fail("eddsa.Sign/rejected-by-crypto-ed25519", "crypto/ed25519 rejects kyber's signature", rp)
			}
			// schnorr.Verify accepts EdDSA signatures on this group (same equation)
			if err := schnorr.Verify(edSuite, k.e.Public, msg, sig); err != nil {
				h.rep.Fail("schnorr.Verify/eddsa-signature-rejected", err.Error(), rp)
			}
			// register R = r*B
			rr := new(big.Int).Mod(leInt(sha(k.pref, msg)), edL)
			h.reg.m[string(sig[:32])] = edPt{rr, 0}
			if emit && signs < signCases && (it%4 == 0 || li < 2) {
				signs++
				id := h.id()
				seen := map[string]bool{}
				pts := append(h.reg.entries(k.pub, seen), h.reg.entries(sig[:32], seen)...)
				shaT := []string{shaEntry(seed), shaEntry(append(append([]byte{}, k.pref...), msg...)),
					shaEntry(append(append(append([]byte{}, sig[:32]...), k.pub...), msg...))}
				term := fmt.Sprintf("CEdSign %d %s %s %s %s %s %s", id, vh.CoqList(shaT), vh.CoqList(pts),
					vh.CoqBytes(seed), vh.CoqBytes(msg), vh.CoqBytes(k.pub), vh.CoqBytes(sig))
				h.add("eddsa-sign", term, map[string]string{"kind": "eddsa-sign", "seed": vh.Hex(seed), "msg": vh.Hex(msg), "sig": vh.Hex(sig)}, vh.Hex(seed)+vh.Hex(msg), id)
			}
			// tamper families on some of the signatures
			if (it*len(lens)+li)%tamperEvery != 0 || n > 200 {
				continue
			}
			ts := h.edTampers(r, k, msg, sig, nflip)
			ts = append(ts, edTamper{"honest", k.pub, msg, sig})
			sets++
			for ti, t := range ts {
				v, g := h.edCheckTamper(t, k, msg, sig)
				if emit && sets <= emitSets && v >= -1 && (t.name != "bitflip-sig" || ti%4 == 0 || h.o.Thorough) {
					h.edVerifyCase("eddsa-verify", t, v, g)
					// the same triple through schnorr.VerifyWithChecks
					if ti%3 == 0 {
						h.sch25519VerifyCase(t)
					}
				}
				// oracle: both verifiers of kyber agree on this group
				var serr error
				if p, _ := vh.Try(func() { serr = schnorr.VerifyWithChecks(edSuite, t.pub, t.msg, t.sig) }); !p && (serr == nil) != (v == 0) && v >= -1 {
					h.rep.Fail("schnorr.VerifyWithChecks/disagrees-with-eddsa:"+t.name, "schnorr and eddsa verifiers disagree on Ed25519",
						map[string]string{"pub": vh.Hex(t.pub), "msg": vh.Hex(t.msg), "sig": vh.Hex(t.sig), "eddsa_verdict": fmt.Sprint(v), "schnorr_err": fmt.Sprint(serr)})
				}
			}
		}
		// mixed-order keys: A' = a*B + j*T8 with signatures made for A'; accepted iff h*j = 0 mod 8
		if it%mixedEvery == 0 {
			for j := 1; j < 8; j++ {
				a := r.BigBelow(edL)
				A := h.reg.mk(a, j)
				Ab := mustBytes(A)
				msg := r.Bytes(r.Intn(40))
				rr := r.BigBelow(edL)
				Rb := mustBytes(h.reg.mk(rr, 0))
				hv := new(big.Int).Mod(leInt(sha(Rb, Ab, msg)), edL)
				S := new(big.Int).Mul(hv, a)
				S.Add(S, rr).Mod(S, edL)
				t := edTamper{"mixed-order-key", Ab, msg, append(append([]byte{}, Rb...), le32(S)...)}
				fake := &edKey{pub: k.pub}
				v, g := h.edCheckTamper(t, fake, nil, nil)
				expect := new(big.Int).Mod(new(big.Int).Mul(hv, big.NewInt(int64(j))), big.NewInt(8)).Sign() == 0
				if (v == 0) != expect {
					h.rep.Fail("eddsa.VerifyWithChecks/mixed-order-key-verdict", "verdict for a key with a torsion component is not (h*j = 0 mod 8)",
						map[string]string{"pub": vh.Hex(t.pub), "msg": vh.Hex(t.msg), "sig": vh.Hex(t.sig), "j": fmt.Sprint(j), "h": hv.String()})
				}
				if emit && v >= -1 {
					h.edVerifyCase("eddsa-verify-mixed-order", t, v, g)
				}
			}
		}
	}
}

// ---------------------------------------------------------------- schnorr over edwards25519 (model cases)

func (h *H) sch25519VerifyCase(t edTamper) {
	var err error
	if p, _ := vh.Try(func() { err = schnorr.VerifyWithChecks(edSuite, t.pub, t.msg, t.sig) }); p {
		return
	}
	id := h.id()
	seen := map[string]bool{}
	var pts []string
	var shaT []string
	if len(t.sig) >= 32 {
		pts = append(pts, h.reg.entries(t.sig[:32], seen)...)
	}
	pts = append(pts, h.reg.entries(t.pub, seen)...)
	// the challenge is hashed over the RE-ENCODED points
	if len(t.sig) >= 32 {
		R, A := edSuite.Point(), edSuite.Point()
		if R.UnmarshalBinary(t.sig[:32]) == nil && A.UnmarshalBinary(t.pub) == nil {
			shaT = append(shaT, shaEntry(append(append(mustBytes(R), mustBytes(A)...), t.msg...)))
		}
	}
	term := fmt.Sprintf("CSch25519Verify %d %s %s %s %s %s %s", id, vh.CoqList(shaT), vh.CoqList(pts),
		vh.CoqBytes(t.pub), vh.CoqBytes(t.msg), vh.CoqBytes(t.sig), vh.CoqBool(err == nil))
	h.add("schnorr25519-verify", term, map[string]string{"kind": "schnorr25519-verify", "family": t.name, "pub": vh.Hex(t.pub), "msg": vh.Hex(t.msg), "sig": vh.Hex(t.sig),
		"accepted": fmt.Sprint(err == nil)}, t.name+vh.Hex(t.pub)+vh.Hex(t.msg)+vh.Hex(t.sig), id)
}

func (h *H) sch25519SignCases(n int) {
	for it := 0; it < n; it++ {
		r := h.rng.Fork()
		x := edSuite.Scalar().Pick(vh.NewSeqStream(r.Bytes(16)))
		seed := r.Bytes(16)
		msg := r.Bytes(r.Intn(100))
		sig, err := schnorr.Sign(&gsuite{edSuite, vh.NewSeqStream(seed)}, x, msg)
		if err != nil {
			continue
		}
		k := edSuite.Scalar().Pick(vh.NewSeqStream(seed))
		xv, kv := vh.ScalarVal(x), vh.ScalarVal(k)
		A := h.reg.mk(xv, 0)
		R := h.reg.mk(kv, 0)
		id := h.id()
		seen := map[string]bool{}
		pts := append(h.reg.entries(mustBytes(A), seen), h.reg.entries(mustBytes(R), seen)...)
		shaT := []string{shaEntry(append(append(mustBytes(R), mustBytes(A)...), msg...))}
		term := fmt.Sprintf("CSch25519Sign %d %s %s %s %s %s %s", id, vh.CoqList(shaT), vh.CoqList(pts),
			vh.CoqZ(xv), vh.CoqZ(kv), vh.CoqBytes(msg), vh.CoqBytes(sig))
		h.add("schnorr25519-sign", term, map[string]string{"kind": "schnorr25519-sign", "x": xv.String(), "k": kv.String(), "msg": vh.Hex(msg), "sig": vh.Hex(sig)}, vh.Hex(sig), id)
	}
}

// ---------------------------------------------------------------- byte-level predicates

type canon interface{ IsCanonical([]byte) bool }
type smallOrder interface{ HasSmallOrder() bool }

func (h *H) predCases(n int) {
	pc := edSuite.Point().(canon)
	sc := edSuite.Scalar().(canon)
	var ins [][]byte
	two := big.NewInt(2)
	pow := func(e int64) *big.Int { return new(big.Int).Exp(two, big.NewInt(e), nil) }
	edge := []*big.Int{big.NewInt(0), big.NewInt(1), edP, edL, pow(252), pow(253), pow(254), pow(255), pow(256),
		new(big.Int).Lsh(edL, 1), new(big.Int).Lsh(edL, 2), new(big.Int).Lsh(edL, 3), new(big.Int).Mul(edL, big.NewInt(15))}
	for _, e := range edge {
		for d := int64(-20); d <= 20; d++ {
			v := new(big.Int).Add(e, big.NewInt(d))
			if v.Sign() < 0 || v.BitLen() > 256 {
				continue
			}
			ins = append(ins, le32(v))
			if v.BitLen() <= 255 {
				ins = append(ins, le32(new(big.Int).SetBit(new(big.Int).Set(v), 255, 1)))
			}
		}
	}
	r := h.rng.Fork()
	// one byte off the boundary patterns: 0xff..0x7f (field prime) and the bytes of L, every position
	for i := 0; i < 32; i++ {
		for _, s0 := range []byte{0xec, 0xed, 0xee, 0xff} {
			for _, top := range []byte{0x7f, 0xff} {
				for _, v := range []byte{0xfe, 0x00, byte(r.U64())} {
					b := bytes.Repeat([]byte{0xff}, 32)
					b[31] = top
					b[0] = s0
					if i == 31 {
						b[i] = top ^ (1 << uint(r.Intn(7)))
					} else if i > 0 {
						b[i] = v
					}
					ins = append(ins, b)
				}
			}
		}
		lb := le32(edL)
		for _, d := range []int{-1, 1, 0} {
			b := append([]byte{}, lb...)
			if d == 0 {
				b[i] = byte(r.U64())
			} else {
				b[i] = byte(int(b[i]) + d)
			}
			ins = append(ins, b)
			// and with a random lower part
			c := append([]byte{}, b...)
			copy(c, r.Bytes(i))
			ins = append(ins, c)
		}
	}
	for i := 0; i < n; i++ {
		b := r.Bytes(32)
		switch r.Intn(6) {
		case 0: // high bytes all 0xff, random low part
			for j := 1 + r.Intn(31); j < 32; j++ {
				b[j] = 0xff
			}
			if r.Bool() {
				b[31] = 0x7f
			}
		case 1: // equal to L in the high bytes
			lb := le32(edL)
			for j := r.Intn(32); j < 32; j++ {
				b[j] = lb[j]
			}
		case 2:
			b[31] &= 0x1f
		}
		ins = append(ins, b)
	}
	ins = append(ins, nil, make([]byte, 31), make([]byte, 33), bytes.Repeat([]byte{0xff}, 32), bytes.Repeat([]byte{0xff}, 33))
	for _, b := range ins {
		p, s := pc.IsCanonical(b), sc.IsCanonical(b)
		// oracle: arithmetic meaning
		if len(b) == 32 {
			y := leInt(b)
			y.SetBit(y, 255, 0)
			if p != (y.Cmp(edP) < 0) {
				h.rep.Fail("edwards25519.point.IsCanonical/wrong", "IsCanonical differs from (y < p)", map[string]string{"bytes": vh.Hex(b)})
			}
			if s != (leInt(b).Cmp(edL) < 0) {
				h.rep.Fail("edwards25519.scalar.IsCanonical/wrong", "IsCanonical differs from (s < L)", map[string]string{"bytes": vh.Hex(b)})
			}
		} else if p || s {
			h.rep.Fail("edwards25519.IsCanonical/wrong-length-accepted", "IsCanonical accepts a string that is not 32 bytes long", map[string]string{"bytes": vh.Hex(b)})
		}
		if h.o.Search {
			continue
		}
		id := h.id()
		h.add("pred", fmt.Sprintf("CPred %d %s %s %s", id, vh.CoqBytes(b), vh.CoqBool(p), vh.CoqBool(s)),
			map[string]string{"kind": "IsCanonical", "bytes": vh.Hex(b)}, vh.Hex(b), id)
	}
	// HasSmallOrder on the 8 torsion points, torsion + prime-order, random points
	var pts []kyber.Point
	for j := 0; j < 8; j++ {
		pts = append(pts, h.reg.tors[j])
		pts = append(pts, h.reg.mk(r.BigBelow(edL), j))
	}
	for i := 0; i < n/4; i++ {
		pts = append(pts, h.reg.mk(r.BigBelow(edL), 0))
	}
	for _, e := range smallOrderEncodings(h.reg) {
		p := edSuite.Point()
		if p.UnmarshalBinary(e) == nil {
			pts = append(pts, p)
		}
	}
	for _, p := range pts {
		sm := p.(smallOrder).HasSmallOrder()
		c := h.reg.coords(p)
		if sm != (c.k.Sign() == 0) {
			h.rep.Fail("edwards25519.point.HasSmallOrder/wrong", "HasSmallOrder differs from (8*P = O)", map[string]string{"point": vh.Hex(mustBytes(p))})
		}
		e8 := edSuite.Point().Mul(rawScalar(big.NewInt(8)), p)
		if sm != e8.Equal(edSuite.Point().Null()) {
			h.rep.Fail("edwards25519.point.HasSmallOrder/wrong", "HasSmallOrder differs from (8*P = O)", map[string]string{"point": vh.Hex(mustBytes(p))})
		}
		if h.o.Search {
			continue
		}
		id := h.id()
		h.add("small", fmt.Sprintf("CSmall %d %s %s", id, vh.CoqBytes(mustBytes(p)), vh.CoqBool(sm)),
			map[string]string{"kind": "HasSmallOrder", "point": vh.Hex(mustBytes(p))}, vh.Hex(mustBytes(p)), id)
	}
}
