package main

// Object-history oracles: the same signer / key / point / ring objects live
// across many operations and are re-keyed or re-decoded IN PLACE between them
// (UnmarshalBinary, UnmarshalFrom, Set, Mul, field assignment, struct copy);
// caller buffers (message, signature, key bytes) are overwritten after the
// call.  Every result is compared with the reference computed on the CURRENT
// values with fresh objects (crypto/ed25519 for EdDSA; freshly decoded points
// for Schnorr and ring signatures).

import (
	"bytes"
	"crypto/ed25519"
	"fmt"

	"go.dedis.ch/kyber/v4"
	"go.dedis.ch/kyber/v4/sign/anon"
	"go.dedis.ch/kyber/v4/sign/eddsa"
	"go.dedis.ch/kyber/v4/sign/schnorr"

	"kyverif/vh"
)

// ---------------------------------------------------------------- one EdDSA object, many keys

func (h *H) eddsaReuse(rounds int) {
	r := h.rng.Fork()
	e := &eddsa.EdDSA{}
	var hist []string
	var prevSig, prevMsg, prevPub []byte
	for it := 0; it < rounds; it++ {
		seed := r.Bytes(32)
		gpriv := ed25519.NewKeyFromSeed(seed)
		gpub := []byte(gpriv.Public().(ed25519.PublicKey))
		how := r.Intn(5)
		if it == 0 && how >= 3 {
			how = 0
		}
		switch how {
		case 0: // re-key in place from "seed || anything"
			buf := append(append([]byte{}, seed...), r.Bytes(32)...)
			if err := e.UnmarshalBinary(buf); err != nil {
				panic(err)
			}
			hist = append(hist, "UnmarshalBinary")
		case 1: // re-key in place from another object's MarshalBinary
			o := eddsa.NewEdDSA(&fixedStream{seed, 0})
			buf := mustBytes(o)
			if err := e.UnmarshalBinary(buf); err != nil {
				panic(err)
			}
			for i := range buf[32:] { // the caller's buffer is the caller's (the seed part is retained by the object)
				buf[32+i] = 0xaa
			}
			hist = append(hist, "UnmarshalBinary(Marshal(other))")
		case 2: // struct copy of a fresh object
			o := eddsa.NewEdDSA(&fixedStream{seed, 0})
			*e = *o
			hist = append(hist, "struct-copy")
		case 3: // exported fields assigned together: (Secret, Public) of another key; the nonce prefix stays
			o := eddsa.NewEdDSA(&fixedStream{seed, 0})
			e.Secret, e.Public = o.Secret, o.Public
			hist = append(hist, "assign-Secret-Public")
		case 4: // exported fields re-set IN PLACE
			o := eddsa.NewEdDSA(&fixedStream{seed, 0})
			e.Secret = e.Secret.Clone().Set(o.Secret)
			if err := e.Public.UnmarshalBinary(mustBytes(o.Public)); err != nil {
				panic(err)
			}
			hist = append(hist, "set-Secret-Public-in-place")
		}
		h.rep.Dist("reuse:eddsa:" + hist[len(hist)-1])
		rfc := how <= 2 // seed, prefix, secret, public all belong to the new key: RFC 8032 signatures
		if len(hist) > 6 {
			hist = hist[len(hist)-6:]
		}
		rekeyed := false
		// refused operations on the same object: afterwards it must behave exactly as before
		failed := func() {
			probe := []byte("probe message")
			pub0, mar0 := mustBytes(e.Public), mustBytes(e)
			sig0, _ := e.Sign(probe)
			var what string
			switch r.Intn(4) {
			case 0, 1: // UnmarshalBinary with a wrong length (must be refused and leave the key alone)
				n := []int{0, 1, 31, 32, 33, 63, 65, 96}[r.Intn(8)]
				buf := r.Bytes(n)
				if r.Bool() && n >= 32 { // a plausible prefix: seed || public of another key, cut or extended
					o := eddsa.NewEdDSA(&fixedStream{r.Bytes(32), 0})
					copy(buf, mustBytes(o))
				}
				var err error
				if p, m := vh.Try(func() { err = e.UnmarshalBinary(buf) }); p {
					h.rep.Fail("eddsa.UnmarshalBinary/panic", m, map[string]string{"len": fmt.Sprint(n)})
				}
				what = fmt.Sprintf("failed-UnmarshalBinary(len=%d)", n)
				if err == nil {
					// not refused: the object holds another key now; nothing to compare
					h.rep.Dist("reuse:eddsa:wrong-length-UnmarshalBinary-not-refused")
					rekeyed = true
					return
				}
			case 2: // verification of garbage / malformed signatures under the object's key
				for _, g := range [][]byte{nil, r.Bytes(63), r.Bytes(64), r.Bytes(65), append(append([]byte{}, sig0[:32]...), bytes.Repeat([]byte{0xff}, 32)...)} {
					if eddsa.Verify(e.Public, probe, g) == nil {
						h.rep.Fail("eddsa.Verify/garbage-accepted", "garbage signature accepted", map[string]string{"sig": vh.Hex(g)})
					}
				}
				what = "failed-Verify(garbage)"
			case 3:
				_ = eddsa.VerifyWithChecks(pub0[:31], probe, sig0)
				_ = eddsa.VerifyWithChecks(append(append([]byte{}, pub0...), 0), probe, sig0)
				_ = eddsa.VerifyWithChecks(pub0, probe, sig0[:40])
				what = "failed-VerifyWithChecks(bad lengths)"
			}
			hist = append(hist, what)
			h.rep.Dist("reuse:eddsa:" + what)
			sig1, err1 := e.Sign(probe)
			rp := map[string]string{"history_on_one_EdDSA_object": fmt.Sprint(hist), "round": fmt.Sprint(it), "seed_of_current_key": vh.Hex(seed),
				"public_before": vh.Hex(pub0), "public_after": vh.Hex(mustBytes(e.Public)), "probe_sig_before": vh.Hex(sig0), "probe_sig_after": vh.Hex(sig1)}
			if !bytes.Equal(pub0, mustBytes(e.Public)) || !bytes.Equal(mar0, mustBytes(e)) {
				h.rep.Fail("eddsa/state-changed-by-refused-call:key", "a refused call changed the key held by the EdDSA object", rp)
			}
			if err1 != nil || !bytes.Equal(sig0, sig1) {
				h.rep.Fail("eddsa/state-changed-by-refused-call:signature", "signatures of the object differ before and after a refused call", rp)
			}
			if eddsa.Verify(e.Public, probe, sig1) != nil || !goVerify(gpub, probe, sig1) {
				h.rep.Fail("eddsa/state-changed-by-refused-call:signature-rejected", "after a refused call the object's signature is rejected under its public key / by crypto/ed25519", rp)
			}
		}
		if r.Chance(75) {
			failed()
		}
		nsig := 1 + r.Intn(3)
		for j := 0; j < nsig && !rekeyed; j++ {
			if j > 0 && r.Chance(40) {
				failed()
				if rekeyed {
					break
				}
			}
			msg := r.Bytes([]int{0, 1, 32, 33, 100}[r.Intn(5)])
			msgBuf := append([]byte{}, msg...)
			sig, err := e.Sign(msgBuf)
			for i := range msgBuf { // caller overwrites its buffer after the call
				msgBuf[i] ^= 0x5a
			}
			rp := map[string]string{"history_on_one_EdDSA_object": fmt.Sprint(hist), "round": fmt.Sprint(it), "seed": vh.Hex(seed), "msg": vh.Hex(msg), "sig": vh.Hex(sig)}
			h.rep.Count("reuse-eddsa:"+vh.Hex(seed)+vh.Hex(msg), true)
			if err != nil {
				h.rep.Fail("eddsa.Sign/reused-object:error", err.Error(), rp)
				continue
			}
			pub := mustBytes(e.Public)
			if !bytes.Equal(pub, gpub) {
				h.rep.Fail("eddsa.Public/reused-object:differs-from-crypto-ed25519", "public key of a re-keyed object differs from crypto/ed25519", rp)
			}
			if rfc {
				if want := ed25519.Sign(gpriv, msg); !bytes.Equal(sig, want) {
					rp["crypto_ed25519"] = vh.Hex(want)
					h.rep.Fail("eddsa.Sign/reused-object:differs-from-crypto-ed25519", "signature of a re-keyed EdDSA object is not the RFC 8032 signature of its current key", rp)
				}
			}
			if err := eddsa.Verify(e.Public, msg, sig); err != nil {
				h.rep.Fail("eddsa.Verify/reused-object:honest-rejected", "signature of a re-keyed EdDSA object is rejected under its current public key: "+err.Error(), rp)
			}
			if !goVerify(gpub, msg, sig) {
				h.rep.Fail("eddsa.Sign/reused-object:rejected-by-crypto-ed25519", "crypto/ed25519 rejects the signature of a re-keyed EdDSA object", rp)
			}
			if s2, _ := e.Sign(msg); !bytes.Equal(s2, sig) {
				h.rep.Fail("eddsa.Sign/reused-object:nondeterministic", "two signatures of the same message differ", rp)
			}
			// the previous key's signature must not verify under the current key
			if prevSig != nil && !bytes.Equal(prevPub, pub) && eddsa.Verify(e.Public, prevMsg, prevSig) == nil {
				h.rep.Fail("eddsa.Verify/reused-object:old-key-signature-accepted", "signature made by the previous key is accepted under the current key", rp)
			}
			// signature buffer overwritten by the caller after verification: a second Sign is unaffected
			keep := append([]byte{}, sig...)
			for i := range sig {
				sig[i] = 0
			}
			if s3, _ := e.Sign(msg); !bytes.Equal(s3, keep) {
				h.rep.Fail("eddsa.Sign/reused-object:aliases-returned-signature", "overwriting a returned signature changes later signatures", rp)
			}
			prevSig, prevMsg, prevPub = keep, msg, pub
		}
	}
}

// ---------------------------------------------------------------- one public-key point object, many keys (Schnorr / EdDSA verify)

// redecode puts the value of src into the existing object dst, by one of several in-place methods
func redecode(r *vh.Rng, g kyber.Group, dst kyber.Point, src kyber.Point, x kyber.Scalar) string {
	b := mustBytes(src)
	n := 4
	if x != nil {
		n = 5
	}
	switch r.Intn(n) {
	case 0:
		if err := dst.UnmarshalBinary(b); err != nil {
			panic(err)
		}
		return "UnmarshalBinary"
	case 1:
		if _, err := dst.UnmarshalFrom(bytes.NewReader(b)); err != nil {
			panic(err)
		}
		return "UnmarshalFrom"
	case 2:
		dst.Set(src)
		return "Set"
	case 3:
		dst.Add(src, g.Point().Null())
		return "Add"
	default:
		dst.Mul(x, nil)
		return "Mul"
	}
}

func (h *H) schnorrPointReuse(rounds int) {
	for _, ng := range realGroups() {
		g := ng.g
		reps := rounds
		if len(ng.name) > 2 && ng.name[len(ng.name)-2:] == "GT" || ng.name == "qr512" {
			reps = (rounds + 3) / 4
		}
		r := h.rng.Fork()
		pub := g.Point()
		priv := g.Scalar()
		var hist []string
		var prevSig, prevMsg []byte
		var prevX kyber.Scalar
		for it := 0; it < reps; it++ {
			x := g.Scalar().Pick(vh.NewSeqStream(r.Bytes(16)))
			how := redecode(r, g, pub, g.Point().Mul(x, nil), x)
			// the private scalar object is long-lived too
			switch r.Intn(3) {
			case 0:
				priv.Set(x)
				how += "+scalar.Set"
			case 1:
				if err := priv.UnmarshalBinary(mustBytes(x)); err != nil {
					panic(err)
				}
				how += "+scalar.UnmarshalBinary"
			default:
				priv.Add(x, g.Scalar().Zero())
				how += "+scalar.Add"
			}
			hist = append(hist, how)
			if len(hist) > 6 {
				hist = hist[len(hist)-6:]
			}
			h.rep.Dist("reuse:schnorr-key-objects:" + how)
			msg := r.Bytes(r.Intn(60))
			msgBuf := append([]byte{}, msg...)
			sig, err := schnorr.Sign(&gsuite{g, vh.NewSeqStream(r.Bytes(16))}, priv, msgBuf)
			for i := range msgBuf {
				msgBuf[i] ^= 0xff
			}
			rp := map[string]string{"group": ng.name, "history_on_one_point_object": fmt.Sprint(hist), "round": fmt.Sprint(it), "pub": vh.Hex(mustBytes(pub)), "msg": vh.Hex(msg), "sig": vh.Hex(sig)}
			h.rep.Count("reuse-schnorr:"+ng.name+vh.Hex(sig), true)
			if err != nil {
				h.rep.Fail("schnorr.Sign/reused-object:error:"+ng.name, err.Error(), rp)
				continue
			}
			fresh := g.Point()
			if err := fresh.UnmarshalBinary(mustBytes(g.Point().Mul(x, nil))); err != nil {
				panic(err)
			}
			if !pub.Equal(fresh) {
				h.rep.Fail("schnorr/reused-object:key-object-wrong:"+ng.name, "re-decoded key object differs from the key", rp)
			}
			ok1, _ := schnorrVerify(g, pub, msg, sig)
			ok2, _ := schnorrVerify(g, fresh, msg, sig)
			if !ok1 || !ok2 {
				h.rep.Fail("schnorr.Verify/reused-object:honest-rejected:"+ng.name, fmt.Sprintf("honest signature rejected (re-used key object: %v, fresh key object: %v)", ok1, ok2), rp)
			}
			if ng.name == "edwards25519" {
				if err := eddsa.Verify(pub, msg, sig); err != nil {
					h.rep.Fail("eddsa.Verify/reused-object:schnorr-signature-rejected", err.Error(), rp)
				}
			}
			// refused calls on the same key objects, then the same questions again
			if r.Chance(70) {
				pb := mustBytes(pub)
				det := r.Bytes(16)
				sA, _ := schnorr.Sign(&gsuite{g, vh.NewSeqStream(det)}, priv, msg)
				bad := [][]byte{nil, sig[:len(sig)-1], append(append([]byte{}, sig...), 0), r.Bytes(len(sig)), flipBit(sig, r.Intn(8*len(sig)))}
				for _, b := range bad {
					if ok, _ := schnorrVerify(g, pub, msg, b); ok && !bytes.Equal(b, sig) {
						same := false
						if len(b) == len(sig) { // another encoding of the same (R, s) on a group that has several
							R1, R2, s1, s2 := g.Point(), g.Point(), g.Scalar(), g.Scalar()
							pl := g.PointLen()
							same = R1.UnmarshalBinary(sig[:pl]) == nil && R2.UnmarshalBinary(b[:pl]) == nil && s1.UnmarshalBinary(sig[pl:]) == nil &&
								s2.UnmarshalBinary(b[pl:]) == nil && R1.Equal(R2) && s1.Equal(s2)
						}
						if !same || ng.name == "edwards25519" {
							h.rep.Fail("schnorr.Verify/reused-object:malformed-accepted:"+ng.name, "malformed signature accepted", map[string]string{"sig": vh.Hex(b), "honest_sig": vh.Hex(sig)})
						}
					}
				}
				_ = schnorr.VerifyWithChecks(g, pb[:len(pb)-1], msg, sig)
				_, _ = vh.Try(func() { _ = schnorr.VerifyWithChecks(g, r.Bytes(len(pb)), msg, sig) })
				h.rep.Dist("reuse:schnorr-key-objects:refused-verifications-interleaved")
				okA, _ := schnorrVerify(g, pub, msg, sig)
				sB, _ := schnorr.Sign(&gsuite{g, vh.NewSeqStream(det)}, priv, msg)
				if !bytes.Equal(pb, mustBytes(pub)) || !okA || !bytes.Equal(sA, sB) {
					rp["after_refused_calls"] = fmt.Sprintf("key bytes unchanged=%v honest accepted=%v same-nonce signature unchanged=%v", bytes.Equal(pb, mustBytes(pub)), okA, bytes.Equal(sA, sB))
					h.rep.Fail("schnorr/state-changed-by-refused-call:"+ng.name, "key objects behave differently after refused verifications", rp)
				}
			}
			if prevSig != nil && !prevX.Equal(x) {
				if ok, _ := schnorrVerify(g, pub, prevMsg, prevSig); ok {
					h.rep.Fail("schnorr.Verify/reused-object:old-key-signature-accepted:"+ng.name, "signature of the key previously held by this point object is accepted", rp)
				}
			}
			prevSig, prevMsg, prevX = append([]byte{}, sig...), msg, x
		}
	}
}

// ---------------------------------------------------------------- one ring of point objects, members re-decoded in place

func freshSet(s anon.Suite, set anon.Set) anon.Set {
	out := make(anon.Set, len(set))
	for i, p := range set {
		q := s.Point()
		if err := q.UnmarshalBinary(mustBytes(p)); err != nil {
			panic(err)
		}
		out[i] = q
	}
	return out
}

func (h *H) ringReuse(name string, mk func(seed []byte) anon.Suite, rounds int) {
	r := h.rng.Fork()
	s0 := mk(r.Bytes(16))
	const pool = 10
	var xs []kyber.Scalar
	var Ps []kyber.Point
	for i := 0; i < pool; i++ {
		x := s0.Scalar().Pick(vh.NewSeqStream(r.Bytes(16)))
		xs = append(xs, x)
		Ps = append(Ps, s0.Point().Mul(x, nil))
	}
	// the long-lived ring: one backing slice of point objects, resliced to the current size
	backing := make(anon.Set, 8)
	idx := make([]int, 8)
	for i := range backing {
		idx[i] = i
		backing[i] = s0.Point().Set(Ps[i])
	}
	scopes := [][]byte{nil, []byte("scope-A"), []byte("scope-B")}
	var hist []string
	type old struct {
		msg, scope, sig []byte
		n               int
		keys            []int
	}
	var prev *old
	for it := 0; it < rounds; it++ {
		n := 1 + r.Intn(8)
		set := backing[:n]
		scope := scopes[r.Intn(3)]
		pi := r.Intn(n)
		msg := r.Bytes(r.Intn(50))
		suite := mk(r.Bytes(16))
		rp := func(extra ...string) map[string]string {
			m := map[string]string{"suite": name, "round": fmt.Sprint(it), "n": fmt.Sprint(n), "signer": fmt.Sprint(pi), "scope": vh.Hex(scope),
				"history_on_ring_objects": fmt.Sprint(hist), "ring_key_indices": fmt.Sprint(idx[:n]), "msg": vh.Hex(msg)}
			for i := 0; i+1 < len(extra); i += 2 {
				m[extra[i]] = extra[i+1]
			}
			return m
		}
		// 1. the signature made for the PREVIOUS state of the ring objects, judged against the current state
		if prev != nil && prev.n <= 8 {
			pset := backing[:prev.n]
			_, okR, _ := ringVerify(suite, prev.msg, pset, prev.scope, prev.sig)
			_, okF, _ := ringVerify(suite, prev.msg, freshSet(suite, pset), prev.scope, prev.sig)
			same := true
			for i := 0; i < prev.n; i++ {
				same = same && prev.keys[i] == idx[i]
			}
			h.rep.Count(fmt.Sprintf("reuse-ring-old:%s:%d:%v", name, it, same), true)
			if okR != okF {
				h.rep.Fail("anon.Verify/reused-ring-objects:differs-from-fresh-ring:"+name,
					fmt.Sprintf("verdict with re-decoded ring member objects (%v) differs from the verdict with freshly decoded points of the same values (%v)", okR, okF),
					rp("old_sig", vh.Hex(prev.sig), "old_msg", vh.Hex(prev.msg), "old_ring_key_indices", fmt.Sprint(prev.keys), "old_scope", vh.Hex(prev.scope)))
			}
			if okR && !same {
				h.rep.Fail("anon.Verify/reused-ring-objects:old-ring-signature-accepted:"+name,
					"a signature made for the previous members is accepted for the ring after members were replaced in place",
					rp("old_sig", vh.Hex(prev.sig), "old_msg", vh.Hex(prev.msg), "old_ring_key_indices", fmt.Sprint(prev.keys), "old_scope", vh.Hex(prev.scope)))
			}
			if !okF && same {
				h.rep.Fail("anon.Verify/reused-ring-objects:honest-rejected:"+name, "signature rejected although the ring did not change", rp("old_sig", vh.Hex(prev.sig)))
			}
		}
		// 2. sign and verify with the current ring objects
		var sig []byte
		msgBuf := append([]byte{}, msg...)
		if p, m := vh.Try(func() { sig = anon.Sign(suite, msgBuf, set, scope, pi, xs[idx[pi]]) }); p {
			h.rep.Fail("anon.Sign/reused-ring-objects:panic:"+name, m, rp())
			continue
		}
		for i := range msgBuf {
			msgBuf[i] ^= 0x33
		}
		h.rep.Count("reuse-ring:"+name+vh.Hex(sig), true)
		tagR, okR, _ := ringVerify(suite, msg, set, scope, sig)
		tagF, okF, _ := ringVerify(suite, msg, freshSet(suite, set), scope, sig)
		if !okR || !okF {
			h.rep.Fail("anon.Verify/reused-ring-objects:honest-rejected:"+name,
				fmt.Sprintf("honest signature rejected (re-used ring objects: %v, fresh ring: %v)", okR, okF), rp("sig", vh.Hex(sig)))
		} else if !bytes.Equal(tagR, tagF) {
			h.rep.Fail("anon.Verify/reused-ring-objects:tag-differs:"+name, "tag differs between re-used and fresh ring objects", rp("sig", vh.Hex(sig)))
		}
		if okF && scope != nil {
			want := mustBytes(suite.Point().Mul(xs[idx[pi]], suite.Point().Pick(suite.XOF(scope))))
			if !bytes.Equal(tagF, want) {
				h.rep.Fail("anon.Verify/reused-ring-objects:tag-not-x-times-linkbase:"+name, "tag differs from x*H(scope)", rp("sig", vh.Hex(sig)))
			}
		}
		// refused calls on the same ring objects, then the same question again
		if okR && r.Chance(70) {
			before := make([][]byte, 8)
			for i := range backing {
				before[i] = mustBytes(backing[i])
			}
			bad := [][]byte{nil, sig[:len(sig)-1], sig[:suite.ScalarLen()], r.Bytes(len(sig)), flipBit(sig, r.Intn(8*suite.ScalarLen()*(n+1)-4))}
			for _, b := range bad {
				if _, ok, _ := ringVerify(suite, msg, set, scope, b); ok {
					h.rep.Fail("anon.Verify/reused-ring-objects:malformed-accepted:"+name, "malformed ring signature accepted", rp("sig", vh.Hex(b), "honest_sig", vh.Hex(sig)))
				}
			}
			if n >= 2 {
				if _, ok, _ := ringVerify(suite, msg, set[:n-1], scope, sig); ok {
					h.rep.Fail("anon.Verify/reused-ring-objects:shorter-ring-accepted:"+name, "signature accepted for a ring with one member dropped", rp("sig", vh.Hex(sig)))
				}
			}
			if n < 8 {
				_, _, _ = ringVerify(suite, msg, backing[:n+1], scope, sig)
			}
			wrongScope := []byte("scope-Z")
			if _, ok, _ := ringVerify(suite, msg, set, wrongScope, sig); ok {
				h.rep.Fail("anon.Verify/reused-ring-objects:wrong-scope-accepted:"+name, "signature accepted under another scope", rp("sig", vh.Hex(sig)))
			}
			h.rep.Dist("reuse:ring-member:" + name + ":refused-calls-interleaved")
			changed := false
			for i := range backing {
				changed = changed || !bytes.Equal(before[i], mustBytes(backing[i]))
			}
			tag2, ok2, _ := ringVerify(suite, msg, set, scope, sig)
			if changed || !ok2 || !bytes.Equal(tag2, tagR) {
				h.rep.Fail("anon/state-changed-by-refused-call:"+name, fmt.Sprintf("ring objects behave differently after refused calls (members changed=%v, honest accepted=%v)", changed, ok2), rp("sig", vh.Hex(sig)))
			}
		}
		prev = &old{msg, scope, append([]byte{}, sig...), n, append([]int{}, idx[:8]...)}
		// 3. replace some members IN PLACE (the objects stay, their values change)
		nrep := 1 + r.Intn(2)
		for k := 0; k < nrep; k++ {
			j := r.Intn(8)
			if r.Chance(70) {
				j = r.Intn(n)
			}
			ni := r.Intn(pool)
			how := redecode(r, suite, backing[j], Ps[ni], xs[ni])
			idx[j] = ni
			hist = append(hist, fmt.Sprintf("ring[%d]<-key%d by %s", j, ni, how))
			h.rep.Dist("reuse:ring-member:" + name + ":" + how)
		}
		if len(hist) > 8 {
			hist = hist[len(hist)-8:]
		}
	}
}
