// Correspondence + oracle harness for property C08 (Schnorr, EdDSA and ring
// signatures accept exactly honest signatures).
//
//   - oracles (evaluated on the implementation alone, over the real groups):
//     exact prediction of Schnorr signatures, byte identity of EdDSA with
//     crypto/ed25519, tamper families, inclusion in crypto/ed25519, ring
//     signatures with tag tables;
//   - correspondence cases for the Coq models of theories/Sig: sign/schnorr and
//     sign/anon driven over the transparent group vh.DlogGroup, sign/eddsa and
//     sign/schnorr over edwards25519 with SHA-512 and the point codec handed to
//     the model as tables, the byte-level canonicity / small-order predicates.
package main

import (
	"bytes"
	"crypto/cipher"
	"crypto/ed25519"
	"crypto/sha512"
	"errors"
	"fmt"
	"math/big"
	"strings"

	"go.dedis.ch/kyber/v4"
	"go.dedis.ch/kyber/v4/group/edwards25519"
	"go.dedis.ch/kyber/v4/group/edwards25519vartime"
	"go.dedis.ch/kyber/v4/group/p256"
	"go.dedis.ch/kyber/v4/pairing/bls12381/circl"
	"go.dedis.ch/kyber/v4/pairing/bls12381/gnark"
	"go.dedis.ch/kyber/v4/pairing/bls12381/kilic"
	"go.dedis.ch/kyber/v4/pairing/bn254"
	"go.dedis.ch/kyber/v4/pairing/bn256"
	"go.dedis.ch/kyber/v4/sign/anon"
	"go.dedis.ch/kyber/v4/sign/eddsa"
	"go.dedis.ch/kyber/v4/sign/schnorr"

	"kyverif/vh"
)

type H struct {
	o     vh.Opts
	rep   *vh.Report
	rng   *vh.Rng
	items []string
	nid   int
	reg   *edReg
}

func (h *H) id() int { h.nid++; return h.nid }

func (h *H) add(kind string, term string, desc interface{}, canon string, id int) {
	h.items = append(h.items, term)
	h.rep.Index(id, desc)
	h.rep.Count(kind+":"+canon, true)
	h.rep.Dist("case:" + kind)
}

// suite wrapper giving a kyber.Group a fixed random stream
type gsuite struct {
	kyber.Group
	st cipher.Stream
}

func (s *gsuite) RandomStream() cipher.Stream { return s.st }

type ngroup struct {
	name string
	g    kyber.Group
}

func realGroups() []ngroup {
	ext := new(edwards25519vartime.ExtendedCurve).InitCurve(edwards25519vartime.ParamEd25519(), false)
	e1174 := new(edwards25519vartime.ProjectiveCurve).Init(edwards25519vartime.Param1174(), false)
	b256 := bn256.NewSuite()
	b254 := bn254.NewSuite()
	kil := kilic.NewBLS12381Suite()
	cir := circl.NewSuite()
	gnk := gnark.NewSuite()
	return []ngroup{
		{"edwards25519", edwards25519.NewBlakeSHA256Ed25519()},
		{"vartime.proj25519", edwards25519vartime.NewBlakeSHA256Ed25519(false)},
		{"vartime.ext25519", ext},
		{"vartime.proj1174", e1174},
		{"p256", p256.NewBlakeSHA256P256()},
		{"qr512", p256.NewBlakeSHA256QR512()},
		{"bn256.G1", b256.G1()}, {"bn256.G2", b256.G2()}, {"bn256.GT", b256.GT()},
		{"bn254.G1", b254.G1()}, {"bn254.G2", b254.G2()}, {"bn254.GT", b254.GT()},
		{"kilic.G1", kil.G1()}, {"kilic.G2", kil.G2()}, // kilic.GT has no base point (Base/Pick panic "unsupported operation"): not a group Schnorr can run on
		{"circl.G1", cir.G1()}, {"circl.G2", cir.G2()}, {"circl.GT", cir.GT()},
		{"gnark.G1", gnk.G1()}, {"gnark.G2", gnk.G2()}, {"gnark.GT", gnk.GT()},
	}
}

func groupOrder(g kyber.Group) *big.Int {
	return new(big.Int).Set(&g.Scalar().GroupOrder().Int)
}

// hash bytes -> integer as Scalar.SetBytes reads them
func hashInt(g kyber.Group, d []byte) *big.Int {
	b := append([]byte{}, d...)
	if g.Scalar().ByteOrder() == kyber.LittleEndian {
		for i, j := 0, len(b)-1; i < j; i, j = i+1, j-1 {
			b[i], b[j] = b[j], b[i]
		}
	}
	return new(big.Int).SetBytes(b)
}

func sha(parts ...[]byte) []byte {
	hh := sha512.New()
	for _, p := range parts {
		hh.Write(p)
	}
	return hh.Sum(nil)
}

func flipBit(b []byte, i int) []byte {
	c := append([]byte{}, b...)
	c[i/8] ^= 1 << uint(i%8)
	return c
}

func mustBytes(m interface{ MarshalBinary() ([]byte, error) }) []byte {
	b, err := m.MarshalBinary()
	if err != nil {
		panic(err)
	}
	return b
}

func msgOfLen(r *vh.Rng, quickLens []int, thorough bool) []byte {
	n := quickLens[r.Intn(len(quickLens))]
	if thorough && r.Chance(30) {
		n = r.Intn(4097)
	}
	return r.Bytes(n)
}

var msgLens = []int{0, 1, 2, 31, 32, 33, 63, 64, 65, 100, 127, 128, 129, 1000, 4095, 4096}

// ------------------------------------------------------------------ Schnorr, real groups

// schnorrVerify runs Verify under panic capture: ok = accepted.
func schnorrVerify(g kyber.Group, pub kyber.Point, msg, sig []byte) (ok bool, panicked bool) {
	p, _ := vh.Try(func() { ok = schnorr.Verify(g, pub, msg, sig) == nil })
	if p {
		return false, true
	}
	return ok, false
}

func (h *H) schnorrReal(n int) {
	for _, ng := range realGroups() {
		g := ng.g
		q := groupOrder(g)
		plen, slen := g.PointLen(), g.ScalarLen()
		reps := n
		if strings.Contains(ng.name, "GT") || ng.name == "qr512" {
			reps = (n + 3) / 4 // slow groups
		}
		for it := 0; it < reps; it++ {
			r := h.rng.Fork()
			x := g.Scalar().Pick(vh.NewSeqStream(r.Bytes(16)))
			pub := g.Point().Mul(x, nil)
			msg := msgOfLen(r, msgLens, h.o.Thorough)
			seed := r.Bytes(16)
			var sig []byte
			var err error
			if p, m := vh.Try(func() { sig, err = schnorr.Sign(&gsuite{g, vh.NewSeqStream(seed)}, x, msg) }); p || err != nil {
				h.rep.Fail("schnorr.Sign/fails:"+ng.name, fmt.Sprint("Sign panicked or failed: ", m, err), map[string]string{"group": ng.name, "msg": vh.Hex(msg)})
				continue
			}
			h.rep.Count("schnorr-real:"+ng.name+vh.Hex(sig), true)
			h.rep.Dist("schnorr-real:" + ng.name)
			replay := map[string]string{"group": ng.name, "x": vh.ScalarVal(x).String(), "msg": vh.Hex(msg), "stream_seed": vh.Hex(seed), "sig": vh.Hex(sig)}
			if len(sig) != plen+slen {
				h.rep.Fail("schnorr.Sign/length:"+ng.name, "signature length is not PointLen+ScalarLen", replay)
				continue
			}
			// exact prediction: k is the first scalar picked from the stream
			k := g.Scalar().Pick(vh.NewSeqStream(seed))
			Rb := mustBytes(g.Point().Mul(k, nil))
			if !bytes.Equal(Rb, sig[:plen]) {
				h.rep.Fail("schnorr.Sign/R-not-kB:"+ng.name, "first half of the signature is not the encoding of k*B", replay)
			}
			hv := hashInt(g, sha(Rb, mustBytes(pub), msg))
			sp := new(big.Int).Mul(hv, vh.ScalarVal(x))
			sp.Add(sp, vh.ScalarVal(k)).Mod(sp, q)
			so := g.Scalar()
			if err := so.UnmarshalBinary(sig[plen:]); err != nil || vh.ScalarVal(so).Cmp(sp) != 0 {
				replay["predicted_s"] = sp.String()
				h.rep.Fail("schnorr.Sign/s-not-k+hx:"+ng.name, "response differs from (k + SHA512(R||A||m)*x) mod q", replay)
			}
			if ok, _ := schnorrVerify(g, pub, msg, sig); !ok {
				h.rep.Fail("schnorr.Verify/honest-rejected:"+ng.name, "honest signature rejected", replay)
				continue
			}
			// tamper families: every semantically different input must be rejected
			tam := func(key string, pub2 kyber.Point, msg2, sig2 []byte) {
				ok, pan := schnorrVerify(g, pub2, msg2, sig2)
				if pan {
					h.rep.Dist("schnorr-real:verify-panicked:" + ng.name)
				}
				if !ok {
					return
				}
				// accepted: is it the same signature semantically (another encoding)?
				same := len(sig2) == len(sig) && bytes.Equal(msg2, msg) && pub2.Equal(pub)
				if same {
					R1, R2 := g.Point(), g.Point()
					s1, s2 := g.Scalar(), g.Scalar()
					e1 := R1.UnmarshalBinary(sig[:plen])
					e2 := R2.UnmarshalBinary(sig2[:plen])
					e3 := s1.UnmarshalBinary(sig[plen:])
					e4 := s2.UnmarshalBinary(sig2[plen:])
					same = e1 == nil && e2 == nil && e3 == nil && e4 == nil && R1.Equal(R2) &&
						vh.ScalarVal(s1).Cmp(vh.ScalarVal(s2)) == 0
				}
				rp := map[string]string{"group": ng.name, "pub": vh.Hex(mustBytes(pub2)), "msg": vh.Hex(msg2), "sig": vh.Hex(sig2), "honest_sig": vh.Hex(sig), "honest_msg": vh.Hex(msg)}
				if same {
					if ng.name == "edwards25519" {
						h.rep.Fail("schnorr.Verify/second-encoding-accepted:edwards25519", "a different byte string of the same (R,s) is accepted on Ed25519", rp)
					} else {
						h.rep.Dist("schnorr-real:alternate-encoding-accepted:" + ng.name)
					}
					return
				}
				h.rep.Fail("schnorr.Verify/"+key+":"+ng.name, "tampered input accepted", rp)
			}
			nflip := 24
			if h.o.Thorough || h.o.Search {
				nflip = 96
			}
			for f := 0; f < nflip; f++ {
				tam("bitflip-sig-accepted", pub, msg, flipBit(sig, r.Intn(8*len(sig))))
			}
			if len(msg) > 0 {
				tam("bitflip-msg-accepted", pub, flipBit(msg, r.Intn(8*len(msg))), sig)
				tam("truncated-msg-accepted", pub, msg[:len(msg)-1], sig)
			}
			tam("extended-msg-accepted", pub, append(append([]byte{}, msg...), 0), sig)
			tam("truncated-sig-accepted", pub, msg, sig[:len(sig)-1])
			tam("extended-sig-accepted", pub, msg, append(append([]byte{}, sig...), 0))
			x2 := g.Scalar().Pick(vh.NewSeqStream(r.Bytes(16)))
			tam("wrong-key-accepted", g.Point().Mul(x2, nil), msg, sig)
			// s+1, R+B
			s1 := g.Scalar().Add(so, g.Scalar().One())
			tam("s-plus-1-accepted", pub, msg, append(append([]byte{}, sig[:plen]...), mustBytes(s1)...))
			R1 := g.Point().Add(g.Point().Mul(k, nil), g.Point().Base())
			tam("R-plus-B-accepted", pub, msg, append(mustBytes(R1), sig[plen:]...))
		}
	}
}

// ------------------------------------------------------------------ main

func main() {
	o := vh.ParseFlags()
	rep := vh.NewReport("C08", o.Seed, o.Tier)
	rng := vh.NewRng(o.Seed)
	h := &H{o: o, rep: rep, rng: rng}
	h.reg = newEdReg(rng.Fork())
	rep.Rule = "distinct signed (key, message, nonce) triples and distinct tampered (key, message, signature) triples; " +
		"a case is non-trivial when it runs a signer or a verifier of sign/schnorr, sign/eddsa or sign/anon (or one of the byte-level guards) on it"

	all := []int{1, 2, 3, 4, 5, 6, 7, 8}
	switch {
	case o.Search:
		// oracles only, many more inputs
		h.schnorrReal(12)
		h.eddsaAll(120, false, 512, 3, 0, 0, 3)
		h.predCases(4000)
		h.ringOracle("edwards25519", edRingSuite, all, 1)
		h.ringOracle("dlog", dlogRingSuite, all, 1)
		h.eddsaReuse(600)
		h.schnorrPointReuse(16)
		h.ringReuse("edwards25519", edRingSuite, 600)
		h.ringReuse("dlog", dlogRingSuite, 300)
	case o.Thorough:
		h.eddsaReuse(400)
		h.schnorrPointReuse(12)
		h.ringReuse("edwards25519", edRingSuite, 400)
		h.ringReuse("dlog", dlogRingSuite, 200)
		h.schnorrReal(8)
		h.eddsaAll(200, true, 512, 25, 40, 1400, 3)
		h.predCases(3000)
		h.ringOracle("edwards25519", edRingSuite, all, 1)
		h.schnorrDlogCases(150)
		h.sch25519SignCases(60)
		h.ringDlogCases(all, 1)
	default:
		h.eddsaReuse(80)
		h.schnorrPointReuse(5)
		h.ringReuse("edwards25519", edRingSuite, 100)
		h.ringReuse("dlog", dlogRingSuite, 40)
		h.schnorrReal(2)
		h.eddsaAll(200, true, 48, 60, 5, 120, 12)
		h.predCases(300)
		h.ringOracle("edwards25519", edRingSuite, all, 3)
		h.schnorrDlogCases(16)
		h.sch25519SignCases(20)
		h.ringDlogCases(all, 3)
	}
	if !o.Search {
		vh.WriteShards(o.Out, "c08", &vh.CaseFile{Header: "From Kyber Require Import Sig.SigRun.", Type: "case", Runner: "mismatches", Items: h.items}, 125, rep)
	}
	for _, s := range []string{"schnorr-real:edwards25519", "eddsa-sign", "case:eddsa-verify", "case:ring-dlog-verify"} {
		rep.Sample(map[string]interface{}{"class": s, "count": rep.Distribution[s]})
	}
	rep.Write(o.Out)
}

var _ = errors.New
var _ = ed25519.Sign
var _ = eddsa.Verify
var _ = anon.Sign
