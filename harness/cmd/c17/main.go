// Correspondence + oracle harness for property C17: Pick, Embed and the
// hash-to-group functions give group members, deterministically; Embed/Data is
// lossless; the RFC 9380 functions reproduce the RFC's vectors.
package main

import (
	"bytes"
	"crypto/sha256"
	"crypto/sha512"
	"encoding/hex"
	"fmt"
	"hash"
	"math/big"
	"os"
	"runtime/pprof"
	"strings"

	"go.dedis.ch/kyber/v4"
	"go.dedis.ch/kyber/v4/group/edwards25519"
	"go.dedis.ch/kyber/v4/group/edwards25519vartime"
	"go.dedis.ch/kyber/v4/group/p256"
	"go.dedis.ch/kyber/v4/pairing/bls12381/circl"
	"go.dedis.ch/kyber/v4/pairing/bls12381/gnark"
	"go.dedis.ch/kyber/v4/pairing/bls12381/kilic"
	"go.dedis.ch/kyber/v4/pairing/bn254"
	"go.dedis.ch/kyber/v4/pairing/bn256"
	rabin "go.dedis.ch/kyber/v4/share/vss/rabin"
	"go.dedis.ch/kyber/v4/sign/anon"
	"go.dedis.ch/kyber/v4/xof/blake2xb"

	"kyverif/grpprog"
	"kyverif/vh"
)

// ---------------------------------------------------------------- streams

// tape is a cipher.Stream delivering a fixed byte string and counting.
type tape struct {
	buf []byte
	pos int
}

func (t *tape) XORKeyStream(dst, src []byte) {
	for i := range src {
		dst[i] = src[i] ^ t.buf[t.pos]
		t.pos++
	}
}

const tapeLen = 1 << 13

func xofBytes(seed []byte, n int) []byte {
	b := make([]byte, n)
	blake2xb.New(seed).XORKeyStream(b, b)
	return b
}

// mkTape builds the stream bytes of one class.
func mkTape(r *vh.Rng, class string, cand int) []byte {
	b := xofBytes(r.Bytes(16), tapeLen)
	k := (1 + r.Intn(4)) * cand
	switch class {
	case "zero":
		for i := 0; i < k; i++ {
			b[i] = 0
		}
	case "ff":
		for i := 0; i < k; i++ {
			b[i] = 0xff
		}
	case "zero-partial": // leading zero bytes: short big-endian coordinates, small little-endian tails
		for i := 0; i < 1+r.Intn(12); i++ {
			b[i] = 0
		}
		if r.Intn(2) == 0 {
			for i := 0; i < 1+r.Intn(6); i++ {
				b[cand-1-i] = 0
			}
		}
	case "ff-partial": // high bytes 0xff, then random: candidates just below / above the modulus
		for i := 0; i < 4+r.Intn(12); i++ {
			b[i] = 0xff
		}
	}
	return b
}

// ---------------------------------------------------------------- groups

type eg struct {
	name  string
	g     kyber.Group
	vt    bool
	model string   // "ed" | "p256" | "bn256" | "qr" | ""
	cand  int      // stream bytes per candidate
	qrP   *big.Int // residue groups: modulus and subgroup order, for the independent membership test
	qrQ   *big.Int
	light bool // expensive group: one run per case, no repetitions
}

// receiver histories: the point Embed/Pick/Hash writes into
var recvKinds = []string{"fresh", "base", "null", "random-multiple", "previous-pick", "unmarshalled"}

// dirty puts the receiver into one of the histories.
func dirty(e eg, P kyber.Point, kind int) {
	vh.Try(func() {
		switch recvKinds[kind%len(recvKinds)] {
		case "base":
			P.Base()
		case "null":
			P.Null()
		case "random-multiple":
			P.Mul(e.g.Scalar().Pick(&tape{buf: xofBytes([]byte{byte(kind), 7}, 4096)}), nil)
		case "previous-pick":
			P.Pick(&tape{buf: xofBytes([]byte{byte(kind), 9}, 4096)})
		case "unmarshalled":
			b, _ := e.point().Mul(e.g.Scalar().Pick(&tape{buf: xofBytes([]byte{byte(kind), 11}, 4096)}), nil).MarshalBinary()
			_ = P.UnmarshalBinary(b)
		}
	})
}

func (e eg) point() kyber.Point {
	p := e.g.Point()
	if e.vt {
		if a, ok := p.(kyber.AllowsVarTime); ok {
			a.AllowVarTime(true)
		}
	}
	return p
}

func unsupported(msg string) bool {
	return strings.Contains(msg, "unsupported") || strings.Contains(msg, "not implemented")
}

var orders = map[string]*big.Int{}

func order(name string, g kyber.Group) *big.Int {
	if q, ok := orders[name]; ok {
		return q
	}
	q := grpprog.Order(g)
	orders[name] = q
	return q
}

// inGroup: q*P == O computed as (q-1)*P + P (scalars are reduced modulo q).
func inGroup(e eg, P kyber.Point) (ok bool, why string) {
	q := order(e.name, e.g)
	pan, msg := vh.Try(func() {
		s := grpprog.MkScalar(e.g, new(big.Int).Sub(q, big.NewInt(1)))
		R := e.point().Mul(s, P)
		R = e.point().Add(R, P)
		ok = R.Equal(e.point().Null())
	})
	if pan {
		return false, "panic in (q-1)*P + P: " + msg
	}
	if !ok {
		return false, "q*P != O"
	}
	return true, ""
}

var (
	edP, _    = new(big.Int).SetString("57896044618658097711785492504343953926634992332820282019728792003956564819949", 10)
	p256P     = new(big.Int).Set(p256CurveP())
	bn256P, _ = new(big.Int).SetString("65000549695646603732796438742359905742825358107623003571877145026864184071783", 10)
)

var (
	edL, _    = new(big.Int).SetString("7237005577332262213973186563042994240857116359379907606001950938285454250989", 10)
	p256N, _  = new(big.Int).SetString("115792089210356248762697446949407573529996955224135760342422259061068512044369", 10)
	bn256N, _ = new(big.Int).SetString("65000549695646603732796438742359905742570406053903786389881062969044166799969", 10)
)

// boundaryInts: 0,1,2, a window around every modulus, powers of two around the candidate width.
func boundaryInts(width int, mods []*big.Int) []*big.Int {
	var vs []*big.Int
	add := func(v *big.Int) {
		if v.Sign() < 0 || v.BitLen() > 8*width {
			return
		}
		for _, w := range vs {
			if w.Cmp(v) == 0 {
				return
			}
		}
		vs = append(vs, new(big.Int).Set(v))
	}
	for i := int64(0); i <= 2; i++ {
		add(big.NewInt(i))
	}
	for _, m := range mods {
		for d := int64(-2); d <= 2; d++ {
			add(new(big.Int).Add(m, big.NewInt(d)))
		}
		// twice the modulus and modulus + 2^k wrap candidates
		add(new(big.Int).Lsh(m, 1))
		add(new(big.Int).Add(new(big.Int).Lsh(m, 1), big.NewInt(1)))
	}
	one := big.NewInt(1)
	for _, k := range []int{8*width - 1, 8 * width, 8*width - 2, 8*width - 8} {
		pw := new(big.Int).Lsh(one, uint(k))
		add(new(big.Int).Sub(pw, one))
		add(pw)
		add(new(big.Int).Add(pw, one))
	}
	for _, m := range mods[:1] {
		bl := m.BitLen()
		pw := new(big.Int).Lsh(one, uint(bl))
		add(new(big.Int).Sub(pw, one))
		add(pw)
		add(new(big.Int).Lsh(one, uint(bl-1)))
	}
	return vs
}

// boundaryBlocks: one candidate block per boundary integer in the group's candidate layout.
func boundaryBlocks(e eg, mods []*big.Int) [][]byte {
	width := e.cand
	if e.model == "p256" {
		width = 32
	}
	var out [][]byte
	for _, v := range boundaryInts(width, mods) {
		b := v.FillBytes(make([]byte, width))
		if e.model == "ed" { // little-endian y with the sign of x in the top bit
			for i, j := 0, len(b)-1; i < j; i, j = i+1, j-1 {
				b[i], b[j] = b[j], b[i]
			}
			out = append(out, b)
			if b[31]&0x80 == 0 {
				c := append([]byte{}, b...)
				c[31] |= 0x80
				out = append(out, c)
			}
			continue
		}
		out = append(out, b)
	}
	if e.model == "ed" {
		// non-canonical encodings p+y of small y (y = 0, 1: order 4 and the identity), points of
		// order 2, 4, 8 and their sign variants
		for y := int64(3); y <= 18; y += 5 {
			b := new(big.Int).Add(edP, big.NewInt(y)).FillBytes(make([]byte, 32))
			for i, j := 0, 31; i < j; i, j = i+1, j-1 {
				b[i], b[j] = b[j], b[i]
			}
			out = append(out, b)
		}
		for _, h := range []string{
			"26e8958fc2b227b045c3f489f2ef98f0d5dfac05d3c63339b13802886d53fc05",
			"c7176a703d4dd84fba3c0b760d10670f2a2053fa2c39ccc64ec7fd7792ac037a",
			"26e8958fc2b227b045c3f489f2ef98f0d5dfac05d3c63339b13802886d53fc85",
			"c7176a703d4dd84fba3c0b760d10670f2a2053fa2c39ccc64ec7fd7792ac03fa",
		} {
			out = append(out, mustHex(h))
		}
	}
	return out
}

func randPrime(r *vh.Rng, bits int) *big.Int {
	for {
		v := new(big.Int).SetBytes(r.Bytes((bits + 7) / 8))
		v.SetBit(v, bits-1, 1)
		for i := v.BitLen() - 1; i >= bits; i-- {
			v.SetBit(v, i, 0)
		}
		v.SetBit(v, 0, 1)
		if v.ProbablyPrime(32) {
			return v
		}
	}
}

func p256CurveP() *big.Int {
	v, _ := new(big.Int).SetString("115792089210356248762697446949407573530086143415290314195533631308867097853951", 10)
	return v
}

// independent check of the encoding: coordinates canonical and on the curve
func coordCheck(model string, enc []byte) string {
	switch model {
	case "p256":
		if len(enc) != 65 || enc[0] != 4 {
			return "bad encoding"
		}
		x, y := new(big.Int).SetBytes(enc[1:33]), new(big.Int).SetBytes(enc[33:])
		if x.Cmp(p256P) >= 0 {
			return "x >= p"
		}
		if y.Cmp(p256P) >= 0 {
			return "y >= p"
		}
		b, _ := new(big.Int).SetString("41058363725152142129326129780047268409114441015993725554835256314039467401291", 10)
		rhs := new(big.Int).Exp(x, big.NewInt(3), p256P)
		rhs.Sub(rhs, new(big.Int).Mul(x, big.NewInt(3)))
		rhs.Add(rhs, b).Mod(rhs, p256P)
		if new(big.Int).Exp(y, big.NewInt(2), p256P).Cmp(rhs) != 0 {
			return "not on the curve"
		}
	case "bn256":
		if len(enc) != 64 {
			return "bad encoding"
		}
		x, y := new(big.Int).SetBytes(enc[:32]), new(big.Int).SetBytes(enc[32:])
		if x.Sign() == 0 && y.Sign() == 0 {
			return "" // the identity (Pick with the scalar 0) is a member
		}
		if x.Cmp(bn256P) >= 0 {
			return "x >= p"
		}
		if y.Cmp(bn256P) >= 0 {
			return "y >= p"
		}
		rhs := new(big.Int).Exp(x, big.NewInt(3), bn256P)
		rhs.Add(rhs, big.NewInt(3)).Mod(rhs, bn256P)
		if new(big.Int).Exp(y, big.NewInt(2), bn256P).Cmp(rhs) != 0 {
			return "not on the curve"
		}
	case "ed":
		if len(enc) != 32 {
			return "bad encoding"
		}
		le := make([]byte, 32)
		for i := range enc {
			le[31-i] = enc[i]
		}
		le[0] &= 0x7f
		y := new(big.Int).SetBytes(le)
		if y.Cmp(edP) >= 0 {
			return "y >= p"
		}
		// x^2 = (y^2 - 1) / (d y^2 + 1) must be a square
		d := new(big.Int).Mul(big.NewInt(-121665), new(big.Int).ModInverse(big.NewInt(121666), edP))
		d.Mod(d, edP)
		yy := new(big.Int).Mul(y, y)
		u := new(big.Int).Sub(yy, big.NewInt(1))
		v := new(big.Int).Mul(d, yy)
		v.Add(v, big.NewInt(1)).Mod(v, edP)
		u.Mul(u, new(big.Int).ModInverse(v, edP)).Mod(u, edP)
		if new(big.Int).ModSqrt(u, edP) == nil {
			return "not on the curve"
		}
	}
	return ""
}

// qrMember: independent (math/big) membership test of a residue-group element: 0 < v < P and v^Q = 1 (mod P).
func qrMember(e eg, enc []byte) string {
	if e.qrP == nil {
		return ""
	}
	v := new(big.Int).SetBytes(enc)
	if v.Sign() <= 0 || v.Cmp(e.qrP) >= 0 {
		return "element not in (0, P)"
	}
	if new(big.Int).Exp(v, e.qrQ, e.qrP).Cmp(big.NewInt(1)) != 0 {
		return "v^Q != 1 (mod P): not in the subgroup of order Q"
	}
	return ""
}

// length field of a point, read from its encoding
func lengthField(model string, enc []byte) (int, bool) {
	switch model {
	case "ed":
		return int(enc[0]), true
	case "p256":
		return int(enc[32]), true
	case "bn256":
		if bytes.Equal(enc, make([]byte, len(enc))) {
			return 0, false // identity: carries no length field
		}
		return int(enc[0]), true
	case "qr":
		return int(enc[len(enc)-2])<<8 + int(enc[len(enc)-1]), true
	}
	return 0, false
}

// ---------------------------------------------------------------- Embed / Pick

type eres struct {
	ok        bool // no panic
	pt        []byte
	used      int
	dat       []byte
	datErr    bool
	dat2      []byte
	dat2Err   bool
	noData    bool   // Data() is not supported by the group
	datAgain  []byte // Data() called a second time
	datAgainE bool
	datClone  []byte // Clone().Data()
	datCloneE bool
	encAfter  []byte // MarshalBinary after the Data() calls
	recv      string
}

func runEmbed(e eg, data []byte, pick bool, buf []byte, recv int) (res eres, P kyber.Point, msg string) {
	t := &tape{buf: buf}
	P = e.point()
	res.recv = recvKinds[recv%len(recvKinds)]
	if recv%len(recvKinds) != 0 {
		dirty(e, P, recv)
	}
	// the callee gets its own copy of the data, which is overwritten after the call:
	// the point must not alias the caller's buffer
	var arg []byte
	if data != nil {
		arg = append(make([]byte, 0, len(data)+8), data...)
	}
	pan, m := vh.Try(func() {
		if pick {
			P.Pick(t)
		} else {
			P.Embed(arg, t)
		}
	})
	if pan {
		return res, nil, m
	}
	for i := range arg {
		arg[i] ^= 0xa5
	}
	res.ok = true
	res.used = t.pos
	pan, m = vh.Try(func() { res.pt, _ = P.MarshalBinary() })
	if pan {
		res.ok = false
		return res, P, m
	}
	pan, m = vh.Try(func() {
		d, err := P.Data()
		res.dat, res.datErr = append([]byte{}, d...), err != nil
		P2 := e.point()
		if recv%2 == 1 {
			dirty(e, P2, recv+1)
		}
		if err := P2.UnmarshalBinary(res.pt); err != nil {
			res.dat2Err = true
			res.dat2 = []byte("unmarshal:" + err.Error())
		} else {
			d2, err := P2.Data()
			res.dat2, res.dat2Err = append([]byte{}, d2...), err != nil
		}
		d3, err := P.Data()
		res.datAgain, res.datAgainE = append([]byte{}, d3...), err != nil
		d4, err := P.Clone().Data()
		res.datClone, res.datCloneE = append([]byte{}, d4...), err != nil
		res.encAfter, _ = P.MarshalBinary()
	})
	if pan && !unsupported(m) {
		res.ok = false
		return res, P, m
	}
	res.noData = pan
	return res, P, ""
}

func coqData(data []byte) string {
	if data == nil {
		return "None"
	}
	return "(Some " + vh.CoqBytes(data) + ")"
}

func coqOpt(b []byte, isErr bool) string {
	if isErr {
		return "None"
	}
	return "(Some " + vh.CoqBytes(b) + ")"
}

func (r eres) coq(data []byte, buf []byte, cand int) string {
	n := r.used + 2*cand + 2
	if n > len(buf) {
		n = len(buf)
	}
	return fmt.Sprintf("(mkE %s %s %s %d %s %s)", coqData(data), vh.CoqBytes(buf[:n]), vh.CoqBytes(r.pt), r.used,
		coqOpt(r.dat, r.datErr), coqOpt(r.dat2, r.dat2Err))
}

type ctx struct {
	calls int
	rep   *vh.Report
	seen  map[string]map[string]string // group -> point bytes -> data (distinctness)
}

// embedOracle runs one Embed/Pick and evaluates the property on it.
func (c *ctx) embedOracle(e eg, data []byte, pick bool, buf []byte, class string) (eres, bool) {
	rep := c.rep
	op := "Embed"
	if pick {
		op = "Pick"
	}
	in := map[string]interface{}{"group": e.name, "op": op, "data": hexOrNil(data[:min(len(data), 64)]), "data_len": len(data), "stream_class": class, "stream_prefix": vh.Hex(buf[:4*e.cand])}
	c.calls++
	recv := c.calls % len(recvKinds)
	res, P, msg := runEmbed(e, data, pick, buf, recv)
	in["receiver"] = recvKinds[recv]
	if !res.ok {
		if unsupported(msg) {
			rep.Dist("unsupported:" + e.name + "." + op)
			return res, false
		}
		in["panic"] = msg
		rep.Fail(e.name+"."+op+"/panic", "Embed/Pick or Marshal/Data of its result panicked", in)
		return res, false
	}
	in["point"] = vh.Hex(res.pt)
	in["consumed"] = res.used
	rep.Dist(e.name + "." + op + ":" + class)
	rep.Dist("config:" + e.name)
	rep.Dist("receiver:" + recvKinds[recv])
	el := 0
	vh.Try(func() { el = e.point().EmbedLen() })
	rep.Dist("len:" + lenClass(data, el))
	rep.Dist(fmt.Sprintf("candidates:%s:%d", e.model, min(res.used/e.cand, 12)))
	// membership
	if why := coordCheck(e.model, res.pt); why != "" {
		in["why"] = why
		rep.Fail(e.name+"."+op+"/coordinate-out-of-range-or-off-curve", "the returned point has a non-canonical coordinate or is not on the curve: "+why, in)
	}
	if why := qrMember(e, res.pt); why != "" {
		in["why"] = why
		rep.Fail(e.name+"."+op+"/not-in-group", "independent membership test of the residue-group element failed: "+why, in)
	}
	if ok, why := inGroup(e, P); !ok {
		in["why"] = why
		rep.Fail(e.name+"."+op+"/not-in-group", "q*P != O for the returned point (or the point cannot be multiplied): "+why, in)
	}
	// determinism: same bytes => same point and same consumption; bytes after the consumed prefix are irrelevant
	buf2 := append([]byte{}, buf...)
	for i := res.used; i < len(buf2) && i < res.used+256; i++ {
		buf2[i] ^= 0x5a
	}
	if e.light {
		goto lossless
	}
	{
		res2 := res
		if c.calls%2 == 0 || len(data) <= 64 && e.name != "ed25519vartime-pkg" {
			res2, _, _ = runEmbed(e, data, pick, buf2, recv)
		}
		if !res2.ok || !bytes.Equal(res2.pt, res.pt) || res2.used != res.used {
			in["second"] = vh.Hex(res2.pt)
			rep.Fail(e.name+"."+op+"/not-a-function-of-consumed-bytes", "a second run on a stream with the same consumed prefix gave another point or consumption", in)
		}
		// ... nor is the previous content of the receiver
		other := 0
		if recv == 0 {
			other = 1 + c.calls%(len(recvKinds)-1)
		}
		res3, _, _ := runEmbed(e, data, pick, buf, other)
		if !res3.ok || !bytes.Equal(res3.pt, res.pt) || res3.used != res.used || !bytes.Equal(res3.dat, res.dat) || res3.datErr != res.datErr {
			in["other_receiver"], in["other_point"] = recvKinds[other], vh.Hex(res3.pt)
			rep.Fail(e.name+"."+op+"/depends-on-receiver", "the result depends on what the receiver held before the call", in)
		}
		// a stream object used for two calls in a row: the second call continues where the first stopped
		if c.calls%4 == 0 {
			t := &tape{buf: buf}
			var Pa, Pb kyber.Point
			pan, _ := vh.Try(func() {
				Pa, Pb = e.point(), e.point()
				if pick {
					Pa.Pick(t)
					Pb.Pick(t)
				} else {
					Pa.Embed(data, t)
					Pb.Embed(data, t)
				}
			})
			resb, _, _ := runEmbed(e, data, pick, buf[res.used:], 0)
			if pan || !resb.ok || !bytes.Equal(enc(Pa), res.pt) || !bytes.Equal(enc(Pb), resb.pt) || t.pos != res.used+resb.used {
				rep.Fail(e.name+"."+op+"/stream-reuse-differs", "two calls on one stream object differ from the calls on the split stream", in)
			}
			rep.Dist("receiver:stream-reused")
		}
		// Data() is stable: second call, clone, and it does not change the encoding
		if !res.noData {
			if res.datAgainE != res.datErr || !bytes.Equal(res.datAgain, res.dat) {
				rep.Fail(e.name+".Data/second-call-differs", "Data() called twice gave two answers", in)
			}
			if res.datCloneE != res.datErr || !bytes.Equal(res.datClone, res.dat) {
				rep.Fail(e.name+".Data/clone-differs", "Data() of a Clone differs", in)
			}
			if !bytes.Equal(res.encAfter, res.pt) {
				rep.Fail(e.name+".Data/changes-encoding", "the encoding of the point changed by calling Data()", in)
			}
		}
	}
lossless:
	// lossless
	if data != nil {
		el := e.point().EmbedLen()
		want := data
		if len(want) > el {
			want = want[:el]
		}
		if res.datErr || !bytes.Equal(res.dat, want) {
			in["Data"] = hexOrErr(res.dat, res.datErr)
			rep.Fail(e.name+".Embed/Data-differs", "Data() of the embedded point is not the stored data", in)
		}
		if res.dat2Err || !bytes.Equal(res.dat2, want) {
			in["DataAfterCodec"] = hexOrErr(res.dat2, res.dat2Err)
			rep.Fail(e.name+".Embed/Data-after-codec-differs", "Data() after MarshalBinary/UnmarshalBinary is not the stored data", in)
		}
		// different data => different points
		key := fmt.Sprintf("%d:%s", len(want), vh.Hex(want))
		if prev, ok := c.seen[e.name][string(res.pt)]; ok && prev != key {
			rep.Fail(e.name+".Embed/collision", "two different data strings gave the same point", in)
		}
		if c.seen[e.name] == nil {
			c.seen[e.name] = map[string]string{}
		}
		c.seen[e.name][string(res.pt)] = key
	}
	// Data must report an error exactly for length fields out of range
	if lf, ok := lengthField(e.model, res.pt); ok {
		el := e.point().EmbedLen()
		if lf > el && !res.datErr {
			rep.Fail(e.name+".Data/no-error-for-length-out-of-range", fmt.Sprintf("length field %d > EmbedLen %d but Data() returned no error", lf, el), in)
		}
		if lf <= el && (res.datErr || len(res.dat) != lf) {
			rep.Fail(e.name+".Data/wrong-length", fmt.Sprintf("length field %d <= EmbedLen %d but Data() failed or returned %d bytes", lf, el, len(res.dat)), in)
		}
		if res.datErr {
			rep.Dist("data-error:" + e.model)
		} else {
			rep.Dist("data-ok:" + e.model)
		}
	}
	return res, true
}

func lenClass(data []byte, el int) string {
	switch n := len(data); {
	case data == nil:
		return "nil"
	case n == 0:
		return "0 (empty, non-nil)"
	case n == 1:
		return "1"
	case n < el-1:
		return "2..EmbedLen-2"
	case n == el-1:
		return "EmbedLen-1"
	case n == el:
		return "EmbedLen"
	case n == el+1:
		return "EmbedLen+1"
	case n <= el+8:
		return "EmbedLen+2..+8"
	case n < 65535:
		return "255..65534"
	default:
		return ">=65535"
	}
}

func hexOrNil(b []byte) string {
	if b == nil {
		return "nil"
	}
	return "0x" + vh.Hex(b)
}
func hexOrErr(b []byte, e bool) string {
	if e {
		return "error " + string(b)
	}
	return vh.Hex(b)
}

// retryTape searches a stream on which the first j candidates are refused.
func retryTape(r *vh.Rng, e eg, data []byte, pick bool, j int) []byte {
	var best []byte
	bu := -1
	for try := 0; try < 400; try++ {
		buf := mkTape(r, "xof", e.cand)
		res, _, _ := runEmbed(e, data, pick, buf, 0)
		if !res.ok {
			return buf
		}
		if res.used > bu {
			best, bu = buf, res.used
		}
		if res.used >= (j+1)*e.cand {
			break
		}
	}
	return best
}

// ---------------------------------------------------------------- hash-to-group

type hgroup struct {
	eg
	hasDst bool
	hash   func(msg, dst []byte) kyber.Point
}

// hashRecv selects the history of the receiver the hash-to-group functions write into.
var hashRecv int

// further histories for hash-to-group: the receiver is itself the result of a hash, a clone
// of one, or was the receiver of an Add after being one
var hashKinds = []string{"hash-result", "clone-of-hash-result", "add-into-hash-result"}

func hashKindName(k int) string {
	if k < len(recvKinds) {
		return recvKinds[k]
	}
	return hashKinds[(k-len(recvKinds))%len(hashKinds)]
}

func callAnyHash(P kyber.Point, m []byte) kyber.Point {
	switch h := P.(type) {
	case interface{ Hash([]byte) kyber.Point }:
		return h.Hash(m)
	case interface {
		Hash([]byte, string) kyber.Point
	}:
		return h.Hash(m, "an earlier tag")
	case interface {
		Hash2(msg, dst []byte) kyber.Point
	}:
		return h.Hash2(m, []byte("an earlier tag"))
	}
	return nil
}

func hp(g kyber.Group, P kyber.Point) kyber.Point {
	k := hashRecv
	if k == 0 {
		return P
	}
	if k < len(recvKinds) {
		dirty(eg{name: "", g: g, cand: 32}, P, k)
		return P
	}
	var Q kyber.Point
	vh.Try(func() { Q = callAnyHash(P, []byte("an earlier message")) })
	if Q == nil {
		return P
	}
	switch hashKindName(k) {
	case "clone-of-hash-result":
		Q = Q.Clone()
	case "add-into-hash-result":
		vh.Try(func() { Q.Add(Q, g.Point().Base()) })
	}
	return Q
}

func hashGroups() []hgroup {
	ed := edwards25519.NewBlakeSHA256Ed25519()
	b256 := bn256.NewSuite()
	ci := circl.NewSuiteBLS12381()
	gn := gnark.NewSuiteBLS12381()
	ki := kilic.NewBLS12381Suite()
	type h1 interface{ Hash([]byte) kyber.Point }
	type h2 interface {
		Hash2(msg, dst []byte) kyber.Point
	}
	hs := []hgroup{
		{eg{"ed25519", ed, false, "ed", 32, nil, nil, false}, true, func(m, d []byte) kyber.Point {
			return hp(ed, ed.Point()).(interface {
				Hash([]byte, string) kyber.Point
			}).Hash(m, string(d))
		}},
		{eg{"bn256.G1", b256.G1(), false, "bn256", 32, nil, nil, false}, false, func(m, d []byte) kyber.Point { return hp(b256.G1(), b256.G1().Point()).(h1).Hash(m) }},
		{eg{"bn256.G1/HashG1", b256.G1(), false, "bn256", 32, nil, nil, false}, true, func(m, d []byte) kyber.Point { return bn256.HashG1(m, d) }},
		{eg{"bn254.G1", bn254.NewSuite().G1(), false, "", 32, nil, nil, false}, true, func(m, d []byte) kyber.Point {
			s := bn254.NewSuite()
			s.SetDomainG1(d)
			return hp(s.G1(), s.G1().Point()).(h1).Hash(m)
		}},
		{eg{"kilic.G1", ki.G1(), false, "", 32, nil, nil, false}, true, func(m, d []byte) kyber.Point {
			ks := kilic.NewBLS12381SuiteWithDST(d, d)
			return hp(ks.G1(), ks.G1().Point()).(h1).Hash(m)
		}},
		{eg{"kilic.G2", ki.G2(), false, "", 32, nil, nil, false}, true, func(m, d []byte) kyber.Point {
			ks := kilic.NewBLS12381SuiteWithDST(d, d)
			return hp(ks.G2(), ks.G2().Point()).(h1).Hash(m)
		}},
		{eg{"circl.G1", ci.G1(), false, "", 32, nil, nil, false}, true, func(m, d []byte) kyber.Point { return hp(ci.G1(), ci.G1().Point()).(h2).Hash2(m, d) }},
		{eg{"circl.G2", ci.G2(), false, "", 32, nil, nil, false}, true, func(m, d []byte) kyber.Point { return hp(ci.G2(), ci.G2().Point()).(h2).Hash2(m, d) }},
		{eg{"gnark.G1", gn.G1(), false, "", 32, nil, nil, false}, true, func(m, d []byte) kyber.Point { return hp(gn.G1(), gn.G1().Point()).(h2).Hash2(m, d) }},
		{eg{"gnark.G2", gn.G2(), false, "", 32, nil, nil, false}, true, func(m, d []byte) kyber.Point { return hp(gn.G2(), gn.G2().Point()).(h2).Hash2(m, d) }},
	}
	return hs
}

func enc(p kyber.Point) []byte {
	b, err := p.MarshalBinary()
	if err != nil {
		return []byte("ERR:" + err.Error())
	}
	return b
}

func (c *ctx) hashOracle(r *vh.Rng, h hgroup, n int) {
	rep := c.rep
	seen := map[string]string{}
	for i := 0; i < n; i++ {
		ml := r.Intn(301)
		dl := 1 + r.Intn(300)
		switch r.Intn(6) {
		case 0:
			ml = 0
		case 1:
			dl = 255 + r.Intn(3) // around the long-DST threshold
		case 2:
			dl = 1
		}
		msg, dst := r.Bytes(ml), r.Bytes(dl)
		if i == 0 {
			msg = []byte{}
		}
		in := map[string]interface{}{"group": h.name, "msg": vh.Hex(msg), "dst": vh.Hex(dst)}
		var P kyber.Point
		pan, m := vh.Try(func() { P = h.hash(msg, dst) })
		if pan {
			if dl > 255 && strings.Contains(m, "domain") {
				rep.Dist("hash-refuses-long-dst:" + h.name)
				continue
			}
			in["panic"] = m
			rep.Fail(h.name+".Hash/panic", "hash-to-group panicked", in)
			continue
		}
		b := enc(P)
		in["point"] = vh.Hex(b)
		rep.Dist("hash:" + h.name)
		rep.Count("hash/"+h.name+"/"+vh.Hex(msg)+"/"+vh.Hex(dst), true)
		if why := coordCheck(h.model, b); why != "" && h.model != "" {
			in["why"] = why
			rep.Fail(h.name+".Hash/coordinate-out-of-range-or-off-curve", why, in)
		}
		if ok, why := inGroup(h.eg, P); !ok {
			in["why"] = why
			rep.Fail(h.name+".Hash/not-in-group", "q*H(m) != O: "+why, in)
		}
		if b2 := enc(h.hash(append([]byte{}, msg...), append([]byte{}, dst...))); !bytes.Equal(b, b2) {
			rep.Fail(h.name+".Hash/nondeterministic", "the same message and tag gave two points", in)
		}
		// hashing into a receiver that already holds a point gives the same result
		for _, k := range []int{1 + i%(len(recvKinds)-1), len(recvKinds) + i%len(hashKinds)} {
			hashRecv = k
			var b3 []byte
			pan3, m3 := vh.Try(func() { b3 = enc(h.hash(msg, dst)) })
			rep.Dist("receiver:hash-into-" + hashKindName(k))
			hashRecv = 0
			if pan3 || !bytes.Equal(b, b3) {
				in["receiver"], in["other_point"], in["panic"] = hashKindName(k), vh.Hex(b3), m3
				rep.Fail(h.name+".Hash/depends-on-receiver", "hashing into a used receiver differs from hashing into a fresh point of the same suite", in)
			}
		}
		rep.Dist("config:hash:" + h.name)
		// different message (and, where the tag is an input, different tag) => different point
		key := vh.Hex(msg)
		if h.hasDst {
			key += "/" + vh.Hex(dst)
		}
		if prev, ok := seen[string(b)]; ok && prev != key {
			in["other"] = prev
			rep.Fail(h.name+".Hash/collision", "two different (message, tag) pairs gave the same point", in)
		}
		seen[string(b)] = key
		// neighbours: one bit of the message flipped / one byte appended / tag changed
		var alts [][2][]byte
		alts = append(alts, [2][]byte{append(append([]byte{}, msg...), 0), dst})
		if len(msg) > 0 {
			m2 := append([]byte{}, msg...)
			m2[r.Intn(len(m2))] ^= 1 << uint(r.Intn(8))
			alts = append(alts, [2][]byte{m2, dst})
		}
		if h.hasDst {
			d2 := append([]byte{}, dst...)
			d2[r.Intn(len(d2))] ^= 1 << uint(r.Intn(8))
			alts = append(alts, [2][]byte{msg, d2})
		}
		for _, a := range alts {
			var Q kyber.Point
			if pan, _ := vh.Try(func() { Q = h.hash(a[0], a[1]) }); pan {
				continue
			}
			if bytes.Equal(enc(Q), b) {
				in["other"] = vh.Hex(a[0]) + "/" + vh.Hex(a[1])
				rep.Fail(h.name+".Hash/collision", "a neighbouring (message, tag) pair gave the same point", in)
			}
		}
	}
}

// ---------------------------------------------------------------- RFC 9380

var rfcMsgs = []string{
	"", "abc", "abcdef0123456789",
	"q128_" + strings.Repeat("q", 128),
	"a512_" + strings.Repeat("a", 512),
}

// independent expand_message_xmd (RFC 9380 section 5.3.1); every hash call is logged.
type hlog struct {
	newH  func() hash.Hash
	calls [][2][]byte
}

func (l *hlog) H(parts ...[]byte) []byte {
	h := l.newH()
	var in []byte
	for _, p := range parts {
		h.Write(p)
		in = append(in, p...)
	}
	out := h.Sum(nil)
	l.calls = append(l.calls, [2][]byte{in, out})
	return out
}

// xmdRef computes the RFC's output; blocks says how many b_i to compute at least
// (the model needs the table entries kyber's longer loop asks for).
func xmdRef(l *hlog, msg, dst []byte, n int, blocks int) ([]byte, bool) {
	h := l.newH()
	bIn, sIn := h.Size(), h.BlockSize()
	ell := (n + bIn - 1) / bIn
	if ell > 255 || n > 65535 || len(dst) == 0 {
		return nil, false
	}
	if len(dst) > 255 {
		dst = l.H([]byte("H2C-OVERSIZE-DST-"), dst)
	}
	dstP := append(append([]byte{}, dst...), byte(len(dst)))
	b0 := l.H(make([]byte, sIn), msg, []byte{byte(n >> 8), byte(n)}, []byte{0}, dstP)
	bi := l.H(b0, []byte{1}, dstP)
	out := append([]byte{}, bi...)
	for i := 2; i <= ell || i <= blocks; i++ {
		x := make([]byte, len(b0))
		for j := range x {
			x[j] = b0[j] ^ bi[j]
		}
		bi = l.H(x, []byte{byte(i)}, dstP)
		out = append(out, bi...)
	}
	return out[:n], true
}

func coqTable(calls [][2][]byte) string {
	var es []string
	seen := map[string]bool{}
	for _, c := range calls {
		if seen[string(c[0])] {
			continue
		}
		seen[string(c[0])] = true
		es = append(es, "("+vh.CoqBytes(c[0])+", "+vh.CoqBytes(c[1])+")")
	}
	return vh.CoqList(es)
}

func mustHex(s string) []byte {
	b, err := hex.DecodeString(s)
	if err != nil {
		panic(err)
	}
	return b
}

func main() {
	if pf := os.Getenv("C17_PROF"); pf != "" {
		f, _ := os.Create(pf)
		pprof.StartCPUProfile(f)
		defer pprof.StopCPUProfile()
	}
	o := vh.ParseFlags()
	rng := vh.NewRng(o.Seed)
	rep := vh.NewReport("C17", o.Seed, o.Tier)
	rep.Rule = "Embed(data, stream) for every group supporting it, data = nil / empty / every length 0..EmbedLen+8 and long data (255..513, 65535..65537+EmbedLen, 2^17, 2^20+1, random up to 70000 bytes), streams = seeded BLAKE2Xb output with all-zero / all-0xff / 0xff-high-bytes prefixes, streams whose first candidates are refused, and streams whose first or second candidate block is a boundary value (0,1,2, p-2..p+2, 2p, group order +-2, 2^k, 2^k+-1, non-canonical and small-order Ed25519 encodings, each sign variant; also with data laid over it); groups incl. non-default configurations (residue groups p = r*q+1 with cofactor 4, 6, 30 built with SetParams, 64..160-bit q; quadratic-residue groups of 125/128/512 bits); every call writes into a receiver with a rotating history (fresh, Base, Null, random multiple, previous Pick, unmarshalled) and is repeated on another history, every fourth call is repeated as two calls on one stream object, the caller's data buffer is overwritten after Embed, Data() is called twice, on a Clone and after Marshal/Unmarshal; payloads with leading zero bytes on zero-prefixed streams; Pick on all 20 group instances; hash-to-group on every hashable group with messages 0..300 and tags 1..300 bytes. Oracles: q*P = O, canonical on-curve coordinates (independent big.Int check), same consumed bytes => same point, Data() = stored data before and after Marshal/Unmarshal, error for length fields > EmbedLen, distinct data/messages/tags => distinct points, RFC 9380 vectors. Model comparison: exact point bytes, stream bytes consumed, Data() results (Ed25519 x3, P-256, BN256 G1, QR-512), expand_message_xmd and edwards25519 Hash outputs. distinct = distinct (group, data, stream) or (group, message, tag); all are non-trivial"
	cf := &vh.CaseFile{Header: "From Kyber Require Import Embed.EmbedRun.", Type: "case", Runner: "mismatches"}
	c := &ctx{rep: rep, seen: map[string]map[string]string{}}
	id := 0
	emit := func(kind string, items []string, desc interface{}) {
		if len(items) == 0 {
			return
		}
		cf.Items = append(cf.Items, strings.Replace(kind, "#", fmt.Sprint(id), 1)+" "+vh.CoqList(items))
		rep.Index(id, desc)
		id++
	}
	mult := 1
	if o.Thorough {
		mult = 4
	}
	if o.Search {
		mult = 12
	}

	// ------------------------------------------------------------ Embed
	edS := edwards25519.NewBlakeSHA256Ed25519()
	qr := p256.NewBlakeSHA256QR512()
	mkQR := func(bits uint, seed string) *p256.ResidueGroup {
		g := new(p256.ResidueGroup)
		g.QuadraticResidueGroup(bits, &tape{buf: xofBytes([]byte(seed), 1<<18)})
		return g
	}
	qr128, qr125 := mkQR(128, "c17-qr128"), mkQR(125, "c17-qr125")
	// non-default configurations: Schnorr groups p = r*q + 1 with cofactor r > 2 (SetParams)
	mkDSA := func(seed uint64, qbits int, cof int64) *p256.ResidueGroup {
		r := vh.NewRng(seed)
		for {
			q := randPrime(r, qbits)
			pp := new(big.Int).Mul(q, big.NewInt(cof))
			pp.Add(pp, big.NewInt(1))
			if !pp.ProbablyPrime(32) {
				continue
			}
			for h := int64(2); ; h++ {
				gen := new(big.Int).Exp(big.NewInt(h), big.NewInt(cof), pp)
				if gen.Cmp(big.NewInt(1)) != 0 {
					g := new(p256.ResidueGroup)
					g.SetParams(pp, q, big.NewInt(cof), gen)
					return g
				}
			}
		}
	}
	dsaR4, dsaR6, dsaR30, dsa160 := mkDSA(4004, 64, 4), mkDSA(6006, 72, 6), mkDSA(3030, 80, 30), mkDSA(1604, 160, 4)
	qrEg := func(name string, g *p256.ResidueGroup) eg {
		return eg{name, g, false, "qr", g.PointLen(), g.P, g.Q, false}
	}
	embedGroups := []struct {
		impls  []eg
		kind   string
		per    int
		sparse bool // quick tier: only the edge lengths
		bnd    []*big.Int
	}{
		{[]eg{{"ed25519", edS, false, "ed", 32, nil, nil, false}, {"ed25519+vartime", edS, true, "ed", 32, nil, nil, false},
			{"ed25519vartime-pkg", edwards25519vartime.NewBlakeSHA256Ed25519(false), false, "ed", 32, nil, nil, false}}, "CEdEmbed #", 2, false, []*big.Int{edP, edL}},
		{[]eg{{"p256", p256.NewBlakeSHA256P256(), false, "p256", 33, nil, nil, false}}, "CWEmbed # 0", 20, false, []*big.Int{p256P, p256N}},
		{[]eg{{"bn256.G1", bn256.NewSuite().G1(), false, "bn256", 32, nil, nil, false}}, "CWEmbed # 1", 20, false, []*big.Int{bn256P, bn256N}},
		{[]eg{qrEg("qr512", &qr.ResidueGroup)}, "CQrEmbed # " + vh.CoqZ(qr.P) + " " + vh.CoqZ(qr.Q), 5, true, []*big.Int{qr.P, qr.Q}},
		{[]eg{qrEg("qr128", qr128)}, "CQrEmbed # " + vh.CoqZ(qr128.P) + " " + vh.CoqZ(qr128.Q), 25, false, []*big.Int{qr128.P, qr128.Q}},
		{[]eg{qrEg("qr125", qr125)}, "CQrEmbed # " + vh.CoqZ(qr125.P) + " " + vh.CoqZ(qr125.Q), 25, false, []*big.Int{qr125.P, qr125.Q}},
		{[]eg{qrEg("residue.R4-q64", dsaR4)}, "CQrEmbed # " + vh.CoqZ(dsaR4.P) + " " + vh.CoqZ(dsaR4.Q), 40, false, []*big.Int{dsaR4.P, dsaR4.Q}},
		{[]eg{qrEg("residue.R6-q72", dsaR6)}, "CQrEmbed # " + vh.CoqZ(dsaR6.P) + " " + vh.CoqZ(dsaR6.Q), 40, false, []*big.Int{dsaR6.P, dsaR6.Q}},
		{[]eg{qrEg("residue.R30-q80", dsaR30)}, "CQrEmbed # " + vh.CoqZ(dsaR30.P) + " " + vh.CoqZ(dsaR30.Q), 40, true, []*big.Int{dsaR30.P, dsaR30.Q}},
		{[]eg{qrEg("residue.R4-q160", dsa160)}, "CQrEmbed # " + vh.CoqZ(dsa160.P) + " " + vh.CoqZ(dsa160.Q), 40, false, []*big.Int{dsa160.P, dsa160.Q}},
	}
	classes := []string{"xof", "zero", "ff", "retry", "zero-partial", "ff-partial", "xof"}
	for _, gset := range embedGroups {
		e0 := gset.impls[0]
		el := e0.point().EmbedLen()
		var items []string
		flush := func() {
			emit(gset.kind, items, map[string]interface{}{"kind": "Embed/Pick", "group": e0.name, "items": len(items)})
			items = nil
		}
		n := 0
		per := gset.per
		// runAll runs one Embed/Pick on every implementation of the group, evaluates the
		// oracles, compares the implementations and queues the case for the model
		runAll := func(data []byte, pick bool, class string, buf []byte, toCoq bool) {
			var first eres
			for k, e := range gset.impls {
				res, ok := c.embedOracle(e, data, pick, buf, class)
				rep.Count(fmt.Sprintf("embed/%s/%s/%d/%s/%s", e.name, class, len(data), hexOrNil(data[:min(len(data), 40)]), vh.Hex(buf[:2*e.cand])), true)
				if !ok {
					continue
				}
				if k == 0 {
					first = res
				}
				if k == 0 || !bytes.Equal(res.pt, first.pt) || res.used != first.used || !bytes.Equal(res.dat, first.dat) || res.datErr != first.datErr || !bytes.Equal(res.dat2, first.dat2) {
					if k > 0 {
						rep.Fail(e.name+".Embed/differs-from-"+e0.name, "two implementations of the same group disagree on Embed/Pick",
							map[string]interface{}{"data": hexOrNil(data[:min(len(data), 64)]), "data_len": len(data), "stream_prefix": vh.Hex(buf[:128]), "a": vh.Hex(first.pt), "b": vh.Hex(res.pt), "used_a": first.used, "used_b": res.used})
					}
					if toCoq && !o.Search && !(pick && e.model == "bn256") { // bn256 Pick is not Embed(nil): see CBnPick
						items = append(items, res.coq(data, buf, e.cand))
					}
				}
				if n <= 2 && k == 0 {
					rep.Sample(map[string]interface{}{"group": e.name, "data": hexOrNil(data), "stream_class": class, "point": vh.Hex(res.pt), "stream_bytes_consumed": res.used, "Data": hexOrErr(res.dat, res.datErr)})
				}
			}
			if len(items) >= per {
				flush()
			}
		}
		for rnd := 0; rnd < mult; rnd++ {
			for dl := -2; dl <= el+8; dl++ {
				r := rng.Fork()
				if gset.sparse && mult == 1 && !(dl <= 1 || (dl >= el-1 && dl <= el+1) || dl == el+8 || dl == 17) {
					continue
				}
				var data []byte
				pick := false
				switch {
				case dl == -2:
					pick = true
				case dl == -1: // Embed(nil, ...)
				default:
					data = r.Bytes(dl)
					switch r.Intn(8) {
					case 0:
						for i := range data {
							data[i] = 0xff
						}
					case 1:
						for i := range data {
							data[i] = 0
						}
					case 2, 3: // leading (and sometimes trailing) zero bytes
						for i := 0; i < len(data) && i <= r.Intn(4); i++ {
							data[i] = 0
						}
						if len(data) > 0 && r.Intn(2) == 0 {
							data[len(data)-1] = 0
						}
					}
				}
				class := classes[(n+rnd)%len(classes)]
				if data == nil && r.Intn(2) == 0 {
					class = []string{"zero", "ff", "ff-partial", "zero-partial"}[r.Intn(4)]
				}
				n++
				var buf []byte
				if class == "retry" {
					j := 3
					if e0.model != "ed" {
						j = 4 + r.Intn(4)
					}
					buf = retryTape(r, e0, data, pick, j)
				} else {
					buf = mkTape(r, class, e0.cand)
				}
				if data == nil && e0.model != "ed" && r.Intn(2) == 0 {
					// steer the length field of the resulting point into range
					switch e0.model {
					case "p256":
						buf[31] = byte(r.Intn(el + 3))
					case "bn256":
						buf[0] = byte(r.Intn(el + 3))
					case "qr":
						buf[e0.cand-2], buf[e0.cand-1] = 0, byte(r.Intn(el+3))
					}
				}
				runAll(data, pick, class, buf, true)
			}
		}
		// data far longer than EmbedLen: lengths around every width a length could be narrowed to
		// (8 / 16 / 20 bits), truncation to EmbedLen must not depend on the total length
		{
			mid := []int{255, 256, 257, 256 + el - 1, 256 + el, 511, 512, 512 + el - 1}
			huge := []int{65535, 65536, 65537, 65536 + el - 1, 65536 + el, 65536 + el + 1, 131072, 131073, 1<<20 + 1, 1<<20 + el - 1}
			for i := 0; i < 2*mult; i++ {
				huge = append(huge, 300+rng.Fork().Intn(70000), 256*(1+rng.Fork().Intn(300))+rng.Fork().Intn(el+1))
			}
			for rnd := 0; rnd < mult; rnd++ {
				for _, L := range mid {
					r := rng.Fork()
					n++
					runAll(r.Bytes(L), false, "xof", mkTape(r, "xof", e0.cand), !((gset.sparse || e0.model == "ed") && mult == 1 && L%2 == 1))
				}
			}
			for i, L := range huge {
				r := rng.Fork()
				n++
				runAll(r.Bytes(L), false, "xof", mkTape(r, "xof", e0.cand), o.Thorough && i == 2)
			}
			flush()
		}
		// payloads with leading zero bytes on streams starting with zero bytes: big-endian
		// coordinates whose byte strings are shorter than the coordinate length
		{
			nz := 16
			if e0.model == "ed" {
				nz = 4
			}
			for i := 0; i < nz*mult; i++ {
				r := rng.Fork()
				n++
				L := []int{el, el - 1, el + 3, 1, el / 2, el - 2, 2, el}[i%8]
				data := r.Bytes(max(L, 0))
				for j := 0; j < len(data) && j < 1+i%3; j++ {
					data[j] = 0
				}
				if i%8 == 7 {
					for j := range data {
						data[j] = 0
					}
				}
				buf := mkTape(r, "xof", e0.cand)
				for j := 0; j < (1+i%3)*e0.cand; j++ {
					buf[j] = 0
				}
				runAll(data, false, "zero+leading-zero-data", buf, true)
			}
			flush()
		}
		// candidates at the boundaries of every comparison the embedding code makes: the field
		// prime, the group order, 0, powers of two, (non-)canonical encodings of small-order points
		{
			blocks := boundaryBlocks(e0, gset.bnd)
			per = max(per, 12) // Embed(nil) on one or two candidates is cheap in the model
			for i, blk := range blocks {
				r := rng.Fork()
				n++
				toCoq := !(gset.sparse && mult == 1 && i%3 != 0) // 512-bit modexp is slow in the model: oracles only
				// (a) the boundary value is the first candidate
				buf := mkTape(r, "xof", e0.cand)
				copy(buf, blk)
				if e0.model == "p256" {
					buf[32] = []byte{0x00, 0x80, 0x7f, 0xff}[i%4]
				}
				runAll(nil, i%5 == 4, "boundary", buf, toCoq)
				if e0.model != "ed" && i%2 == 0 {
					// the same candidate with a little data laid over its low bytes
					runAll([]byte{0xff, byte(i)}[:1+i%2], false, "boundary", append([]byte{}, buf...), toCoq)
				}
				// (b) the boundary value is the second candidate, after a refused first one
				if e0.model != "ed" || i%2 == 1 {
					buf2 := retryTape(r, e0, nil, false, 1)
					copy(buf2[e0.cand:], blk)
					if e0.model == "p256" {
						buf2[e0.cand+32] = []byte{0x80, 0x00, 0xff, 0x7f}[i%4]
					}
					runAll(nil, false, "boundary-2nd", buf2, toCoq)
				}
			}
			flush()
		}
		// Data() at the boundary: Embed(nil) on streams whose every candidate carries a chosen length field
		if e0.model != "ed" {
			for _, lf := range []int{0, el - 1, el, el + 1, el + 2, 255} {
				r := rng.Fork()
				buf := mkTape(r, "xof", e0.cand)
				for k := 0; (k+1)*e0.cand <= len(buf); k++ {
					switch e0.model {
					case "p256":
						buf[k*e0.cand+31] = byte(lf)
					case "bn256":
						buf[k*e0.cand] = byte(lf)
					case "qr":
						buf[(k+1)*e0.cand-2], buf[(k+1)*e0.cand-1] = 0, byte(lf)
					}
				}
				res, ok := c.embedOracle(e0, nil, false, buf, "length-field")
				rep.Count(fmt.Sprintf("lengthfield/%s/%d/%s", e0.name, lf, vh.Hex(buf[:64])), true)
				if ok && !o.Search {
					items = append(items, res.coq(nil, buf, e0.cand))
				}
			}
			// the same with leading zero bytes in every candidate (short big-endian strings)
			for i, lf := range []int{el, el - 1, 5, el, 12, el + 1} {
				r := rng.Fork()
				buf := mkTape(r, "xof", e0.cand)
				z := []int{4, 16, e0.cand - 4, e0.cand - 8, 1, 8}[i] // number of leading zero bytes
				for k := 0; (k+1)*e0.cand <= len(buf); k++ {
					for j := 0; j < z && j < e0.cand-3; j++ {
						buf[k*e0.cand+j] = 0
					}
					switch e0.model {
					case "p256":
						buf[k*e0.cand+31] = byte(lf)
					case "bn256":
						buf[k*e0.cand] = byte(lf)
					case "qr":
						buf[(k+1)*e0.cand-2], buf[(k+1)*e0.cand-1] = 0, byte(lf)
					}
				}
				res, ok := c.embedOracle(e0, nil, false, buf, "length-field+leading-zeros")
				rep.Count(fmt.Sprintf("lengthfield0/%s/%d/%d/%s", e0.name, lf, z, vh.Hex(buf[:64])), true)
				if ok && !o.Search {
					items = append(items, res.coq(nil, buf, e0.cand))
				}
			}
			flush()
		}
	}

	// one large residue group (EmbedLen >= 256 needs a modulus of 2072+ bits): RFC 3526 group 15,
	// p = 2q + 1, g = 4. Oracles only (a 3072-bit modular exponentiation is out of reach of the
	// model's evaluation budget); a handful of payload lengths around 256 and EmbedLen
	{
		pp, _ := new(big.Int).SetString(rfc3526Group15, 16)
		g := new(p256.ResidueGroup) // fields set directly: SetParams would spend seconds on 64-round primality tests
		g.P, g.Q, g.R, g.G = pp, new(big.Int).Rsh(pp, 1), big.NewInt(2), big.NewInt(4)
		e := eg{"residue.modp3072", g, false, "qr", g.PointLen(), g.P, g.Q, true}
		el := e.point().EmbedLen()
		for _, L := range []int{255, 256, 257, 300, el - 1, el, el + 1, 65536 + 3, -1} {
			r := rng.Fork()
			var data []byte
			if L >= 0 {
				data = r.Bytes(L)
			}
			c.embedOracle(e, data, false, mkTape(r, "xof", e.cand), "xof")
			rep.Count(fmt.Sprintf("embed/%s/%d/%s", e.name, L, vh.Hex(r.Bytes(8))), true)
		}
	}

	// Data() of decoded Ed25519 points with a chosen length byte
	{
		var items []string
		for i := 0; i < 24*mult; i++ {
			r := rng.Fork()
			for {
				b := r.Bytes(32)
				b[0] = byte([]int{0, 1, 28, 29, 30, 31, 200, 255}[i%8])
				if i%3 == 0 {
					b[0] = byte(r.Intn(256))
				}
				var datas [][]byte
				var errs []bool
				bad := false
				for _, e := range embedGroups[0].impls {
					P := e.point()
					if P.UnmarshalBinary(b) != nil {
						bad = true
						break
					}
					d, err := P.Data()
					datas, errs = append(datas, append([]byte{}, d...)), append(errs, err != nil)
					el := P.EmbedLen()
					// compare with the canonical re-encoding (non-canonical y is reduced)
					pb, _ := P.MarshalBinary()
					if (int(pb[0]) > el) != (err != nil) {
						rep.Fail(e.name+".Data/no-error-for-length-out-of-range", "Data() error does not match the length byte", map[string]string{"encoding": vh.Hex(b)})
					}
					if err == nil && !bytes.Equal(d, pb[1:1+int(pb[0])]) {
						rep.Fail(e.name+".Data/wrong-bytes", "Data() is not the bytes after the length byte", map[string]string{"encoding": vh.Hex(b)})
					}
				}
				if bad {
					continue
				}
				for k := 1; k < len(datas); k++ {
					if !bytes.Equal(datas[k], datas[0]) || errs[k] != errs[0] {
						rep.Fail("ed25519.Data/implementations-differ", "Data() differs between implementations", map[string]string{"encoding": vh.Hex(b)})
					}
				}
				rep.Count("eddata/"+vh.Hex(b), true)
				rep.Dist("ed25519.Data:decoded-point")
				items = append(items, "("+vh.CoqBytes(b)+", "+coqOpt(datas[0], errs[0])+")")
				break
			}
		}
		if !o.Search {
			emit("CEdData #", items, map[string]interface{}{"kind": "Data of decoded points", "group": "ed25519"})
		}
	}

	// G1 Pick of bn256 / bn254 against the model: random scalar times the base point
	for cv, e := range map[int]eg{1: {"bn256.G1", bn256.NewSuite().G1(), false, "bn256", 32, nil, nil, false}, 2: {"bn254.G1", bn254.NewSuite().G1(), false, "", 32, nil, nil, false}} {
		var items []string
		q := order(e.name, e.g)
		bl := boundaryInts(32, []*big.Int{q})
		for i := 0; i < 3*mult+len(bl); i++ {
			r := rng.Fork()
			class := []string{"xof", "ff", "zero", "ff-partial"}[i%4]
			buf := mkTape(r, class, e.cand)
			if i >= 3*mult { // scalar candidates around the group order, 0, powers of two
				class = "boundary"
				buf = mkTape(r, "xof", e.cand)
				copy(buf[(i%2)*e.cand:], bl[i-3*mult].FillBytes(make([]byte, 32)))
			}
			res, ok := c.embedOracle(e, nil, true, buf, class)
			rep.Count(fmt.Sprintf("bnpick/%s/%s", e.name, vh.Hex(buf[:64])), true)
			if ok {
				items = append(items, fmt.Sprintf("(%s, %s, %d)", vh.CoqBytes(buf[:res.used+66]), vh.CoqBytes(res.pt), res.used))
			}
		}
		if !o.Search {
			emit(fmt.Sprintf("CBnPick # %d", cv), items, map[string]interface{}{"kind": "G1 Pick", "group": e.name})
		}
	}

	// ------------------------------------------------------------ Pick on every group
	for _, in := range grpprog.Groups() {
		e := eg{in.Name, in.G, in.VarTime, "", 32, nil, nil, false}
		switch {
		case strings.HasPrefix(in.Name, "ed25519"):
			e.model = "ed"
		case in.Name == "p256":
			e.model, e.cand = "p256", 33
		case in.Name == "qr512":
			e.model, e.cand = "qr", 64
		}
		np := 4 * mult
		seenP := map[string]string{}
		var qb [][]byte
		if pan, _ := vh.Try(func() {
			q := order(e.name, e.g)
			for d := int64(-1); d <= 1; d++ {
				qb = append(qb, new(big.Int).Add(q, big.NewInt(d)).FillBytes(make([]byte, (q.BitLen()+7)/8)))
			}
		}); pan || e.model != "" {
			qb = nil // Embed-capable groups get their boundary candidates above
		}
		for i := 0; i < np+len(qb); i++ {
			r := rng.Fork()
			class := []string{"xof", "zero", "ff", "xof"}[i%4]
			buf := mkTape(r, class, e.cand)
			if i >= np { // first candidate = group order - 1, order, order + 1
				class = "boundary"
				buf = mkTape(r, "xof", e.cand)
				copy(buf, qb[i-np])
			}
			res, ok := c.embedOracle(e, nil, true, buf, class)
			rep.Count(fmt.Sprintf("pick/%s/%s", e.name, vh.Hex(buf[:64])), true)
			if !ok {
				break
			}
			if prev, ok := seenP[string(res.pt)]; ok && prev != string(buf[:res.used]) {
				rep.Fail(e.name+".Pick/collision", "two streams with different consumed prefixes gave the same point", map[string]string{"point": vh.Hex(res.pt)})
			}
			seenP[string(res.pt)] = string(buf[:res.used])
		}
	}

	// ------------------------------------------------------------ hash-to-group
	hgs := hashGroups()
	for _, h := range hgs {
		c.hashOracle(rng.Fork(), h, 6*mult)
	}
	// the three BLS12-381 back-ends agree for arbitrary tags
	for i := 0; i < 4*mult; i++ {
		r := rng.Fork()
		msg, dst := r.Bytes(r.Intn(301)), r.Bytes(1+r.Intn(255))
		for _, grp := range []string{"G1", "G2"} {
			var ref []byte
			for _, h := range hgs {
				if !strings.HasSuffix(h.name, "."+grp) || h.name == "bn254.G1" || strings.HasPrefix(h.name, "bn256") {
					continue
				}
				var b []byte
				if pan, _ := vh.Try(func() { b = enc(h.hash(msg, dst)) }); pan {
					continue
				}
				if ref == nil {
					ref = b
				} else if !bytes.Equal(ref, b) {
					rep.Fail("bls12381."+grp+".Hash/backends-differ", "BLS12-381 back-ends disagree on hash-to-curve for a custom tag", map[string]string{"msg": vh.Hex(msg), "dst": vh.Hex(dst), "backend": h.name})
				}
			}
		}
	}
	rfcVectors(rep)

	// ------------------------------------------------------------ expand_message_xmd and Ed25519 Hash vs the model
	xmdCases(rng, rep, o, mult, emit)

	// ------------------------------------------------------------ derived bases in protocols
	protocolBases(rng, rep, mult)

	if !o.Search {
		vh.WriteShards(o.Out, "c17", cf, 1, rep)
	} else {
		vh.WriteShards(o.Out, "c17", &vh.CaseFile{Header: cf.Header, Type: cf.Type, Runner: cf.Runner}, 1, rep)
	}
	rep.Write(o.Out)
}

// ---------------------------------------------------------------- XMD / Hash cases

func xmdCases(rng *vh.Rng, rep *vh.Report, o vh.Opts, mult int, emit func(string, []string, interface{})) {
	type hk struct {
		name  string
		newH  func() hash.Hash
		hs    int
		bs    int
		limit int // kyber refuses len > 255 * (hsize >> 3)
	}
	for _, k := range []hk{{"SHA-256", sha256.New, 32, 64, 255 * 4}, {"SHA-512", sha512.New, 64, 128, 255 * 8}} {
		var items []string
		l := &hlog{newH: k.newH}
		for i := 0; i < 5*mult; i++ {
			r := rng.Fork()
			msg := r.Bytes(r.Intn(301))
			dst := r.Bytes(1 + r.Intn(300))
			n := r.Intn(200)
			switch i % 5 {
			case 1:
				dst = r.Bytes(254 + r.Intn(4))
				n = []int{0, 1, k.hs - 1, k.hs, k.hs + 1, 2 * k.hs}[r.Intn(6)]
			case 2:
				n = k.limit - 1 + r.Intn(3) // around kyber's bound
				msg = r.Bytes(r.Intn(20))
				dst = r.Bytes(1 + r.Intn(20))
			case 3:
				if r.Intn(2) == 0 {
					dst = nil // refused
				} else {
					n = 65535 + r.Intn(2)
				}
			}
			got, err := edwards25519.VerifExpandMessageXMD(k.newH(), msg, string(dst), uint64(n))
			blocks := (n + k.hs/8 - 1) / (k.hs / 8)
			if blocks > 256 || o.Search {
				blocks = 0
			}
			ll := l
			if n > 400 && err == nil {
				ll = &hlog{newH: k.newH} // not sent to the model: do not fill its table
			}
			want, ok := xmdRef(ll, msg, dst, n, blocks)
			in := map[string]interface{}{"hash": k.name, "msg": vh.Hex(msg), "dst": vh.Hex(dst), "len": n}
			rep.Count(fmt.Sprintf("xmd/%s/%x/%x/%d", k.name, msg, dst, n), true)
			switch {
			case err != nil && ok && n <= k.limit:
				rep.Fail("edwards25519.expandMessageXMD/refuses-valid-input", "expand_message_xmd refused an input the RFC accepts (within kyber's own bound)", in)
			case err != nil && ok:
				rep.Dist("xmd:" + k.name + ":refused-above-kyber-bound(255*hsize/8)")
			case err == nil && !ok:
				rep.Fail("edwards25519.expandMessageXMD/accepts-invalid-input", "expand_message_xmd accepted an input the RFC refuses", in)
			case err == nil && !bytes.Equal(got, want):
				in["got"], in["want"] = vh.Hex(got), vh.Hex(want)
				rep.Fail("edwards25519.expandMessageXMD/differs-from-RFC", "expand_message_xmd differs from an independent implementation of RFC 9380 5.3.1", in)
			case err != nil:
				rep.Dist("xmd:" + k.name + ":refused-as-in-RFC")
			default:
				rep.Dist("xmd:" + k.name + ":ok")
			}
			if n <= 400 || err != nil {
				items = append(items, fmt.Sprintf("(%s, %s, %d, %s)", vh.CoqBytes(msg), vh.CoqBytes(dst), n, coqOpt(got, err != nil)))
			}
		}
		if !o.Search {
			emit(fmt.Sprintf("CXmd # %d %d ", k.hs, k.bs)+coqTable(l.calls), items, map[string]interface{}{"kind": "expand_message_xmd", "hash": k.name})
		}
	}
	// Ed25519 Hash(m, dst) against the model (SHA-512 as a table)
	ed := edwards25519.NewBlakeSHA256Ed25519()
	type hasher interface {
		Hash([]byte, string) kyber.Point
	}
	var items []string
	l := &hlog{newH: sha512.New}
	nh := 3 * mult
	for i := 0; i < nh+len(rfcMsgs); i++ {
		r := rng.Fork()
		msg, dst := r.Bytes(r.Intn(301)), r.Bytes(1+r.Intn(300))
		if i < len(rfcMsgs) {
			msg, dst = []byte(rfcMsgs[i]), []byte("QUUX-V01-CS02-with-edwards25519_XMD:SHA-512_ELL2_RO_")
		}
		var b []byte
		if pan, m := vh.Try(func() { b = enc(ed.Point().(hasher).Hash(msg, string(dst))) }); pan {
			rep.Fail("ed25519.Hash/panic", m, map[string]string{"msg": vh.Hex(msg), "dst": vh.Hex(dst)})
			continue
		}
		xmdRef(l, msg, dst, 96, 12)
		rep.Count(fmt.Sprintf("edhash/%x/%x", msg, dst), true)
		items = append(items, fmt.Sprintf("(%s, %s, %s)", vh.CoqBytes(msg), vh.CoqBytes(dst), vh.CoqBytes(b)))
		if len(items) >= 2 && !o.Search {
			emit("CEdHash # "+coqTable(l.calls), items, map[string]interface{}{"kind": "edwards25519 Hash", "items": len(items)})
			items, l = nil, &hlog{newH: sha512.New}
		}
	}
	if !o.Search {
		emit("CEdHash # "+coqTable(l.calls), items, map[string]interface{}{"kind": "edwards25519 Hash", "items": len(items)})
	}
}

// ---------------------------------------------------------------- protocol bases

type vsuite interface {
	rabin.Suite
	anon.Suite
}

func protocolBases(rng *vh.Rng, rep *vh.Report, mult int) {
	suites := []struct {
		name string
		s    vsuite
	}{
		{"ed25519", edwards25519.NewBlakeSHA256Ed25519()},
		{"p256", p256.NewBlakeSHA256P256()},
		{"bn256.G1", bn256.NewSuiteG1()},
	}
	for _, su := range suites {
		e := eg{su.name, su.s, false, "", 32, nil, nil, false}
		seen := map[string]string{}
		for i := 0; i < 3*mult; i++ {
			r := rng.Fork()
			// rabin vss: H = Pick(XOF(verifiers))
			n := 2 + r.Intn(4)
			vs := make([]kyber.Point, n)
			var cat []byte
			for j := range vs {
				vs[j] = su.s.Point().Mul(su.s.Scalar().Pick(&tape{buf: xofBytes(r.Bytes(8), 4096)}), nil)
				cat = append(cat, enc(vs[j])...)
			}
			var H kyber.Point
			if pan, m := vh.Try(func() { H = rabin.VerifDeriveH(su.s, vs) }); pan {
				rep.Fail("rabin.deriveH/"+su.name+"/panic", m, map[string]string{"verifiers": vh.Hex(cat)})
				continue
			}
			hb := enc(H)
			in := map[string]string{"suite": su.name, "verifiers": vh.Hex(cat), "H": vh.Hex(hb)}
			rep.Count("deriveH/"+su.name+"/"+vh.Hex(cat), true)
			rep.Dist("rabin.deriveH:" + su.name)
			if ok, why := inGroup(e, H); !ok {
				rep.Fail("rabin.deriveH/"+su.name+"/not-in-group", why, in)
			}
			if !bytes.Equal(enc(rabin.VerifDeriveH(su.s, vs)), hb) {
				rep.Fail("rabin.deriveH/"+su.name+"/nondeterministic", "two derivations differ", in)
			}
			if !bytes.Equal(enc(su.s.Point().Pick(su.s.XOF(cat))), hb) {
				rep.Fail("rabin.deriveH/"+su.name+"/not-Pick-of-XOF(verifiers)", "H is not Pick(XOF(verifier encodings))", in)
			}
			if prev, ok := seen[string(hb)]; ok && prev != string(cat) {
				rep.Fail("rabin.deriveH/"+su.name+"/collision", "two verifier lists gave the same H", in)
			}
			seen[string(hb)] = string(cat)
			// anon: link base = Pick(XOF(scope)); tag = x * base
			scope := r.Bytes(r.Intn(301))
			x := su.s.Scalar().Pick(&tape{buf: xofBytes(r.Bytes(8), 4096)})
			X := su.s.Point().Mul(x, nil)
			set := anon.Set{vs[0], X, vs[1]}
			msg := r.Bytes(r.Intn(64))
			var tag []byte
			var verr error
			if pan, m := vh.Try(func() {
				sig := anon.Sign(su.s, msg, set, scope, 1, x)
				tag, verr = anon.Verify(su.s, msg, set, scope, sig)
			}); pan {
				rep.Fail("anon.Sign/"+su.name+"/panic", m, map[string]string{"scope": vh.Hex(scope)})
				continue
			}
			base := su.s.Point().Pick(su.s.XOF(scope))
			in2 := map[string]string{"suite": su.name, "scope": vh.Hex(scope), "base": vh.Hex(enc(base)), "tag": vh.Hex(tag)}
			rep.Count("anon/"+su.name+"/"+vh.Hex(scope), true)
			rep.Dist("anon.linkBase:" + su.name)
			if verr != nil {
				rep.Fail("anon.Verify/"+su.name+"/rejects-honest", verr.Error(), in2)
				continue
			}
			if ok, why := inGroup(e, base); !ok {
				rep.Fail("anon.linkBase/"+su.name+"/not-in-group", why, in2)
			}
			if !bytes.Equal(tag, enc(su.s.Point().Mul(x, base))) {
				rep.Fail("anon.linkTag/"+su.name+"/not-x*Pick(XOF(scope))", "the linkage tag is not the private key times the hashed scope", in2)
			}
			scope2 := append(append([]byte{}, scope...), 1)
			if bytes.Equal(enc(su.s.Point().Pick(su.s.XOF(scope2))), enc(base)) {
				rep.Fail("anon.linkBase/"+su.name+"/collision", "two scopes gave the same base", in2)
			}
		}
	}
}

// ---------------------------------------------------------------- RFC 9380 vectors

func rfcVectors(rep *vh.Report) {
	check := func(key string, got, want []byte, in map[string]string) {
		rep.Dist("rfc9380-vector:" + strings.SplitN(key, "/", 3)[1])
		rep.Count("rfc/"+key+"/"+in["msg"]+"/"+in["len"], true)
		if !bytes.Equal(got, want) {
			in["got"], in["want"] = vh.Hex(got), vh.Hex(want)
			rep.Fail(key, "RFC 9380 test vector not reproduced", in)
		}
	}
	// J.? expand_message_xmd (appendix K.1, K.2, K.3)
	for _, v := range xmdVectors {
		for i, m := range rfcMsgs {
			for j, n := range []int{32, 128} {
				got, err := edwards25519.VerifExpandMessageXMD(v.newH(), []byte(m), v.dst, uint64(n))
				if err != nil {
					got = []byte("ERR:" + err.Error())
				}
				check("rfc9380/expand_message_xmd/"+v.name, got, mustHex(v.out[j][i]), map[string]string{"msg": m, "dst": v.dst, "len": fmt.Sprint(n)})
			}
		}
	}
	// J.5.1 edwards25519_XMD:SHA-512_ELL2_RO_
	edDst := "QUUX-V01-CS02-with-edwards25519_XMD:SHA-512_ELL2_RO_"
	ed := edwards25519.NewBlakeSHA256Ed25519()
	for i, m := range rfcMsgs {
		us := edwards25519.VerifHashToField([]byte(m), edDst, 2)
		for k := 0; k < 2; k++ {
			want, _ := new(big.Int).SetString(edU[2*i+k], 16)
			check("rfc9380/edwards25519_XMD:SHA-512_ELL2_RO_/u", us[k], want.Bytes(), map[string]string{"msg": m, "len": fmt.Sprint(k)})
		}
		x, _ := new(big.Int).SetString(edPxy[2*i], 16)
		y, _ := new(big.Int).SetString(edPxy[2*i+1], 16)
		want := make([]byte, 32)
		yb := y.FillBytes(make([]byte, 32))
		for j := range yb {
			want[31-j] = yb[j]
		}
		want[31] |= byte(x.Bit(0)) << 7
		got := enc(ed.Point().(interface {
			Hash([]byte, string) kyber.Point
		}).Hash([]byte(m), edDst))
		check("rfc9380/edwards25519_XMD:SHA-512_ELL2_RO_/P", got, want, map[string]string{"msg": m, "len": "P"})
	}
	// J.9.1 / J.10.1 BLS12-381 G1 and G2
	blsP, _ := new(big.Int).SetString("1a0111ea397fe69a4b1ba7b6434bacd764774b84f38512bf6730d2a0f6b0f6241eabfffeb153ffffb9feffffffffaaab", 16)
	half := new(big.Int).Rsh(blsP, 1)
	hx := func(s string) *big.Int { v, _ := new(big.Int).SetString(strings.TrimPrefix(s, "0x"), 16); return v }
	g1dst := []byte("QUUX-V01-CS02-with-BLS12381G1_XMD:SHA-256_SSWU_RO_")
	g2dst := []byte("QUUX-V01-CS02-with-BLS12381G2_XMD:SHA-256_SSWU_RO_")
	for _, h := range hashGroups() {
		switch {
		case strings.HasSuffix(h.name, ".G1") && !strings.HasPrefix(h.name, "bn"):
			for i, m := range rfcMsgs {
				x, y := hx(blsG1[i][0]), hx(blsG1[i][1])
				want := x.FillBytes(make([]byte, 48))
				want[0] |= 0x80
				if y.Cmp(half) > 0 {
					want[0] |= 0x20
				}
				var got []byte
				if pan, msg := vh.Try(func() { got = enc(h.hash([]byte(m), g1dst)) }); pan {
					got = []byte("PANIC:" + msg)
				}
				check("rfc9380/BLS12381G1_XMD:SHA-256_SSWU_RO_/"+h.name, got, want, map[string]string{"msg": m, "len": h.name})
			}
		case strings.HasSuffix(h.name, ".G2"):
			for i, m := range rfcMsgs {
				x0, x1, y0, y1 := hx(blsG2[i][0]), hx(blsG2[i][1]), hx(blsG2[i][2]), hx(blsG2[i][3])
				want := append(x1.FillBytes(make([]byte, 48)), x0.FillBytes(make([]byte, 48))...)
				want[0] |= 0x80
				if y1.Cmp(half) > 0 || (y1.Sign() == 0 && y0.Cmp(half) > 0) {
					want[0] |= 0x20
				}
				var got []byte
				if pan, msg := vh.Try(func() { got = enc(h.hash([]byte(m), g2dst)) }); pan {
					got = []byte("PANIC:" + msg)
				}
				check("rfc9380/BLS12381G2_XMD:SHA-256_SSWU_RO_/"+h.name, got, want, map[string]string{"msg": m, "len": h.name})
			}
		}
	}
}
