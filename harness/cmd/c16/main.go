// Correspondence + oracle harness for property C16 (ECIES, identity-based
// encryption CCA/CPA, anonymity-set encryption).
//
// Correspondence: kyber's generic code is driven over transparent discrete-log
// groups (vh.DlogGroup, dpSuite), every primitive call (HKDF, AES-GCM, SHA-256,
// BLAKE2Xb, hash-to-point) is tabulated with reference implementations, and the
// Coq models recompute every output (Enc.EncRun.mismatches).
// Oracles: the clauses of the property are evaluated directly on the
// implementation over the real groups.
package main

import (
	"bytes"
	"crypto/aes"
	"crypto/cipher"
	"crypto/sha256"
	"crypto/sha512"
	"fmt"
	"hash"
	"io"
	"math/big"
	"strings"

	"go.dedis.ch/kyber/v4"
	"go.dedis.ch/kyber/v4/encrypt/ecies"
	"go.dedis.ch/kyber/v4/encrypt/ibe"
	"go.dedis.ch/kyber/v4/group/edwards25519"
	"go.dedis.ch/kyber/v4/group/edwards25519vartime"
	"go.dedis.ch/kyber/v4/group/p256"
	"go.dedis.ch/kyber/v4/pairing"
	circl "go.dedis.ch/kyber/v4/pairing/bls12381/circl"
	gnark "go.dedis.ch/kyber/v4/pairing/bls12381/gnark"
	kilic "go.dedis.ch/kyber/v4/pairing/bls12381/kilic"
	"go.dedis.ch/kyber/v4/pairing/bn254"
	"go.dedis.ch/kyber/v4/pairing/bn256"
	"go.dedis.ch/kyber/v4/sign/anon"
	"go.dedis.ch/kyber/v4/util/random"
	"golang.org/x/crypto/blake2b"
	"golang.org/x/crypto/hkdf"

	"kyverif/vh"
)

var (
	rep     *vh.Report
	cf      *vh.CaseFile
	nextID  int
	opts    vh.Opts
	edgeLen = []int{0, 1, 15, 16, 17, 31, 32, 33, 64, 100, 1000, 4096}
	// anon model cases, in this order (quick tier takes a prefix)
	anonLens = []int{0, 192, 1, 65, 16, 320, 33, 64, 129, 17, 448, 136, 63, 256, 193, 100, 1088, 576, 4032,
		15, 31, 32, 127, 128, 191, 255, 257, 272, 576, 704, 1000, 2048, 4095, 4096}
)

func newID() int { nextID++; return nextID }

var boundaryCache []int

// boundaryLens: message lengths around every block size that occurs in the
// schemes and their primitives (16 AES/GCM, 32/64 hash and BLAKE2 key, 128 BLAKE2b
// block, 136 Keccak rate), the families 128k, 136k, 64+128k, and the ends of 0..4096.
func boundaryLens() []int {
	if boundaryCache != nil {
		return boundaryCache
	}
	seen := map[int]bool{}
	add := func(v int) {
		if v >= 0 && v <= 4096 && !seen[v] {
			seen[v] = true
			boundaryCache = append(boundaryCache, v)
		}
	}
	for _, b := range []int{0, 16, 32, 64, 128, 136, 192, 256, 272, 512, 1024, 2048, 4096} {
		add(b - 1)
		add(b)
		add(b + 1)
	}
	for k := 1; 128*k <= 4096; k++ {
		add(128 * k)
		add(64 + 128*k)
	}
	for k := 1; 136*k <= 4096; k++ {
		add(136 * k)
	}
	return boundaryCache
}

func cp(b []byte) []byte { return append([]byte{}, b...) }

func msgOf(r *vh.Rng, n int) []byte {
	m := r.Bytes(n)
	return m
}

// clearBlock returns the index of a 16-byte aligned plaintext block that shows
// up unchanged at the same position in the ciphertext body, or -1.
func clearBlock(body, msg []byte) int {
	for j := 0; 16*j+16 <= len(msg) && 16*j+16 <= len(body); j++ {
		if bytes.Equal(body[16*j:16*j+16], msg[16*j:16*j+16]) {
			return j
		}
	}
	return -1
}

// ------------------------------------------------------------------ reference primitives

func refKdf(dhb []byte) []byte {
	out := make([]byte, 44)
	if _, err := io.ReadFull(hkdf.New(sha256.New, dhb, nil, nil), out); err != nil {
		panic(err)
	}
	return out
}

func refGcm(kn []byte) cipher.AEAD {
	blk, err := aes.NewCipher(kn[:32])
	if err != nil {
		panic(err)
	}
	g, err := cipher.NewGCM(blk)
	if err != nil {
		panic(err)
	}
	return g
}

// refXof: n bytes of BLAKE2Xb keyed like kyber's blake2xb.New(seed) after absorbing abs.
// For len(seed) >= 64 (or no absorbed data) this is the stream of XOF(seed || abs).
func refXof(seed, abs []byte, n int) []byte {
	k, rest := seed, []byte(nil)
	if len(seed) > blake2b.Size {
		k, rest = seed[:blake2b.Size], seed[blake2b.Size:]
	}
	x, err := blake2b.NewXOF(blake2b.OutputLengthUnknown, k)
	if err != nil {
		panic(err)
	}
	x.Write(rest)
	x.Write(abs)
	out := make([]byte, n)
	io.ReadFull(x, out)
	return out
}

func coqTbl(es [][2][]byte) string {
	var it []string
	for _, e := range es {
		it = append(it, fmt.Sprintf("(%s, %s)", vh.CoqBytes(e[0]), vh.CoqBytes(e[1])))
	}
	return vh.CoqList(it)
}

func coqZs(vs []*big.Int) string {
	var it []string
	for _, v := range vs {
		it = append(it, vh.CoqZ(v))
	}
	return vh.CoqList(it)
}

// ------------------------------------------------------------------ ECIES

func eciesCls(err error) int {
	if err == nil {
		return 0
	}
	s := err.Error()
	switch {
	case strings.Contains(s, "invalid ecies cipher"):
		return 1
	case strings.Contains(s, "message authentication failed"):
		return 3
	}
	return 2
}

type eciesSetting struct {
	name string
	g    kyber.Group
}

func eciesGroups() []eciesSetting {
	return []eciesSetting{
		{"ed25519", edwards25519.NewBlakeSHA256Ed25519()},
		{"p256", p256.NewBlakeSHA256P256()},
		{"bn256.G1", bn256.NewSuiteG1()},
		{"bn254.G1", bn254.NewSuiteG1()},
		{"bls12381.kilic.G1", kilic.NewBLS12381Suite().G1()},
		{"dlog61", vh.NewDlogGroup(vh.Q61, nil)},
	}
}

// eciesDecrypt runs Decrypt on a private copy of ctx and reports panics and input mutation.
func eciesDecrypt(name string, g kyber.Group, x kyber.Scalar, ctx []byte, desc map[string]interface{}) (m []byte, err error, panicked bool) {
	in := cp(ctx)
	p, msg := vh.Try(func() { m, err = ecies.Decrypt(g, x, in, nil) })
	if p {
		desc["panic"] = msg
		rep.Fail("ecies.Decrypt/panic/"+name, "ecies.Decrypt panicked", desc)
		return nil, nil, true
	}
	if !bytes.Equal(in, ctx) {
		rep.Fail("ecies.Decrypt/input-mutated/"+name, "ecies.Decrypt changed the caller's ciphertext buffer", desc)
	}
	return m, err, false
}

func eciesOracle(r *vh.Rng, st eciesSetting, mlen, nflips int, allTrunc bool) {
	g := st.g
	x := g.Scalar().Pick(random.New())
	X := g.Point().Mul(x, nil)
	msg := msgOf(r, mlen)
	desc := map[string]interface{}{"scheme": "ecies", "group": st.name, "msglen": mlen, "msg": vh.Hex(msg)}
	var ct []byte
	var err error
	if p, pm := vh.Try(func() { ct, err = ecies.Encrypt(g, X, cp(msg), nil) }); p {
		desc["panic"] = pm
		rep.Fail("ecies.Encrypt/panic/"+st.name, "ecies.Encrypt panicked", desc)
		return
	}
	rep.Count(fmt.Sprintf("ecies-oracle %s %x", st.name, msg), mlen > 0)
	rep.Dist("oracle:ecies:" + st.name)
	if err != nil {
		desc["err"] = err.Error()
		rep.Fail("ecies.Encrypt/refused/"+st.name, "ecies.Encrypt refused a message it can protect", desc)
		return
	}
	xb, _ := x.MarshalBinary()
	desc["private"] = vh.Hex(xb)
	desc["ciphertext"] = vh.Hex(ct)
	pl := g.PointLen()
	// round trip
	m2, err, pk := eciesDecrypt(st.name, g, x, ct, desc)
	if !pk && (err != nil || !bytes.Equal(m2, msg)) {
		desc["got"] = fmt.Sprintf("%x / %v", m2, err)
		rep.Fail("ecies.roundtrip/"+st.name, "Decrypt(Encrypt(m)) != m", desc)
	}
	// layout and hiding
	if len(ct) != pl+len(msg)+16 {
		rep.Fail("ecies.Encrypt/length/"+st.name, "ciphertext length is not PointLen+len(m)+16", desc)
	} else if j := clearBlock(ct[pl:], msg); j >= 0 {
		desc["block"] = j
		rep.Fail("ecies.Encrypt/clear-block/"+st.name, "a 16-byte plaintext block appears unchanged in the ciphertext", desc)
	}
	// another key
	x2 := g.Scalar().Pick(random.New())
	if m3, err, pk := eciesDecrypt(st.name, g, x2, ct, desc); !pk && err == nil {
		desc["got"] = vh.Hex(m3)
		rep.Fail("ecies.Decrypt/wrong-key-accepted/"+st.name, "decryption with another private key returned a plaintext", desc)
	}
	// single-bit flips
	nbits := len(ct) * 8
	for k := 0; k < nflips && k < nbits; k++ {
		bit := r.Intn(nbits)
		if nflips >= nbits {
			bit = k // every bit
		}
		t := cp(ct)
		t[bit/8] ^= 1 << (bit % 8)
		d2 := map[string]interface{}{"scheme": "ecies", "group": st.name, "private": desc["private"], "ciphertext": vh.Hex(t), "flipped_bit": bit, "msg": desc["msg"]}
		if m3, err, pk := eciesDecrypt(st.name, g, x, t, d2); !pk && err == nil {
			d2["got"] = vh.Hex(m3)
			rep.Fail("ecies.Decrypt/tamper-accepted/"+st.name, "a ciphertext with one flipped bit was decrypted without error", d2)
		}
		rep.Dist("oracle:ecies:bitflip")
	}
	// truncations
	for n := 0; n < len(ct); n++ {
		if !allTrunc && n > pl+2 && n < len(ct)-18 && r.Intn(16) != 0 {
			continue
		}
		d2 := map[string]interface{}{"scheme": "ecies", "group": st.name, "private": desc["private"], "ciphertext": vh.Hex(ct[:n]), "truncated_to": n}
		if m3, err, pk := eciesDecrypt(st.name, g, x, ct[:n], d2); !pk && err == nil {
			d2["got"] = vh.Hex(m3)
			rep.Fail("ecies.Decrypt/truncated-accepted/"+st.name, "a truncated ciphertext was decrypted without error", d2)
		}
		rep.Dist("oracle:ecies:truncation")
	}
}

// eciesAllGroups: every group instance the library ships (plus the suites' sub-groups).
func eciesAllGroups() []eciesSetting {
	b4, b6 := bn254.NewSuite(), bn256.NewSuite()
	kl, cl, gn := kilic.NewBLS12381Suite(), circl.NewSuiteBLS12381(), gnark.NewSuiteBLS12381()
	return []eciesSetting{
		{"ed25519", edwards25519.NewBlakeSHA256Ed25519()},
		{"ed25519vartime", edwards25519vartime.NewBlakeSHA256Ed25519(false)},
		{"ed25519vartime.full", edwards25519vartime.NewBlakeSHA256Ed25519(true)},
		{"p256", p256.NewBlakeSHA256P256()},
		{"qr512", p256.NewBlakeSHA256QR512()},
		{"bn256.NewSuiteG1", bn256.NewSuiteG1()}, {"bn256.NewSuiteG2", bn256.NewSuiteG2()}, {"bn256.NewSuiteGT", bn256.NewSuiteGT()},
		{"bn256.G1()", b6.G1()}, {"bn256.G2()", b6.G2()}, {"bn256.GT()", b6.GT()}, {"bn256.NewSuiteBn256", bn256.NewSuiteBn256()},
		{"bn254.NewSuiteG1", bn254.NewSuiteG1()}, {"bn254.NewSuiteG2", bn254.NewSuiteG2()}, {"bn254.NewSuiteGT", bn254.NewSuiteGT()},
		{"bn254.G1()", b4.G1()}, {"bn254.G2()", b4.G2()}, {"bn254.GT()", b4.GT()}, {"bn254.NewSuiteBn254", bn254.NewSuiteBn254()},
		{"bls12381.kilic.G1", kl.G1()}, {"bls12381.kilic.G2", kl.G2()}, {"bls12381.kilic.GT", kl.GT()}, {"bls12381.kilic.adapter", kilic.NewSuiteBLS12381()},
		{"bls12381.circl.G1", cl.G1()}, {"bls12381.circl.G2", cl.G2()}, {"bls12381.circl.GT", cl.GT()}, {"bls12381.circl.adapter", cl},
		{"bls12381.gnark.G1", gn.G1()}, {"bls12381.gnark.G2", gn.G2()}, {"bls12381.gnark.GT", gn.GT()}, {"bls12381.gnark.adapter", gn},
		{"dlog61", vh.NewDlogGroup(vh.Q61, nil)},
	}
}

func unsupportedPanic(msg string) bool {
	m := strings.ToLower(msg)
	return strings.Contains(m, "unsupported") || strings.Contains(m, "not supported") || strings.Contains(m, "not implemented") || strings.Contains(m, "unimplemented")
}

// eciesHashOracle: round trips over one group for every way of naming the hash
// (nil = the documented default SHA-256 on BOTH sides, explicit hashes, the
// group's own hash when it has one); a ciphertext made with another hash than
// the one given to Decrypt must be refused.
func eciesHashOracle(r *vh.Rng, st eciesSetting) {
	g := st.g
	var x kyber.Scalar
	var X kyber.Point
	if p, pm := vh.Try(func() {
		x = g.Scalar().Pick(random.New())
		X = g.Point().Mul(x, nil)
		b, err := X.MarshalBinary()
		if err != nil {
			panic("unsupported: " + err.Error())
		}
		if len(b) != g.PointLen() {
			panic(fmt.Sprintf("unsupported: PointLen %d but encodings of %d bytes", g.PointLen(), len(b)))
		}
		if err := g.Point().UnmarshalBinary(b); err != nil {
			panic("unsupported: " + err.Error())
		}
	}); p {
		rep.Dist("skip:ecies-group:" + st.name)
		rep.Note("ecies over " + st.name + " skipped: " + pm)
		return
	}
	type hmode struct {
		name     string
		enc, dec func() hash.Hash
		ok       bool
	}
	modes := []hmode{
		{"nil/nil", nil, nil, true},
		{"sha256/nil", sha256.New, nil, true},
		{"nil/sha256", nil, sha256.New, true},
		{"sha256/sha256", sha256.New, sha256.New, true},
		{"sha512/sha512", sha512.New, sha512.New, true},
		{"sha512/nil", sha512.New, nil, false},
	}
	if hf, ok := g.(kyber.HashFactory); ok {
		modes = append(modes, hmode{"group-hash/group-hash", hf.Hash, hf.Hash, true})
	}
	for k, md := range modes {
		mlen := []int{33, 0, 200, 16, 64, 1, 100}[k%7]
		msg := msgOf(r, mlen)
		xb, _ := x.MarshalBinary()
		desc := map[string]interface{}{"scheme": "ecies", "group": st.name, "hash_encrypt/hash_decrypt": md.name, "private": vh.Hex(xb), "msg": vh.Hex(msg)}
		var ct, m2 []byte
		var err error
		p, pm := vh.Try(func() { ct, err = ecies.Encrypt(g, X, cp(msg), md.enc) })
		if p && unsupportedPanic(pm) {
			rep.Dist("skip:ecies-group:" + st.name)
			rep.Note("ecies over " + st.name + " skipped: " + pm)
			return
		}
		rep.Count(fmt.Sprintf("ecies-hash %s %s %x", st.name, md.name, msg), true)
		rep.Dist("oracle:ecies-hash:" + st.name)
		rep.Dist("hash:ecies:" + md.name)
		if p || err != nil {
			desc["err"] = fmt.Sprint(pm, err)
			rep.Fail("ecies.Encrypt/failed/"+st.name, "ecies.Encrypt failed or panicked", desc)
			return
		}
		desc["ciphertext"] = vh.Hex(ct)
		in := cp(ct)
		p, pm = vh.Try(func() { m2, err = ecies.Decrypt(g, x, in, md.dec) })
		if p {
			desc["panic"] = pm
			rep.Fail("ecies.Decrypt/panic/"+st.name, "ecies.Decrypt panicked", desc)
			continue
		}
		if md.ok && (err != nil || !bytes.Equal(m2, msg)) {
			desc["got"] = fmt.Sprintf("%x / %v", m2, err)
			rep.Fail("ecies.roundtrip/hash="+md.name+"/"+st.name, "Decrypt(Encrypt(m)) != m (nil hash means SHA-256 on both sides)", desc)
		}
		if !md.ok && err == nil {
			desc["got"] = vh.Hex(m2)
			rep.Fail("ecies.Decrypt/other-hash-accepted/"+st.name, "a ciphertext made with another KDF hash was decrypted", desc)
		}
		if !bytes.Equal(in, ct) {
			rep.Fail("ecies.Decrypt/input-mutated/"+st.name, "ecies.Decrypt changed the caller's ciphertext buffer", desc)
		}
	}
}

// correspondence over the discrete-log group
func eciesCases(r *vh.Rng, n int) {
	g := vh.NewDlogGroup(vh.Q61, nil)
	for i := 0; i < n; i++ {
		mlen := edgeLen[i%len(edgeLen)]
		if i >= len(edgeLen) {
			mlen = r.Intn(80)
		}
		if mlen > 100 && i >= len(edgeLen) {
			mlen = 64
		}
		xv := r.EdgeScalar(vh.Q61)
		if xv.Sign() == 0 {
			xv = big.NewInt(7)
		}
		x := g.ScalarOf(xv)
		X := g.Point().Mul(x, nil)
		msg := msgOf(r, mlen)
		ct, err := ecies.Encrypt(g, X, cp(msg), nil)
		if err != nil {
			rep.Fail("ecies.Encrypt/refused/dlog61", "ecies.Encrypt refused a message", map[string]interface{}{"msglen": mlen, "err": err.Error()})
			continue
		}
		R := g.Point()
		if err := R.UnmarshalBinary(ct[:9]); err != nil {
			rep.Fail("ecies.Encrypt/bad-point/dlog61", "ciphertext does not start with a valid point", map[string]interface{}{"ct": vh.Hex(ct)})
			continue
		}
		rv := vh.Dlog(R)
		// tables for Encrypt
		dh := g.Point().Mul(g.ScalarOf(rv), X)
		dhb, _ := dh.MarshalBinary()
		kn := refKdf(dhb)
		sealed := refGcm(kn).Seal(nil, kn[32:44], msg, nil)
		id := newID()
		cf.Items = append(cf.Items, fmt.Sprintf("CEciesEnc %d %s [(%s, %s, %s)] %s %s %s %s", id,
			coqTbl([][2][]byte{{dhb, kn}}), vh.CoqBytes(kn), vh.CoqBytes(msg), vh.CoqBytes(sealed),
			vh.CoqZ(vh.Dlog(X)), vh.CoqZ(rv), vh.CoqBytes(msg), vh.CoqBytes(ct)))
		rep.Index(id, map[string]interface{}{"type": "ecies-encrypt", "msglen": mlen, "X": vh.Dlog(X).String(), "r": rv.String(), "ct": vh.Hex(ct)})
		rep.Count(fmt.Sprintf("ecies-enc %x %s", msg, xv), true)
		rep.Dist("case:ecies-encrypt")
		// Decrypt variants
		type variant struct {
			what string
			ctx  []byte
			x    *big.Int
		}
		vs := []variant{{"honest", ct, xv}}
		vs = append(vs, variant{"wrong-key", ct, r.EdgeScalar(vh.Q61)})
		for k := 0; k < 3; k++ {
			t := cp(ct)
			bit := r.Intn(len(t) * 8)
			if k == 0 {
				bit = r.Intn(72) // inside the point
			}
			t[bit/8] ^= 1 << (bit % 8)
			vs = append(vs, variant{fmt.Sprintf("flip-bit-%d", bit), t, xv})
		}
		for _, n := range []int{0, 8, 9, 10, 24, 25, len(ct) - 1, r.Intn(len(ct))} {
			if n >= 0 && n < len(ct) {
				vs = append(vs, variant{fmt.Sprintf("truncate-%d", n), ct[:n], xv})
			}
		}
		vs = append(vs, variant{"extended", append(cp(ct), 0), xv})
		if i%4 == 0 {
			// point bytes at or above the modulus, and the identity point
			t := cp(ct)
			copy(t[1:9], []byte{0x1f, 0xff, 0xff, 0xff, 0xff, 0xff, 0xff, 0xff})
			vs = append(vs, variant{"point-log-equals-q", t, xv})
			t2 := cp(ct)
			copy(t2[1:9], make([]byte, 8))
			vs = append(vs, variant{"point-identity", t2, xv})
		}
		for _, v := range vs {
			in := cp(v.ctx)
			var m []byte
			var err error
			xs := g.ScalarOf(v.x)
			p, pm := vh.Try(func() { m, err = ecies.Decrypt(g, xs, in, nil) })
			cls := eciesCls(err)
			if p {
				cls = -1
			}
			var kdfT [][2][]byte
			openT := "[]"
			if len(v.ctx) >= 9 {
				R2 := g.Point()
				if R2.UnmarshalBinary(v.ctx[:9]) == nil {
					dh2 := g.Point().Mul(xs, R2)
					dhb2, _ := dh2.MarshalBinary()
					kn2 := refKdf(dhb2)
					kdfT = append(kdfT, [2][]byte{dhb2, kn2})
					pt, e := refGcm(kn2).Open(nil, kn2[32:44], v.ctx[9:], nil)
					openT = fmt.Sprintf("[(%s, %s, %s)]", vh.CoqBytes(kn2), vh.CoqBytes(v.ctx[9:]), vh.CoqOption(vh.CoqBytes(pt), e == nil))
				}
			}
			id := newID()
			cf.Items = append(cf.Items, fmt.Sprintf("CEciesDec %d %s %s %s %s %s %s", id, coqTbl(kdfT), openT,
				vh.CoqZ(v.x), vh.CoqBytes(v.ctx), vh.CoqInt(cls), vh.CoqBytes(m)))
			d := map[string]interface{}{"type": "ecies-decrypt", "variant": v.what, "x": v.x.String(), "ctx": vh.Hex(v.ctx), "class": cls, "panic": pm, "out": vh.Hex(m)}
			rep.Index(id, d)
			rep.Count(fmt.Sprintf("ecies-dec %x %s", v.ctx, v.x), true)
			rep.Dist(fmt.Sprintf("case:ecies-decrypt:class=%d", cls))
			if id%40 == 0 {
				rep.Sample(d)
			}
		}
	}
}

// ------------------------------------------------------------------ IBE

func ibeCls(err error) int {
	if err == nil {
		return 0
	}
	s := err.Error()
	switch {
	case strings.Contains(s, "too long"):
		return 1
	case strings.Contains(s, "rejection sampling"):
		return 2
	case strings.Contains(s, "XorSigma"):
		return 3
	case strings.Contains(s, "rP check failed"):
		return 4
	}
	return 9
}

func hashTbl(s *dpSuite) string {
	var es [][2][]byte
	for _, h := range s.hashes {
		es = append(es, [2][]byte{h.in, h.out})
	}
	return coqTbl(es)
}

// idTbl: the hash-to-point oracle at the CURRENT identity bytes, computed by the
// harness itself (not recorded from the implementation, which may legitimately
// cache identity points - or wrongly reuse a stale one).
func idTbl(s *dpSuite, g2 bool, id []byte) string {
	tag := byte(2) // identities on G2 for the ...onG1 functions
	if g2 {
		tag = 1
	}
	return fmt.Sprintf("[(%s, %s, %s)]", vh.CoqBool(g2), vh.CoqBytes(id), vh.CoqZ(dpHashLog(s.q, tag, id)))
}

func xorBytes(a, b []byte) []byte {
	o := make([]byte, len(a))
	for i := range a {
		if i < len(b) {
			o[i] = a[i] ^ b[i]
		} else {
			o[i] = a[i]
		}
	}
	return o
}

func dlogOf(p kyber.Point) *big.Int { return new(big.Int).Set(p.(*dpPoint).v) }

var ibeLens = []int{0, 32, 33, 1, 16, 31, 17, 64, 15, 8, 34, 2, 1000}

func ibeCases(r *vh.Rng, n int) {
	s := newDpSuite()
	for i := 0; i < n; i++ {
		g2 := i%2 == 1
		mlen := ibeLens[(i/2)%len(ibeLens)]
		if i >= 2*len(ibeLens) {
			mlen = r.Intn(36)
		}
		sk := r.BigBelow(s.q)
		ID := r.Bytes(r.Intn(20))
		msg := msgOf(r, mlen)
		kg, ig := 1, 2 // key group, identity group
		enc, dec := ibe.EncryptCCAonG1, ibe.DecryptCCAonG1
		if g2 {
			kg, ig = 2, 1
			enc, dec = ibe.EncryptCCAonG2, ibe.DecryptCCAonG2
		}
		master := s.pointOf(kg, sk)
		Qid := s.g[ig-1].Point().(*dpPoint).Hash(ID)
		private := s.pointOf(ig, new(big.Int).Mul(sk, dlogOf(Qid)))
		s.reset()
		var c *ibe.Ciphertext
		var err error
		p, pm := vh.Try(func() { c, err = enc(s, master, cp(ID), cp(msg)) })
		cls := ibeCls(err)
		if p {
			cls = -1
		}
		sigma := []byte{}
		U, V, W := big.NewInt(0), []byte{}, []byte{}
		if cls == 0 {
			U, V, W = dlogOf(c.U), c.V, c.W
			for _, h := range s.hashes {
				if bytes.HasPrefix(h.in, []byte("IBE-H2")) {
					pad := make([]byte, len(V))
					copy(pad, h.out)
					sigma = xorBytes(V, pad)
				}
			}
		}
		id := newID()
		cf.Items = append(cf.Items, fmt.Sprintf("CIbeEnc %d %s %s %s %s %s %s %s %s %s %s %s", id, hashTbl(s), idTbl(s, g2, ID), vh.CoqBool(g2),
			vh.CoqZ(sk), vh.CoqBytes(ID), vh.CoqBytes(msg), vh.CoqBytes(sigma), vh.CoqInt(cls), vh.CoqZ(U), vh.CoqBytes(V), vh.CoqBytes(W)))
		d := map[string]interface{}{"type": "ibe-cca-encrypt", "onG2": g2, "msglen": mlen, "master": sk.String(), "id": vh.Hex(ID), "msg": vh.Hex(msg), "class": cls, "panic": pm}
		rep.Index(id, d)
		rep.Count(fmt.Sprintf("ibe-enc %v %x %x %s", g2, msg, ID, sk), true)
		rep.Dist(fmt.Sprintf("case:ibe-cca-encrypt:class=%d", cls))
		if cls != 0 {
			// Decrypt must also refuse over-long ciphertexts
			c = &ibe.Ciphertext{U: s.pointOf(kg, big.NewInt(5)), V: r.Bytes(mlen), W: r.Bytes(mlen)}
		}
		type variant struct {
			what string
			c    *ibe.Ciphertext
			priv kyber.Point
		}
		vs := []variant{{"honest", c, private}}
		if cls == 0 {
			otherID := s.g[ig-1].Point().(*dpPoint).Hash(append(cp(ID), 1))
			vs = append(vs, variant{"other-identity", c, s.pointOf(ig, new(big.Int).Mul(sk, dlogOf(otherID)))})
			vs = append(vs, variant{"other-master", c, s.pointOf(ig, new(big.Int).Mul(r.BigBelow(s.q), dlogOf(Qid)))})
			vs = append(vs, variant{"U+P", &ibe.Ciphertext{U: s.pointOf(kg, new(big.Int).Add(U, big.NewInt(1))), V: V, W: W}, private})
			if mlen > 0 {
				tv := cp(V)
				b := r.Intn(len(tv) * 8)
				tv[b/8] ^= 1 << (b % 8)
				vs = append(vs, variant{"V-bitflip", &ibe.Ciphertext{U: c.U, V: tv, W: W}, private})
				tw := cp(W)
				b = r.Intn(len(tw) * 8)
				tw[b/8] ^= 1 << (b % 8)
				vs = append(vs, variant{"W-bitflip", &ibe.Ciphertext{U: c.U, V: V, W: tw}, private})
				vs = append(vs, variant{"V-truncated", &ibe.Ciphertext{U: c.U, V: V[:len(V)-1], W: W}, private})
				vs = append(vs, variant{"W-truncated", &ibe.Ciphertext{U: c.U, V: V, W: W[:len(W)-1]}, private})
				vs = append(vs, variant{"VW-truncated", &ibe.Ciphertext{U: c.U, V: V[:len(V)-1], W: W[:len(W)-1]}, private})
			}
			vs = append(vs, variant{"VW-extended", &ibe.Ciphertext{U: c.U, V: append(cp(V), 7), W: append(cp(W), 9)}, private})
			vs = append(vs, variant{"V-extended", &ibe.Ciphertext{U: c.U, V: append(cp(V), 7), W: W}, private})
		}
		for _, v := range vs {
			s.reset()
			cc := &ibe.Ciphertext{U: v.c.U.Clone(), V: cp(v.c.V), W: cp(v.c.W)}
			var m []byte
			var err error
			p, pm := vh.Try(func() { m, err = dec(s, v.priv, cc) })
			cls := ibeCls(err)
			if p {
				cls = -1
			}
			id := newID()
			cf.Items = append(cf.Items, fmt.Sprintf("CIbeDec %d %s %s %s %s %s %s %s %s", id, hashTbl(s), vh.CoqBool(g2),
				vh.CoqZ(dlogOf(v.priv)), vh.CoqZ(dlogOf(v.c.U)), vh.CoqBytes(v.c.V), vh.CoqBytes(v.c.W), vh.CoqInt(cls), vh.CoqBytes(m)))
			d := map[string]interface{}{"type": "ibe-cca-decrypt", "onG2": g2, "variant": v.what, "private": dlogOf(v.priv).String(), "U": dlogOf(v.c.U).String(),
				"V": vh.Hex(v.c.V), "W": vh.Hex(v.c.W), "class": cls, "panic": pm, "out": vh.Hex(m)}
			rep.Index(id, d)
			rep.Count(fmt.Sprintf("ibe-dec %v %s %s %x %x", g2, dlogOf(v.priv), dlogOf(v.c.U), v.c.V, v.c.W), true)
			rep.Dist(fmt.Sprintf("case:ibe-cca-decrypt:class=%d", cls))
			if id%40 == 0 {
				rep.Sample(d)
			}
		}
	}
	// CPA on G1
	for i := 0; i < n/2+len(ibeLens); i++ {
		mlen := ibeLens[i%len(ibeLens)]
		if i >= len(ibeLens) {
			mlen = r.Intn(40)
		}
		sk := r.BigBelow(s.q)
		bv := big.NewInt(1)
		if i%3 == 1 {
			bv = r.BigBelow(s.q)
			if bv.Sign() == 0 {
				bv = big.NewInt(3)
			}
		}
		base := s.pointOf(1, bv)
		public := s.pointOf(1, new(big.Int).Mul(sk, bv))
		ID := r.Bytes(r.Intn(20))
		msg := msgOf(r, mlen)
		Qid := s.g[1].Point().(*dpPoint).Hash(ID)
		private := s.pointOf(2, new(big.Int).Mul(sk, dlogOf(Qid)))
		s.reset()
		var c *ibe.CiphertextCPA
		var err error
		p, pm := vh.Try(func() { c, err = ibe.EncryptCPAonG1(s, base, public, cp(ID), cp(msg)) })
		cls := ibeCls(err)
		if p {
			cls = -1
		}
		rv, RP, C := big.NewInt(0), big.NewInt(0), []byte{}
		if cls == 0 {
			RP, C = dlogOf(c.RP), c.C
			rv = new(big.Int).Mul(RP, new(big.Int).ModInverse(bv, s.q))
			rv.Mod(rv, s.q)
		}
		id := newID()
		cf.Items = append(cf.Items, fmt.Sprintf("CCpaEnc %d %s %s %s %s %s %s %s %s %s %s", id, hashTbl(s), idTbl(s, false, ID), vh.CoqZ(bv), vh.CoqZ(dlogOf(public)),
			vh.CoqBytes(ID), vh.CoqBytes(msg), vh.CoqZ(rv), vh.CoqInt(cls), vh.CoqZ(RP), vh.CoqBytes(C)))
		d := map[string]interface{}{"type": "ibe-cpa-encrypt", "msglen": mlen, "base": bv.String(), "secret": sk.String(), "id": vh.Hex(ID), "msg": vh.Hex(msg), "class": cls, "panic": pm, "C": vh.Hex(C)}
		rep.Index(id, d)
		rep.Count(fmt.Sprintf("cpa-enc %x %x %s", msg, ID, sk), true)
		rep.Dist(fmt.Sprintf("case:ibe-cpa-encrypt:class=%d", cls))
		if cls != 0 {
			c = &ibe.CiphertextCPA{RP: s.pointOf(1, big.NewInt(5)), C: r.Bytes(mlen)}
		}
		type variant struct {
			what string
			c    *ibe.CiphertextCPA
		}
		vs := []variant{{"honest", c}}
		if cls == 0 && mlen > 0 {
			vs = append(vs, variant{"C-truncated", &ibe.CiphertextCPA{RP: c.RP, C: C[:len(C)-1]}})
		}
		vs = append(vs, variant{"C-extended", &ibe.CiphertextCPA{RP: c.RP, C: append(cp(c.C), 1, 2, 3)}})
		for _, v := range vs {
			s.reset()
			cc := &ibe.CiphertextCPA{RP: v.c.RP.Clone(), C: cp(v.c.C)}
			var m []byte
			var err error
			p, pm := vh.Try(func() { m, err = ibe.DecryptCPAonG1(s, private, cc) })
			cls := ibeCls(err)
			if p {
				cls = -1
			}
			id := newID()
			cf.Items = append(cf.Items, fmt.Sprintf("CCpaDec %d %s %s %s %s %s %s", id, hashTbl(s), vh.CoqZ(dlogOf(private)), vh.CoqZ(dlogOf(v.c.RP)),
				vh.CoqBytes(v.c.C), vh.CoqInt(cls), vh.CoqBytes(m)))
			d := map[string]interface{}{"type": "ibe-cpa-decrypt", "variant": v.what, "private": dlogOf(private).String(), "RP": dlogOf(v.c.RP).String(), "C": vh.Hex(v.c.C), "class": cls, "panic": pm, "out": vh.Hex(m)}
			rep.Index(id, d)
			rep.Count(fmt.Sprintf("cpa-dec %s %s %x", dlogOf(private), dlogOf(v.c.RP), v.c.C), true)
			rep.Dist(fmt.Sprintf("case:ibe-cpa-decrypt:class=%d", cls))
		}
	}
}

type ibeSetting struct {
	name string
	s    pairing.Suite
}

func ibeSuites() []ibeSetting {
	return []ibeSetting{
		{"kilic", kilic.NewBLS12381Suite()},
		{"circl", circl.NewSuiteBLS12381()},
		{"gnark", gnark.NewSuiteBLS12381()},
		{"dlogpair", newDpSuite()},
	}
}

func ibeOracleCCA(r *vh.Rng, st ibeSetting, g2 bool, mlen int, nflips int) {
	s := st.s
	kg, ig := s.G1(), s.G2()
	enc, dec := ibe.EncryptCCAonG1, ibe.DecryptCCAonG1
	fn := "onG1"
	if g2 {
		kg, ig = s.G2(), s.G1()
		enc, dec = ibe.EncryptCCAonG2, ibe.DecryptCCAonG2
		fn = "onG2"
	}
	tagk := fn + "/" + st.name
	hsize := s.Hash().Size()
	sk := kg.Scalar().Pick(random.New())
	master := kg.Point().Mul(sk, nil)
	ID := r.Bytes(1 + r.Intn(16))
	hp, ok := ig.Point().(kyber.HashablePoint)
	if !ok {
		return
	}
	Qid := hp.Hash(ID)
	private := ig.Point().Mul(sk, Qid)
	msg := msgOf(r, mlen)
	desc := map[string]interface{}{"scheme": "ibe-cca-" + fn, "suite": st.name, "msglen": mlen, "msg": vh.Hex(msg), "id": vh.Hex(ID)}
	skb, _ := sk.MarshalBinary()
	desc["master_secret"] = vh.Hex(skb)
	var c *ibe.Ciphertext
	var err error
	if p, pm := vh.Try(func() { c, err = enc(s, master, cp(ID), cp(msg)) }); p {
		desc["panic"] = pm
		rep.Fail("ibe.EncryptCCA/panic/"+tagk, "EncryptCCA panicked", desc)
		return
	}
	rep.Count(fmt.Sprintf("ibe-oracle %s %x %x", tagk, msg, ID), true)
	rep.Dist("oracle:ibe-cca:" + tagk)
	if mlen > hsize {
		if err == nil {
			rep.Fail("ibe.EncryptCCA/long-accepted/"+tagk, "a message longer than the hash size (which the pad cannot cover) was accepted", desc)
		}
		// Decrypt must refuse as well, without panicking
		cl := &ibe.Ciphertext{U: kg.Point().Base(), V: r.Bytes(mlen), W: r.Bytes(mlen)}
		var e2 error
		if p, pm := vh.Try(func() { _, e2 = dec(s, private, cl) }); p {
			desc["panic"] = pm
			rep.Fail("ibe.DecryptCCA/panic/"+tagk, "DecryptCCA panicked on an over-long ciphertext", desc)
		} else if e2 == nil {
			rep.Fail("ibe.DecryptCCA/long-accepted/"+tagk, "an over-long ciphertext was decrypted", desc)
		}
		return
	}
	if err != nil {
		desc["err"] = err.Error()
		rep.Fail("ibe.EncryptCCA/refused/"+tagk, "a message no longer than the hash size was refused", desc)
		return
	}
	ub, _ := c.U.MarshalBinary()
	desc["U"], desc["V"], desc["W"] = vh.Hex(ub), vh.Hex(c.V), vh.Hex(c.W)
	run := func(priv kyber.Point, cc *ibe.Ciphertext, d map[string]interface{}) (m []byte, err error, pk bool) {
		in := &ibe.Ciphertext{U: cc.U.Clone(), V: cp(cc.V), W: cp(cc.W)}
		p, pm := vh.Try(func() { m, err = dec(s, priv, in) })
		if p {
			d["panic"] = pm
			rep.Fail("ibe.DecryptCCA/panic/"+tagk, "DecryptCCA panicked", d)
			return nil, nil, true
		}
		if !in.U.Equal(cc.U) || !bytes.Equal(in.V, cc.V) || !bytes.Equal(in.W, cc.W) {
			rep.Fail("ibe.DecryptCCA/input-mutated/"+tagk, "DecryptCCA changed the ciphertext", d)
		}
		return m, err, false
	}
	m2, err, pk := run(private, c, desc)
	if !pk && (err != nil || !bytes.Equal(m2, msg)) {
		desc["got"] = fmt.Sprintf("%x / %v", m2, err)
		rep.Fail("ibe.CCA.roundtrip/"+tagk, "DecryptCCA(EncryptCCA(m)) != m", desc)
	}
	if len(c.W) != len(msg) || len(c.V) != len(msg) {
		rep.Fail("ibe.EncryptCCA/length/"+tagk, "V/W do not have the message length", desc)
	} else if j := clearBlock(c.W, msg); j >= 0 {
		rep.Fail("ibe.EncryptCCA/clear-block/"+tagk, "a plaintext block appears unchanged in W", desc)
	} else if j := clearBlock(c.V, msg); j >= 0 {
		rep.Fail("ibe.EncryptCCA/clear-block/"+tagk, "a plaintext block appears unchanged in V", desc)
	}
	// another identity, another master key
	Q2 := ig.Point().(kyber.HashablePoint).Hash(append(cp(ID), 'x'))
	for k, priv := range []kyber.Point{ig.Point().Mul(sk, Q2), ig.Point().Mul(kg.Scalar().Pick(random.New()), Qid)} {
		d2 := map[string]interface{}{"base": desc, "wrong_key_kind": k}
		m3, err, pk := run(priv, c, d2)
		if pk || err != nil {
			continue
		}
		// sigma has the length of the message: below 8 bytes a wrong key can reproduce the same
		// sigma by chance (always for the empty message); it must still never yield another plaintext
		if mlen >= 8 || !bytes.Equal(m3, msg) {
			d2["got"] = vh.Hex(m3)
			rep.Fail("ibe.DecryptCCA/wrong-identity-accepted/"+tagk, "decryption with another key/identity returned a plaintext", d2)
		}
	}
	// tampering
	type tv struct {
		what string
		c    *ibe.Ciphertext
	}
	var ts []tv
	ts = append(ts, tv{"U+P", &ibe.Ciphertext{U: kg.Point().Add(c.U, kg.Point().Base()), V: c.V, W: c.W}})
	ts = append(ts, tv{"-U", &ibe.Ciphertext{U: kg.Point().Neg(c.U), V: c.V, W: c.W}})
	ts = append(ts, tv{"U-random", &ibe.Ciphertext{U: kg.Point().Pick(random.New()), V: c.V, W: c.W}})
	for k := 0; k < nflips && k < mlen*8; k++ {
		b := r.Intn(mlen * 8)
		if nflips >= mlen*8 {
			b = k // every bit
		}
		v := cp(c.V)
		v[b/8] ^= 1 << (b % 8)
		ts = append(ts, tv{fmt.Sprintf("V-bit-%d", b), &ibe.Ciphertext{U: c.U, V: v, W: c.W}})
		w := cp(c.W)
		w[b/8] ^= 1 << (b % 8)
		ts = append(ts, tv{fmt.Sprintf("W-bit-%d", b), &ibe.Ciphertext{U: c.U, V: c.V, W: w}})
	}
	for n := 0; n < mlen; n++ {
		ts = append(ts, tv{fmt.Sprintf("V-truncated-%d", n), &ibe.Ciphertext{U: c.U, V: c.V[:n], W: c.W}})
		ts = append(ts, tv{fmt.Sprintf("W-truncated-%d", n), &ibe.Ciphertext{U: c.U, V: c.V, W: c.W[:n]}})
		if n > 0 || mlen >= 8 {
			ts = append(ts, tv{fmt.Sprintf("VW-truncated-%d", n), &ibe.Ciphertext{U: c.U, V: c.V[:n], W: c.W[:n]}})
		}
	}
	ts = append(ts, tv{"VW-extended", &ibe.Ciphertext{U: c.U, V: append(cp(c.V), 0), W: append(cp(c.W), 0)}})
	for _, t := range ts {
		d2 := map[string]interface{}{"base": desc, "tamper": t.what, "V": vh.Hex(t.c.V), "W": vh.Hex(t.c.W)}
		if m3, err, pk := run(private, t.c, d2); !pk && err == nil {
			d2["got"] = vh.Hex(m3)
			rep.Fail("ibe.DecryptCCA/tamper-accepted/"+tagk, "an altered or truncated ciphertext was decrypted without error", d2)
		}
		rep.Dist("oracle:ibe-cca:tamper")
	}
}

func ibeOracleCPA(r *vh.Rng, st ibeSetting, mlen int) {
	s := st.s
	hsize := s.Hash().Size()
	sk := s.G1().Scalar().Pick(random.New())
	base := s.G1().Point().Base()
	if r.Bool() {
		base = s.G1().Point().Pick(random.New())
	}
	public := s.G1().Point().Mul(sk, base)
	ID := r.Bytes(1 + r.Intn(16))
	hp, ok := s.G2().Point().(kyber.HashablePoint)
	if !ok {
		return
	}
	private := s.G2().Point().Mul(sk, hp.Hash(ID))
	msg := msgOf(r, mlen)
	desc := map[string]interface{}{"scheme": "ibe-cpa-onG1", "suite": st.name, "msglen": mlen, "msg": vh.Hex(msg), "id": vh.Hex(ID)}
	var c *ibe.CiphertextCPA
	var err error
	if p, pm := vh.Try(func() { c, err = ibe.EncryptCPAonG1(s, base, public, cp(ID), cp(msg)) }); p {
		desc["panic"] = pm
		rep.Fail("ibe.EncryptCPAonG1/panic/"+st.name, "EncryptCPAonG1 panicked", desc)
		return
	}
	rep.Count(fmt.Sprintf("cpa-oracle %s %x %x", st.name, msg, ID), true)
	rep.Dist("oracle:ibe-cpa:" + st.name)
	if err != nil {
		if mlen <= hsize {
			desc["err"] = err.Error()
			rep.Fail("ibe.EncryptCPAonG1/refused/"+st.name, "a message no longer than the hash size was refused", desc)
		}
		return
	}
	desc["C"] = vh.Hex(c.C)
	// an accepted message must be hidden entirely
	if len(c.C) != len(msg) {
		rep.Fail("ibe.EncryptCPAonG1/length/"+st.name, "C does not have the message length", desc)
	} else if j := clearBlock(c.C, msg); j >= 0 {
		desc["block"] = j
		rep.Fail("ibe.EncryptCPAonG1/clear-block", "an accepted message has a 16-byte block sent in the clear (the pad covers only hash-size bytes)", desc)
	} else if mlen > hsize && bytes.Equal(c.C[hsize:], msg[hsize:]) {
		rep.Fail("ibe.EncryptCPAonG1/clear-block", "an accepted message has its bytes beyond the hash size sent in the clear", desc)
	}
	in := &ibe.CiphertextCPA{RP: c.RP.Clone(), C: cp(c.C)}
	var m2 []byte
	if p, pm := vh.Try(func() { m2, err = ibe.DecryptCPAonG1(s, private, in) }); p {
		desc["panic"] = pm
		rep.Fail("ibe.DecryptCPAonG1/panic/"+st.name, "DecryptCPAonG1 panicked", desc)
		return
	}
	if err != nil || !bytes.Equal(m2, msg) {
		desc["got"] = fmt.Sprintf("%x / %v", m2, err)
		rep.Fail("ibe.CPA.roundtrip/"+st.name, "DecryptCPAonG1(EncryptCPAonG1(m)) != m", desc)
	}
	if !bytes.Equal(in.C, c.C) || !in.RP.Equal(c.RP) {
		rep.Fail("ibe.DecryptCPAonG1/input-mutated/"+st.name, "DecryptCPAonG1 changed the ciphertext", desc)
	}
	// truncations: no panic (CPA is not authenticated)
	for _, n := range []int{0, len(c.C) / 2} {
		if p, pm := vh.Try(func() { _, _ = ibe.DecryptCPAonG1(s, private, &ibe.CiphertextCPA{RP: c.RP, C: c.C[:n]}) }); p {
			desc["panic"] = pm
			rep.Fail("ibe.DecryptCPAonG1/panic/"+st.name, "DecryptCPAonG1 panicked on a truncated ciphertext", desc)
		}
	}
}

// ------------------------------------------------------------------ anon

func anonCls(err error, pointOK bool) int {
	if err == nil {
		return 0
	}
	s := err.Error()
	switch {
	case strings.Contains(s, "too short"):
		return 1
	case strings.Contains(s, "failed MAC check"):
		return 5
	case strings.Contains(s, "invalid ciphertext"):
		return 4
	}
	if !pointOK {
		return 2
	}
	return 3
}

// recording suite: every XOF the implementation creates, and how much it reads
type recSuite struct {
	*vh.DlogGroup
	log []*recXof
}
type recXof struct {
	kyber.XOF
	seed []byte
	abs  []byte // data absorbed with Write after seeding
	n    int
}

func (x *recXof) Write(b []byte) (int, error) {
	x.abs = append(x.abs, b...)
	return x.XOF.Write(b)
}

func (x *recXof) Read(b []byte) (int, error) { x.n += len(b); return x.XOF.Read(b) }
func (x *recXof) XORKeyStream(dst, src []byte) {
	x.n += len(src)
	x.XOF.XORKeyStream(dst, src)
}
func (s *recSuite) XOF(key []byte) kyber.XOF {
	x := &recXof{XOF: s.DlogGroup.XOF(key), seed: cp(key)}
	s.log = append(s.log, x)
	return x
}
func (s *recSuite) table() string {
	// an XOF is identified by everything it absorbed (seed || written data): a
	// stream built by seeding with a prefix and writing the rest is the same oracle
	need := map[string]int{}
	src := map[string]*recXof{}
	var order []string
	for _, x := range s.log {
		k := string(x.seed) + string(x.abs)
		if _, ok := need[k]; !ok {
			order = append(order, k)
			need[k] = 0
			src[k] = x
		}
		if x.n > need[k] {
			need[k] = x.n
		}
	}
	var es [][2][]byte
	for _, k := range order {
		es = append(es, [2][]byte{[]byte(k), refXof(src[k].seed, src[k].abs, need[k])})
	}
	return coqTbl(es)
}

func anonCases(r *vh.Rng, n int) {
	for i := 0; i < n; i++ {
		nk := 1 + i%6
		var mlen int
		switch {
		case i < len(anonLens):
			mlen = anonLens[i]
		case i%3 == 0:
			mlen = boundaryLens()[r.Intn(len(boundaryLens()))]
		default:
			mlen = r.Intn(300)
		}
		rep.Dist(fmt.Sprintf("len:anon-case:%d", mlen))
		s := &recSuite{DlogGroup: vh.NewDlogGroup(vh.Q61, vh.NewSeqStream(r.Bytes(16)))}
		var privs []*big.Int
		var set anon.Set
		var setZ []*big.Int
		// every second block of six cases uses sets with REPEATED keys (adjacent, non-adjacent, all equal)
		var pat []int
		if (i/6)%2 == 1 {
			pat = [][]int{nil, {0, 0}, {1, 0, 0}, {0, 1, 1, 0}, {2, 2, 2, 2, 2}, {0, 1, 0, 1, 2, 2}}[nk-1]
		}
		rep.Dist("keys:anon-case:" + patName(pat))
		keyOf := map[int]*big.Int{}
		for k := 0; k < nk; k++ {
			kid := k
			if pat != nil {
				kid = pat[k]
			}
			v, ok := keyOf[kid]
			if !ok {
				v = r.EdgeScalar(vh.Q61)
				keyOf[kid] = v
			}
			privs = append(privs, v)
			set = append(set, s.PointOf(v))
			setZ = append(setZ, v)
		}
		msg := msgOf(r, mlen)
		ct, err := anon.Encrypt(s, cp(msg), set)
		if err != nil {
			rep.Fail("anon.Encrypt/refused/dlog61", "anon.Encrypt refused a message", map[string]interface{}{"msglen": mlen, "err": err.Error()})
			continue
		}
		X := s.Point()
		if err := X.UnmarshalBinary(ct[:9]); err != nil {
			rep.Fail("anon.Encrypt/bad-point/dlog61", "ciphertext does not start with a valid point", map[string]interface{}{"ct": vh.Hex(ct)})
			continue
		}
		xv := vh.Dlog(X)
		id := newID()
		cf.Items = append(cf.Items, fmt.Sprintf("CAnonEnc %d %s %s %s %s %s", id, s.table(), coqZs(setZ), vh.CoqZ(xv), vh.CoqBytes(msg), vh.CoqBytes(ct)))
		rep.Index(id, map[string]interface{}{"type": "anon-encrypt", "set": fmt.Sprint(setZ), "x": xv.String(), "msg": vh.Hex(msg), "ct": vh.Hex(ct)})
		rep.Count(fmt.Sprintf("anon-enc %v %x", setZ, msg), true)
		rep.Dist(fmt.Sprintf("case:anon-encrypt:set=%d", nk))
		hdr := 9 + 8*nk
		type variant struct {
			what  string
			ctx   []byte
			slack int
			mine  int
			priv  *big.Int
		}
		var vs []variant
		for k := 0; k < nk; k++ {
			if mlen > 500 && k > 0 {
				break
			}
			vs = append(vs, variant{fmt.Sprintf("honest-%d", k), ct, (k % 2) * 5, k, privs[k]})
		}
		mine := r.Intn(nk)
		flip := func(what string, lo, hi int) {
			if hi <= lo {
				return
			}
			t := cp(ct)
			b := lo*8 + r.Intn((hi-lo)*8)
			t[b/8] ^= 1 << (b % 8)
			vs = append(vs, variant{fmt.Sprintf("%s-bit-%d", what, b), t, r.Intn(2) * 3, mine, privs[mine]})
			rep.Dist("region:anon-case:" + what)
		}
		big4k := mlen > 500 // long messages: fewer variants (Coq literal size)
		if !big4k {
			flip("X", 0, 9)
			flip("own-slot", 9+8*mine, 9+8*mine+8)
		}
		if nk > 1 {
			o := (mine + 1 + r.Intn(nk-1)) % nk
			flip("other-slot", 9+8*o, 9+8*o+8)
		}
		// every region of the body: first byte, middle, last 128 bytes, last byte
		flip("body-first", hdr, hdr+1)
		if !big4k {
			flip("body-middle", hdr+mlen/3, hdr+mlen/3+mlen/3)
		}
		lo128 := hdr + mlen - 128
		if lo128 < hdr {
			lo128 = hdr
		}
		flip("body-last128", lo128, hdr+mlen)
		flip("body-last", hdr+mlen-1, hdr+mlen)
		flip("tag", hdr+mlen, hdr+mlen+16)
		tr := []int{0, 8, 9, hdr - 1, hdr, hdr + 15, hdr + 16, len(ct) - 1, r.Intn(len(ct))}
		if big4k {
			tr = []int{hdr + 16, len(ct) - 1}
		}
		for _, l := range tr {
			if l >= 0 && l < len(ct) {
				vs = append(vs, variant{fmt.Sprintf("truncate-%d", l), ct[:l], 0, mine, privs[mine]})
			}
		}
		if !big4k {
			vs = append(vs, variant{"extended", append(cp(ct), 1), 2, mine, privs[mine]})
			vs = append(vs, variant{"outsider-key", ct, 0, mine, r.BigBelow(vh.Q61)})
			if nk > 1 {
				vs = append(vs, variant{"wrong-index", ct, 0, (mine + 1) % nk, privs[mine]})
			}
		}
		if i%5 == 0 {
			vs = append(vs, variant{"index-out-of-range", ct, 0, nk, privs[mine]})
			vs = append(vs, variant{"index-negative", ct, 0, -1, privs[mine]})
		}
		for _, v := range vs {
			buf := make([]byte, len(v.ctx)+v.slack)
			copy(buf, v.ctx)
			for k := len(v.ctx); k < len(buf); k++ {
				buf[k] = 0xEE
			}
			before := cp(buf)
			s.log = nil
			var m []byte
			var err error
			p, pm := vh.Try(func() { m, err = anon.Decrypt(s, buf[:len(v.ctx)], set, v.mine, s.ScalarOf(v.priv)) })
			pointOK := len(v.ctx) >= 9 && s.Point().UnmarshalBinary(v.ctx[:9]) == nil
			cls := anonCls(err, pointOK)
			if p {
				cls = -1
			}
			id := newID()
			cf.Items = append(cf.Items, fmt.Sprintf("CAnonDec %d %s %s %d %s %s %s %s %s %s", id, s.table(), vh.CoqBytes(before), len(v.ctx),
				coqZs(setZ), vh.CoqInt(v.mine), vh.CoqZ(v.priv), vh.CoqInt(cls), vh.CoqBytes(m), vh.CoqBytes(buf)))
			d := map[string]interface{}{"type": "anon-decrypt", "variant": v.what, "set": fmt.Sprint(setZ), "mine": v.mine, "priv": v.priv.String(),
				"buffer": vh.Hex(before), "len": len(v.ctx), "class": cls, "panic": pm, "out": vh.Hex(m), "buffer_after": vh.Hex(buf)}
			rep.Index(id, d)
			rep.Count(fmt.Sprintf("anon-dec %x %d %s %d", before, v.mine, v.priv, len(v.ctx)), true)
			rep.Dist(fmt.Sprintf("case:anon-decrypt:class=%d", cls))
			if id%40 == 0 {
				rep.Sample(d)
			}
		}
	}
}

type anonSetting struct {
	name string
	s    anon.Suite
}

// keyPattern, when set, makes anonOracle build its anonymity set with REPEATED keys:
// position k holds key number keyPattern[k] (e.g. {0,0}, {1,0,0}, {0,1,0}, {2,2,2,2,2}).
var keyPattern []int

func patName(p []int) string {
	if p == nil {
		return "distinct"
	}
	return strings.Trim(strings.ReplaceAll(fmt.Sprint(p), " ", ""), "[]")
}

func anonOracle(r *vh.Rng, st anonSetting, nk, mlen, nflips int, allTrunc bool) {
	s := st.s
	var privs []kyber.Scalar
	var set anon.Set
	if keyPattern != nil {
		nk = len(keyPattern)
	}
	distinct := map[int]kyber.Scalar{}
	for k := 0; k < nk; k++ {
		kid := k
		if keyPattern != nil {
			kid = keyPattern[k]
		}
		x, ok := distinct[kid]
		if !ok {
			x = s.Scalar().Pick(random.New())
			distinct[kid] = x
		}
		privs = append(privs, x)
		set = append(set, s.Point().Mul(x, nil)) // a separate point object per position
	}
	rep.Dist("keys:anon-oracle:" + patName(keyPattern))
	msg := msgOf(r, mlen)
	desc := map[string]interface{}{"scheme": "anon", "suite": st.name, "set_size": nk, "key_pattern": patName(keyPattern), "msglen": mlen, "msg": vh.Hex(msg)}
	var pk []string
	for _, x := range privs {
		b, _ := x.MarshalBinary()
		pk = append(pk, vh.Hex(b))
	}
	desc["private_keys"] = pk
	var ct []byte
	var err error
	if p, pm := vh.Try(func() { ct, err = anon.Encrypt(s, cp(msg), set) }); p {
		desc["panic"] = pm
		rep.Fail("anon.Encrypt/panic/"+st.name, "anon.Encrypt panicked", desc)
		return
	}
	rep.Count(fmt.Sprintf("anon-oracle %s %d %x", st.name, nk, msg), true)
	rep.Dist(fmt.Sprintf("oracle:anon:%s:set=%d", st.name, nk))
	rep.Dist(fmt.Sprintf("len:anon-oracle:%d", mlen))
	if err != nil {
		desc["err"] = err.Error()
		rep.Fail("anon.Encrypt/refused/"+st.name, "anon.Encrypt refused a message", desc)
		return
	}
	desc["ciphertext"] = vh.Hex(ct)
	pl, sl := s.PointLen(), s.ScalarLen()
	hdr := pl + sl*nk
	run := func(ctx []byte, slack, mine int, x kyber.Scalar, d map[string]interface{}) (m []byte, err error, pk bool) {
		buf := make([]byte, len(ctx)+slack)
		copy(buf, ctx)
		p, pm := vh.Try(func() { m, err = anon.Decrypt(s, buf[:len(ctx)], set, mine, x) })
		if p {
			d["panic"] = pm
			rep.Fail("anon.Decrypt/panic/"+st.name, "anon.Decrypt panicked", d)
			return nil, nil, true
		}
		if !bytes.Equal(buf[:len(ctx)], ctx) {
			d["buffer_after"] = vh.Hex(buf[:len(ctx)])
			rep.Fail("anon.Decrypt/input-mutated", "anon.Decrypt changed the caller's ciphertext buffer (a second Decrypt of the same buffer then fails or succeeds differently)", d)
		}
		return m, err, false
	}
	if len(ct) != hdr+len(msg)+16 {
		rep.Fail("anon.Encrypt/length/"+st.name, "ciphertext length is not header+len(m)+16", desc)
		return
	}
	if j := clearBlock(ct[hdr:], msg); j >= 0 {
		desc["block"] = j
		rep.Fail("anon.Encrypt/clear-block/"+st.name, "a 16-byte plaintext block appears unchanged in the ciphertext", desc)
	}
	// every recipient, fresh copies, with and without spare capacity; then all recipients on ONE shared buffer
	for k := 0; k < nk; k++ {
		d2 := map[string]interface{}{"base": desc, "mine": k}
		m2, err, pk := run(ct, (k%2)*7, k, privs[k], d2)
		if !pk && (err != nil || !bytes.Equal(m2, msg)) {
			d2["got"] = fmt.Sprintf("%x / %v", m2, err)
			rep.Fail("anon.roundtrip/"+st.name, "Decrypt(Encrypt(m)) != m for a member of the set", d2)
		}
	}
	shared := cp(ct)
	for k := 0; k < nk; k++ {
		var m2 []byte
		var err error
		p, _ := vh.Try(func() { m2, err = anon.Decrypt(s, shared, set, k, privs[k]) })
		if !p && (err != nil || !bytes.Equal(m2, msg)) {
			rep.Fail("anon.Decrypt/shared-buffer", "members decrypting the same ciphertext buffer one after the other do not all obtain the message",
				map[string]interface{}{"base": desc, "mine": k, "got": fmt.Sprintf("%x / %v", m2, err)})
			break
		}
	}
	mine := r.Intn(nk)
	// outsiders and wrong positions
	if m3, err, pk := run(ct, 0, mine, s.Scalar().Pick(random.New()), map[string]interface{}{"base": desc, "mine": mine, "key": "outsider"}); !pk && err == nil {
		rep.Fail("anon.Decrypt/wrong-key-accepted/"+st.name, "decryption with a key outside the set returned a plaintext", map[string]interface{}{"base": desc, "got": vh.Hex(m3)})
	}
	if nk > 1 && !privs[mine].Equal(privs[(mine+1)%nk]) {
		if m3, err, pk := run(ct, 0, (mine+1)%nk, privs[mine], map[string]interface{}{"base": desc, "mine": (mine + 1) % nk, "key_of": mine}); !pk && err == nil {
			rep.Fail("anon.Decrypt/wrong-key-accepted/"+st.name, "decryption with a key at the wrong index returned a plaintext", map[string]interface{}{"base": desc, "got": vh.Hex(m3)})
		}
	}
	// the anonymity-set slice is a caller object: replace one member IN PLACE and reuse the slice
	if nk > 1 {
		j := (mine + 1) % nk
		oldY := set[j]
		xn := s.Scalar().Pick(random.New())
		set[j] = s.Point().Mul(xn, nil)
		rep.Dist("reuse:anon:set-slice-member-replaced-in-place")
		// the earlier ciphertext was not made for the set as it is NOW: not decryptable by all listed members
		if m3, err, pk := run(ct, 0, mine, privs[mine], map[string]interface{}{"base": desc, "mine": mine, "set": "member replaced"}); !pk && err == nil {
			rep.Fail("anon.Decrypt/other-set-accepted/"+st.name, "a ciphertext is accepted for an anonymity set in which another member's key was replaced", map[string]interface{}{"base": desc, "got": vh.Hex(m3), "replaced": j})
		}
		msg2 := msgOf(r, mlen)
		mbuf := cp(msg2)
		var ct2 []byte
		var e2 error
		if p, _ := vh.Try(func() { ct2, e2 = anon.Encrypt(s, mbuf, set) }); !p && e2 == nil {
			if !bytes.Equal(mbuf, msg2) {
				rep.Fail("anon.Encrypt/input-mutated/"+st.name, "anon.Encrypt changed the caller's message buffer", desc)
			}
			for k := range mbuf {
				mbuf[k] = 0xA5 // the caller reuses its message buffer
			}
			d2 := map[string]interface{}{"base": desc, "history": "set[j] replaced in place, second Encrypt with the same slice, message buffer overwritten afterwards", "j": j, "msg2": vh.Hex(msg2), "ciphertext2": vh.Hex(ct2)}
			if m3, err, pk := run(ct2, 0, j, xn, d2); !pk && (err != nil || !bytes.Equal(m3, msg2)) {
				d2["got"] = fmt.Sprintf("%x / %v", m3, err)
				rep.Fail("anon.reuse/new-member-cannot-decrypt/"+st.name, "after replacing a member in place the new member cannot decrypt the next ciphertext", d2)
			}
			if m3, err, pk := run(ct2, 0, j, privs[j], d2); !pk && err == nil {
				d2["got"] = vh.Hex(m3)
				rep.Fail("anon.reuse/replaced-member-decrypts/"+st.name, "the replaced member's key still decrypts a ciphertext made for the current set", d2)
			}
			if m3, err, pk := run(ct2, 0, mine, privs[mine], d2); !pk && (err != nil || !bytes.Equal(m3, msg2)) {
				d2["got"] = fmt.Sprintf("%x / %v", m3, err)
				rep.Fail("anon.reuse/member-cannot-decrypt/"+st.name, "an unchanged member cannot decrypt the ciphertext made for the current set", d2)
			}
		}
		set[j] = oldY
	}
	// single-bit flips: region by region
	type region struct {
		name   string
		lo, hi int
	}
	lo128 := hdr + mlen - 128
	if lo128 < hdr {
		lo128 = hdr
	}
	regs := []region{{"X", 0, pl}, {"own-slot", pl + sl*mine, pl + sl*mine + sl},
		{"body-first", hdr, hdr + 1}, {"body-middle", hdr + mlen/3, hdr + 2*(mlen/3)}, {"body-last128", lo128, hdr + mlen},
		{"body-last", hdr + mlen - 1, hdr + mlen}, {"tag-first", hdr + mlen, hdr + mlen + 1}, {"tag", hdr + mlen, len(ct)}}
	if mlen == 0 {
		regs = []region{{"X", 0, pl}, {"own-slot", pl + sl*mine, pl + sl*mine + sl}, {"tag", hdr, len(ct)}}
	}
	for o := 0; o < nk; o++ {
		if o != mine {
			regs = append(regs, region{"other-slot", pl + sl*o, pl + sl*o + sl})
		}
	}
	for _, rg := range regs {
		nb := (rg.hi - rg.lo) * 8
		for k := 0; k < nflips && nb > 0; k++ {
			b := r.Intn(nb)
			if nflips >= nb {
				if k >= nb {
					break
				}
				b = k
			}
			b += rg.lo * 8
			t := cp(ct)
			t[b/8] ^= 1 << (b % 8)
			d2 := map[string]interface{}{"base": desc, "mine": mine, "region": rg.name, "flipped_bit": b, "ciphertext": vh.Hex(t)}
			if m3, err, pk := run(t, r.Intn(2)*4, mine, privs[mine], d2); !pk && err == nil {
				d2["got"] = vh.Hex(m3)
				if rg.name == "other-slot" {
					rep.Fail("anon.Decrypt/tamper-other-slot-accepted", "a ciphertext whose key slot for ANOTHER recipient was altered is accepted (the header re-derivation check compares a buffer with itself)", d2)
				} else {
					rep.Fail("anon.Decrypt/tamper-accepted/"+rg.name, "a ciphertext with one flipped bit was decrypted without error", d2)
				}
			}
			rep.Dist("region:anon-oracle:" + rg.name)
		}
	}
	// truncations
	var cuts []int
	if allTrunc {
		for n := 0; n < len(ct); n++ {
			cuts = append(cuts, n)
		}
	} else {
		// boundaries of every region, block boundaries near the end, and a few random lengths
		for _, n := range []int{0, 1, pl - 1, pl, pl + 1, hdr - 1, hdr, hdr + 1, hdr + 15, hdr + 16, hdr + 17, hdr + 64, hdr + 65,
			len(ct) - 145, len(ct) - 144, len(ct) - 129, len(ct) - 128, len(ct) - 33, len(ct) - 32, len(ct) - 17, len(ct) - 16, len(ct) - 15, len(ct) - 2, len(ct) - 1} {
			if n >= 0 && n < len(ct) {
				cuts = append(cuts, n)
			}
		}
		for k := 0; k < 6; k++ {
			cuts = append(cuts, r.Intn(len(ct)))
		}
	}
	for _, n := range cuts {
		d2 := map[string]interface{}{"base": desc, "mine": mine, "truncated_to": n}
		if m3, err, pk := run(ct[:n], 0, mine, privs[mine], d2); !pk && err == nil {
			d2["got"] = vh.Hex(m3)
			rep.Fail("anon.Decrypt/truncated-accepted/"+st.name, "a truncated ciphertext was decrypted without error", d2)
		}
		rep.Dist("oracle:anon:truncation")
	}
}

// ------------------------------------------------------------------ object and buffer reuse

// ibeReuseOracle: a history of encryptions in which the caller REUSES its buffers:
// the next identity is written in place into the byte slice passed before (or the
// buffer is modified and the new identity passed through another slice), the message
// buffer is overwritten after every call.  Every ciphertext must open under the key
// of the identity that was in the buffer AT THE TIME OF THE CALL and not under the
// previous one.  kind: 0 CCAonG1, 1 CCAonG2, 2 CPAonG1.
func ibeReuseOracle(r *vh.Rng, st ibeSetting, kind int) {
	s := st.s
	kg, ig := s.G1(), s.G2()
	fn := []string{"CCAonG1", "CCAonG2", "CPAonG1"}[kind]
	if kind == 1 {
		kg, ig = s.G2(), s.G1()
	}
	if _, ok := ig.Point().(kyber.HashablePoint); !ok {
		return
	}
	tagk := fn + "/" + st.name
	sk := kg.Scalar().Pick(random.New())
	base := kg.Point().Base()
	master := kg.Point().Mul(sk, base)
	keyOf := func(id []byte) kyber.Point {
		return ig.Point().Mul(sk, ig.Point().(kyber.HashablePoint).Hash(cp(id)))
	}
	hs := s.Hash().Size()
	n := 4 + r.Intn(12)
	idbuf := make([]byte, n)
	msgbuf := make([]byte, hs)
	var prevID []byte
	var hist []string
	for round := 0; round < 5; round++ {
		pattern := ""
		passCopy := false
		switch round {
		case 0:
			copy(idbuf, r.Bytes(n))
			pattern = "fresh-buffer"
		case 1:
			idbuf[n-1]++ // a round number incremented in place
			pattern = "id-incremented-in-place"
		case 2:
			copy(idbuf, r.Bytes(n))
			passCopy = true
			pattern = "id-buffer-modified-then-passed-as-copy"
		case 3:
			pattern = "same-id-again"
		case 4:
			copy(idbuf, r.Bytes(n))
			pattern = "id-overwritten-in-place"
		}
		rep.Dist("reuse:ibe:" + pattern)
		hist = append(hist, pattern)
		curID := cp(idbuf)
		mlen := 8 + r.Intn(hs-7)
		copy(msgbuf, r.Bytes(mlen))
		curMsg := cp(msgbuf[:mlen])
		idArg := idbuf
		if passCopy {
			idArg = cp(idbuf)
		}
		desc := map[string]interface{}{"scheme": "ibe-" + fn, "suite": st.name, "history": strings.Join(hist, ","), "id": vh.Hex(curID), "msg": vh.Hex(curMsg)}
		if prevID != nil {
			desc["previous_id"] = vh.Hex(prevID)
		}
		var dec func(priv kyber.Point) ([]byte, error)
		var err error
		var pk bool
		var pm string
		if kind == 2 {
			var c *ibe.CiphertextCPA
			pk, pm = vh.Try(func() { c, err = ibe.EncryptCPAonG1(s, base, master, idArg, msgbuf[:mlen]) })
			dec = func(priv kyber.Point) ([]byte, error) {
				return ibe.DecryptCPAonG1(s, priv, &ibe.CiphertextCPA{RP: c.RP.Clone(), C: cp(c.C)})
			}
		} else {
			var c *ibe.Ciphertext
			enc, d := ibe.EncryptCCAonG1, ibe.DecryptCCAonG1
			if kind == 1 {
				enc, d = ibe.EncryptCCAonG2, ibe.DecryptCCAonG2
			}
			pk, pm = vh.Try(func() { c, err = enc(s, master, idArg, msgbuf[:mlen]) })
			dec = func(priv kyber.Point) ([]byte, error) {
				return d(s, priv, &ibe.Ciphertext{U: c.U.Clone(), V: cp(c.V), W: cp(c.W)})
			}
		}
		rep.Count(fmt.Sprintf("ibe-reuse %s %x %x", tagk, curID, curMsg), true)
		if pk || err != nil {
			desc["err"] = fmt.Sprint(pm, err)
			rep.Fail("ibe.reuse/encrypt-failed/"+tagk, "encryption failed in a buffer-reuse history", desc)
			return
		}
		if !bytes.Equal(idbuf, curID) || !bytes.Equal(msgbuf[:mlen], curMsg) {
			rep.Fail("ibe.Encrypt/input-mutated/"+tagk, "encryption changed the caller's identity or message buffer", desc)
		}
		// the caller reuses its message buffer right away
		for k := range msgbuf {
			msgbuf[k] = 0x5A
		}
		var m2 []byte
		if p, pm := vh.Try(func() { m2, err = dec(keyOf(curID)) }); p || err != nil || !bytes.Equal(m2, curMsg) {
			desc["got"] = fmt.Sprintf("%x / %v %s", m2, err, pm)
			rep.Fail("ibe.reuse/current-identity-cannot-decrypt/"+tagk, "the ciphertext does not open under the key of the identity that was passed to the call (identity buffer reused by the caller)", desc)
		}
		if prevID != nil && !bytes.Equal(prevID, curID) {
			var m3 []byte
			if p, _ := vh.Try(func() { m3, err = dec(keyOf(prevID)) }); !p && ((kind != 2 && err == nil) || (kind == 2 && bytes.Equal(m3, curMsg))) {
				desc["got"] = vh.Hex(m3)
				rep.Fail("ibe.reuse/previous-identity-decrypts/"+tagk, "the ciphertext opens under the key of the PREVIOUS identity (stale identity point)", desc)
			}
		}
		prevID = curID
	}
}

// eciesReuseOracle: long-lived key objects re-keyed in place, message buffer reused.
func eciesReuseOracle(r *vh.Rng, st eciesSetting) {
	g := st.g
	x := g.Scalar()
	X := g.Point()
	msgbuf := make([]byte, 300)
	var prevCt []byte
	for round := 0; round < 3; round++ {
		x.Pick(random.New()) // re-key IN PLACE
		X.Mul(x, nil)
		Xb, _ := X.MarshalBinary()
		xb, _ := x.MarshalBinary()
		mlen := []int{64, 17, 300}[round]
		copy(msgbuf, r.Bytes(mlen))
		cur := cp(msgbuf[:mlen])
		rep.Dist("reuse:ecies:key-objects-rekeyed-in-place")
		desc := map[string]interface{}{"scheme": "ecies", "group": st.name, "round": round, "private": vh.Hex(xb), "msg": vh.Hex(cur)}
		var ct []byte
		var err error
		if p, pm := vh.Try(func() { ct, err = ecies.Encrypt(g, X, msgbuf[:mlen], nil) }); p || err != nil {
			desc["err"] = fmt.Sprint(pm, err)
			rep.Fail("ecies.reuse/encrypt-failed/"+st.name, "Encrypt failed with reused key objects", desc)
			return
		}
		rep.Count(fmt.Sprintf("ecies-reuse %s %x", st.name, cur), true)
		Xa, _ := X.MarshalBinary()
		xa, _ := x.MarshalBinary()
		if !bytes.Equal(Xa, Xb) || !bytes.Equal(xa, xb) || !bytes.Equal(msgbuf[:mlen], cur) {
			rep.Fail("ecies.Encrypt/input-mutated/"+st.name, "Encrypt changed the caller's key or message objects", desc)
		}
		for k := range msgbuf {
			msgbuf[k] = 0xC3
		}
		desc["ciphertext"] = vh.Hex(ct)
		if m2, err, pk := eciesDecrypt(st.name, g, x, ct, desc); !pk && (err != nil || !bytes.Equal(m2, cur)) {
			desc["got"] = fmt.Sprintf("%x / %v", m2, err)
			rep.Fail("ecies.reuse/roundtrip/"+st.name, "Decrypt(Encrypt(m)) != m with key objects re-keyed in place and the message buffer reused", desc)
		}
		xa2, _ := x.MarshalBinary()
		if !bytes.Equal(xa2, xb) {
			rep.Fail("ecies.Decrypt/key-mutated/"+st.name, "Decrypt changed the private key object", desc)
		}
		if prevCt != nil {
			if m3, err, pk := eciesDecrypt(st.name, g, x, prevCt, desc); !pk && err == nil {
				desc["got"] = vh.Hex(m3)
				rep.Fail("ecies.reuse/old-ciphertext-opens-under-new-key/"+st.name, "a ciphertext made for the previous key opens under the re-keyed object", desc)
			}
		}
		prevCt = ct
	}
}

// ibeHistoryCases: model cases in which consecutive encryptions share ONE identity
// buffer that is rewritten in place; the model is evaluated at the current bytes.
func ibeHistoryCases(r *vh.Rng, s *dpSuite) {
	for kind := 0; kind < 3; kind++ {
		g2 := kind == 1
		kg, ig := 1, 2
		if g2 {
			kg, ig = 2, 1
		}
		sk := r.BigBelow(s.q)
		master := s.pointOf(kg, sk)
		idbuf := r.Bytes(10)
		for round := 0; round < 3; round++ {
			pattern := "fresh"
			arg := idbuf
			switch round {
			case 1:
				idbuf[9]++
				pattern = "id-incremented-in-place"
			case 2:
				copy(idbuf, r.Bytes(10))
				arg = cp(idbuf)
				pattern = "id-buffer-modified-then-passed-as-copy"
			}
			rep.Dist("reuse:ibe-case:" + pattern)
			ID := cp(idbuf)
			msg := msgOf(r, 8+r.Intn(25))
			qid := dpHashLog(s.q, byte(ig), ID)
			private := s.pointOf(ig, new(big.Int).Mul(sk, qid))
			s.reset()
			id := newID()
			d := map[string]interface{}{"type": "ibe-history-encrypt", "kind": kind, "pattern": pattern, "secret": sk.String(), "id": vh.Hex(ID), "msg": vh.Hex(msg)}
			if kind == 2 {
				var c *ibe.CiphertextCPA
				var err error
				p, _ := vh.Try(func() { c, err = ibe.EncryptCPAonG1(s, s.pointOf(1, big.NewInt(1)), master, arg, cp(msg)) })
				cls := ibeCls(err)
				if p {
					cls = -1
				}
				RP, C := big.NewInt(0), []byte{}
				if cls == 0 {
					RP, C = dlogOf(c.RP), c.C
				}
				cf.Items = append(cf.Items, fmt.Sprintf("CCpaEnc %d %s %s %s %s %s %s %s %s %s %s", id, hashTbl(s), idTbl(s, false, ID), vh.CoqZ(big.NewInt(1)), vh.CoqZ(sk),
					vh.CoqBytes(ID), vh.CoqBytes(msg), vh.CoqZ(RP), vh.CoqInt(cls), vh.CoqZ(RP), vh.CoqBytes(C)))
				d["class"] = cls
				rep.Index(id, d)
				rep.Count(fmt.Sprintf("cpa-hist %x %x", ID, msg), true)
				rep.Dist("case:ibe-history")
				if cls == 0 {
					s.reset()
					var m []byte
					p, _ := vh.Try(func() { m, err = ibe.DecryptCPAonG1(s, private, &ibe.CiphertextCPA{RP: c.RP.Clone(), C: cp(c.C)}) })
					cls2 := ibeCls(err)
					if p {
						cls2 = -1
					}
					id2 := newID()
					cf.Items = append(cf.Items, fmt.Sprintf("CCpaDec %d %s %s %s %s %s %s", id2, hashTbl(s), vh.CoqZ(dlogOf(private)), vh.CoqZ(RP), vh.CoqBytes(C), vh.CoqInt(cls2), vh.CoqBytes(m)))
					rep.Index(id2, map[string]interface{}{"type": "ibe-history-decrypt", "kind": kind, "pattern": pattern, "class": cls2, "out": vh.Hex(m)})
					rep.Count(fmt.Sprintf("cpa-hist-dec %x", C), true)
					if cls2 != 0 || !bytes.Equal(m, msg) {
						rep.Fail("ibe.reuse/current-identity-cannot-decrypt/CPAonG1/dlogpair", "the ciphertext does not open under the key of the identity passed to the call (identity buffer reused)", d)
					}
				}
				continue
			}
			enc, dec := ibe.EncryptCCAonG1, ibe.DecryptCCAonG1
			if g2 {
				enc, dec = ibe.EncryptCCAonG2, ibe.DecryptCCAonG2
			}
			var c *ibe.Ciphertext
			var err error
			p, _ := vh.Try(func() { c, err = enc(s, master, arg, cp(msg)) })
			cls := ibeCls(err)
			if p {
				cls = -1
			}
			sigma, U, V, W := []byte{}, big.NewInt(0), []byte{}, []byte{}
			if cls == 0 {
				U, V, W = dlogOf(c.U), c.V, c.W
				for _, h := range s.hashes {
					if bytes.HasPrefix(h.in, []byte("IBE-H2")) {
						pad := make([]byte, len(V))
						copy(pad, h.out)
						sigma = xorBytes(V, pad)
					}
				}
			}
			cf.Items = append(cf.Items, fmt.Sprintf("CIbeEnc %d %s %s %s %s %s %s %s %s %s %s %s", id, hashTbl(s), idTbl(s, g2, ID), vh.CoqBool(g2),
				vh.CoqZ(sk), vh.CoqBytes(ID), vh.CoqBytes(msg), vh.CoqBytes(sigma), vh.CoqInt(cls), vh.CoqZ(U), vh.CoqBytes(V), vh.CoqBytes(W)))
			d["class"] = cls
			rep.Index(id, d)
			rep.Count(fmt.Sprintf("ibe-hist %v %x %x", g2, ID, msg), true)
			rep.Dist("case:ibe-history")
			if cls == 0 {
				s.reset()
				var m []byte
				p, _ := vh.Try(func() { m, err = dec(s, private, &ibe.Ciphertext{U: c.U.Clone(), V: cp(V), W: cp(W)}) })
				cls2 := ibeCls(err)
				if p {
					cls2 = -1
				}
				id2 := newID()
				cf.Items = append(cf.Items, fmt.Sprintf("CIbeDec %d %s %s %s %s %s %s %s %s", id2, hashTbl(s), vh.CoqBool(g2),
					vh.CoqZ(dlogOf(private)), vh.CoqZ(U), vh.CoqBytes(V), vh.CoqBytes(W), vh.CoqInt(cls2), vh.CoqBytes(m)))
				rep.Index(id2, map[string]interface{}{"type": "ibe-history-decrypt", "kind": kind, "pattern": pattern, "class": cls2, "out": vh.Hex(m)})
				rep.Count(fmt.Sprintf("ibe-hist-dec %x %x", V, W), true)
				if cls2 != 0 || !bytes.Equal(m, msg) {
					rep.Fail("ibe.reuse/current-identity-cannot-decrypt/"+[]string{"CCAonG1", "CCAonG2"}[kind]+"/dlogpair", "the ciphertext does not open under the key of the identity passed to the call (identity buffer reused)", d)
				}
			}
		}
	}
}

// ------------------------------------------------------------------ main

func main() {
	opts = vh.ParseFlags()
	r := vh.NewRng(opts.Seed)
	rep = vh.NewReport("C16", opts.Seed, opts.Tier)
	rep.Rule = "model cases: ECIES / IBE-CCA (both group assignments) / IBE-CPA / anonymity-set Encrypt and Decrypt over discrete-log groups, message lengths boundary-biased 0..4096 (around 16/32/64/128/136/256.., families 128k, 136k, 64+128k; IBE 0..hash size+2, 64, 1000), set sizes 1..6 x every index, honest / wrong key / one bit flipped in EVERY region (point, own and other slot, first / middle / last-128 / last body byte, tag) / truncation at region boundaries / extension variants, histories with caller buffers and key objects reused in place (identity, message, set slice, key objects); oracles over Ed25519, P-256, BN256 G1, BLS12-381 (kilic, circl, gnark): round trip, refusal, wrong key, every region bit flips (sampled in quick), truncations, 16-byte clear blocks, input buffer unchanged, no panic"
	cf = &vh.CaseFile{Header: "From Kyber Require Import Enc.EncRun.", Type: "case", Runner: "mismatches"}

	scale := 1
	if opts.Thorough {
		scale = 4
	}
	if opts.Search {
		scale = 3
	}
	if !opts.Search {
		eciesCases(r.Fork(), 12*scale)
		ibeCases(r.Fork(), 16*scale)
		ibeHistoryCases(r.Fork(), newDpSuite())
		anonCases(r.Fork(), 18*scale)
	}

	// ---- oracles over the real groups
	ro := r.Fork()
	for _, st := range eciesGroups() {
		for k, l := range edgeLen {
			if !opts.Thorough && !opts.Search && l > 100 && st.name != "ed25519" {
				continue
			}
			nfl := 24
			if (opts.Thorough || opts.Search) && l <= 64 {
				nfl = 1 << 30 // every bit
			}
			eciesOracle(ro.Fork(), st, l, nfl, opts.Thorough || l <= 64 || k%2 == 0)
		}
		for k := 0; k < 3*scale; k++ {
			eciesOracle(ro.Fork(), st, ro.Intn(200), 16, false)
		}
		if st.name == "ed25519" || st.name == "dlog61" || opts.Thorough || opts.Search {
			bl := boundaryLens()
			for k := 0; k < 6*scale; k++ {
				eciesOracle(ro.Fork(), st, bl[ro.Intn(len(bl))], 12, false)
			}
		}
		eciesReuseOracle(ro.Fork(), st)
	}
	for _, st := range ibeSuites() {
		hs := st.s.Hash().Size()
		lens := []int{0, 1, 7, 8, 15, 16, 17, hs - 1, hs, hs + 1, hs + 2, 64, 1000}
		for k, l := range lens {
			for _, g2 := range []bool{false, true} {
				nfl := 6
				if opts.Thorough || opts.Search {
					nfl = 1 << 30
				}
				if !opts.Thorough && !opts.Search && st.name != "dlogpair" && k%2 == 1 && l < hs-1 {
					continue // quick tier: half of the short lengths per back-end
				}
				ibeOracleCCA(ro.Fork(), st, g2, l, nfl)
			}
			ibeOracleCPA(ro.Fork(), st, l)
		}
		for k := 0; k < 2*scale; k++ {
			ibeOracleCCA(ro.Fork(), st, k%2 == 0, ro.Intn(hs+1), 4)
			ibeOracleCPA(ro.Fork(), st, ro.Intn(3*hs))
		}
		for rounds := 0; rounds < scale; rounds++ {
			for kind := 0; kind < 3; kind++ {
				ibeReuseOracle(ro.Fork(), st, kind)
			}
		}
	}
	for _, st := range eciesAllGroups() {
		for k := 0; k < scale; k++ {
			eciesHashOracle(ro.Fork(), st)
		}
	}
	anons := []anonSetting{{"ed25519", edwards25519.NewBlakeSHA256Ed25519()}, {"dlog61", vh.NewDlogGroup(vh.Q61, nil)}}
	for _, st := range anons {
		full := opts.Thorough || opts.Search
		// short messages: every set size; every bit / every truncation in the thorough tier
		for nk := 1; nk <= 6; nk++ {
			for k, l := range []int{0, 1, 15, 16, 17, 31, 32, 33} {
				if !full && (k+nk)%3 != 0 && l > 17 {
					continue
				}
				nfl := 4
				if full {
					nfl = 1 << 30
				}
				anonOracle(ro.Fork(), st, nk, l, nfl, true)
			}
		}
		// boundary sweep: every length of boundaryLens() over the transparent group (cheap),
		// a rotating third of them over Ed25519 in the quick tier; one bit (quick: 2) in every
		// region of every ciphertext, truncation at every region boundary
		for k, l := range boundaryLens() {
			if l <= 33 {
				continue
			}
			if st.name == "ed25519" && !full && (k+int(opts.Seed))%3 != 0 {
				continue
			}
			nfl := 2
			if full {
				nfl = 12
			}
			anonOracle(ro.Fork(), st, 1+(k+int(opts.Seed))%6, l, nfl, false)
		}
		for k := 0; k < 4*scale; k++ {
			anonOracle(ro.Fork(), st, 1+ro.Intn(6), ro.Intn(4097), 2, false)
		}
		// anonymity sets with repeated keys, decrypting at EVERY index
		for _, pat := range [][]int{{0, 0}, {1, 0, 0}, {0, 0, 1}, {0, 1, 0}, {2, 2, 2, 2, 2}, {0, 1, 1, 0}, {0, 1, 0, 1, 2, 2}, {0, 0, 0, 1, 1, 1}} {
			keyPattern = pat
			for _, l := range []int{0, 17, 100} {
				if !full && l == 100 && len(pat) > 3 {
					continue
				}
				anonOracle(ro.Fork(), st, len(pat), l, 2, l == 0)
			}
			keyPattern = nil
		}
	}

	vh.WriteShards(opts.Out, "c16", cf, 40, rep)
	rep.Write(opts.Out)
}
