package main

// A transparent pairing suite for driving encrypt/ibe: G1, G2 and GT are
// groups of the prime order of BLS12-381 whose points are represented by their
// discrete logarithms; e(a, b) = a*b.  Scalars are kyber's mod.Int (32 bytes,
// big-endian), so that ibe.h3's rejection sampling against SHA-256 outputs runs
// as it does on the real suites.  The suite records every hash computation
// (input, digest) and every hash-to-point call, which become the oracle tables
// of the Coq model run.

import (
	"crypto/cipher"
	"crypto/sha256"
	"errors"
	"fmt"
	"hash"
	"io"
	"math/big"

	"go.dedis.ch/kyber/v4"
	"go.dedis.ch/kyber/v4/compatible"
	"go.dedis.ch/kyber/v4/compatible/compatiblemod"
	"go.dedis.ch/kyber/v4/group/mod"
	"go.dedis.ch/kyber/v4/util/random"
	"go.dedis.ch/kyber/v4/xof/blake2xb"
)

var qBLS, _ = new(big.Int).SetString("73eda753299d7d483339d80809a1d80553bda402fffe5bfeffffffff00000001", 16)

type hashEntry struct{ in, out []byte }
type idEntry struct {
	g2  bool // hashed onto G1 (true: used by the ...onG2 functions) or G2 (false)
	id  []byte
	log *big.Int
}

type dpSuite struct {
	q      *big.Int
	m      *compatiblemod.Mod
	g      [3]*dpGroup
	hashes []hashEntry
	ids    []idEntry
}

func newDpSuite() *dpSuite {
	s := &dpSuite{q: qBLS, m: compatiblemod.FromBigInt(qBLS)}
	for i := range s.g {
		s.g[i] = &dpGroup{s: s, tag: byte(i + 1)}
	}
	return s
}

func (s *dpSuite) reset()          { s.hashes, s.ids = nil, nil }
func (s *dpSuite) G1() kyber.Group { return s.g[0] }
func (s *dpSuite) G2() kyber.Group { return s.g[1] }
func (s *dpSuite) GT() kyber.Group { return s.g[2] }
func (s *dpSuite) Pair(a, b kyber.Point) kyber.Point {
	v := new(big.Int).Mul(a.(*dpPoint).v, b.(*dpPoint).v)
	return &dpPoint{v: v.Mod(v, s.q), g: s.g[2]}
}
func (s *dpSuite) ValidatePairing(p1, p2, i1, i2 kyber.Point) bool {
	return s.Pair(p1, p2).Equal(s.Pair(i1, i2))
}
func (s *dpSuite) Hash() hash.Hash                      { return &recHash{s: s} }
func (s *dpSuite) XOF(key []byte) kyber.XOF             { return blake2xb.New(key) }
func (s *dpSuite) RandomStream() cipher.Stream          { return random.New() }
func (s *dpSuite) Read(r io.Reader, objs ...any) error  { return errors.New("unsupported") }
func (s *dpSuite) Write(w io.Writer, objs ...any) error { return errors.New("unsupported") }

func (s *dpSuite) scalarOf(v *big.Int) kyber.Scalar {
	return mod.NewInt(compatible.FromBigInt(new(big.Int).Mod(v, s.q), s.m), s.m)
}
func (s *dpSuite) pointOf(g int, v *big.Int) kyber.Point {
	return &dpPoint{v: new(big.Int).Mod(v, s.q), g: s.g[g-1]}
}

// recording SHA-256
type recHash struct {
	s   *dpSuite
	buf []byte
}

func (h *recHash) Write(p []byte) (int, error) { h.buf = append(h.buf, p...); return len(p), nil }
func (h *recHash) Reset()                      { h.buf = nil }
func (h *recHash) Size() int                   { return 32 }
func (h *recHash) BlockSize() int              { return 64 }
func (h *recHash) Sum(b []byte) []byte {
	d := sha256.Sum256(h.buf)
	h.s.hashes = append(h.s.hashes, hashEntry{append([]byte{}, h.buf...), d[:]})
	return append(b, d[:]...)
}

type dpGroup struct {
	s   *dpSuite
	tag byte
}

func (g *dpGroup) String() string       { return fmt.Sprintf("dlogpair.G%d", g.tag) }
func (g *dpGroup) ScalarLen() int       { return 32 }
func (g *dpGroup) Scalar() kyber.Scalar { return mod.NewInt64(0, g.s.m) }
func (g *dpGroup) PointLen() int        { return 33 }
func (g *dpGroup) Point() kyber.Point   { return &dpPoint{v: new(big.Int), g: g} }

type dpPoint struct {
	v *big.Int
	g *dpGroup
}

func scalarBig(s kyber.Scalar) *big.Int {
	b, err := s.MarshalBinary()
	if err != nil {
		panic(err)
	}
	if s.ByteOrder() == kyber.LittleEndian {
		for i, j := 0, len(b)-1; i < j; i, j = i+1, j-1 {
			b[i], b[j] = b[j], b[i]
		}
	}
	return new(big.Int).SetBytes(b)
}

func (p *dpPoint) q() *big.Int              { return p.g.s.q }
func (p *dpPoint) String() string           { return fmt.Sprintf("G%d:%x", p.g.tag, p.v) }
func (p *dpPoint) Equal(o kyber.Point) bool { return p.v.Cmp(o.(*dpPoint).v) == 0 }
func (p *dpPoint) Null() kyber.Point        { p.v = new(big.Int); return p }
func (p *dpPoint) Base() kyber.Point        { p.v = big.NewInt(1); return p }
func (p *dpPoint) Pick(r cipher.Stream) kyber.Point {
	p.v = scalarBig(p.g.Scalar().Pick(r))
	return p
}
func (p *dpPoint) Set(o kyber.Point) kyber.Point { p.v = new(big.Int).Set(o.(*dpPoint).v); return p }
func (p *dpPoint) Clone() kyber.Point            { return &dpPoint{v: new(big.Int).Set(p.v), g: p.g} }
func (p *dpPoint) EmbedLen() int                 { return 0 }
func (p *dpPoint) Embed(data []byte, r cipher.Stream) kyber.Point {
	return p.Pick(r)
}
func (p *dpPoint) Data() ([]byte, error) { return nil, errors.New("no data") }
func (p *dpPoint) Add(a, b kyber.Point) kyber.Point {
	v := new(big.Int).Add(a.(*dpPoint).v, b.(*dpPoint).v)
	p.v = v.Mod(v, p.q())
	return p
}
func (p *dpPoint) Sub(a, b kyber.Point) kyber.Point {
	v := new(big.Int).Sub(a.(*dpPoint).v, b.(*dpPoint).v)
	p.v = v.Mod(v, p.q())
	return p
}
func (p *dpPoint) Neg(a kyber.Point) kyber.Point {
	v := new(big.Int).Neg(a.(*dpPoint).v)
	p.v = v.Mod(v, p.q())
	return p
}
func (p *dpPoint) Mul(s kyber.Scalar, a kyber.Point) kyber.Point {
	sv := scalarBig(s)
	if a == nil {
		p.v = sv.Mod(sv, p.q())
		return p
	}
	v := new(big.Int).Mul(sv, a.(*dpPoint).v)
	p.v = v.Mod(v, p.q())
	return p
}
func (p *dpPoint) MarshalSize() int { return 33 }
func (p *dpPoint) MarshalBinary() ([]byte, error) {
	b := make([]byte, 33)
	b[0] = p.g.tag
	p.v.FillBytes(b[1:])
	return b, nil
}
func (p *dpPoint) UnmarshalBinary(b []byte) error {
	if len(b) != 33 || b[0] != p.g.tag {
		return errors.New("dlogpair: invalid encoding")
	}
	v := new(big.Int).SetBytes(b[1:])
	if v.Cmp(p.q()) >= 0 {
		return errors.New("dlogpair: out of range")
	}
	p.v = v
	return nil
}
func (p *dpPoint) MarshalTo(w io.Writer) (int, error) {
	b, _ := p.MarshalBinary()
	return w.Write(b)
}
func (p *dpPoint) UnmarshalFrom(r io.Reader) (int, error) {
	buf := make([]byte, 33)
	n, err := io.ReadFull(r, buf)
	if err != nil {
		return n, err
	}
	return n, p.UnmarshalBinary(buf)
}

// Hash implements kyber.HashablePoint: the logarithm is derived from SHA-256
// of a group tag and the message (a "random oracle" into the group); the call
// is recorded for the model's hash-to-point table.
func dpHashLog(q *big.Int, tag byte, m []byte) *big.Int {
	d1 := sha256.Sum256(append([]byte{'H', tag}, m...))
	d2 := sha256.Sum256(d1[:])
	v := new(big.Int).SetBytes(append(d1[:], d2[:8]...))
	return v.Mod(v, q)
}

func (p *dpPoint) Hash(m []byte) kyber.Point {
	p.v = dpHashLog(p.q(), p.g.tag, m)
	p.g.s.ids = append(p.g.s.ids, idEntry{g2: p.g.tag == 1, id: append([]byte{}, m...), log: new(big.Int).Set(p.v)})
	return p
}
