// Package sc holds what the C02 and C03 harnesses share: the list of scalar
// implementation instances of kyber, canonical encoders, operand generators and
// a recording key stream.
package sc

import (
	"crypto/cipher"
	"fmt"
	"math"
	"math/big"

	"go.dedis.ch/kyber/v4"
	"go.dedis.ch/kyber/v4/compatible/compatiblemod"
	"go.dedis.ch/kyber/v4/group/edwards25519"
	"go.dedis.ch/kyber/v4/group/mod"
	"go.dedis.ch/kyber/v4/pairing/bls12381/circl"

	"kyverif/vh"
)

// code paths of the Coq model (ScalarSM.impl)
const (
	KEd = iota
	KMod
	KCircl
	KGnark
)

// Inst is one scalar implementation instance.
type Inst struct {
	Name   string
	Kind   int
	LE     bool
	Q      *big.Int
	Mk     func() kyber.Scalar
	Weight int // share of the case budget
	NInv   int // budget of Inv/Div cases (quick tier)
	L      int // encoded length
}

// Coq renders the instance as ScalarRun.inst.
func (in *Inst) Coq() string {
	bo := 1
	if in.LE {
		bo = 0
	}
	return fmt.Sprintf("(%s, %d, %d)", vh.CoqZ(in.Q), in.Kind, bo)
}

func ModInst(name string, q *big.Int, le bool, weight, nInv int) *Inst {
	m := compatiblemod.FromBigInt(q)
	mk := func() kyber.Scalar { return mod.NewInt64(0, m) }
	if le {
		mk = func() kyber.Scalar { return mod.NewIntBytes(nil, m, kyber.LittleEndian) }
	}
	return &Inst{Name: name, Kind: KMod, LE: le, Q: q, Mk: mk, Weight: weight, NInv: nInv}
}

func Pow2(k uint, d int64) *big.Int {
	v := new(big.Int).Lsh(big.NewInt(1), k)
	return v.Add(v, big.NewInt(d))
}

// Instances lists every scalar implementation reachable in this build.
func Instances() []*Inst {
	ed := edwards25519.NewBlakeSHA256Ed25519()
	list := []*Inst{
		{Name: "ed25519", Kind: KEd, Mk: ed.Scalar, Weight: 24, NInv: 8},
		{Name: "circl", Kind: KCircl, Mk: circl.NewSuiteBLS12381().G1().Scalar, Weight: 13, NInv: 8},
		// mod.Int directly, both byte orders, moduli around byte and word boundaries
		ModInst("mod.le.251", big.NewInt(251), true, 3, 20),
		ModInst("mod.be.257", big.NewInt(257), false, 3, 20),
		ModInst("mod.le.65521", big.NewInt(65521), true, 2, 20),
		ModInst("mod.le.2^61-1", Pow2(61, -1), true, 3, 20),
		ModInst("mod.be.2^64-59", Pow2(64, -59), false, 3, 20),
		ModInst("mod.le.2^64+13", Pow2(64, 13), true, 3, 20),
		ModInst("mod.be.2^127-1", Pow2(127, -1), false, 2, 12),
		ModInst("mod.le.2^255-19", Pow2(255, -19), true, 3, 10),
		ModInst("mod.le.ed25519-order", new(big.Int).Set(ed.Scalar().GroupOrder().ToBigInt()), true, 2, 6),
	}
	list = append(list, extra()...)
	for _, in := range list {
		if CT {
			in.Name = "ct." + in.Name
		}
		s := in.Mk()
		if in.Q == nil {
			in.Q = new(big.Int).Set(s.GroupOrder().ToBigInt())
		}
		in.LE = s.ByteOrder() == kyber.LittleEndian
		in.L = s.MarshalSize()
	}
	return list
}

// ---------------------------------------------------------------- helpers

// Enc is the canonical fixed-width encoding of v for the instance.
func Enc(in *Inst, v *big.Int) []byte {
	b := v.FillBytes(make([]byte, in.L))
	if in.LE {
		Rev(b)
	}
	return b
}
func Rev(b []byte) {
	for i, j := 0, len(b)-1; i < j; i, j = i+1, j-1 {
		b[i], b[j] = b[j], b[i]
	}
}
func Dec(in *Inst, b []byte) *big.Int {
	c := append([]byte{}, b...)
	if in.LE {
		Rev(c)
	}
	return new(big.Int).SetBytes(c)
}

// Scalar returns a scalar holding the reduced value v (decoded from its canonical encoding).
func (in *Inst) Scalar(v *big.Int, rep *vh.Report) kyber.Scalar {
	s := in.Mk()
	if err := s.UnmarshalBinary(Enc(in, v)); err != nil {
		rep.Fail("scalar/"+in.Name+"/UnmarshalBinary/canonical-rejected", err.Error(),
			map[string]string{"impl": in.Name, "value": v.String()})
		s.SetBytes(Enc(in, v))
	}
	return s
}

func BytesOf(s kyber.Scalar) []byte {
	b, err := s.MarshalBinary()
	if err != nil {
		return nil
	}
	return b
}

// FixedStream is a cipher.Stream over a given key stream; it records how much was used.
type FixedStream struct {
	Buf []byte
	Pos int
}

func (f *FixedStream) XORKeyStream(dst, src []byte) {
	if f.Pos+len(src) > len(f.Buf) {
		panic("FixedStream exhausted")
	}
	for i := range src {
		dst[i] = src[i] ^ f.Buf[f.Pos+i]
	}
	f.Pos += len(src)
}

var _ cipher.Stream = (*FixedStream)(nil)

// LimbPattern: twelve 21-bit limbs from {0,1,2^20,2^21-1,random} (< 2^252)
func LimbPattern(r *vh.Rng) *big.Int {
	v := new(big.Int)
	for i := 0; i < 12; i++ {
		var limb int64
		switch r.Intn(5) {
		case 0:
			limb = 0
		case 1:
			limb = 1
		case 2:
			limb = 1 << 20
		case 3:
			limb = 1<<21 - 1
		default:
			limb = int64(r.Intn(1 << 21))
		}
		v.Or(v, new(big.Int).Lsh(big.NewInt(limb), uint(21*i)))
	}
	return v
}

// Operand draws an edge-biased reduced value.
func Operand(in *Inst, r *vh.Rng) *big.Int {
	if r.Chance(25) && in.Q.BitLen() > 64 {
		k := r.Intn(4)
		switch k {
		case 0, 1:
			return new(big.Int).Mod(LimbPattern(r), in.Q)
		case 2: // 64-bit word boundaries (Montgomery / big.Word limbs)
			v := new(big.Int)
			for i := 0; i*64 < in.Q.BitLen(); i++ {
				var w uint64
				switch r.Intn(4) {
				case 0:
					w = 0
				case 1:
					w = math.MaxUint64
				case 2:
					w = 1
				default:
					w = r.U64()
				}
				v.Or(v, new(big.Int).Lsh(new(big.Int).SetUint64(w), uint(64*i)))
			}
			return v.Mod(v, in.Q)
		default: // (q±1)/2
			h := new(big.Int).Rsh(in.Q, 1)
			h.Add(h, big.NewInt(int64(r.Intn(3)-1)))
			return h.Mod(h, in.Q)
		}
	}
	return r.EdgeScalar(in.Q)
}

func Nonzero(in *Inst, r *vh.Rng) *big.Int {
	for {
		v := Operand(in, r)
		if v.Sign() != 0 {
			return v
		}
	}
}
