//go:build !constantTime

package sc

import (
	"go.dedis.ch/kyber/v4/group/p256"
	"go.dedis.ch/kyber/v4/pairing/bls12381/gnark"
	"go.dedis.ch/kyber/v4/pairing/bls12381/kilic"
	"go.dedis.ch/kyber/v4/pairing/bn254"
	"go.dedis.ch/kyber/v4/pairing/bn256"
)

// CT says whether this is the constantTime build (mod.Int over bigmod).
const CT = false

// the implementations that exist only in the default build
func extra() []*Inst {
	return []*Inst{
		{Name: "gnark", Kind: KGnark, Mk: gnark.NewSuiteBLS12381().G1().Scalar, Weight: 13, NInv: 24},
		{Name: "mod.p256", Kind: KMod, Mk: p256.NewBlakeSHA256P256().Scalar, Weight: 8, NInv: 16},
		{Name: "mod.bn256", Kind: KMod, Mk: bn256.NewSuite().G1().Scalar, Weight: 6, NInv: 12},
		{Name: "mod.bn254", Kind: KMod, Mk: bn254.NewSuite().G1().Scalar, Weight: 4, NInv: 8},
		{Name: "mod.kilic", Kind: KMod, Mk: kilic.NewScalar, Weight: 6, NInv: 12},
		{Name: "mod.qr512", Kind: KMod, Mk: p256.NewBlakeSHA256QR512().Scalar, Weight: 2, NInv: 3},
	}
}
