//go:build constantTime

package sc

import "math/big"

// CT says whether this is the constantTime build (mod.Int over bigmod).
const CT = true

func num(s string) *big.Int {
	v, ok := new(big.Int).SetString(s, 10)
	if !ok {
		panic("bad number")
	}
	return v
}

// In the constantTime build p256, bn256, bn254, kilic and gnark do not exist;
// mod.Int over bigmod is exercised with their group orders directly.
func extra() []*Inst {
	return []*Inst{
		ModInst("mod.p256-order", num("115792089210356248762697446949407573529996955224135760342422259061068512044369"), false, 8, 6),
		ModInst("mod.bn256-order", num("65000549695646603732796438742359905742570406053903786389881062969044166799969"), false, 6, 6),
		ModInst("mod.bls12381-order", num("52435875175126190479447740508185965837690552500527637822603658699938581184513"), false, 6, 6),
	}
}
