package grpprog

import (
	"fmt"
	"math/big"

	"go.dedis.ch/kyber/v4"

	"kyverif/vh"
)

func avt(in Inst, p kyber.Point) {
	if in.VarTime {
		if a, ok := p.(kyber.AllowsVarTime); ok {
			a.AllowVarTime(true)
		}
	}
}

func enc(p kyber.Point) string {
	b, _ := p.MarshalBinary()
	return vh.Hex(b)
}

// randPoint returns a point reachable from the API: identity, base, multiple of
// base, picked, sum left in non-normalised internal coordinates.
func randPoint(r *vh.Rng, in Inst, q *big.Int) (kyber.Point, string) {
	return pointOfKind(r, in, q, -1)
}

// pointOfKind builds a point of the given kind (0 identity, 1 base, 2 multiple of
// the base, 3 picked, 4 sum, 5 negated multiple); kind < 0 draws the kind.
func pointOfKind(r *vh.Rng, in Inst, q *big.Int, kind int) (kyber.Point, string) {
	g := in.G
	var p kyber.Point
	desc := ""
	ok := false
	for !ok {
		k := kind
		if k < 0 {
			k = r.Intn(6)
		}
		kind = -1 // an unsupported kind falls back to a random one
		switch k {
		case 0:
			desc = "O"
			pn, _ := vh.Try(func() { p = newPoint(in, g).Null() })
			ok = !pn
		case 1:
			desc = "B"
			pn, _ := vh.Try(func() { p = newPoint(in, g).Base() })
			ok = !pn
		case 2:
			k := edge(r, q)
			desc = fmt.Sprintf("%s*B", k)
			pn, _ := vh.Try(func() { p = newPoint(in, g).Mul(MkScalar(g, k), nil) })
			ok = !pn
		case 3:
			desc = "Pick"
			pn, _ := vh.Try(func() { p = newPoint(in, g).Pick(vh.NewSeqStream(r.Bytes(16))) })
			ok = !pn
		case 4:
			k1, k2 := r.EdgeScalar(q), r.EdgeScalar(q)
			desc = fmt.Sprintf("%s*B+%s*B", k1, k2)
			pn, _ := vh.Try(func() {
				a := newPoint(in, g).Mul(MkScalar(g, k1), nil)
				b := newPoint(in, g).Mul(MkScalar(g, k2), nil)
				p = newPoint(in, g).Add(a, b)
			})
			ok = !pn
		default:
			k := r.EdgeScalar(q)
			desc = fmt.Sprintf("-(%s*B)", k)
			pn, _ := vh.Try(func() { p = newPoint(in, g).Neg(newPoint(in, g).Mul(MkScalar(g, k), nil)) })
			ok = !pn
		}
	}
	return p, desc
}

// Laws evaluates every identity of property C01 two ways on the implementation.
func Laws(r *vh.Rng, in Inst, rep *vh.Report, n int) {
	g := in.G
	q := Order(g)
	np := func() kyber.Point { return newPoint(in, g) }
	check := func(name string, lhs, rhs kyber.Point, operands map[string]string) {
		rep.Dist("law:" + name)
		if !lhs.Equal(rhs) || enc(lhs) != enc(rhs) {
			operands["lhs"], operands["rhs"], operands["group"], operands["identity"] = enc(lhs), enc(rhs), in.Name, name
			rep.Fail("C01/"+in.Name+"/"+name, "group law violated: "+name, operands)
		}
	}
	for i := 0; i < n; i++ {
		pn, msg := vh.Try(func() {
			// the first rounds put the identity and the generator at every operand position
			kp, kq, kr := -1, -1, -1
			if i < 6 {
				kp, kq, kr = []int{0, 1, -1, 0, 1, -1}[i], []int{-1, 0, 0, 1, -1, 1}[i], []int{-1, -1, 0, -1, 0, 1}[i]
			}
			P, dp := pointOfKind(r, in, q, kp)
			Q, dq := pointOfKind(r, in, q, kq)
			R, dr := pointOfKind(r, in, q, kr)
			a, b := edge(r, q), edge(r, q)
			if i < 4 {
				a = big.NewInt(int64([]int{0, 1, 2, 1}[i]))
				b = new(big.Int).Sub(q, big.NewInt(int64([]int{1, 1, 2, 0}[i]))) // q-1, q-1, q-2, q
				b.Mod(b, q)
			}
			sa, sb := MkScalar(g, a), MkScalar(g, b)
			ops := func() map[string]string {
				return map[string]string{"P": dp, "Q": dq, "R": dr, "a": a.String(), "b": b.String()}
			}
			O := np().Null()
			check("identity", np().Add(P, O), P, ops())
			check("identity-left", np().Add(O, P), P, ops())
			check("inverse", np().Add(P, np().Neg(P)), O, ops())
			check("neg-identity", np().Neg(O), O, ops())
			check("sub-identity", np().Sub(P, O), P, ops())
			check("neg-neg", np().Neg(np().Neg(P)), P, ops())
			// the same element in its decoded representation
			if bb, err := P.MarshalBinary(); err == nil {
				P2 := np()
				if P2.UnmarshalBinary(bb) == nil {
					check("double-two-representations", np().Add(P, P2), np().Mul(g.Scalar().SetInt64(2), P), ops())
					check("sub-two-representations", np().Sub(P, P2), O, ops())
				}
			}
			// receiver is also an operand
			check("mul-in-place", func() kyber.Point { c := P.Clone(); avt(in, c); return c.Mul(sa, c) }(), np().Mul(sa, P), ops())
			check("add-in-place-first", func() kyber.Point { c := P.Clone(); avt(in, c); return c.Add(c, Q) }(), np().Add(P, Q), ops())
			check("add-in-place-second", func() kyber.Point { c := Q.Clone(); avt(in, c); return c.Add(P, c) }(), np().Add(P, Q), ops())
			check("sub-in-place-second", func() kyber.Point { c := Q.Clone(); avt(in, c); return c.Sub(P, c) }(), np().Sub(P, Q), ops())
			check("sub-self", np().Sub(P, P), O, ops())
			check("commutativity", np().Add(P, Q), np().Add(Q, P), ops())
			check("associativity", np().Add(np().Add(P, Q), R), np().Add(P, np().Add(Q, R)), ops())
			check("sub-is-add-neg", np().Sub(P, Q), np().Add(P, np().Neg(Q)), ops())
			check("distrib-scalars", np().Mul(g.Scalar().Add(sa, sb), P), np().Add(np().Mul(sa, P), np().Mul(sb, P)), ops())
			check("distrib-points", np().Mul(sa, np().Add(P, Q)), np().Add(np().Mul(sa, P), np().Mul(sa, Q)), ops())
			check("mul-assoc", np().Mul(sa, np().Mul(sb, P)), np().Mul(g.Scalar().Mul(sa, sb), P), ops())
			check("zero-scalar", np().Mul(g.Scalar().Zero(), P), O, ops())
			check("one-scalar", np().Mul(g.Scalar().One(), P), P, ops())
			check("minus-one", np().Mul(MkScalar(g, new(big.Int).Sub(q, big.NewInt(1))), P), np().Neg(P), ops())
			check("scalar-times-identity", np().Mul(sa, O), O, ops())
			check("double", np().Add(P, P), np().Mul(g.Scalar().SetInt64(2), P), ops())
			var base kyber.Point
			if bp, _ := vh.Try(func() { base = np().Base() }); !bp {
				check("implicit-base", np().Mul(sa, nil), np().Mul(sa, base), ops())
				// every Base()/Null() is an object of its own: overwriting one leaves the next intact
				keep := base.Clone()
				base.Add(base, P)
				base.Neg(base)
				base.Mul(sb, base)
				check("base-after-overwriting-an-earlier-base", np().Base(), keep, ops())
				check("implicit-base-after-overwriting-an-earlier-base", np().Mul(sa, nil), np().Mul(sa, keep), ops())
			}
			o1 := np().Null()
			o1.Add(o1, Q)
			o1.Mul(sb, o1)
			check("null-after-overwriting-an-earlier-null", np().Null(), O, ops())
			// a result is an object of its own: overwriting it leaves the operands intact, and conversely
			for _, mk := range []struct {
				name string
				f    func() kyber.Point
			}{{"neg", func() kyber.Point { return np().Neg(P) }}, {"clone", func() kyber.Point { return P.Clone() }}, {"set", func() kyber.Point { return np().Set(P) }},
				{"add-null", func() kyber.Point { return np().Add(P, np().Null()) }}, {"mul-one", func() kyber.Point { return np().Mul(g.Scalar().One(), P) }}, {"sub-null", func() kyber.Point { return np().Sub(P, np().Null()) }}} {
				keepP := np()
				if bb, err := P.MarshalBinary(); err != nil || keepP.UnmarshalBinary(bb) != nil {
					break
				}
				res := mk.f()
				avt(in, res)
				keepR := np()
				if bb, err := res.MarshalBinary(); err != nil || keepR.UnmarshalBinary(bb) != nil {
					break
				}
				res.Add(res, Q)
				res.Neg(res)
				res.Mul(sb, res)
				check("operand-after-overwriting-result-of-"+mk.name, P, keepP, ops())
				res2 := mk.f()
				avt(in, res2)
				Pc := P.Clone()
				avt(in, Pc)
				res3 := func() kyber.Point {
					switch mk.name {
					case "neg":
						return np().Neg(Pc)
					case "clone":
						return Pc.Clone()
					case "set":
						return np().Set(Pc)
					case "add-null":
						return np().Add(Pc, np().Null())
					case "mul-one":
						return np().Mul(g.Scalar().One(), Pc)
					}
					return np().Sub(Pc, np().Null())
				}()
				Pc.Add(Pc, R)
				Pc.Neg(Pc)
				check("result-of-"+mk.name+"-after-overwriting-operand", res3, keepR, ops())
				_ = res2
			}
			// the value of a result does not depend on what the receiver held before, also when the
			// result is then used as an operand (internal fields that encodings do not show)
			{
				Pc := P.Clone()
				avt(in, Pc)
				negPc := np().Neg(Pc)
				recvs := map[string]func() kyber.Point{
					"Null":                  func() kyber.Point { return np().Null() },
					"a computed point":      func() kyber.Point { return np().Add(Q, R) },
					"a clone of an operand": func() kyber.Point { c := P.Clone(); avt(in, c); return c },
				}
				if bp, _ := vh.Try(func() { np().Base() }); !bp {
					recvs["Base"] = func() kyber.Point { return np().Base() }
				}
				if bb, err := R.MarshalBinary(); err == nil {
					recvs["a decoded point"] = func() kyber.Point {
						c := np()
						if c.UnmarshalBinary(bb) != nil {
							return np().Null()
						}
						return c
					}
				}
				opsOn := map[string]func(rc kyber.Point) kyber.Point{
					"Add(P,P')":  func(rc kyber.Point) kyber.Point { return rc.Add(P, Pc) },
					"Sub(P,-P')": func(rc kyber.Point) kyber.Point { return rc.Sub(P, negPc) },
					"Add(P,Q)":   func(rc kyber.Point) kyber.Point { return rc.Add(P, Q) },
					"Sub(P,P')":  func(rc kyber.Point) kyber.Point { return rc.Sub(P, Pc) },
					"Neg(P)":     func(rc kyber.Point) kyber.Point { return rc.Neg(P) },
					"Mul(a,P)":   func(rc kyber.Point) kyber.Point { return rc.Mul(sa, P) },
					"Set(P)":     func(rc kyber.Point) kyber.Point { return rc.Set(P) },
				}
				for rn, mk := range recvs {
					for on, f := range opsOn {
						res, ref := f(mk()), f(np())
						o := ops()
						o["receiver_held"], o["operation"] = rn, on
						check("result-depends-on-receiver", res, ref, o)
						check("result-depends-on-receiver/then-added", np().Add(res, R), np().Add(ref, R), o)
						check("result-depends-on-receiver/then-subtracted", np().Sub(R, res), np().Sub(R, ref), o)
						check("result-depends-on-receiver/then-multiplied", np().Mul(sb, res), np().Mul(sb, ref), o)
					}
				}
			}
			// the efficient endomorphism of j = 0 curves: P, lambda*P and lambda^2*P share a
			// coordinate; sums of such related points must still be ordinary sums
			if lam := cubeRoot(q); lam != nil {
				sl := MkScalar(g, lam)
				l2 := new(big.Int).Mul(lam, lam)
				l2.Mod(l2, q)
				sl2 := MkScalar(g, l2)
				lP, l2P := np().Mul(sl, P), np().Mul(sl2, P)
				check("sum-of-endomorphism-related-points", np().Add(P, lP), np().Mul(g.Scalar().Add(g.Scalar().One(), sl), P), ops())
				check("sum-of-endomorphism-related-points-2", np().Add(lP, l2P), np().Neg(P), ops())
				check("sub-of-endomorphism-related-points", np().Sub(P, l2P), np().Mul(g.Scalar().Sub(g.Scalar().One(), sl2), P), ops())
				check("endomorphism-orbit-sums-to-identity", np().Add(np().Add(P, lP), l2P), O, ops())
				// multiples of the eigenvalue as multipliers (split-multiplier edges)
				for j := int64(1); j <= 6; j++ {
					for d := int64(0); d <= 1; d++ {
						k := new(big.Int).Mul(lam, big.NewInt(j))
						k.Add(k, big.NewInt(d)).Mod(k, q)
						want := np().Mul(MkScalar(g, big.NewInt(j)), lP)
						if d == 1 {
							want = np().Add(want, P)
						}
						o := ops()
						o["k"] = fmt.Sprintf("%d*lambda+%d", j, d)
						check("mul-by-multiple-of-eigenvalue", np().Mul(MkScalar(g, k), P), want, o)
					}
				}
			}
			// scalar constants likewise
			one := g.Scalar().One()
			one.Add(one, sa)
			one.Mul(one, sb)
			zero := g.Scalar().Zero()
			zero.Sub(zero, sb)
			rep.Dist("law:scalar-constants-after-overwriting")
			if vh.ScalarVal(g.Scalar().One()).Cmp(big.NewInt(1)) != 0 || vh.ScalarVal(g.Scalar().Zero()).Sign() != 0 {
				o := ops()
				o["group"] = in.Name
				rep.Fail("C01/"+in.Name+"/scalar-constants-after-overwriting", "One()/Zero() no longer return 1/0 after an earlier One()/Zero() result was overwritten", o)
			}
		})
		if pn && !unsupported(msg) {
			rep.Fail("C01/"+in.Name+"/panic", "group operation panicked: "+msg, map[string]string{"group": in.Name})
		}
	}
}

// PairingLaws evaluates the identities of property C06 on the implementation.
func PairingLaws(r *vh.Rng, ps PSuite, rep *vh.Report, n int) {
	s := ps.S
	in1, in2 := Inst{Name: ps.Name + ".G1", G: s.G1()}, Inst{Name: ps.Name + ".G2", G: s.G2()}
	q := Order(s.G1())
	gt := s.GT()
	check := func(name string, lhs, rhs kyber.Point, operands map[string]string) {
		rep.Dist("plaw:" + name)
		if !lhs.Equal(rhs) || enc(lhs) != enc(rhs) {
			operands["lhs"], operands["rhs"], operands["suite"], operands["identity"] = enc(lhs), enc(rhs), ps.Name, name
			rep.Fail("C06/"+ps.Name+"/"+name, "pairing law violated: "+name, operands)
		}
	}
	for i := 0; i < n; i++ {
		pn, msg := vh.Try(func() {
			kp, kp2, kq, kq2 := -1, -1, -1, -1
			if i < 6 { // identity at every position, alone and in pairs
				kp, kp2, kq, kq2 = []int{0, -1, -1, -1, 0, -1}[i], []int{-1, 0, -1, -1, -1, 0}[i], []int{-1, -1, 0, -1, -1, 0}[i], []int{-1, -1, -1, 0, 0, -1}[i]
			}
			P, dp := pointOfKind(r, in1, q, kp)
			P2, dp2 := pointOfKind(r, in1, q, kp2)
			Q, dq := pointOfKind(r, in2, q, kq)
			Q2, dq2 := pointOfKind(r, in2, q, kq2)
			a, b := edge(r, q), edge(r, q)
			if i%5 == 1 {
				a = big.NewInt(0)
			}
			if i%5 == 3 {
				b = big.NewInt(0)
			}
			sa, sb := MkScalar(s.G1(), a), MkScalar(s.G1(), b)
			ops := func() map[string]string {
				return map[string]string{"P": dp, "P'": dp2, "Q": dq, "Q'": dq2, "a": a.String(), "b": b.String()}
			}
			e := s.Pair(P, Q)
			aP, bQ := s.G1().Point().Mul(sa, P), s.G2().Point().Mul(sb, Q)
			check("bilinear", s.Pair(aP, bQ), gt.Point().Mul(s.G1().Scalar().Mul(sa, sb), e), ops())
			check("additive-left", s.Pair(s.G1().Point().Add(P, P2), Q), gt.Point().Add(s.Pair(P, Q), s.Pair(P2, Q)), ops())
			check("additive-right", s.Pair(P, s.G2().Point().Add(Q, Q2)), gt.Point().Add(s.Pair(P, Q), s.Pair(P, Q2)), ops())
			check("identity-left", s.Pair(s.G1().Point().Null(), Q), gt.Point().Null(), ops())
			check("identity-right", s.Pair(P, s.G2().Point().Null()), gt.Point().Null(), ops())
			// negation: e(P,-Q) = e(-P,Q) = e(P,Q)^-1, with -Q built every way (fresh receiver,
			// 0 - Q, in place, (q-1)Q) from Q in its affine (decoded) and in its computed form,
			// each pairing right after the pairing of the point itself
			{
				negE := gt.Point().Neg(e)
				qm1 := MkScalar(s.G2(), new(big.Int).Sub(q, big.NewInt(1)))
				for side := 0; side < 2; side++ {
					grp := []kyber.Group{s.G1(), s.G2()}[side]
					orig := []kyber.Point{P, Q}[side]
					forms := []kyber.Point{orig}
					if bb, err := orig.MarshalBinary(); err == nil {
						c := grp.Point()
						if c.UnmarshalBinary(bb) == nil {
							forms = append(forms, c)
						}
					}
					for fi, f := range forms {
						negs := map[string]kyber.Point{
							"Neg-into-fresh":   grp.Point().Neg(f),
							"Neg-into-used":    grp.Point().Base().Neg(f),
							"Sub(Null,.)":      grp.Point().Sub(grp.Point().Null(), f),
							"Neg-in-place":     func() kyber.Point { c := f.Clone(); return c.Neg(c) }(),
							"Mul(q-1,.)":       grp.Point().Mul(qm1, f),
							"Neg(Neg(Neg(.)))": grp.Point().Neg(grp.Point().Neg(grp.Point().Neg(f))),
						}
						for how, nf := range negs {
							var got kyber.Point
							if side == 0 {
								_ = s.Pair(f, Q)
								got = s.Pair(nf, Q)
							} else {
								_ = s.Pair(P, f)
								got = s.Pair(P, nf)
							}
							o := ops()
							o["negated"], o["how"], o["form"] = []string{"G1 argument", "G2 argument"}[side], how, []string{"as built", "decoded (affine)"}[fi]
							check("pair-of-negated-point", got, negE, o)
						}
					}
				}
				check("pair-product-with-negated-is-one", gt.Point().Add(s.Pair(P, Q), s.Pair(P, s.G2().Point().Neg(Q))), gt.Point().Null(), ops())
			}
			// a pairing result is an object of its own: overwriting it changes no later result
			for _, pq := range [][2]kyber.Point{{P, Q}, {s.G1().Point().Null(), Q}, {P, s.G2().Point().Null()}} {
				e1 := s.Pair(pq[0], pq[1])
				keep := e1.Clone()
				e1.Add(e1, e)
				e1.Neg(e1)
				e1.Mul(sa, e1)
				check("pair-after-overwriting-an-earlier-result", s.Pair(pq[0], pq[1]), keep, ops())
				check("gt-null-after-overwriting-a-pairing-result", gt.Point().Null(), s.Pair(s.G1().Point().Null(), s.G2().Point().Null()), ops())
				e1.Null()
				check("pair-after-nulling-an-earlier-result", s.Pair(pq[0], pq[1]), keep, ops())
			}
			// a point decoded in place over one that was already paired is paired as the new point
			for _, side := range []int{0, 1} {
				grp := []kyber.Group{s.G1(), s.G2()}[side]
				from, to := []kyber.Point{P, Q}[side], []kyber.Point{P2, Q2}[side]
				obj := from.Clone()
				pr := func(x kyber.Point) kyber.Point {
					if side == 0 {
						return s.Pair(x, Q)
					}
					return s.Pair(P, x)
				}
				_ = pr(obj)
				bb, err := to.MarshalBinary()
				if err == nil && obj.UnmarshalBinary(bb) == nil {
					check(fmt.Sprintf("pair-after-decoding-in-place-G%d", side+1), pr(obj), pr(to), ops())
				}
				_ = pr(obj)
				obj.Set(from)
				check(fmt.Sprintf("pair-after-set-in-place-G%d", side+1), pr(obj), pr(from), ops())
				_ = pr(obj)
				obj.Neg(obj)
				check(fmt.Sprintf("pair-after-neg-in-place-G%d", side+1), pr(obj), pr(grp.Point().Neg(from)), ops())
				_ = pr(obj)
				obj.Add(obj, to)
				check(fmt.Sprintf("pair-after-add-in-place-G%d", side+1), pr(obj), pr(grp.Point().Add(grp.Point().Neg(from), to)), ops())
				_ = pr(obj)
				obj.Mul(sb, obj)
				check(fmt.Sprintf("pair-after-mul-in-place-G%d", side+1), pr(obj), pr(grp.Point().Mul(sb, grp.Point().Add(grp.Point().Neg(from), to))), ops())
			}
			// ValidatePairing(p1,p2,i1,i2) <=> Pair(p1,p2) == Pair(i1,i2)
			O1, O2 := s.G1().Point().Null(), s.G2().Point().Null()
			for _, quad := range [][4]kyber.Point{{aP, bQ, s.G1().Point().Mul(s.G1().Scalar().Mul(sa, sb), P), Q}, {P, Q, P2, Q2}, {aP, Q, P, s.G2().Point().Mul(sa, Q)}, {P, Q, P, Q2},
				{O1, Q, P, O2}, {P, O2, O1, Q2}, {P, O2, P2, O2}, {O1, Q, O1, Q2}, {P, s.G2().Point().Sub(Q, Q), P2, O2}, {s.G1().Point().Sub(P, P), Q, P2, s.G2().Point().Mul(s.G2().Scalar().Zero(), Q2)}} {
				want := s.Pair(quad[0], quad[1]).Equal(s.Pair(quad[2], quad[3]))
				got := s.ValidatePairing(quad[0], quad[1], quad[2], quad[3])
				rep.Dist(fmt.Sprintf("plaw:validate=%v", want))
				if got != want {
					o := ops()
					o["want"], o["got"], o["suite"] = fmt.Sprint(want), fmt.Sprint(got), ps.Name
					rep.Fail("C06/"+ps.Name+"/ValidatePairing", "ValidatePairing disagrees with equality of the two pairings", o)
				}
			}
		})
		if pn && !unsupported(msg) {
			rep.Fail("C06/"+ps.Name+"/panic", "pairing operation panicked: "+msg, map[string]string{"suite": ps.Name})
		}
	}
	// non-degeneracy
	e := s.Pair(s.G1().Point().Base(), s.G2().Point().Base())
	rep.Dist("plaw:nondegenerate")
	if e.Equal(gt.Point().Null()) {
		rep.Fail("C06/"+ps.Name+"/degenerate", "e(B1,B2) is the identity", nil)
	}
}
