package grpprog

import (
	"fmt"
	"math/big"

	"go.dedis.ch/kyber/v4"

	"kyverif/vh"
)

func avt(in Inst, p kyber.Point) {
	if in.VarTime {
		if a, ok := p.(kyber.AllowsVarTime); ok {
			a.AllowVarTime(true)
		}
	}
}

func enc(p kyber.Point) string {
	b, _ := p.MarshalBinary()
	return vh.Hex(b)
}

// randPoint returns a point reachable from the API: identity, base, multiple of
// base, picked, sum left in non-normalised internal coordinates.
func randPoint(r *vh.Rng, in Inst, q *big.Int) (kyber.Point, string) {
	return pointOfKind(r, in, q, -1)
}

// pointOfKind builds a point of the given kind (0 identity, 1 base, 2 multiple of
// the base, 3 picked, 4 sum, 5 negated multiple); kind < 0 draws the kind.
func pointOfKind(r *vh.Rng, in Inst, q *big.Int, kind int) (kyber.Point, string) {
	g := in.G
	var p kyber.Point
	desc := ""
	ok := false
	for !ok {
		k := kind
		if k < 0 {
			k = r.Intn(6)
		}
		kind = -1 // an unsupported kind falls back to a random one
		switch k {
		case 0:
			desc = "O"
			pn, _ := vh.Try(func() { p = newPoint(in, g).Null() })
			ok = !pn
		case 1:
			desc = "B"
			pn, _ := vh.Try(func() { p = newPoint(in, g).Base() })
			ok = !pn
		case 2:
			k := edge(r, q)
			desc = fmt.Sprintf("%s*B", k)
			pn, _ := vh.Try(func() { p = newPoint(in, g).Mul(MkScalar(g, k), nil) })
			ok = !pn
		case 3:
			desc = "Pick"
			pn, _ := vh.Try(func() { p = newPoint(in, g).Pick(vh.NewSeqStream(r.Bytes(16))) })
			ok = !pn
		case 4:
			k1, k2 := r.EdgeScalar(q), r.EdgeScalar(q)
			desc = fmt.Sprintf("%s*B+%s*B", k1, k2)
			pn, _ := vh.Try(func() {
				a := newPoint(in, g).Mul(MkScalar(g, k1), nil)
				b := newPoint(in, g).Mul(MkScalar(g, k2), nil)
				p = newPoint(in, g).Add(a, b)
			})
			ok = !pn
		default:
			k := r.EdgeScalar(q)
			desc = fmt.Sprintf("-(%s*B)", k)
			pn, _ := vh.Try(func() { p = newPoint(in, g).Neg(newPoint(in, g).Mul(MkScalar(g, k), nil)) })
			ok = !pn
		}
	}
	return p, desc
}

// Laws evaluates every identity of property C01 two ways on the implementation.
func Laws(r *vh.Rng, in Inst, rep *vh.Report, n int) {
	g := in.G
	q := Order(g)
	np := func() kyber.Point { return newPoint(in, g) }
	check := func(name string, lhs, rhs kyber.Point, operands map[string]string) {
		rep.Dist("law:" + name)
		if !lhs.Equal(rhs) || enc(lhs) != enc(rhs) {
			operands["lhs"], operands["rhs"], operands["group"], operands["identity"] = enc(lhs), enc(rhs), in.Name, name
			rep.Fail("C01/"+in.Name+"/"+name, "group law violated: "+name, operands)
		}
	}
	for i := 0; i < n; i++ {
		pn, msg := vh.Try(func() {
			// the first rounds put the identity and the generator at every operand position
			kp, kq, kr := -1, -1, -1
			if i < 6 {
				kp, kq, kr = []int{0, 1, -1, 0, 1, -1}[i], []int{-1, 0, 0, 1, -1, 1}[i], []int{-1, -1, 0, -1, 0, 1}[i]
			}
			P, dp := pointOfKind(r, in, q, kp)
			Q, dq := pointOfKind(r, in, q, kq)
			R, dr := pointOfKind(r, in, q, kr)
			a, b := edge(r, q), edge(r, q)
			if i < 4 {
				a = big.NewInt(int64([]int{0, 1, 2, 1}[i]))
				b = new(big.Int).Sub(q, big.NewInt(int64([]int{1, 1, 2, 0}[i]))) // q-1, q-1, q-2, q
				b.Mod(b, q)
			}
			sa, sb := MkScalar(g, a), MkScalar(g, b)
			ops := func() map[string]string {
				return map[string]string{"P": dp, "Q": dq, "R": dr, "a": a.String(), "b": b.String()}
			}
			O := np().Null()
			check("identity", np().Add(P, O), P, ops())
			check("identity-left", np().Add(O, P), P, ops())
			check("inverse", np().Add(P, np().Neg(P)), O, ops())
			check("neg-identity", np().Neg(O), O, ops())
			check("sub-identity", np().Sub(P, O), P, ops())
			check("neg-neg", np().Neg(np().Neg(P)), P, ops())
			// the same element in its decoded representation
			if bb, err := P.MarshalBinary(); err == nil {
				P2 := np()
				if P2.UnmarshalBinary(bb) == nil {
					check("double-two-representations", np().Add(P, P2), np().Mul(g.Scalar().SetInt64(2), P), ops())
					check("sub-two-representations", np().Sub(P, P2), O, ops())
				}
			}
			// receiver is also an operand
			check("mul-in-place", func() kyber.Point { c := P.Clone(); avt(in, c); return c.Mul(sa, c) }(), np().Mul(sa, P), ops())
			check("add-in-place-first", func() kyber.Point { c := P.Clone(); avt(in, c); return c.Add(c, Q) }(), np().Add(P, Q), ops())
			check("add-in-place-second", func() kyber.Point { c := Q.Clone(); avt(in, c); return c.Add(P, c) }(), np().Add(P, Q), ops())
			check("sub-in-place-second", func() kyber.Point { c := Q.Clone(); avt(in, c); return c.Sub(P, c) }(), np().Sub(P, Q), ops())
			check("sub-self", np().Sub(P, P), O, ops())
			check("commutativity", np().Add(P, Q), np().Add(Q, P), ops())
			check("associativity", np().Add(np().Add(P, Q), R), np().Add(P, np().Add(Q, R)), ops())
			check("sub-is-add-neg", np().Sub(P, Q), np().Add(P, np().Neg(Q)), ops())
			check("distrib-scalars", np().Mul(g.Scalar().Add(sa, sb), P), np().Add(np().Mul(sa, P), np().Mul(sb, P)), ops())
			check("distrib-points", np().Mul(sa, np().Add(P, Q)), np().Add(np().Mul(sa, P), np().Mul(sa, Q)), ops())
			check("mul-assoc", np().Mul(sa, np().Mul(sb, P)), np().Mul(g.Scalar().Mul(sa, sb), P), ops())
			check("zero-scalar", np().Mul(g.Scalar().Zero(), P), O, ops())
			check("one-scalar", np().Mul(g.Scalar().One(), P), P, ops())
			check("minus-one", np().Mul(MkScalar(g, new(big.Int).Sub(q, big.NewInt(1))), P), np().Neg(P), ops())
			check("scalar-times-identity", np().Mul(sa, O), O, ops())
			check("double", np().Add(P, P), np().Mul(g.Scalar().SetInt64(2), P), ops())
			var base kyber.Point
			if bp, _ := vh.Try(func() { base = np().Base() }); !bp {
				check("implicit-base", np().Mul(sa, nil), np().Mul(sa, base), ops())
			}
		})
		if pn && !unsupported(msg) {
			rep.Fail("C01/"+in.Name+"/panic", "group operation panicked: "+msg, map[string]string{"group": in.Name})
		}
	}
}

// PairingLaws evaluates the identities of property C06 on the implementation.
func PairingLaws(r *vh.Rng, ps PSuite, rep *vh.Report, n int) {
	s := ps.S
	in1, in2 := Inst{Name: ps.Name + ".G1", G: s.G1()}, Inst{Name: ps.Name + ".G2", G: s.G2()}
	q := Order(s.G1())
	gt := s.GT()
	check := func(name string, lhs, rhs kyber.Point, operands map[string]string) {
		rep.Dist("plaw:" + name)
		if !lhs.Equal(rhs) || enc(lhs) != enc(rhs) {
			operands["lhs"], operands["rhs"], operands["suite"], operands["identity"] = enc(lhs), enc(rhs), ps.Name, name
			rep.Fail("C06/"+ps.Name+"/"+name, "pairing law violated: "+name, operands)
		}
	}
	for i := 0; i < n; i++ {
		pn, msg := vh.Try(func() {
			kp, kp2, kq, kq2 := -1, -1, -1, -1
			if i < 6 { // identity at every position, alone and in pairs
				kp, kp2, kq, kq2 = []int{0, -1, -1, -1, 0, -1}[i], []int{-1, 0, -1, -1, -1, 0}[i], []int{-1, -1, 0, -1, -1, 0}[i], []int{-1, -1, -1, 0, 0, -1}[i]
			}
			P, dp := pointOfKind(r, in1, q, kp)
			P2, dp2 := pointOfKind(r, in1, q, kp2)
			Q, dq := pointOfKind(r, in2, q, kq)
			Q2, dq2 := pointOfKind(r, in2, q, kq2)
			a, b := edge(r, q), edge(r, q)
			if i%5 == 1 {
				a = big.NewInt(0)
			}
			if i%5 == 3 {
				b = big.NewInt(0)
			}
			sa, sb := MkScalar(s.G1(), a), MkScalar(s.G1(), b)
			ops := func() map[string]string {
				return map[string]string{"P": dp, "P'": dp2, "Q": dq, "Q'": dq2, "a": a.String(), "b": b.String()}
			}
			e := s.Pair(P, Q)
			aP, bQ := s.G1().Point().Mul(sa, P), s.G2().Point().Mul(sb, Q)
			check("bilinear", s.Pair(aP, bQ), gt.Point().Mul(s.G1().Scalar().Mul(sa, sb), e), ops())
			check("additive-left", s.Pair(s.G1().Point().Add(P, P2), Q), gt.Point().Add(s.Pair(P, Q), s.Pair(P2, Q)), ops())
			check("additive-right", s.Pair(P, s.G2().Point().Add(Q, Q2)), gt.Point().Add(s.Pair(P, Q), s.Pair(P, Q2)), ops())
			check("identity-left", s.Pair(s.G1().Point().Null(), Q), gt.Point().Null(), ops())
			check("identity-right", s.Pair(P, s.G2().Point().Null()), gt.Point().Null(), ops())
			// ValidatePairing(p1,p2,i1,i2) <=> Pair(p1,p2) == Pair(i1,i2)
			O1, O2 := s.G1().Point().Null(), s.G2().Point().Null()
			for _, quad := range [][4]kyber.Point{{aP, bQ, s.G1().Point().Mul(s.G1().Scalar().Mul(sa, sb), P), Q}, {P, Q, P2, Q2}, {aP, Q, P, s.G2().Point().Mul(sa, Q)}, {P, Q, P, Q2},
				{O1, Q, P, O2}, {P, O2, O1, Q2}, {P, O2, P2, O2}, {O1, Q, O1, Q2}, {P, s.G2().Point().Sub(Q, Q), P2, O2}, {s.G1().Point().Sub(P, P), Q, P2, s.G2().Point().Mul(s.G2().Scalar().Zero(), Q2)}} {
				want := s.Pair(quad[0], quad[1]).Equal(s.Pair(quad[2], quad[3]))
				got := s.ValidatePairing(quad[0], quad[1], quad[2], quad[3])
				rep.Dist(fmt.Sprintf("plaw:validate=%v", want))
				if got != want {
					o := ops()
					o["want"], o["got"], o["suite"] = fmt.Sprint(want), fmt.Sprint(got), ps.Name
					rep.Fail("C06/"+ps.Name+"/ValidatePairing", "ValidatePairing disagrees with equality of the two pairings", o)
				}
			}
		})
		if pn && !unsupported(msg) {
			rep.Fail("C06/"+ps.Name+"/panic", "pairing operation panicked: "+msg, map[string]string{"suite": ps.Name})
		}
	}
	// non-degeneracy
	e := s.Pair(s.G1().Point().Base(), s.G2().Point().Base())
	rep.Dist("plaw:nondegenerate")
	if e.Equal(gt.Point().Null()) {
		rep.Fail("C06/"+ps.Name+"/degenerate", "e(B1,B2) is the identity", nil)
	}
}
