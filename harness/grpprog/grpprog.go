// Package grpprog generates and runs straight-line programs over kyber groups and
// pairing suites (properties C01 and C06) and prints them as Group.GrpProg cases.
package grpprog

import (
	"bytes"
	"fmt"
	"math/big"
	"strings"

	"go.dedis.ch/kyber/v4"
	"go.dedis.ch/kyber/v4/group/edwards25519"
	"go.dedis.ch/kyber/v4/group/edwards25519vartime"
	"go.dedis.ch/kyber/v4/group/p256"
	"go.dedis.ch/kyber/v4/pairing"
	"go.dedis.ch/kyber/v4/pairing/bls12381/circl"
	"go.dedis.ch/kyber/v4/pairing/bls12381/gnark"
	"go.dedis.ch/kyber/v4/pairing/bls12381/kilic"
	"go.dedis.ch/kyber/v4/pairing/bn254"
	"go.dedis.ch/kyber/v4/pairing/bn256"

	"kyverif/vh"
)

// Inst is one exposed group instance.
type Inst struct {
	Name    string
	G       kyber.Group
	VarTime bool // call AllowVarTime(true) on every point
	// HashOnly: points of unknown logarithm come from Hash only (Pick and Embed
	// are implementation-specific across independent back-ends)
	HashOnly bool
}

// PSuite is one pairing suite.
type PSuite struct {
	Name     string
	S        pairing.Suite
	HashOnly bool
}

func PairingSuites() []PSuite {
	return []PSuite{
		{Name: "bn256", S: bn256.NewSuite()},
		{Name: "bn254", S: bn254.NewSuite()},
		{Name: "kilic", S: kilic.NewBLS12381Suite()},
		{Name: "circl", S: circl.NewSuiteBLS12381()},
		{Name: "gnark", S: gnark.NewSuiteBLS12381()},
	}
}

// Groups returns the 20 exposed group instances.
func Groups() []Inst {
	gs := []Inst{
		{Name: "ed25519", G: edwards25519.NewBlakeSHA256Ed25519()},
		{Name: "ed25519+vartime", G: edwards25519.NewBlakeSHA256Ed25519(), VarTime: true},
		{Name: "ed25519vartime-pkg", G: edwards25519vartime.NewBlakeSHA256Ed25519(false)},
		{Name: "p256", G: p256.NewBlakeSHA256P256()},
		{Name: "qr512", G: p256.NewBlakeSHA256QR512()},
	}
	for _, ps := range PairingSuites() {
		gs = append(gs, Inst{Name: ps.Name + ".G1", G: ps.S.G1()}, Inst{Name: ps.Name + ".G2", G: ps.S.G2()}, Inst{Name: ps.Name + ".GT", G: ps.S.GT()})
	}
	return gs
}

// Order returns the group order as seen through the scalar API: (-1) + 1.
func Order(g kyber.Group) *big.Int {
	m1 := g.Scalar().Neg(g.Scalar().One())
	return new(big.Int).Add(vh.ScalarVal(m1), big.NewInt(1))
}

// MkScalar builds the scalar with value v (0 <= v < q) through SetBytes in the implementation's byte order.
func MkScalar(g kyber.Group, v *big.Int) kyber.Scalar {
	s := g.Scalar()
	b := v.Bytes()
	if s.ByteOrder() == kyber.LittleEndian {
		for i, j := 0, len(b)-1; i < j; i, j = i+1, j-1 {
			b[i], b[j] = b[j], b[i]
		}
	}
	if len(b) == 0 {
		return s.Zero()
	}
	return s.SetBytes(b)
}

func newPoint(in Inst, g kyber.Group) kyber.Point {
	p := g.Point()
	if in.VarTime {
		if a, ok := p.(kyber.AllowsVarTime); ok {
			a.AllowVarTime(true)
		}
	}
	return p
}

// Prog is a generated program together with what the implementation produced.
type Prog struct {
	Q        *big.Int
	Ops      []string   // Coq op terms
	Text     []string   // readable form
	Scalars  []*big.Int // observed scalar values
	Part     [3][]int   // observed partitions
	Verdicts []bool
	Panic    string
	NPick    int
	NInPlace int
	Enc      [3][]string // hex encodings of all points at the end
	ScEnc    []string    // hex encodings of all scalars at the end
}

type runner struct {
	r      *vh.Rng
	in     Inst
	groups [3]kyber.Group // pools 0,1,2 (only 0 used for a plain group)
	suite  pairing.Suite
	q      *big.Int
	sc     []kyber.Scalar
	scv    []*big.Int // values known to the harness (mirror, used to avoid Inv(0))
	pts    [3][]kyber.Point
	unsup  map[string]bool
	okops  map[string]bool // operations that have succeeded once on a fresh receiver
	prog   *Prog
	// InPlace is the percentage of operations whose receiver is an existing
	// pool object (its value is replaced, the object keeps its identity).
	inPlace int
}

// dest says where the result of an operation goes: appended as a new object,
// or written into the existing object of slot d.
type dest struct {
	gi, d int
	in    bool
}

func (x *runner) pickDest(gi int, name string) dest {
	n := len(x.pts[gi])
	if n > 0 && x.okops[name] && x.r.Chance(x.inPlace) {
		return dest{gi, x.r.Intn(n), true}
	}
	return dest{gi, n, false}
}

func (x *runner) recvPoint(ds dest) kyber.Point {
	if ds.in {
		return x.pts[ds.gi][ds.d]
	}
	return newPoint(x.in, x.groups[ds.gi])
}

// store records the result p of an operation with destination ds.
func (x *runner) store(ds dest, name string, p kyber.Point, coq, rhs string) {
	x.okops[name] = true
	if ds.in {
		x.pts[ds.gi][ds.d] = p
		x.prog.NInPlace++
		x.emit(fmt.Sprintf("OPInto %d %d (%s)", ds.gi, ds.d, coq), fmt.Sprintf("P%d_%d <- %s  [existing object overwritten]", ds.gi, ds.d, rhs))
		return
	}
	x.pts[ds.gi] = append(x.pts[ds.gi], p)
	x.emit(coq, fmt.Sprintf("P%d_%d := %s", ds.gi, ds.d, rhs))
}

func (x *runner) pickDestS(name string) (int, bool) {
	n := len(x.sc)
	if n > 0 && x.okops["s"+name] && x.r.Chance(x.inPlace) {
		return x.r.Intn(n), true
	}
	return n, false
}

func (x *runner) storeS(d int, in bool, name string, s kyber.Scalar, coq, rhs string) {
	x.okops["s"+name] = true
	if in {
		x.sc[d] = s
		x.scv[d] = vh.ScalarVal(s)
		x.prog.NInPlace++
		x.emit(fmt.Sprintf("OSInto %d (%s)", d, coq), fmt.Sprintf("s%d <- %s  [existing object overwritten]", d, rhs))
		return
	}
	x.pushScalar(s)
	x.emit(coq, fmt.Sprintf("s%d := %s", d, rhs))
}

// touch exercises read-only methods on a random object (filling whatever the
// implementation caches); it must leave every value as it is.
func (x *runner) touch() {
	gi := x.r.Intn(3)
	if len(x.pts[gi]) == 0 {
		if len(x.sc) > 0 {
			s := x.sc[x.r.Intn(len(x.sc))]
			_, _ = s.MarshalBinary()
			_ = s.String()
			_ = s.Clone()
		}
		return
	}
	p := x.pts[gi][x.r.Intn(len(x.pts[gi]))]
	vh.Try(func() {
		_, _ = p.MarshalBinary()
		_ = p.String()
		_ = p.Equal(x.pts[gi][x.r.Intn(len(x.pts[gi]))])
		_ = p.Clone()
		if x.suite != nil && len(x.pts[0]) > 0 && len(x.pts[1]) > 0 {
			_ = x.suite.Pair(x.pts[0][x.r.Intn(len(x.pts[0]))], x.pts[1][x.r.Intn(len(x.pts[1]))])
		}
	})
}

// rerep returns a new object holding the same group element as p in another
// internal representation (freshly decoded, or the result of a computation).
func (x *runner) rerep(gi int, p kyber.Point) (kyber.Point, string) {
	g := x.groups[gi]
	if x.r.Bool() {
		if b, err := p.MarshalBinary(); err == nil {
			c := newPoint(x.in, g)
			if c.UnmarshalBinary(b) == nil {
				return c, "decoded copy"
			}
		}
	}
	var c kyber.Point
	pn, _ := vh.Try(func() {
		t := newPoint(x.in, g).Pick(vh.NewSeqStream(x.r.Bytes(16)))
		c = newPoint(x.in, g).Add(p, t)
		c = newPoint(x.in, g).Sub(c, t)
	})
	if pn || c == nil {
		return p.Clone(), "clone"
	}
	return c, "recomputed copy"
}

// edge draws an edge-biased scalar; unlike vh.EdgeScalar it also covers every
// small value 0..40 (window and digit boundaries of the multipliers).
// cubeRoot returns a primitive cube root of unity modulo the prime q (nil when
// q != 1 mod 3): the eigenvalue of the efficient endomorphism of j = 0 curves
// (BN, BLS12-381), around whose multiples split multipliers have their edges.
var cubeRoots = map[string]*big.Int{}

func cubeRoot(q *big.Int) *big.Int {
	if v, ok := cubeRoots[q.String()]; ok {
		return v
	}
	var lam *big.Int
	qm1 := new(big.Int).Sub(q, big.NewInt(1))
	if new(big.Int).Mod(qm1, big.NewInt(3)).Sign() == 0 {
		e := new(big.Int).Div(qm1, big.NewInt(3))
		for g := int64(2); g < 50 && lam == nil; g++ {
			c := new(big.Int).Exp(big.NewInt(g), e, q)
			if c.Cmp(big.NewInt(1)) != 0 {
				lam = c
			}
		}
	}
	cubeRoots[q.String()] = lam
	return lam
}

// special draws a scalar that is algebraically special for the group order:
// j*lambda + d and j*lambda^2 + d for the cube roots of unity lambda (small j, d),
// (q +- 1)/2, values around 2^127, 2^128, 2^129 (half-size split boundaries),
// and scalars whose 64-bit words are all-zero / all-one in one position.
func special(r *vh.Rng, q *big.Int) *big.Int {
	v := new(big.Int)
	switch r.Intn(5) {
	case 0, 1:
		if lam := cubeRoot(q); lam != nil {
			l := new(big.Int).Set(lam)
			if r.Bool() {
				l.Mul(l, l).Mod(l, q)
			}
			v.Mul(l, big.NewInt(int64(r.Intn(9))))
			v.Add(v, big.NewInt(int64(r.Intn(5)-2)))
			return v.Mod(v, q)
		}
		fallthrough
	case 2:
		v.Add(q, big.NewInt(int64(2*r.Intn(2)-1))).Rsh(v, 1)
		v.Add(v, big.NewInt(int64(r.Intn(3)-1)))
	case 3:
		v.Lsh(big.NewInt(1), uint(126+r.Intn(5)))
		v.Add(v, big.NewInt(int64(r.Intn(5)-2)))
	default:
		v = r.BigBelow(q)
		w := uint(64 * r.Intn(4))
		mask := new(big.Int).Lsh(new(big.Int).SetUint64(^uint64(0)), w)
		if r.Bool() {
			v.Or(v, mask)
		} else {
			v.AndNot(v, mask)
		}
	}
	return v.Mod(v, q)
}

func edge(r *vh.Rng, q *big.Int) *big.Int {
	if r.Chance(12) {
		return special(r, q)
	}
	if r.Chance(22) {
		v := big.NewInt(int64(r.Intn(41)))
		if r.Chance(25) {
			v.Sub(q, v)
		}
		return v.Mod(v, q)
	}
	return r.EdgeScalar(q)
}

func unsupported(msg string) bool {
	return strings.Contains(msg, "unsupported") || strings.Contains(msg, "not implemented")
}

// try runs an op; returns ok=false when the operation is unsupported by this group.
func (x *runner) try(name string, f func()) (ok bool) {
	if x.unsup[name] {
		return false
	}
	p, msg := vh.Try(f)
	if p {
		if unsupported(msg) {
			x.unsup[name] = true
			return false
		}
		x.prog.Panic = name + ": " + msg
		return false
	}
	return true
}

func (x *runner) emit(coq, text string) {
	x.prog.Ops = append(x.prog.Ops, coq)
	x.prog.Text = append(x.prog.Text, text)
}

func (x *runner) pushScalar(s kyber.Scalar) {
	x.sc = append(x.sc, s)
	x.scv = append(x.scv, vh.ScalarVal(s))
}

// scalarOperands chooses the receiver of a binary scalar operation: a fresh
// scalar, or (about a third of the time) a clone of one operand that is then
// passed as that operand too, so that receiver == first / second / both operands.
func (x *runner) scalarOperands(name string, a, b int) (d int, in bool, recv, oa, ob kyber.Scalar, note string) {
	oa, ob = x.sc[a], x.sc[b]
	if d, in = x.pickDestS(name); in {
		// the receiver is the existing object d; it is an operand too whenever d is a or b
		return d, in, x.sc[d], oa, ob, ""
	}
	recv = x.groups[0].Scalar()
	switch x.r.Intn(9) {
	case 0:
		recv = oa.Clone()
		oa = recv
		if a == b {
			ob = recv
		}
		note = "  [receiver = first operand]"
	case 1:
		recv = ob.Clone()
		ob = recv
		if a == b {
			oa = recv
		}
		note = "  [receiver = second operand]"
	case 2:
		if a == b {
			recv = oa.Clone()
			oa, ob = recv, recv
			note = "  [receiver = both operands]"
		}
	}
	return
}

// pointOperands is the analogue for points of pool gi.
func (x *runner) pointOperands(name string, gi, a, b int) (ds dest, recv, oa, ob kyber.Point, note string) {
	oa, ob = x.pts[gi][a], x.pts[gi][b]
	if ds = x.pickDest(gi, name); ds.in {
		return ds, x.pts[gi][ds.d], oa, ob, ""
	}
	recv = newPoint(x.in, x.groups[gi])
	switch x.r.Intn(9) {
	case 0:
		recv = oa.Clone()
		oa = recv
		if a == b {
			ob = recv
		}
		note = "  [receiver = first operand]"
	case 1:
		recv = ob.Clone()
		ob = recv
		if a == b {
			oa = recv
		}
		note = "  [receiver = second operand]"
	case 2:
		if a == b {
			recv = oa.Clone()
			oa, ob = recv, recv
			note = "  [receiver = both operands]"
		}
	}
	if x.in.VarTime {
		if av, ok := recv.(kyber.AllowsVarTime); ok {
			av.AllowVarTime(true)
		}
	}
	return
}

// equalPartner returns, when there is one, another pool index holding a point
// Equal to pts[a] (typically in a different internal representation).
func (x *runner) equalPartner(gi, a int) (int, bool) {
	n := len(x.pts[gi])
	start := x.r.Intn(n)
	for k := 0; k < n; k++ {
		j := (start + k) % n
		if j != a && x.pts[gi][j].Equal(x.pts[gi][a]) {
			return j, true
		}
	}
	return 0, false
}

func (x *runner) stepScalar() {
	r, g := x.r, x.groups[0]
	n := len(x.sc)
	c := r.Intn(100)
	if n < 2 {
		c = 0
	}
	switch {
	case c < 30:
		v := edge(r, x.q)
		d, in := x.pickDestS("Const")
		s := g.Scalar()
		if in {
			s = x.sc[d] // a used receiver: whatever it held must be gone afterwards
		}
		how := "SetBytes"
		switch {
		case v.IsInt64() && r.Bool():
			how = "SetInt64"
			s = s.SetInt64(v.Int64())
		case v.Sign() == 0 && r.Bool():
			how = "Zero"
			s = s.Zero()
		case v.Cmp(big.NewInt(1)) == 0 && r.Bool():
			how = "One"
			s = s.One()
		case in:
			b := v.Bytes()
			if s.ByteOrder() == kyber.LittleEndian {
				for i, j := 0, len(b)-1; i < j; i, j = i+1, j-1 {
					b[i], b[j] = b[j], b[i]
				}
			}
			s = s.SetBytes(b)
		default:
			s = MkScalar(g, v)
		}
		x.storeS(d, in, "Const", s, fmt.Sprintf("OSConst %s", vh.CoqZ(v)), fmt.Sprintf("%s(%s)", how, v))
	case c < 36:
		a := r.Intn(n)
		d, in := x.pickDestS("Copy")
		s := g.Scalar()
		if in {
			s = x.sc[d]
		}
		how := "Set"
		if r.Bool() {
			s = s.Set(x.sc[a])
		} else {
			how = "Unmarshal(Marshal)"
			b, err := x.sc[a].MarshalBinary()
			if err != nil || s.UnmarshalBinary(b) != nil {
				x.prog.Panic = fmt.Sprintf("re-decoding of an own scalar encoding failed (%x)", b)
				return
			}
		}
		x.storeS(d, in, "Copy", s, fmt.Sprintf("OSCopy %d", a), fmt.Sprintf("%s(s%d)", how, a))
	case c < 50:
		a, b := r.Intn(n), r.Intn(n)
		d, in, rc, oa, ob, al := x.scalarOperands("Add", a, b)
		x.storeS(d, in, "Add", rc.Add(oa, ob), fmt.Sprintf("OSAdd %d %d", a, b), fmt.Sprintf("s%d + s%d%s", a, b, al))
	case c < 60:
		a, b := r.Intn(n), r.Intn(n)
		d, in, rc, oa, ob, al := x.scalarOperands("Sub", a, b)
		x.storeS(d, in, "Sub", rc.Sub(oa, ob), fmt.Sprintf("OSSub %d %d", a, b), fmt.Sprintf("s%d - s%d%s", a, b, al))
	case c < 75:
		a, b := r.Intn(n), r.Intn(n)
		d, in, rc, oa, ob, al := x.scalarOperands("Mul", a, b)
		x.storeS(d, in, "Mul", rc.Mul(oa, ob), fmt.Sprintf("OSMul %d %d", a, b), fmt.Sprintf("s%d * s%d%s", a, b, al))
	case c < 83:
		a := r.Intn(n)
		d, in, rc, oa, _, al := x.scalarOperands("Neg", a, a)
		x.storeS(d, in, "Neg", rc.Neg(oa), fmt.Sprintf("OSNeg %d", a), fmt.Sprintf("-s%d%s", a, al))
	case c < 92:
		a := r.Intn(n)
		if x.scv[a].Sign() == 0 {
			return
		}
		d, in, rc, oa, _, al := x.scalarOperands("Inv", a, a)
		x.storeS(d, in, "Inv", rc.Inv(oa), fmt.Sprintf("OSInv %d", a), fmt.Sprintf("1/s%d%s", a, al))
	default:
		a, b := r.Intn(n), r.Intn(n)
		if x.scv[b].Sign() == 0 {
			return
		}
		d, in, rc, oa, ob, al := x.scalarOperands("Div", a, b)
		x.storeS(d, in, "Div", rc.Div(oa, ob), fmt.Sprintf("OSDiv %d %d", a, b), fmt.Sprintf("s%d / s%d%s", a, b, al))
	}
}

func (x *runner) stepPoint(gi int) {
	r, g := x.r, x.groups[gi]
	n := len(x.pts[gi])
	ns := len(x.sc)
	c := r.Intn(100)
	if n == 0 {
		c = r.Intn(12)
	}
	nm := func(op string) string { return fmt.Sprintf("%s/%d", op, gi) }
	var p kyber.Point
	switch {
	case c < 4:
		ds := x.pickDest(gi, nm("Null"))
		if x.try(nm("Null"), func() { p = x.recvPoint(ds).Null() }) {
			x.store(ds, nm("Null"), p, fmt.Sprintf("OPNull %d", gi), "O")
		}
	case c < 9:
		ds := x.pickDest(gi, nm("Base"))
		if x.try(nm("Base"), func() { p = x.recvPoint(ds).Base() }) {
			x.store(ds, nm("Base"), p, fmt.Sprintf("OPBase %d", gi), "B")
		}
	case c < 16: // Pick / Hash / Embed: unknown logarithm
		d := r.BigBelow(x.q)
		ok := false
		how := []string{"Pick", "Hash", "Embed"}[r.Intn(3)]
		if x.in.HashOnly {
			how = "Hash"
		}
		ds := x.pickDest(gi, nm(how))
		switch how {
		case "Pick":
			ok = x.try(nm(how), func() { p = x.recvPoint(ds).Pick(vh.NewSeqStream(r.Bytes(16))) })
		case "Hash":
			if h, is := x.recvPoint(ds).(interface{ Hash([]byte) kyber.Point }); is {
				ok = x.try(nm(how), func() { p = h.Hash(r.Bytes(1 + r.Intn(40))) })
			}
		default:
			ok = x.try(nm(how), func() {
				q := x.recvPoint(ds)
				l := q.EmbedLen()
				// payload lengths at the boundaries: empty but non-nil, full, over-long
				n := r.Intn(l + 1)
				switch r.Intn(8) {
				case 0, 1:
					n = 0
				case 2:
					n = l
				case 3:
					n = l + 1 + r.Intn(8)
				}
				data := make([]byte, 0, n)
				data = append(data, r.Bytes(n)...)
				p = q.Embed(data, vh.NewSeqStream(r.Bytes(16)))
			})
		}
		if ok {
			x.prog.NPick++
			x.store(ds, nm(how), p, fmt.Sprintf("OPFresh %d %s", gi, vh.CoqZ(d)), how+"()")
		}
	case c < 24:
		a := r.Intn(n)
		how := []string{"Clone", "Set", "Unmarshal(Marshal)", "Unmarshal(Marshal)"}[r.Intn(4)]
		ds := dest{gi, n, false}
		if how != "Clone" {
			ds = x.pickDest(gi, nm(how))
		}
		switch how {
		case "Clone":
			p = x.pts[gi][a].Clone()
		case "Set":
			p = x.recvPoint(ds).Set(x.pts[gi][a])
		default:
			// the same value in its freshly decoded internal representation
			b, err := x.pts[gi][a].MarshalBinary()
			p = x.recvPoint(ds)
			if err != nil || p.UnmarshalBinary(b) != nil {
				x.prog.Panic = fmt.Sprintf("re-decoding of an own encoding failed (%x)", b)
				return
			}
		}
		x.store(ds, nm(how), p, fmt.Sprintf("OPCopy %d %d", gi, a), fmt.Sprintf("%s(P%d_%d)", how, gi, a))
	case c < 56:
		op, coq, sym := "Add", "OPAdd", "+"
		if c >= 44 {
			op, coq, sym = "Sub", "OPSub", "-"
		}
		a, b := r.Intn(n), r.Intn(n)
		if j, ok := x.equalPartner(gi, a); ok && r.Chance(35) {
			b = j // the same group element held in two internal representations
		}
		ds, rc, oa, ob, al := x.pointOperands(nm(op), gi, a, b)
		if r.Chance(20) {
			// second operand: the first one again, as a different object in another representation
			b = a
			ob, al = x.rerep(gi, oa)
			al = "  [second operand: " + al + " of the first]"
		}
		if x.try(nm(op), func() {
			if op == "Add" {
				p = rc.Add(oa, ob)
			} else {
				p = rc.Sub(oa, ob)
			}
		}) {
			x.store(ds, nm(op), p, fmt.Sprintf("%s %d %d %d", coq, gi, a, b), fmt.Sprintf("P%d_%d %s P%d_%d%s", gi, a, sym, gi, b, al))
		}
	case c < 63:
		a := r.Intn(n)
		ds, rc, oa, _, al := x.pointOperands(nm("Neg"), gi, a, a)
		if x.try(nm("Neg"), func() { p = rc.Neg(oa) }) {
			x.store(ds, nm("Neg"), p, fmt.Sprintf("OPNeg %d %d", gi, a), fmt.Sprintf("-P%d_%d%s", gi, a, al))
		}
	case c < 88:
		if ns == 0 {
			return
		}
		a, s := r.Intn(n), r.Intn(ns)
		ds, rc, oa, _, al := x.pointOperands(nm("Mul"), gi, a, a)
		if x.try(nm("Mul"), func() { p = rc.Mul(x.sc[s], oa) }) {
			x.store(ds, nm("Mul"), p, fmt.Sprintf("OPMul %d %d %d", gi, s, a), fmt.Sprintf("s%d * P%d_%d%s", s, gi, a, al))
		}
	default:
		if ns == 0 {
			return
		}
		s := r.Intn(ns)
		// a group without a supported Base() (GT of the BLS12-381 back-ends) has no implicit generator either
		if !x.try(nm("Base"), func() { newPoint(x.in, g).Base() }) {
			return
		}
		ds := x.pickDest(gi, nm("MulBase"))
		if x.try(nm("MulBase"), func() { p = x.recvPoint(ds).Mul(x.sc[s], nil) }) {
			x.store(ds, nm("MulBase"), p, fmt.Sprintf("OPMulBase %d %d", gi, s), fmt.Sprintf("s%d * nil", s))
		}
	}
}

func (x *runner) stepPair() {
	r := x.r
	n1, n2 := len(x.pts[0]), len(x.pts[1])
	if n1 == 0 || n2 == 0 {
		return
	}
	if r.Chance(70) {
		a, b := r.Intn(n1), r.Intn(n2)
		var p kyber.Point
		if x.try("Pair", func() { p = x.suite.Pair(x.pts[0][a], x.pts[1][b]) }) {
			n := len(x.pts[2])
			x.pts[2] = append(x.pts[2], p)
			x.emit(fmt.Sprintf("OPair %d %d", a, b), fmt.Sprintf("P2_%d := e(P0_%d, P1_%d)", n, a, b))
		}
		return
	}
	p1, p2, i1, i2 := r.Intn(n1), r.Intn(n2), r.Intn(n1), r.Intn(n2)
	var v bool
	if x.try("ValidatePairing", func() { v = x.suite.ValidatePairing(x.pts[0][p1], x.pts[1][p2], x.pts[0][i1], x.pts[1][i2]) }) {
		x.prog.Verdicts = append(x.prog.Verdicts, v)
		x.emit(fmt.Sprintf("OValidate %d %d %d %d", p1, p2, i1, i2), fmt.Sprintf("ValidatePairing(P0_%d,P1_%d,P0_%d,P1_%d)=%v", p1, p2, i1, i2, v))
	}
}

// partition labels each point with the least index of an Equal point; it also
// cross-checks Equal against byte equality of the encodings.
func partition(pts []kyber.Point, rep *vh.Report, where string) []int {
	enc := make([][]byte, len(pts))
	for i, p := range pts {
		b, err := p.MarshalBinary()
		if err != nil {
			rep.Fail(where+"/MarshalBinary-error", err.Error(), nil)
		}
		enc[i] = b
	}
	out := make([]int, len(pts))
	for i := range pts {
		out[i] = i
		for j := 0; j < i; j++ {
			eq := pts[i].Equal(pts[j])
			if eq != bytes.Equal(enc[i], enc[j]) {
				rep.Fail(where+"/Equal-vs-bytes", "Equal and byte equality of encodings disagree",
					map[string]string{"a": vh.Hex(enc[i]), "b": vh.Hex(enc[j]), "equal": fmt.Sprint(eq)})
			}
			if eq {
				out[i] = out[j]
				break
			}
		}
	}
	return out
}

// RunGroup generates and runs one program on a single group instance.
func RunGroup(r *vh.Rng, in Inst, nops int, rep *vh.Report) *Prog {
	x := &runner{r: r, in: in, q: Order(in.G), unsup: map[string]bool{}, okops: map[string]bool{}, prog: &Prog{}, inPlace: 25}
	x.groups[0] = in.G
	x.prog.Q = x.q
	for len(x.prog.Ops) < nops && x.prog.Panic == "" {
		before := len(x.prog.Ops)
		if x.r.Chance(12) {
			x.touch()
		}
		if len(x.sc) < 2 || (len(x.sc) < 10 && x.r.Chance(30)) {
			x.stepScalar()
		} else if len(x.pts[0]) < 16 {
			x.stepPoint(0)
		} else {
			break
		}
		_ = before
	}
	x.finish(rep, in.Name)
	return x.prog
}

// RunPairing generates and runs one program on a pairing suite (three pools + Pair/ValidatePairing).
func RunPairing(r *vh.Rng, ps PSuite, nops int, rep *vh.Report) *Prog {
	in := Inst{Name: ps.Name, G: ps.S.G1(), HashOnly: ps.HashOnly}
	x := &runner{r: r, in: in, q: Order(ps.S.G1()), unsup: map[string]bool{}, okops: map[string]bool{}, prog: &Prog{}, suite: ps.S, inPlace: 25}
	x.groups = [3]kyber.Group{ps.S.G1(), ps.S.G2(), ps.S.GT()}
	x.prog.Q = x.q
	for tries := 0; len(x.prog.Ops) < nops && x.prog.Panic == "" && tries < 10*nops; tries++ {
		if x.r.Chance(12) {
			x.touch()
		}
		c := x.r.Intn(100)
		switch {
		case len(x.sc) < 2 || (len(x.sc) < 8 && c < 18):
			x.stepScalar()
		case c < 40 && len(x.pts[0]) < 10:
			x.stepPoint(0)
		case c < 62 && len(x.pts[1]) < 10:
			x.stepPoint(1)
		case c < 74 && len(x.pts[2]) > 0 && len(x.pts[2]) < 14:
			x.stepPoint(2)
		default:
			x.stepPair()
		}
	}
	x.finish(rep, ps.Name)
	return x.prog
}

func (x *runner) finish(rep *vh.Report, where string) {
	for _, s := range x.sc {
		x.prog.Scalars = append(x.prog.Scalars, vh.ScalarVal(s))
	}
	for gi := 0; gi < 3; gi++ {
		x.prog.Part[gi] = partition(x.pts[gi], rep, where)
		for _, p := range x.pts[gi] {
			b, _ := p.MarshalBinary()
			x.prog.Enc[gi] = append(x.prog.Enc[gi], vh.Hex(b))
		}
	}
	for _, s := range x.sc {
		b, _ := s.MarshalBinary()
		x.prog.ScEnc = append(x.prog.ScEnc, vh.Hex(b))
	}
}

func ints(xs []int) string {
	var s []string
	for _, v := range xs {
		s = append(s, fmt.Sprint(v))
	}
	return vh.CoqList(s)
}

// Coq renders the case term.
func (p *Prog) Coq(id int) string {
	var sc, vd []string
	for _, v := range p.Scalars {
		sc = append(sc, vh.CoqZ(v))
	}
	for _, v := range p.Verdicts {
		vd = append(vd, vh.CoqBool(v))
	}
	return fmt.Sprintf("CProg %d %s %s %s %s %s %s %s", id, vh.CoqZ(p.Q), vh.CoqList(p.Ops), vh.CoqList(sc),
		ints(p.Part[0]), ints(p.Part[1]), ints(p.Part[2]), vh.CoqList(vd))
}
