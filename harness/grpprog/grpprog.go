// Package grpprog generates and runs straight-line programs over kyber groups and
// pairing suites (properties C01 and C06) and prints them as Group.GrpProg cases.
package grpprog

import (
	"bytes"
	"fmt"
	"math/big"
	"strings"

	"go.dedis.ch/kyber/v4"
	"go.dedis.ch/kyber/v4/group/edwards25519"
	"go.dedis.ch/kyber/v4/group/edwards25519vartime"
	"go.dedis.ch/kyber/v4/group/p256"
	"go.dedis.ch/kyber/v4/pairing"
	"go.dedis.ch/kyber/v4/pairing/bls12381/circl"
	"go.dedis.ch/kyber/v4/pairing/bls12381/gnark"
	"go.dedis.ch/kyber/v4/pairing/bls12381/kilic"
	"go.dedis.ch/kyber/v4/pairing/bn254"
	"go.dedis.ch/kyber/v4/pairing/bn256"

	"kyverif/vh"
)

// Inst is one exposed group instance.
type Inst struct {
	Name    string
	G       kyber.Group
	VarTime bool // call AllowVarTime(true) on every point
}

// PSuite is one pairing suite.
type PSuite struct {
	Name string
	S    pairing.Suite
}

func PairingSuites() []PSuite {
	return []PSuite{
		{"bn256", bn256.NewSuite()},
		{"bn254", bn254.NewSuite()},
		{"kilic", kilic.NewBLS12381Suite()},
		{"circl", circl.NewSuiteBLS12381()},
		{"gnark", gnark.NewSuiteBLS12381()},
	}
}

// Groups returns the 20 exposed group instances.
func Groups() []Inst {
	gs := []Inst{
		{"ed25519", edwards25519.NewBlakeSHA256Ed25519(), false},
		{"ed25519+vartime", edwards25519.NewBlakeSHA256Ed25519(), true},
		{"ed25519vartime-pkg", edwards25519vartime.NewBlakeSHA256Ed25519(false), false},
		{"p256", p256.NewBlakeSHA256P256(), false},
		{"qr512", p256.NewBlakeSHA256QR512(), false},
	}
	for _, ps := range PairingSuites() {
		gs = append(gs, Inst{ps.Name + ".G1", ps.S.G1(), false}, Inst{ps.Name + ".G2", ps.S.G2(), false}, Inst{ps.Name + ".GT", ps.S.GT(), false})
	}
	return gs
}

// Order returns the group order as seen through the scalar API: (-1) + 1.
func Order(g kyber.Group) *big.Int {
	m1 := g.Scalar().Neg(g.Scalar().One())
	return new(big.Int).Add(vh.ScalarVal(m1), big.NewInt(1))
}

// MkScalar builds the scalar with value v (0 <= v < q) through SetBytes in the implementation's byte order.
func MkScalar(g kyber.Group, v *big.Int) kyber.Scalar {
	s := g.Scalar()
	b := v.Bytes()
	if s.ByteOrder() == kyber.LittleEndian {
		for i, j := 0, len(b)-1; i < j; i, j = i+1, j-1 {
			b[i], b[j] = b[j], b[i]
		}
	}
	if len(b) == 0 {
		return s.Zero()
	}
	return s.SetBytes(b)
}

func newPoint(in Inst, g kyber.Group) kyber.Point {
	p := g.Point()
	if in.VarTime {
		if a, ok := p.(kyber.AllowsVarTime); ok {
			a.AllowVarTime(true)
		}
	}
	return p
}

// Prog is a generated program together with what the implementation produced.
type Prog struct {
	Q        *big.Int
	Ops      []string   // Coq op terms
	Text     []string   // readable form
	Scalars  []*big.Int // observed scalar values
	Part     [3][]int   // observed partitions
	Verdicts []bool
	Panic    string
	NPick    int
}

type runner struct {
	r      *vh.Rng
	in     Inst
	groups [3]kyber.Group // pools 0,1,2 (only 0 used for a plain group)
	suite  pairing.Suite
	q      *big.Int
	sc     []kyber.Scalar
	scv    []*big.Int // values known to the harness (mirror, used to avoid Inv(0))
	pts    [3][]kyber.Point
	unsup  map[string]bool
	prog   *Prog
}

// edge draws an edge-biased scalar; unlike vh.EdgeScalar it also covers every
// small value 0..40 (window and digit boundaries of the multipliers).
func edge(r *vh.Rng, q *big.Int) *big.Int {
	if r.Chance(22) {
		v := big.NewInt(int64(r.Intn(41)))
		if r.Chance(25) {
			v.Sub(q, v)
		}
		return v.Mod(v, q)
	}
	return r.EdgeScalar(q)
}

func unsupported(msg string) bool {
	return strings.Contains(msg, "unsupported") || strings.Contains(msg, "not implemented")
}

// try runs an op; returns ok=false when the operation is unsupported by this group.
func (x *runner) try(name string, f func()) (ok bool) {
	if x.unsup[name] {
		return false
	}
	p, msg := vh.Try(f)
	if p {
		if unsupported(msg) {
			x.unsup[name] = true
			return false
		}
		x.prog.Panic = name + ": " + msg
		return false
	}
	return true
}

func (x *runner) emit(coq, text string) {
	x.prog.Ops = append(x.prog.Ops, coq)
	x.prog.Text = append(x.prog.Text, text)
}

func (x *runner) pushScalar(s kyber.Scalar) {
	x.sc = append(x.sc, s)
	x.scv = append(x.scv, vh.ScalarVal(s))
}

// scalarOperands chooses the receiver of a binary scalar operation: a fresh
// scalar, or (about a third of the time) a clone of one operand that is then
// passed as that operand too, so that receiver == first / second / both operands.
func (x *runner) scalarOperands(a, b int) (recv, oa, ob kyber.Scalar, note string) {
	oa, ob = x.sc[a], x.sc[b]
	recv = x.groups[0].Scalar()
	switch x.r.Intn(9) {
	case 0:
		recv = oa.Clone()
		oa = recv
		if a == b {
			ob = recv
		}
		note = "  [receiver = first operand]"
	case 1:
		recv = ob.Clone()
		ob = recv
		if a == b {
			oa = recv
		}
		note = "  [receiver = second operand]"
	case 2:
		if a == b {
			recv = oa.Clone()
			oa, ob = recv, recv
			note = "  [receiver = both operands]"
		}
	}
	return
}

// pointOperands is the analogue for points of pool gi.
func (x *runner) pointOperands(gi, a, b int) (recv, oa, ob kyber.Point, note string) {
	oa, ob = x.pts[gi][a], x.pts[gi][b]
	recv = newPoint(x.in, x.groups[gi])
	switch x.r.Intn(9) {
	case 0:
		recv = oa.Clone()
		oa = recv
		if a == b {
			ob = recv
		}
		note = "  [receiver = first operand]"
	case 1:
		recv = ob.Clone()
		ob = recv
		if a == b {
			oa = recv
		}
		note = "  [receiver = second operand]"
	case 2:
		if a == b {
			recv = oa.Clone()
			oa, ob = recv, recv
			note = "  [receiver = both operands]"
		}
	}
	if x.in.VarTime {
		if av, ok := recv.(kyber.AllowsVarTime); ok {
			av.AllowVarTime(true)
		}
	}
	return
}

// equalPartner returns, when there is one, another pool index holding a point
// Equal to pts[a] (typically in a different internal representation).
func (x *runner) equalPartner(gi, a int) (int, bool) {
	n := len(x.pts[gi])
	start := x.r.Intn(n)
	for k := 0; k < n; k++ {
		j := (start + k) % n
		if j != a && x.pts[gi][j].Equal(x.pts[gi][a]) {
			return j, true
		}
	}
	return 0, false
}

func (x *runner) stepScalar() {
	r, g := x.r, x.groups[0]
	n := len(x.sc)
	c := r.Intn(100)
	if n < 2 {
		c = 0
	}
	switch {
	case c < 35:
		v := edge(r, x.q)
		var s kyber.Scalar
		if v.IsInt64() && r.Bool() {
			s = g.Scalar().SetInt64(v.Int64())
		} else {
			s = MkScalar(g, v)
		}
		x.pushScalar(s)
		x.emit(fmt.Sprintf("OSConst %s", vh.CoqZ(v)), fmt.Sprintf("s%d := %s", n, v))
	case c < 50:
		a, b := r.Intn(n), r.Intn(n)
		rc, oa, ob, al := x.scalarOperands(a, b)
		x.pushScalar(rc.Add(oa, ob))
		x.emit(fmt.Sprintf("OSAdd %d %d", a, b), fmt.Sprintf("s%d := s%d + s%d%s", n, a, b, al))
	case c < 60:
		a, b := r.Intn(n), r.Intn(n)
		rc, oa, ob, al := x.scalarOperands(a, b)
		x.pushScalar(rc.Sub(oa, ob))
		x.emit(fmt.Sprintf("OSSub %d %d", a, b), fmt.Sprintf("s%d := s%d - s%d%s", n, a, b, al))
	case c < 75:
		a, b := r.Intn(n), r.Intn(n)
		rc, oa, ob, al := x.scalarOperands(a, b)
		x.pushScalar(rc.Mul(oa, ob))
		x.emit(fmt.Sprintf("OSMul %d %d", a, b), fmt.Sprintf("s%d := s%d * s%d%s", n, a, b, al))
	case c < 83:
		a := r.Intn(n)
		rc, oa, _, al := x.scalarOperands(a, a)
		x.pushScalar(rc.Neg(oa))
		x.emit(fmt.Sprintf("OSNeg %d", a), fmt.Sprintf("s%d := -s%d%s", n, a, al))
	case c < 92:
		a := r.Intn(n)
		if x.scv[a].Sign() == 0 {
			return
		}
		rc, oa, _, al := x.scalarOperands(a, a)
		x.pushScalar(rc.Inv(oa))
		x.emit(fmt.Sprintf("OSInv %d", a), fmt.Sprintf("s%d := 1/s%d%s", n, a, al))
	default:
		a, b := r.Intn(n), r.Intn(n)
		if x.scv[b].Sign() == 0 {
			return
		}
		rc, oa, ob, al := x.scalarOperands(a, b)
		x.pushScalar(rc.Div(oa, ob))
		x.emit(fmt.Sprintf("OSDiv %d %d", a, b), fmt.Sprintf("s%d := s%d / s%d%s", n, a, b, al))
	}
}

func (x *runner) stepPoint(gi int) {
	r, g := x.r, x.groups[gi]
	n := len(x.pts[gi])
	ns := len(x.sc)
	c := r.Intn(100)
	if n == 0 {
		c = r.Intn(12)
	}
	var p kyber.Point
	switch {
	case c < 4:
		if x.try(fmt.Sprintf("Null/%d", gi), func() { p = newPoint(x.in, g).Null() }) {
			x.pts[gi] = append(x.pts[gi], p)
			x.emit(fmt.Sprintf("OPNull %d", gi), fmt.Sprintf("P%d_%d := O", gi, n))
		}
	case c < 9:
		if x.try(fmt.Sprintf("Base/%d", gi), func() { p = newPoint(x.in, g).Base() }) {
			x.pts[gi] = append(x.pts[gi], p)
			x.emit(fmt.Sprintf("OPBase %d", gi), fmt.Sprintf("P%d_%d := B", gi, n))
		}
	case c < 16: // Pick / Hash / Embed: unknown logarithm
		d := r.BigBelow(x.q)
		ok := false
		how := ""
		switch r.Intn(3) {
		case 0:
			how = "Pick"
			ok = x.try(fmt.Sprintf("Pick/%d", gi), func() { p = newPoint(x.in, g).Pick(vh.NewSeqStream(r.Bytes(16))) })
		case 1:
			how = "Hash"
			if h, is := newPoint(x.in, g).(interface{ Hash([]byte) kyber.Point }); is {
				ok = x.try(fmt.Sprintf("Hash/%d", gi), func() { p = h.Hash(r.Bytes(1 + r.Intn(40))) })
			}
		default:
			how = "Embed"
			ok = x.try(fmt.Sprintf("Embed/%d", gi), func() {
				q := newPoint(x.in, g)
				l := q.EmbedLen()
				p = q.Embed(r.Bytes(r.Intn(l+1)), vh.NewSeqStream(r.Bytes(16)))
			})
		}
		if ok {
			x.pts[gi] = append(x.pts[gi], p)
			x.prog.NPick++
			x.emit(fmt.Sprintf("OPFresh %d %s", gi, vh.CoqZ(d)), fmt.Sprintf("P%d_%d := %s()", gi, n, how))
		}
	case c < 22:
		a := r.Intn(n)
		how := "Clone"
		switch r.Intn(3) {
		case 0:
			p = x.pts[gi][a].Clone()
		case 1:
			how = "Set"
			p = newPoint(x.in, g).Set(x.pts[gi][a])
		default:
			// the same value in its freshly decoded internal representation
			how = "Unmarshal(Marshal)"
			b, err := x.pts[gi][a].MarshalBinary()
			p = newPoint(x.in, g)
			if err != nil || p.UnmarshalBinary(b) != nil {
				x.prog.Panic = fmt.Sprintf("re-decoding of an own encoding failed (%x)", b)
				return
			}
		}
		x.pts[gi] = append(x.pts[gi], p)
		x.emit(fmt.Sprintf("OPCopy %d %d", gi, a), fmt.Sprintf("P%d_%d := %s(P%d_%d)", gi, n, how, gi, a))
	case c < 42:
		a, b := r.Intn(n), r.Intn(n)
		if j, ok := x.equalPartner(gi, a); ok && r.Chance(35) {
			b = j // the same group element held in two internal representations
		}
		rc, oa, ob, al := x.pointOperands(gi, a, b)
		if x.try(fmt.Sprintf("Add/%d", gi), func() { p = rc.Add(oa, ob) }) {
			x.pts[gi] = append(x.pts[gi], p)
			x.emit(fmt.Sprintf("OPAdd %d %d %d", gi, a, b), fmt.Sprintf("P%d_%d := P%d_%d + P%d_%d%s", gi, n, gi, a, gi, b, al))
		}
	case c < 54:
		a, b := r.Intn(n), r.Intn(n)
		if j, ok := x.equalPartner(gi, a); ok && r.Chance(35) {
			b = j
		}
		rc, oa, ob, al := x.pointOperands(gi, a, b)
		if x.try(fmt.Sprintf("Sub/%d", gi), func() { p = rc.Sub(oa, ob) }) {
			x.pts[gi] = append(x.pts[gi], p)
			x.emit(fmt.Sprintf("OPSub %d %d %d", gi, a, b), fmt.Sprintf("P%d_%d := P%d_%d - P%d_%d%s", gi, n, gi, a, gi, b, al))
		}
	case c < 62:
		a := r.Intn(n)
		rc, oa, _, al := x.pointOperands(gi, a, a)
		if x.try(fmt.Sprintf("Neg/%d", gi), func() { p = rc.Neg(oa) }) {
			x.pts[gi] = append(x.pts[gi], p)
			x.emit(fmt.Sprintf("OPNeg %d %d", gi, a), fmt.Sprintf("P%d_%d := -P%d_%d%s", gi, n, gi, a, al))
		}
	case c < 88:
		if ns == 0 {
			return
		}
		a, s := r.Intn(n), r.Intn(ns)
		rc, oa, _, al := x.pointOperands(gi, a, a)
		if x.try(fmt.Sprintf("Mul/%d", gi), func() { p = rc.Mul(x.sc[s], oa) }) {
			x.pts[gi] = append(x.pts[gi], p)
			x.emit(fmt.Sprintf("OPMul %d %d %d", gi, s, a), fmt.Sprintf("P%d_%d := s%d * P%d_%d%s", gi, n, s, gi, a, al))
		}
	default:
		if ns == 0 {
			return
		}
		s := r.Intn(ns)
		// a group without a supported Base() (GT of the BLS12-381 back-ends) has no implicit generator either
		if !x.try(fmt.Sprintf("Base/%d", gi), func() { newPoint(x.in, g).Base() }) {
			return
		}
		if x.try(fmt.Sprintf("MulBase/%d", gi), func() { p = newPoint(x.in, g).Mul(x.sc[s], nil) }) {
			x.pts[gi] = append(x.pts[gi], p)
			x.emit(fmt.Sprintf("OPMulBase %d %d", gi, s), fmt.Sprintf("P%d_%d := s%d * nil", gi, n, s))
		}
	}
}

func (x *runner) stepPair() {
	r := x.r
	n1, n2 := len(x.pts[0]), len(x.pts[1])
	if n1 == 0 || n2 == 0 {
		return
	}
	if r.Chance(70) {
		a, b := r.Intn(n1), r.Intn(n2)
		var p kyber.Point
		if x.try("Pair", func() { p = x.suite.Pair(x.pts[0][a], x.pts[1][b]) }) {
			n := len(x.pts[2])
			x.pts[2] = append(x.pts[2], p)
			x.emit(fmt.Sprintf("OPair %d %d", a, b), fmt.Sprintf("P2_%d := e(P0_%d, P1_%d)", n, a, b))
		}
		return
	}
	p1, p2, i1, i2 := r.Intn(n1), r.Intn(n2), r.Intn(n1), r.Intn(n2)
	var v bool
	if x.try("ValidatePairing", func() { v = x.suite.ValidatePairing(x.pts[0][p1], x.pts[1][p2], x.pts[0][i1], x.pts[1][i2]) }) {
		x.prog.Verdicts = append(x.prog.Verdicts, v)
		x.emit(fmt.Sprintf("OValidate %d %d %d %d", p1, p2, i1, i2), fmt.Sprintf("ValidatePairing(P0_%d,P1_%d,P0_%d,P1_%d)=%v", p1, p2, i1, i2, v))
	}
}

// partition labels each point with the least index of an Equal point; it also
// cross-checks Equal against byte equality of the encodings.
func partition(pts []kyber.Point, rep *vh.Report, where string) []int {
	enc := make([][]byte, len(pts))
	for i, p := range pts {
		b, err := p.MarshalBinary()
		if err != nil {
			rep.Fail(where+"/MarshalBinary-error", err.Error(), nil)
		}
		enc[i] = b
	}
	out := make([]int, len(pts))
	for i := range pts {
		out[i] = i
		for j := 0; j < i; j++ {
			eq := pts[i].Equal(pts[j])
			if eq != bytes.Equal(enc[i], enc[j]) {
				rep.Fail(where+"/Equal-vs-bytes", "Equal and byte equality of encodings disagree",
					map[string]string{"a": vh.Hex(enc[i]), "b": vh.Hex(enc[j]), "equal": fmt.Sprint(eq)})
			}
			if eq {
				out[i] = out[j]
				break
			}
		}
	}
	return out
}

// RunGroup generates and runs one program on a single group instance.
func RunGroup(r *vh.Rng, in Inst, nops int, rep *vh.Report) *Prog {
	x := &runner{r: r, in: in, q: Order(in.G), unsup: map[string]bool{}, prog: &Prog{}}
	x.groups[0] = in.G
	x.prog.Q = x.q
	for len(x.prog.Ops) < nops && x.prog.Panic == "" {
		before := len(x.prog.Ops)
		if len(x.sc) < 2 || (len(x.sc) < 10 && x.r.Chance(30)) {
			x.stepScalar()
		} else if len(x.pts[0]) < 16 {
			x.stepPoint(0)
		} else {
			break
		}
		_ = before
	}
	x.finish(rep, in.Name)
	return x.prog
}

// RunPairing generates and runs one program on a pairing suite (three pools + Pair/ValidatePairing).
func RunPairing(r *vh.Rng, ps PSuite, nops int, rep *vh.Report) *Prog {
	in := Inst{Name: ps.Name, G: ps.S.G1()}
	x := &runner{r: r, in: in, q: Order(ps.S.G1()), unsup: map[string]bool{}, prog: &Prog{}, suite: ps.S}
	x.groups = [3]kyber.Group{ps.S.G1(), ps.S.G2(), ps.S.GT()}
	x.prog.Q = x.q
	for tries := 0; len(x.prog.Ops) < nops && x.prog.Panic == "" && tries < 10*nops; tries++ {
		c := x.r.Intn(100)
		switch {
		case len(x.sc) < 2 || (len(x.sc) < 8 && c < 18):
			x.stepScalar()
		case c < 40 && len(x.pts[0]) < 10:
			x.stepPoint(0)
		case c < 62 && len(x.pts[1]) < 10:
			x.stepPoint(1)
		case c < 74 && len(x.pts[2]) > 0 && len(x.pts[2]) < 14:
			x.stepPoint(2)
		default:
			x.stepPair()
		}
	}
	x.finish(rep, ps.Name)
	return x.prog
}

func (x *runner) finish(rep *vh.Report, where string) {
	for _, s := range x.sc {
		x.prog.Scalars = append(x.prog.Scalars, vh.ScalarVal(s))
	}
	for gi := 0; gi < 3; gi++ {
		x.prog.Part[gi] = partition(x.pts[gi], rep, where)
	}
}

func ints(xs []int) string {
	var s []string
	for _, v := range xs {
		s = append(s, fmt.Sprint(v))
	}
	return vh.CoqList(s)
}

// Coq renders the case term.
func (p *Prog) Coq(id int) string {
	var sc, vd []string
	for _, v := range p.Scalars {
		sc = append(sc, vh.CoqZ(v))
	}
	for _, v := range p.Verdicts {
		vd = append(vd, vh.CoqBool(v))
	}
	return fmt.Sprintf("CProg %d %s %s %s %s %s %s %s", id, vh.CoqZ(p.Q), vh.CoqList(p.Ops), vh.CoqList(sc),
		ints(p.Part[0]), ints(p.Part[1]), ints(p.Part[2]), vh.CoqList(vd))
}
