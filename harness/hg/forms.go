// Deep byte-level snapshots and the catalogue of internal forms of points and scalars, shared by
// the C05 (operands intact) and C20 (read-only use writes nothing) harnesses.
package hg

import (
	"bytes"
	"fmt"
	"math/big"
	"reflect"
	"unsafe"

	"go.dedis.ch/kyber/v4"
	"kyverif/vh"
)

// ---------------------------------------------------------------- deep snapshot

type snapper struct {
	seen  map[uintptr]bool
	lines []string
}

func numeric(k reflect.Kind) bool {
	switch k {
	case reflect.Bool, reflect.Int, reflect.Int8, reflect.Int16, reflect.Int32, reflect.Int64,
		reflect.Uint, reflect.Uint8, reflect.Uint16, reflect.Uint32, reflect.Uint64, reflect.Uintptr,
		reflect.Float32, reflect.Float64, reflect.Complex64, reflect.Complex128:
		return true
	}
	return false
}

func flat(t reflect.Type) bool { // contains no pointers: raw bytes are the whole state
	switch t.Kind() {
	case reflect.Array:
		return flat(t.Elem())
	case reflect.Struct:
		for i := 0; i < t.NumField(); i++ {
			if !flat(t.Field(i).Type) {
				return false
			}
		}
		return true
	}
	return numeric(t.Kind())
}

func rawBytes(p unsafe.Pointer, n uintptr) []byte {
	if n == 0 {
		return nil
	}
	return append([]byte(nil), unsafe.Slice((*byte)(p), int(n))...)
}

func (s *snapper) walk(v reflect.Value, path string, depth int) {
	if depth > 14 || len(s.lines) > 400000 {
		return
	}
	t := v.Type()
	if v.CanAddr() && flat(t) {
		s.lines = append(s.lines, path+"="+vh.Hex(rawBytes(unsafe.Pointer(v.UnsafeAddr()), t.Size())))
		return
	}
	switch v.Kind() {
	case reflect.Ptr:
		if v.IsNil() {
			s.lines = append(s.lines, path+"=nil")
			return
		}
		a := v.Pointer()
		s.lines = append(s.lines, fmt.Sprintf("%s=ptr:%x", path, a))
		if s.seen[a] {
			return
		}
		s.seen[a] = true
		s.walk(v.Elem(), path+"*", depth+1)
	case reflect.Struct:
		for i := 0; i < v.NumField(); i++ {
			f := v.Field(i)
			if f.CanAddr() {
				f = reflect.NewAt(f.Type(), unsafe.Pointer(f.UnsafeAddr())).Elem()
			}
			s.walk(f, path+"."+t.Field(i).Name, depth+1)
		}
	case reflect.Slice:
		if v.IsNil() {
			s.lines = append(s.lines, path+"=nilslice")
			return
		}
		s.lines = append(s.lines, fmt.Sprintf("%s=slice:%x/%d/%d", path, v.Pointer(), v.Len(), v.Cap()))
		et := t.Elem()
		if flat(et) {
			// the whole backing array b[:cap(b)]: an append by a reader writes past len
			if v.Cap() > 0 {
				s.lines = append(s.lines, path+"[:cap]="+vh.Hex(rawBytes(unsafe.Pointer(v.Pointer()), et.Size()*uintptr(v.Cap()))))
			}
			return
		}
		if v.Len() == 0 {
			return
		}
		if s.seen[v.Pointer()] {
			return
		}
		s.seen[v.Pointer()] = true
		for i := 0; i < v.Len(); i++ {
			s.walk(v.Index(i), fmt.Sprintf("%s[%d]", path, i), depth+1)
		}
	case reflect.Array:
		for i := 0; i < v.Len(); i++ {
			s.walk(v.Index(i), fmt.Sprintf("%s[%d]", path, i), depth+1)
		}
	case reflect.Interface:
		if v.IsNil() {
			s.lines = append(s.lines, path+"=nilif")
			return
		}
		s.walk(v.Elem(), path+"!", depth+1)
	case reflect.String:
		s.lines = append(s.lines, path+"=str:"+v.String())
	case reflect.Map:
		s.lines = append(s.lines, fmt.Sprintf("%s=map:%d", path, v.Len()))
	default:
		if numeric(v.Kind()) {
			s.lines = append(s.lines, fmt.Sprintf("%s=%v", path, v))
		}
	}
}

// snapshot returns the deep state of the object behind pointer / interface x
func Snapshot(x interface{}) []string {
	s := &snapper{seen: map[uintptr]bool{}}
	s.walk(reflect.ValueOf(x), "", 0)
	return s.lines
}

func Diff(a, b []string) string {
	if len(a) != len(b) {
		return fmt.Sprintf("shape changed (%d -> %d entries)", len(a), len(b))
	}
	for i := range a {
		if a[i] != b[i] {
			x, y := a[i], b[i]
			if len(x) > 160 {
				x = x[:160] + "..."
			}
			if len(y) > 160 {
				y = y[:160] + "..."
			}
			return x + "  ->  " + y
		}
	}
	return ""
}

// nonNormal returns a point in a non-normalised internal representation (result of additions)
func NonNormal(im *Impl, rng *vh.Rng) kyber.Point {
	a := im.G.Point().Mul(im.NewScalar(rng.BigBelow(im.Q)), im.Gen())
	b := im.G.Point().Mul(im.NewScalar(rng.BigBelow(im.Q)), im.Gen())
	p := im.G.Point().Add(a, b)
	return im.G.Point().Add(p, a)
}

// ---------------------------------------------------------------- internal forms

type PForm struct {
	Name string
	Mk   func() kyber.Point
}
type SForm struct {
	Name string
	Mk   func() kyber.Scalar
}

func mustBig(s string) *big.Int { v, _ := new(big.Int).SetString(s, 10); return v }

// field primes of the supported curves (to build encodings with unreduced coordinates)
var fieldPrimes = []*big.Int{
	new(big.Int).Sub(new(big.Int).Lsh(big.NewInt(1), 255), big.NewInt(19)),
	mustBig("115792089210356248762697446949407573530086143415290314195533631308867097853951"),
	mustBig("65000549695646603732796438742359905742825358107623003571877145026864184071783"),
	mustBig("21888242871839275222246405745257275088696311157297823662689037894645226208583"),
	mustBig("4002409555221667393417789825735904156556882819939007885332058136124031650490837864442687629129015664037894272559787"),
}

func revb(b []byte) []byte {
	o := make([]byte, len(b))
	for i := range b {
		o[len(b)-1-i] = b[i]
	}
	return o
}

// altEncodings: encodings that differ from the canonical one but may be accepted by
// UnmarshalBinary (unreduced coordinates, stray flag bits)
func altEncodings(enc []byte) [][]byte {
	var out [][]byte
	n := len(enc)
	add := func(b []byte) {
		if !bytes.Equal(b, enc) {
			out = append(out, b)
		}
	}
	var chunks [][2]int
	for _, parts := range []int{1, 2, 4, 12} {
		if n%parts == 0 {
			for i := 0; i < parts; i++ {
				chunks = append(chunks, [2]int{i * n / parts, (i + 1) * n / parts})
			}
		}
		if (n-1)%parts == 0 && n > 1 { // one leading format byte
			for i := 0; i < parts; i++ {
				chunks = append(chunks, [2]int{1 + i*(n-1)/parts, 1 + (i+1)*(n-1)/parts})
			}
		}
	}
	for _, ch := range chunks {
		l := ch[1] - ch[0]
		for _, le := range []bool{false, true} {
			raw := append([]byte(nil), enc[ch[0]:ch[1]]...)
			mask := byte(0)
			if le { // compressed Edwards form: sign bit in the top bit of the last byte
				mask = raw[l-1] & 0x80
				raw[l-1] &^= 0x80
				raw = revb(raw)
			}
			x := new(big.Int).SetBytes(raw)
			for _, P := range fieldPrimes {
				y := new(big.Int).Add(x, P)
				if y.BitLen() > 8*l || (le && y.BitLen() > 8*l-1) {
					continue
				}
				yb := y.FillBytes(make([]byte, l))
				if le {
					yb = revb(yb)
					yb[l-1] |= mask
				}
				b := append([]byte(nil), enc...)
				copy(b[ch[0]:ch[1]], yb)
				add(b)
			}
		}
	}
	for _, bit := range []byte{0x80, 0x40, 0x20} {
		b := append([]byte(nil), enc...)
		b[0] ^= bit
		add(b)
		b = append([]byte(nil), enc...)
		b[n-1] ^= bit
		add(b)
	}
	return out
}

func PointForms(im *Impl, rng *vh.Rng) []PForm {
	G := im.G
	sum := func() kyber.Point { return NonNormal(im, rng) }
	fs := []PForm{
		{"sum", sum},
		{"decoded", func() kyber.Point { return im.FreshPoint(Enc(sum())) }},
		{"identity:Sub(P,P)", func() kyber.Point { p := sum(); return G.Point().Sub(p, p) }},
		{"identity:Mul(0,P)", func() kyber.Point { return G.Point().Mul(G.Scalar().Zero(), sum()) }},
		{"identity:Null()", func() kyber.Point { return G.Point().Null() }},
		{"identity:decoded", func() kyber.Point { return im.FreshPoint(Enc(G.Point().Null())) }},
		{"generator", func() kyber.Point { return im.Gen() }},
		{"Neg(sum)", func() kyber.Point { return G.Point().Neg(sum()) }},
		{"double", func() kyber.Point { p := sum(); return G.Point().Add(p, p) }},
		{"Clone(sum)", func() kyber.Point { return sum().Clone() }},
		{"Set(sum)", func() kyber.Point { return G.Point().Set(sum()) }},
		{"Mul(s,sum)", func() kyber.Point { return G.Point().Mul(im.NewScalar(rng.BigBelow(im.Q)), sum()) }},
	}
	if im.HasMulBase {
		fs = append(fs, PForm{"Mul(s,nil)", func() kyber.Point { return G.Point().Mul(im.NewScalar(rng.BigBelow(im.Q)), nil) }})
	}
	if im.HasPick {
		fs = append(fs, PForm{"Pick", func() kyber.Point { return G.Point().Pick(vh.NewSeqStream(rng.Bytes(8))) }})
	}
	if im.HasEmbed {
		fs = append(fs, PForm{"Embed", func() kyber.Point { return G.Point().Embed([]byte("abc"), vh.NewSeqStream(rng.Bytes(8))) }})
	}
	// encodings UnmarshalBinary accepts although they are not what MarshalBinary produces
	n := 0
	for _, base := range []kyber.Point{G.Point().Null(), im.Gen(), sum()} {
		enc := []byte(Enc(base))
		for _, alt := range altEncodings(enc) {
			alt := alt
			ok := false
			vh.Try(func() { ok = G.Point().UnmarshalBinary(alt) == nil })
			if !ok || n >= 8 {
				continue
			}
			n++
			fs = append(fs, PForm{"noncanonical-encoding", func() kyber.Point {
				p := G.Point()
				_ = p.UnmarshalBinary(alt)
				return p
			}})
		}
	}
	return fs
}

func ScalarForms(im *Impl, rng *vh.Rng) []SForm {
	G := im.G
	rnd := func() kyber.Scalar { return im.NewScalar(rng.BigBelow(im.Q)) }
	fs := []SForm{
		{"random", rnd},
		{"Zero()", func() kyber.Scalar { return G.Scalar().Zero() }},
		{"One()", func() kyber.Scalar { return G.Scalar().One() }},
		{"SetInt64(-1)", func() kyber.Scalar { return G.Scalar().SetInt64(-1) }},
		{"Neg(0)", func() kyber.Scalar { return G.Scalar().Neg(G.Scalar().Zero()) }},
		{"Sub(a,a)", func() kyber.Scalar { a := rnd(); return G.Scalar().Sub(a, a) }},
		{"Mul(a,b)", func() kyber.Scalar { return G.Scalar().Mul(rnd(), rnd()) }},
		{"Pick", func() kyber.Scalar { return G.Scalar().Pick(vh.NewSeqStream(rng.Bytes(8))) }},
		{"SetBytes(long)", func() kyber.Scalar { return G.Scalar().SetBytes(rng.Bytes(70)) }},
		{"decoded", func() kyber.Scalar {
			b, _ := rnd().MarshalBinary()
			x := G.Scalar()
			_ = x.UnmarshalBinary(b)
			return x
		}},
	}
	// unreduced encodings accepted by UnmarshalBinary
	l := G.Scalar().MarshalSize()
	le := G.Scalar().ByteOrder() == kyber.LittleEndian
	var cands []*big.Int
	for _, k := range []int64{0, 7} {
		v := new(big.Int).Add(im.Q, big.NewInt(k))
		cands = append(cands, v, new(big.Int).Add(v, im.Q))
	}
	cands = append(cands, new(big.Int).Sub(new(big.Int).Lsh(big.NewInt(1), uint(8*l)), big.NewInt(1)),
		new(big.Int).Sub(new(big.Int).Lsh(big.NewInt(1), uint(8*l-1)), big.NewInt(1)))
	for _, v := range cands {
		if v.BitLen() > 8*l {
			continue
		}
		b := v.FillBytes(make([]byte, l))
		if le {
			b = revb(b)
		}
		ok := false
		vh.Try(func() { ok = G.Scalar().UnmarshalBinary(b) == nil })
		if ok {
			fs = append(fs, SForm{"noncanonical-encoding", func() kyber.Scalar {
				x := G.Scalar()
				_ = x.UnmarshalBinary(b)
				return x
			}})
		}
	}
	return fs
}
