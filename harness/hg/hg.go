// Package hg lists the point / scalar implementations of kyber covered by the
// memory-level checks (C05 value semantics, C20 read-only sharing) together
// with the ids of their transcriptions in coq/theories/Heap/Transcr.v.
package hg

import (
	"math/big"

	"go.dedis.ch/kyber/v4"
	"go.dedis.ch/kyber/v4/group/edwards25519"
	"go.dedis.ch/kyber/v4/group/edwards25519vartime"
	"go.dedis.ch/kyber/v4/group/p256"
	"go.dedis.ch/kyber/v4/pairing"
	"go.dedis.ch/kyber/v4/pairing/bls12381/circl"
	"go.dedis.ch/kyber/v4/pairing/bls12381/gnark"
	"go.dedis.ch/kyber/v4/pairing/bls12381/kilic"
	"go.dedis.ch/kyber/v4/pairing/bn254"
	"go.dedis.ch/kyber/v4/pairing/bn256"
)

// model implementation ids (Heap.AliasRun.impl_of)
const (
	Ed25519Point = iota
	Ed25519Scalar
	VtProj
	VtExt
	ModInt
	P256Point
	Residue
	BnCurve
	BnGT
	KilicG
	KilicGT
	CirclG
	CirclGT
	CirclScalar
	GnarkG
	GnarkGT
	GnarkScalar
)

// Impl is one kyber.Group under test.
type Impl struct {
	Name         string
	G            kyber.Group
	PImpl, SImpl int
	Q            *big.Int
	// capabilities: methods that are implemented (others panic "unsupported")
	HasBase, HasMulBase, HasPick, HasEmbed bool
	// Gen returns a fresh generator (Base() where supported, e(g1,g2) for kilic GT)
	Gen  func() kyber.Point
	Slow bool // pairing target groups etc.: fewer cases
	// Prep switches an object to the implementation's opt-in code path (AllowVarTime(true));
	// it is applied to every object the harness creates and re-applied to pool variables.
	Prep func(kyber.Point)
	// OracleOnly: no exact correspondence (non prime-order group / no transcription): oracles only
	OracleOnly bool
	// Alt marks alternative code paths of an implementation already listed (fewer random programs)
	Alt   bool
	Suite pairing.Suite // for pairing groups
	Which int           // 1 G1, 2 G2, 3 GT for pairing groups
}

func order(g kyber.Group) *big.Int {
	m := g.Scalar().GroupOrder()
	return new(big.Int).Set(&m.Int)
}

func mk(name string, g kyber.Group, pi, si int) *Impl {
	im := &Impl{Name: name, G: g, PImpl: pi, SImpl: si, Q: order(g),
		HasBase: true, HasMulBase: true, HasPick: true}
	im.Gen = func() kyber.Point { return im.NewPoint().Base() }
	return im
}

// All returns every implementation.
func All() []*Impl {
	var out []*Impl
	ed := mk("edwards25519", edwards25519.NewBlakeSHA256Ed25519(), Ed25519Point, Ed25519Scalar)
	ed.HasEmbed = true
	out = append(out, ed)
	// opt-in variable-time path of the same point type (geScalarMultVartime)
	edv := mk("edwards25519.allowvartime", edwards25519.NewBlakeSHA256Ed25519(), Ed25519Point, Ed25519Scalar)
	edv.HasEmbed, edv.Alt = true, true
	edv.Prep = func(p kyber.Point) {
		if v, ok := p.(kyber.AllowsVarTime); ok {
			v.AllowVarTime(true)
		}
	}
	out = append(out, edv)
	pc := new(edwards25519vartime.ProjectiveCurve).Init(edwards25519vartime.ParamEd25519(), false)
	vp := mk("edwards25519vartime.proj", pc, VtProj, ModInt)
	vp.HasEmbed = true
	out = append(out, vp)
	ec := new(edwards25519vartime.ExtendedCurve).InitCurve(edwards25519vartime.ParamEd25519(), false)
	ve := mk("edwards25519vartime.ext", ec, VtExt, ModInt)
	ve.HasEmbed = true
	out = append(out, ve)
	// full-group curves (order 8l, not prime): oracles only (basic.go needs the `experimental` build tag)
	for _, full := range []bool{true} {
		fp := mk("edwards25519vartime.proj.full", new(edwards25519vartime.ProjectiveCurve).Init(edwards25519vartime.ParamEd25519(), full), VtProj, ModInt)
		fp.HasEmbed, fp.OracleOnly, fp.Alt = true, true, true
		fe := mk("edwards25519vartime.ext.full", new(edwards25519vartime.ExtendedCurve).InitCurve(edwards25519vartime.ParamEd25519(), full), VtExt, ModInt)
		fe.HasEmbed, fe.OracleOnly, fe.Alt = true, true, true
		out = append(out, fp, fe)
	}
	pp := mk("p256", p256.NewBlakeSHA256P256(), P256Point, ModInt)
	pp.HasEmbed = true
	out = append(out, pp)
	rs := mk("p256.residue", p256.NewBlakeSHA256QR512(), Residue, ModInt)
	rs.HasEmbed = true
	out = append(out, rs)

	// a residue group configured by the caller through SetParams, with parameter big.Ints that have
	// spare limb capacity (as results of arithmetic have) and another generator
	{
		qr := p256.NewBlakeSHA256QR512()
		grow := func(x *big.Int) *big.Int { z := new(big.Int).Lsh(x, 640); return z.Rsh(z, 640) }
		g := new(p256.ResidueGroup)
		g.SetParams(grow(qr.P), grow(qr.Q), grow(qr.R), grow(big.NewInt(9)))
		sp := mk("p256.residue.setparams", g, Residue, ModInt)
		sp.HasEmbed, sp.Alt = true, true
		out = append(out, sp)
	}

	addPairing := func(name string, s pairing.Suite, g12, gt, sc int, gtBase, gtPick, gtMulBase bool, g1Embed bool) {
		g1 := mk(name+".G1", s.G1(), g12, sc)
		g1.HasEmbed = g1Embed
		g1.Suite, g1.Which = s, 1
		g2 := mk(name+".G2", s.G2(), g12, sc)
		g2.Suite, g2.Which, g2.Slow = s, 2, true
		t := mk(name+".GT", s.GT(), gt, sc)
		t.Suite, t.Which, t.Slow = s, 3, true
		t.HasBase, t.HasPick, t.HasMulBase = gtBase, gtPick, gtMulBase
		if !gtBase {
			t.Gen = func() kyber.Point { return s.Pair(s.G1().Point().Base(), s.G2().Point().Base()) }
		}
		out = append(out, g1, g2, t)
	}
	addPairing("bn256", bn256.NewSuite(), BnCurve, BnGT, ModInt, true, true, true, true)
	addPairing("bn254", bn254.NewSuite(), BnCurve, BnGT, ModInt, true, true, true, false)
	addPairing("bls12381.kilic", kilic.NewBLS12381Suite(), KilicG, KilicGT, ModInt, false, false, false, false)
	// kilic groups with caller-supplied domain separation tags (dst is part of the point)
	kd := kilic.NewBLS12381SuiteWithDST([]byte("VERIF-DST-G1"), []byte("VERIF-DST-G2"))
	kd1 := mk("bls12381.kilic.dst.G1", kd.G1(), KilicG, ModInt)
	kd1.Alt = true
	kd2 := mk("bls12381.kilic.dst.G2", kd.G2(), KilicG, ModInt)
	kd2.Alt, kd2.Slow = true, true
	out = append(out, kd1, kd2)
	addPairing("bls12381.circl", circl.NewSuite(), CirclG, CirclGT, CirclScalar, true, false, false, false)
	addPairing("bls12381.gnark", gnark.NewSuite(), GnarkG, GnarkGT, GnarkScalar, true, false, false, false)
	return out
}

// NewPoint is G.Point() on the implementation's code path under test.
func (im *Impl) NewPoint() kyber.Point {
	p := im.G.Point()
	if im.Prep != nil {
		im.Prep(p)
	}
	return p
}

// ScalarVal is the integer value of a scalar (through its encoding).
func ScalarVal(s kyber.Scalar) *big.Int {
	b, err := s.MarshalBinary()
	if err != nil {
		panic(err)
	}
	if s.ByteOrder() == kyber.LittleEndian {
		b = rev(b)
	}
	return new(big.Int).SetBytes(b)
}

func rev(b []byte) []byte {
	o := make([]byte, len(b))
	for i := range b {
		o[len(b)-1-i] = b[i]
	}
	return o
}

// NewScalar builds a fresh scalar with value v mod q (through SetBytes).
func (im *Impl) NewScalar(v *big.Int) kyber.Scalar {
	v = new(big.Int).Mod(v, im.Q)
	s := im.G.Scalar()
	b := v.Bytes()
	if s.ByteOrder() == kyber.LittleEndian {
		b = rev(b)
	}
	return s.SetBytes(b)
}

// Enc is the canonical encoding of a point (hex of MarshalBinary).
func Enc(p kyber.Point) string {
	b, err := p.MarshalBinary()
	if err != nil {
		panic(err)
	}
	return string(b)
}

// FreshPoint decodes an encoding into a new object (independent of Clone/Set).
func (im *Impl) FreshPoint(enc string) kyber.Point {
	p := im.NewPoint()
	if err := p.UnmarshalBinary([]byte(enc)); err != nil {
		panic("hg: cannot decode own encoding in " + im.Name + ": " + err.Error())
	}
	return p
}

// FreshScalar copies a scalar through its value.
func (im *Impl) FreshScalar(s kyber.Scalar) kyber.Scalar { return im.NewScalar(ScalarVal(s)) }
