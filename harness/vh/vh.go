// Package vh holds what every correspondence harness shares: the PRNG all random
// choices derive from, the printer of Coq literals, panic capture, and the
// report (distribution, samples, oracle failures) handed to bin/check.
package vh

import (
	"crypto/sha256"
	"encoding/hex"
	"encoding/json"
	"flag"
	"fmt"
	"math/big"
	"os"
	"path/filepath"
	"sort"
	"strings"
)

// ---------------------------------------------------------------- PRNG

// Rng is splitmix64; every random choice of a harness derives from one state.
type Rng struct{ s uint64 }

func NewRng(seed uint64) *Rng { return &Rng{s: seed*0x9E3779B97F4A7C15 + 0x1234567} }

func (r *Rng) U64() uint64 {
	r.s += 0x9E3779B97F4A7C15
	z := r.s
	z = (z ^ (z >> 30)) * 0xBF58476D1CE4E5B9
	z = (z ^ (z >> 27)) * 0x94D049BB133111EB
	return z ^ (z >> 31)
}
func (r *Rng) Intn(n int) int {
	if n <= 0 {
		return 0
	}
	return int(r.U64() % uint64(n))
}
func (r *Rng) Bool() bool        { return r.U64()&1 == 1 }
func (r *Rng) Chance(p int) bool { return r.Intn(100) < p } // p percent
func (r *Rng) Bytes(n int) []byte {
	b := make([]byte, n)
	for i := range b {
		b[i] = byte(r.U64())
	}
	return b
}
func (r *Rng) Pick(xs []int) int { return xs[r.Intn(len(xs))] }

// Fork derives an independent generator (so that adding draws in one place
// does not shift every later case).
func (r *Rng) Fork() *Rng { return NewRng(r.U64()) }

// BigBelow returns a uniform value in [0,m).
func (r *Rng) BigBelow(m *big.Int) *big.Int {
	if m.Sign() <= 0 {
		return new(big.Int)
	}
	b := r.Bytes((m.BitLen()+7)/8 + 8)
	v := new(big.Int).SetBytes(b)
	return v.Mod(v, m)
}

// EdgeScalar draws an edge-biased value in [0,q): 0,1,2,q-1,q-2,2^k,2^k±1, random.
func (r *Rng) EdgeScalar(q *big.Int) *big.Int {
	one := big.NewInt(1)
	var v *big.Int
	switch r.Intn(10) {
	case 0:
		v = big.NewInt(int64(r.Intn(3)))
	case 1:
		v = new(big.Int).Sub(q, big.NewInt(int64(1+r.Intn(2))))
	case 2, 3:
		k := r.Intn(q.BitLen() + 1)
		v = new(big.Int).Lsh(one, uint(k))
		switch r.Intn(3) {
		case 0:
			v.Sub(v, one)
		case 1:
			v.Add(v, one)
		}
	default:
		v = r.BigBelow(q)
	}
	return v.Mod(v, q)
}

// ---------------------------------------------------------------- Coq literals

// Words packs bytes 7 per 63-bit literal (big-endian), last word right-padded.
func words(b []byte) string {
	var sb strings.Builder
	sb.WriteString("[")
	for i := 0; i < len(b); i += 7 {
		if i > 0 {
			sb.WriteString(";")
		}
		var w [7]byte
		copy(w[:], b[i:])
		sb.WriteString("0x" + hex.EncodeToString(w[:]))
	}
	sb.WriteString("]%uint63")
	return sb.String()
}

// CoqBytes is a `list Z` of bytes: (bs len [words]).
func CoqBytes(b []byte) string {
	if len(b) == 0 {
		return "(@nil Z)"
	}
	return fmt.Sprintf("(bs %d %s)", len(b), words(b))
}

// CoqZ is an integer literal: small ones directly, big ones via 56-bit words.
func CoqZ(v *big.Int) string {
	if v.IsInt64() && v.Int64() > -1000000 && v.Int64() < 1000000 {
		if v.Sign() < 0 {
			return fmt.Sprintf("(%d)", v.Int64())
		}
		return fmt.Sprintf("%d", v.Int64())
	}
	mag := new(big.Int).Abs(v).Bytes()
	// left-pad to a multiple of 7
	pad := (7 - len(mag)%7) % 7
	mag = append(make([]byte, pad), mag...)
	neg := "false"
	if v.Sign() < 0 {
		neg = "true"
	}
	return fmt.Sprintf("(zws %s %s)", neg, words(mag))
}
func CoqInt(v int) string { return CoqZ(big.NewInt(int64(v))) }
func CoqBool(b bool) string {
	if b {
		return "true"
	}
	return "false"
}
func CoqList(items []string) string {
	if len(items) == 0 {
		return "[]"
	}
	return "[" + strings.Join(items, "; ") + "]"
}
func CoqOption(s string, ok bool) string {
	if ok {
		return "(Some " + s + ")"
	}
	return "None"
}

// ---------------------------------------------------------------- panics

// Try runs f and reports whether it panicked (with the panic text).
func Try(f func()) (panicked bool, msg string) {
	defer func() {
		if e := recover(); e != nil {
			panicked = true
			msg = fmt.Sprint(e)
		}
	}()
	f()
	return false, ""
}

// ---------------------------------------------------------------- report

// Failure is a violation of the property observed on the implementation alone.
type Failure struct {
	Key    string      `json:"key"`    // stable identifier of the failing call site / input class
	Desc   string      `json:"desc"`   // what failed
	Replay interface{} `json:"replay"` // concrete input / history
}

// Report is what a harness hands to bin/check.
type Report struct {
	Property     string                 `json:"property"`
	Seed         uint64                 `json:"seed"`
	Tier         string                 `json:"tier"`
	Evaluations  int                    `json:"evaluations"`
	Distinct     int                    `json:"distinct_nontrivial"`
	Rule         string                 `json:"rule"`
	Samples      []interface{}          `json:"samples"`
	Distribution map[string]int         `json:"distribution"`
	Failures     []Failure              `json:"failures"`
	CaseFiles    []string               `json:"case_files"`
	CaseIndex    map[string]interface{} `json:"case_index"` // case id -> description (for replays)
	Notes        []string               `json:"notes"`
	seen         map[[32]byte]bool
}

func NewReport(prop string, seed uint64, tier string) *Report {
	return &Report{Property: prop, Seed: seed, Tier: tier,
		Distribution: map[string]int{}, CaseIndex: map[string]interface{}{},
		Failures: []Failure{}, Notes: []string{}, Samples: []interface{}{}, CaseFiles: []string{},
		seen: map[[32]byte]bool{}}
}

// Count records one evaluated case; canon is its canonical text (used to count
// distinct cases), nontrivial says whether it counts as non-trivial.
func (r *Report) Count(canon string, nontrivial bool) {
	r.Evaluations++
	h := sha256.Sum256([]byte(canon))
	if nontrivial && !r.seen[h] {
		r.seen[h] = true
		r.Distinct++
	}
}
func (r *Report) Dist(key string)         { r.Distribution[key]++ }
func (r *Report) DistN(key string, n int) { r.Distribution[key] += n }
func (r *Report) Sample(s interface{}) {
	if len(r.Samples) < 6 {
		r.Samples = append(r.Samples, s)
	}
}
func (r *Report) Fail(key, desc string, replay interface{}) {
	// keep at most 5 replays per key
	n := 0
	for _, f := range r.Failures {
		if f.Key == key {
			n++
		}
	}
	if n < 5 {
		r.Failures = append(r.Failures, Failure{key, desc, replay})
	}
	r.Distribution["oracle_failure:"+key]++
}
func (r *Report) Index(id int, desc interface{}) { r.CaseIndex[fmt.Sprint(id)] = desc }
func (r *Report) Note(s string)                  { r.Notes = append(r.Notes, s) }

func (r *Report) Write(dir string) {
	b, err := json.MarshalIndent(r, "", " ")
	if err != nil {
		panic(err)
	}
	if err := os.WriteFile(filepath.Join(dir, "report.json"), b, 0o644); err != nil {
		panic(err)
	}
}

// ---------------------------------------------------------------- case files

// CaseFile accumulates the Gallina terms of one shard of cases.
type CaseFile struct {
	Header string   // Require lines
	Type   string   // Coq type of a case
	Runner string   // function : list <Type> -> list <mismatch>
	Items  []string // case terms
}

// WriteShards writes cases into files of at most per cases each and returns the names.
func WriteShards(dir, prefix string, cf *CaseFile, per int, rep *Report) {
	n := 0
	for i := 0; i < len(cf.Items) || (i == 0 && len(cf.Items) == 0); i += per {
		j := i + per
		if j > len(cf.Items) {
			j = len(cf.Items)
		}
		name := fmt.Sprintf("cases_%s_%d.v", prefix, n)
		var sb strings.Builder
		sb.WriteString("From Coq Require Import ZArith List Uint63.\nImport ListNotations.\n")
		sb.WriteString("From Kyber Require Import Base.Wire.\n")
		sb.WriteString(cf.Header + "\n")
		sb.WriteString("Local Open Scope Z_scope.\n")
		// one definition per case keeps each term small
		var names []string
		for k := i; k < j; k++ {
			fmt.Fprintf(&sb, "Definition c%d : %s := %s.\n", k, cf.Type, cf.Items[k])
			names = append(names, fmt.Sprintf("c%d", k))
		}
		fmt.Fprintf(&sb, "Definition M := Eval vm_compute in (%s %s).\nPrint M.\n", cf.Runner, CoqList(names))
		if err := os.WriteFile(filepath.Join(dir, name), []byte(sb.String()), 0o644); err != nil {
			panic(err)
		}
		rep.CaseFiles = append(rep.CaseFiles, name)
		n++
		if len(cf.Items) == 0 {
			break
		}
	}
}

// ---------------------------------------------------------------- flags

type Opts struct {
	Seed     uint64
	Tier     string
	Out      string
	Thorough bool
	Search   bool // oracle-only run looking for a concrete failing input
}

func ParseFlags() Opts {
	var o Opts
	flag.Uint64Var(&o.Seed, "seed", 1, "seed")
	flag.StringVar(&o.Tier, "tier", "quick", "quick|thorough")
	flag.StringVar(&o.Out, "out", ".", "output directory")
	flag.BoolVar(&o.Search, "search", false, "oracle-only search for a failing input")
	flag.Parse()
	o.Thorough = o.Tier == "thorough"
	if err := os.MkdirAll(o.Out, 0o755); err != nil {
		panic(err)
	}
	return o
}

func Hex(b []byte) string { return hex.EncodeToString(b) }

func SortedKeys(m map[string]int) []string {
	var ks []string
	for k := range m {
		ks = append(ks, k)
	}
	sort.Strings(ks)
	return ks
}
