package vh

// DlogGroup is a transparent prime-order group for driving kyber's *generic*
// protocol code (share, vss, dkg, proof, shuffle, pvss, dss, ...): a point is
// represented by its discrete logarithm w.r.t. the base point, so that the
// harness can hand exact values to the Coq model (Algebra/Grp.v models every
// prime-order group in exactly this way). Scalars are kyber's own mod.Int.
// The group is of course not hard; it is only used to observe the protocol
// logic, which is generic over kyber.Group.

import (
	"crypto/cipher"
	"crypto/sha256"
	"errors"
	"fmt"
	"hash"
	"io"
	"math/big"
	"reflect"

	"go.dedis.ch/fixbuf"
	"go.dedis.ch/kyber/v4"
	"go.dedis.ch/kyber/v4/compatible"
	"go.dedis.ch/kyber/v4/compatible/compatiblemod"
	"go.dedis.ch/kyber/v4/group/mod"
	"go.dedis.ch/kyber/v4/util/random"
	"go.dedis.ch/kyber/v4/xof/blake2xb"
)

// Q61 = 2^61-1 (prime): arithmetic mod Q61 is ~16x cheaper in vm_compute than mod a 252-bit order.
var Q61 = new(big.Int).Sub(new(big.Int).Lsh(big.NewInt(1), 61), big.NewInt(1))

type DlogGroup struct {
	Q   *big.Int
	M   *compatiblemod.Mod
	Rnd cipher.Stream // deterministic stream handed out by RandomStream (may be nil)
}

func NewDlogGroup(q *big.Int, rnd cipher.Stream) *DlogGroup {
	return &DlogGroup{Q: q, M: compatiblemod.FromBigInt(q), Rnd: rnd}
}

func (g *DlogGroup) String() string       { return fmt.Sprintf("Dlog(%s)", g.Q.String()) }
func (g *DlogGroup) ScalarLen() int       { return (g.Q.BitLen() + 7) / 8 }
func (g *DlogGroup) Scalar() kyber.Scalar { return mod.NewInt64(0, g.M) }
func (g *DlogGroup) PointLen() int        { return (g.Q.BitLen()+7)/8 + 1 }
func (g *DlogGroup) Point() kyber.Point   { return &DlogPoint{v: mod.NewInt64(0, g.M), g: g} }

// suite part
func (g *DlogGroup) Hash() hash.Hash                      { return sha256.New() }
func (g *DlogGroup) XOF(key []byte) kyber.XOF             { return blake2xb.New(key) }
func (g *DlogGroup) Read(r io.Reader, objs ...any) error  { return fixbuf.Read(r, g, objs...) }
func (g *DlogGroup) Write(w io.Writer, objs ...any) error { return fixbuf.Write(w, objs...) }

var tScalar = reflect.TypeFor[kyber.Scalar]()
var tPoint = reflect.TypeFor[kyber.Point]()

func (g *DlogGroup) New(t reflect.Type) any {
	switch t {
	case tScalar:
		return g.Scalar()
	case tPoint:
		return g.Point()
	}
	return nil
}
func (g *DlogGroup) RandomStream() cipher.Stream {
	if g.Rnd != nil {
		return g.Rnd
	}
	return random.New()
}

// ScalarOf builds the scalar with the given integer value.
func (g *DlogGroup) ScalarOf(v *big.Int) kyber.Scalar {
	return mod.NewInt(compatible.FromBigInt(new(big.Int).Mod(v, g.Q), g.M), g.M)
}

// PointOf builds the point with the given discrete logarithm.
func (g *DlogGroup) PointOf(v *big.Int) kyber.Point {
	return &DlogPoint{v: mod.NewInt(compatible.FromBigInt(new(big.Int).Mod(v, g.Q), g.M), g.M), g: g}
}

// ScalarVal returns the integer value of a kyber scalar (any implementation, big- or little-endian).
func ScalarVal(s kyber.Scalar) *big.Int {
	b, err := s.MarshalBinary()
	if err != nil {
		panic(err)
	}
	if s.ByteOrder() == kyber.LittleEndian {
		for i, j := 0, len(b)-1; i < j; i, j = i+1, j-1 {
			b[i], b[j] = b[j], b[i]
		}
	}
	return new(big.Int).SetBytes(b)
}

// Dlog returns the discrete logarithm of a DlogGroup point.
func Dlog(p kyber.Point) *big.Int { return ScalarVal(p.(*DlogPoint).v) }

type DlogPoint struct {
	v *mod.Int
	g *DlogGroup
}

func (p *DlogPoint) String() string { return "dlog:" + p.v.String() }
func (p *DlogPoint) Equal(q kyber.Point) bool {
	return p.v.Equal(q.(*DlogPoint).v)
}
func (p *DlogPoint) Null() kyber.Point { p.v.Zero(); return p }
func (p *DlogPoint) Base() kyber.Point { p.v.One(); return p }
func (p *DlogPoint) Pick(rand cipher.Stream) kyber.Point {
	p.v.Pick(rand)
	return p
}
func (p *DlogPoint) Set(q kyber.Point) kyber.Point {
	p.v.Set(q.(*DlogPoint).v)
	return p
}
func (p *DlogPoint) Clone() kyber.Point {
	return &DlogPoint{v: p.v.Clone().(*mod.Int), g: p.g}
}

// Embed: dlog = [len][data...][random padding] read as a big-endian integer below q.
func (p *DlogPoint) EmbedLen() int {
	n := (p.g.Q.BitLen()-1)/8 - 2
	if n < 0 {
		return 0
	}
	return n
}
func (p *DlogPoint) Embed(data []byte, r cipher.Stream) kyber.Point {
	l := p.EmbedLen()
	if len(data) > l {
		data = data[:l]
	}
	total := (p.g.Q.BitLen() - 1) / 8 // bytes that surely fit below q
	buf := make([]byte, total)
	if r != nil {
		r.XORKeyStream(buf, buf)
	}
	if data != nil || true {
		buf[0] = byte(len(data))
		copy(buf[1:], data)
	}
	p.v = mod.NewInt(compatible.FromBigInt(new(big.Int).SetBytes(buf), p.g.M), p.g.M)
	return p
}
func (p *DlogPoint) Data() ([]byte, error) {
	total := (p.g.Q.BitLen() - 1) / 8
	b := ScalarVal(p.v).Bytes()
	if len(b) > total {
		return nil, errors.New("dlog point: no embedded data")
	}
	buf := make([]byte, total)
	copy(buf[total-len(b):], b)
	l := int(buf[0])
	if l > p.EmbedLen() {
		return nil, errors.New("dlog point: invalid embedded data length")
	}
	return buf[1 : 1+l], nil
}
func (p *DlogPoint) Add(a, b kyber.Point) kyber.Point {
	p.v.Add(a.(*DlogPoint).v, b.(*DlogPoint).v)
	return p
}
func (p *DlogPoint) Sub(a, b kyber.Point) kyber.Point {
	p.v.Sub(a.(*DlogPoint).v, b.(*DlogPoint).v)
	return p
}
func (p *DlogPoint) Neg(a kyber.Point) kyber.Point {
	p.v.Neg(a.(*DlogPoint).v)
	return p
}
func (p *DlogPoint) Mul(s kyber.Scalar, a kyber.Point) kyber.Point {
	sv := p.g.ScalarOf(ScalarVal(s))
	if a == nil {
		p.v.Set(sv)
		return p
	}
	p.v.Mul(sv, a.(*DlogPoint).v)
	return p
}

// encoding: one tag byte 0x04 followed by the fixed-length big-endian logarithm
func (p *DlogPoint) MarshalSize() int { return p.g.PointLen() }
func (p *DlogPoint) MarshalBinary() ([]byte, error) {
	b, err := p.v.MarshalBinary()
	if err != nil {
		return nil, err
	}
	return append([]byte{4}, b...), nil
}
func (p *DlogPoint) UnmarshalBinary(b []byte) error {
	if len(b) != p.MarshalSize() || b[0] != 4 {
		return errors.New("dlog point: invalid encoding")
	}
	return p.v.UnmarshalBinary(b[1:])
}
func (p *DlogPoint) MarshalTo(w io.Writer) (int, error) {
	b, _ := p.MarshalBinary()
	return w.Write(b)
}
func (p *DlogPoint) UnmarshalFrom(r io.Reader) (int, error) {
	if strm, ok := r.(cipher.Stream); ok {
		p.Pick(strm)
		return -1, nil
	}
	buf := make([]byte, p.MarshalSize())
	n, err := io.ReadFull(r, buf)
	if err != nil {
		return n, err
	}
	return n, p.UnmarshalBinary(buf)
}
func (p *DlogPoint) MarshalID() [8]byte { return [8]byte{'d', 'l', 'o', 'g', '.', 'p', 't', 0} }

// SeqStream is a deterministic cipher.Stream derived from a seed (a BLAKE2Xb
// XOF); the bytes it hands out are also recorded, so that a model can be given
// exactly the randomness the implementation consumed.
type SeqStream struct {
	x   kyber.XOF
	Log []byte
}

func NewSeqStream(seed []byte) *SeqStream { return &SeqStream{x: blake2xb.New(seed)} }
func (s *SeqStream) XORKeyStream(dst, src []byte) {
	ks := make([]byte, len(src))
	s.x.Read(ks)
	s.Log = append(s.Log, ks...)
	for i := range src {
		dst[i] = src[i] ^ ks[i]
	}
}
